// C07 — FlexPath outlines are the region swept by width and offset along the spine.
//   (a) book.*   : E1 (vf::bfs) over histories of construction calls; after every call one
//                  (half width, offset) entry per spine point for every element, last entry = requested
//                  (or unchanged for NULL), new entries linear in the point index from the previous last.
//   (b) outline  : E2 (vf::parallel_for) over lattice spines x width x offset x join x end x bend; the
//                  polygons of FlexPath::to_polygons are judged at grid samples by the independent
//                  centre-line oracle of c07_oracle.hpp (must-cover / must-not-cover / don't care).
//   (c) path.gds / path.oas : the same members flagged simple_path are written into a one-cell library,
//                  re-read, the PATH record is outlined by the format's definition (centre line, one
//                  width, end code/extensions, mitred corners) and compared with the source polygons.
// DESIGN.md section 2/C07.
#include <gdstk/gdstk.hpp>

#include "c07_oracle.hpp"
#include "vf.hpp"

using namespace gdstk;
using namespace vf;
using c07::V;

static Run* R;
static const double TOL = 1e-2;        // path tolerance
static const double G = 3 * TOL;       // guard band of the outline check
static const double GRID = 1e-3;       // database grid in user units (unit 1e-6, precision 1e-9)
static const double G_REC = 3 * TOL + 2 * GRID;  // guard band of the PATH-record comparison

// ======================================================================= (a) bookkeeping BFS
enum Kind {
    K_HSCALAR, K_HARRAY, K_VSCALAR, K_VARRAY, K_SEGPT, K_SEGARR, K_CUBIC, K_CUBICS, K_QUAD, K_QUADS_PT, K_QUADS_ARR, K_BEZIER,
    K_INTERP, K_INTERP_CYCLE, K_PARAM, K_ARC, K_TURN, K_COMMANDS, K_TOPOLY, K_COPY,
    K_CMD2, K_CMDP_0U, K_CMDP_0M, K_CMDP_1U, K_CMDP_1M, K_CMDP_2U, K_CMDP_2M, NKINDS
};
static const char* const KIND_NAME[NKINDS] = {"horizontal(x)", "horizontal([x,x])", "vertical(y)", "vertical([y,y])", "segment(p)", "segment([p,p])",
                                              "cubic(3)", "cubic_smooth(2)", "quadratic(2)", "quadratic_smooth(p)", "quadratic_smooth([p,p])", "bezier(3)",
                                              "interpolation(2)", "interpolation(2,cycle)", "parametric(quarter circle)", "arc(1,0,pi/2)", "turn(1,pi/2)",
                                              "commands(l 1 0 a 1 1.57)", "to_polygons", "copy_from",
                                              "commands(H 3 v 1 q 1 1 2 0 t 1 1)", "commands(X) [stops at item 0: unknown letter]", "commands(l 1) [stops at item 0: argument missing]",
                                              "commands(l 1 0 X) [stops after 1 instruction: unknown letter]", "commands(l 1 0 a 1) [stops after 1 instruction: argument missing]",
                                              "commands(l 1 0 a 1 1.57 X 5) [stops after 2 instructions: unknown letter]", "commands(l 1 0 a 1 1.57 q 1 1 2) [stops after 2 instructions: argument missing]"};
// command lists as text: letters are instructions, numbers are arguments
static const char* cmd_text(int kind) {
    switch (kind) {
        case K_COMMANDS: return "l 1 0 a 1 1.57";
        case K_CMD2: return "H 3 v 1 q 1 1 2 0 t 1 1";
        case K_CMDP_0U: return "X";
        case K_CMDP_0M: return "l 1";
        case K_CMDP_1U: return "l 1 0 X";
        case K_CMDP_1M: return "l 1 0 a 1";
        case K_CMDP_2U: return "l 1 0 a 1 1.57 X 5";
        case K_CMDP_2M: return "l 1 0 a 1 1.57 q 1 1 2";
    }
    return NULL;
}
struct CmdList {
    std::vector<CurveInstruction> items;
    uint64_t expect_return = 0;   // by the documented grammar (curve.hpp): index of the first item that cannot be parsed, or count
    int valid_instructions = 0;
};
// the harness's own reading of the documented instruction table
static int cmd_nargs(char c) {
    switch (c) {
        case 'h': case 'H': case 'v': case 'V': return 1;
        case 'l': case 'L': case 't': case 'T': case 'a': return 2;
        case 'A': return 3;
        case 's': case 'S': case 'q': case 'Q': return 4;
        case 'E': return 5;
        case 'c': case 'C': return 6;
    }
    return -1;
}
static CmdList parse_cmd_text(const char* txt) {
    CmdList cl;
    std::vector<bool> is_cmd;
    std::vector<char> letters;
    const char* p = txt;
    while (*p) {
        while (*p == ' ') p++;
        if (!*p) break;
        CurveInstruction ci;
        memset(&ci, 0, sizeof ci);
        if ((*p >= 'a' && *p <= 'z') || (*p >= 'A' && *p <= 'Z')) { ci.command = *p; is_cmd.push_back(true); letters.push_back(*p); p++; }
        else { char* e; ci.number = strtod(p, &e); is_cmd.push_back(false); letters.push_back(0); p = e; }
        cl.items.push_back(ci);
    }
    size_t i = 0, n = cl.items.size();
    while (i < n) {
        int na = is_cmd[i] ? cmd_nargs(letters[i]) : -1;
        if (na < 0 || n - i - 1 < (size_t)na) break;
        i += 1 + na;
        cl.valid_instructions++;
    }
    cl.expect_return = i;
    return cl;
}
static bool kind_has_rel(int k) { return k <= K_PARAM; }
static bool kind_has_wo(int k) { return k <= K_TURN; }
static const char* const MODE_NAME[3] = {"NULL", "const", "taper"};

static Vec2 quarter_circle(double u, void*) { return Vec2{sin(0.5 * M_PI * u), 1 - cos(0.5 * M_PI * u)}; }

struct BookOp { int kind, rel, wm, om; };

struct BookSys {
    struct Obj {
        FlexPath fp;
        std::vector<Vec2> mspine;
        std::vector<std::vector<Vec2>> mwo;
        bool bad = false;
    };
    int nelem;
    std::vector<BookOp> ops;
    std::string sub;
    BookSys(int ne, int alphabet, const std::string& s) : nelem(ne), sub(s) {
        // alphabet 0: every kind x relative x 9 (width,offset) modes; 1: modes {(NULL,NULL),(taper,const),(const,taper)};
        // 2: modes {(NULL,NULL),(taper,NULL),(NULL,taper),(taper,taper)}; 3: small (depth 4)
        std::vector<std::pair<int, int>> modes;
        if (alphabet == 0) { for (int w = 0; w < 3; w++) for (int o = 0; o < 3; o++) modes.push_back({w, o}); }
        else if (alphabet == 1) modes = {{0, 0}, {2, 1}, {1, 2}};
        else if (alphabet == 2) modes = {{0, 0}, {2, 0}, {0, 2}, {2, 2}};
        if (alphabet <= 2) {
            for (int k = 0; k < NKINDS; k++) {
                if (!kind_has_wo(k)) { ops.push_back({k, 0, 0, 0}); continue; }
                for (int rel = 0; rel < (kind_has_rel(k) ? 2 : 1); rel++)
                    for (auto& m : modes) ops.push_back({k, rel, m.first, m.second});
            }
        } else {
            // small: every kind once with (taper,taper) [relative where it applies] and once with (NULL,const) [absolute]
            for (int k = 0; k < NKINDS; k++) {
                if (k == K_CMDP_0M || k == K_CMDP_2U || k == K_CMDP_2M) continue;  // kept for the larger alphabets
                if (!kind_has_wo(k)) { ops.push_back({k, 0, 0, 0}); continue; }
                ops.push_back({k, kind_has_rel(k) ? 1 : 0, 2, 2});
                ops.push_back({k, 0, 0, 1});
            }
        }
    }
    double hw_level(int e, int l) const { return l == 0 ? 0.25 + 0.125 * e : 0.5 + 0.25 * e; }
    double off_level(int e, int l) const { double o0 = e - 0.5 * (nelem - 1); return l == 0 ? o0 : 2 * o0 + 0.25; }
    int nops() { return (int)ops.size(); }
    std::string op_name(int i) {
        const BookOp& o = ops[i];
        if (!kind_has_wo(o.kind)) return KIND_NAME[o.kind];
        return fmt("%s%s w=%s o=%s", KIND_NAME[o.kind], kind_has_rel(o.kind) ? (o.rel ? " rel" : " abs") : "", MODE_NAME[o.wm], MODE_NAME[o.om]);
    }
    Obj* make() {
        Obj* o = new Obj();
        memset(&o->fp, 0, sizeof(FlexPath));
        double w[3], of[3];
        Tag tg[3];
        for (int e = 0; e < nelem; e++) { w[e] = 2 * hw_level(e, 0); of[e] = off_level(e, 0); tg[e] = make_tag(e, 0); }
        o->fp.init(Vec2{0, 0}, (uint64_t)nelem, w, of, TOL, tg);
        o->mspine.push_back(Vec2{0, 0});
        o->mwo.resize(nelem);
        for (int e = 0; e < nelem; e++) o->mwo[e].push_back(Vec2{hw_level(e, 0), off_level(e, 0)});
        return o;
    }
    void destroy(Obj* o) { o->fp.clear(); delete o; }
    bool poisoned(Obj& o) { return o.bad; }
    static std::string num(double v) {
        if (v != v) return "nan";
        if (fabs(v) > 1e15) return v > 0 ? "inf" : "-inf";
        double r = nearbyint(v * 1e12) / 1e12;
        if (r == 0) r = 0;  // no negative zero
        return fmt("%.12f", r);
    }
    bool printable = false;  // replay: human-readable canon; search: the same numbers as raw quantised 64-bit integers
    void put(std::string& s, double v) const {
        if (printable) { s += num(v); s += ","; return; }
        int64_t q;
        if (v != v) q = INT64_MIN;
        else if (fabs(v) > 1e6) q = v > 0 ? INT64_MAX : INT64_MIN + 1;
        else q = (int64_t)llround(v * 1e12);
        s.append((const char*)&q, sizeof q);
    }
    std::string canon(Obj& o) {
        FlexPath& fp = o.fp;
        std::string s;
        s.reserve(64 + fp.spine.point_array.count * 16 * (1 + fp.num_elements));
        s += fmt("n=%llu ctrl=", (unsigned long long)fp.spine.point_array.count);
        put(s, fp.spine.last_ctrl.x);
        put(s, fp.spine.last_ctrl.y);
        s += " S:";
        for (uint64_t i = 0; i < fp.spine.point_array.count; i++) { put(s, fp.spine.point_array[i].x); put(s, fp.spine.point_array[i].y); }
        for (uint64_t e = 0; e < fp.num_elements; e++) {
            s += fmt(" E%llu(%llu):", (unsigned long long)e, (unsigned long long)fp.elements[e].half_width_and_offset.count);
            const Array<Vec2>& a = fp.elements[e].half_width_and_offset;
            for (uint64_t i = 0; i < a.count; i++) { put(s, a[i].x); put(s, a[i].y); }
        }
        return s;
    }
    void fail(Obj& o, const std::vector<int>& hist, int op, const std::string& cls, const std::string& detail) {
        o.bad = true;
        std::vector<int> h = hist;
        h.push_back(op);
        const BookOp& b = ops[op];
        R->violation(sub, cls, {{"op", jstr(KIND_NAME[b.kind])}, {"width_arg", jstr(MODE_NAME[b.wm])}, {"offset_arg", jstr(MODE_NAME[b.om])}, {"relative", jbool(b.rel)}, {"elements", jint(nelem)}},
                     jobj({{"history", describe_hist(*this, h)}, {"elements", jint(nelem)}}), detail, "sub=" + sub + " hist=" + hist_str(h));
    }
    static bool same(Vec2 a, Vec2 b) { return memcmp(&a, &b, sizeof(Vec2)) == 0 || (a.x == b.x && a.y == b.y); }
    // compare the real object with the model (prefix spine bitwise, arrays to 1e-12); first_new = index of the first entry added by this call
    bool compare(Obj& o, const std::vector<int>& hist, int op, uint64_t first_new, bool exact) {
        FlexPath& fp = o.fp;
        uint64_t n = fp.spine.point_array.count;
        for (int e = 0; e < nelem; e++)
            if (fp.elements[e].half_width_and_offset.count != n) {
                fail(o, hist, op, "count-mismatch", fmt("spine has %llu points, element %d has %llu (half width, offset) entries", (unsigned long long)n, e, (unsigned long long)fp.elements[e].half_width_and_offset.count));
                return false;
            }
        if (n != o.mspine.size()) { fail(o, hist, op, "model-count", fmt("spine has %llu points, model %zu", (unsigned long long)n, o.mspine.size())); return false; }
        for (uint64_t i = 0; i < n; i++)
            if (!same(fp.spine.point_array[i], o.mspine[i])) { fail(o, hist, op, "spine-prefix-changed", fmt("spine point %llu changed", (unsigned long long)i)); return false; }
        for (int e = 0; e < nelem; e++) {
            const Array<Vec2>& a = fp.elements[e].half_width_and_offset;
            for (uint64_t i = 0; i < n; i++) {
                Vec2 m = o.mwo[e][i];
                bool ok = exact || i < first_new ? same(a[i], m) : (fabs(a[i].x - m.x) <= 1e-12 && fabs(a[i].y - m.y) <= 1e-12);
                if (!ok) {
                    const char* cls = i < first_new ? "old-entry-changed" : i + 1 == n ? "last-not-requested" : "interpolation-not-linear";
                    fail(o, hist, op, cls, fmt("element %d entry %llu of %llu: (hw,off)=(%.15g,%.15g), expected (%.15g,%.15g)", e, (unsigned long long)i, (unsigned long long)n, a[i].x, a[i].y, m.x, m.y));
                    return false;
                }
            }
        }
        return true;
    }
    bool apply(Obj& o, int opi, const std::vector<int>& hist, bool check) {
        const BookOp& op = ops[opi];
        FlexPath& fp = o.fp;
        if (op.kind == K_TOPOLY) {
            Array<Polygon*> res = {};
            fp.to_polygons(false, 0, res);
            for (uint64_t i = 0; i < res.count; i++) { res[i]->clear(); free_allocation(res[i]); }
            res.clear();
            // model: a point closer than the tolerance to its (kept) predecessor is removed together with its entries
            for (size_t i = 1; i < o.mspine.size();) {
                Vec2 d = o.mspine[i] - o.mspine[i - 1];
                if (d.x * d.x + d.y * d.y < TOL * TOL) {
                    o.mspine.erase(o.mspine.begin() + i);
                    for (int e = 0; e < nelem; e++) o.mwo[e].erase(o.mwo[e].begin() + i);
                } else i++;
            }
            if (check && compare(o, hist, opi, 0, true)) R->count("cases");
            return true;
        }
        if (op.kind == K_COPY) {
            FlexPath c;
            memset(&c, 0, sizeof c);
            c.copy_from(fp);
            fp.clear();
            fp = c;
            if (check && compare(o, hist, opi, 0, true)) R->count("cases");
            return true;
        }
        uint64_t n0 = fp.spine.point_array.count;
        int cmd_valid = -1;  // command lists: number of leading instructions that can be parsed
        double wv[3], ov[3];
        Vec2 prev[3], req[3];
        for (int e = 0; e < nelem; e++) {
            prev[e] = o.mwo[e].back();
            req[e] = prev[e];
            if (op.wm == 1) wv[e] = 2 * prev[e].x;
            if (op.wm == 2) wv[e] = 2 * (fabs(prev[e].x - hw_level(e, 0)) < 1e-9 ? hw_level(e, 1) : hw_level(e, 0));
            if (op.wm) req[e].x = 0.5 * wv[e];
            if (op.om == 1) ov[e] = prev[e].y;
            if (op.om == 2) ov[e] = fabs(prev[e].y - off_level(e, 0)) < 1e-9 ? off_level(e, 1) : off_level(e, 0);
            if (op.om) req[e].y = ov[e];
        }
        const double* w = op.wm ? wv : NULL;
        const double* of = op.om ? ov : NULL;
        bool rel = op.rel;
        Vec2 pb[3];
        double db[2];
        Array<Vec2> pa = {};
        pa.items = pb;
        Array<double> da = {};
        da.items = db;
        switch (op.kind) {
            case K_HSCALAR: fp.horizontal(rel ? 2.0 : 3.0, w, of, rel); break;
            case K_HARRAY: db[0] = 1; db[1] = rel ? 2.5 : 4; da.count = 2; fp.horizontal(da, w, of, rel); break;
            case K_VSCALAR: fp.vertical(rel ? 1.5 : 2.0, w, of, rel); break;
            case K_VARRAY: db[0] = 1; db[1] = 3; da.count = 2; fp.vertical(da, w, of, rel); break;
            case K_SEGPT: fp.segment(Vec2{3, 1}, w, of, rel); break;
            case K_SEGARR: pb[0] = Vec2{1, 2}; pb[1] = Vec2{4, 1}; pa.count = 2; fp.segment(pa, w, of, rel); break;
            case K_CUBIC: pb[0] = Vec2{1, 0}; pb[1] = Vec2{2, 1}; pb[2] = Vec2{3, 1}; pa.count = 3; fp.cubic(pa, w, of, rel); break;
            case K_CUBICS: pb[0] = Vec2{2, 1}; pb[1] = Vec2{3, 0}; pa.count = 2; fp.cubic_smooth(pa, w, of, rel); break;
            case K_QUAD: pb[0] = Vec2{1, 1}; pb[1] = Vec2{2, 0}; pa.count = 2; fp.quadratic(pa, w, of, rel); break;
            case K_QUADS_PT: fp.quadratic_smooth(Vec2{2, 1}, w, of, rel); break;
            case K_QUADS_ARR: pb[0] = Vec2{1, 1}; pb[1] = Vec2{3, 0}; pa.count = 2; fp.quadratic_smooth(pa, w, of, rel); break;
            case K_BEZIER: pb[0] = Vec2{1, 1}; pb[1] = Vec2{2, -1}; pb[2] = Vec2{3, 0}; pa.count = 3; fp.bezier(pa, w, of, rel); break;
            case K_INTERP:
            case K_INTERP_CYCLE: {
                pb[0] = Vec2{1, 1}; pb[1] = Vec2{2, 0}; pa.count = 2;
                double angles[3] = {0, 0, 0};
                bool cons[3] = {false, false, false};
                Vec2 tension[3] = {Vec2{1, 1}, Vec2{1, 1}, Vec2{1, 1}};
                fp.interpolation(pa, angles, cons, tension, 1, 1, op.kind == K_INTERP_CYCLE, w, of, rel);
            } break;
            case K_PARAM: fp.parametric(quarter_circle, NULL, w, of, rel); break;
            case K_ARC: fp.arc(1, 1, 0, 0.5 * M_PI, 0, w, of); break;
            case K_TURN: fp.turn(1, 0.5 * M_PI, w, of); break;
            default: {
                CmdList cl = parse_cmd_text(cmd_text(op.kind));
                uint64_t r = fp.commands(cl.items.data(), cl.items.size());
                cmd_valid = cl.valid_instructions;
                if (check && r != cl.expect_return) { fail(o, hist, opi, std::string("commands-return:") + KIND_NAME[op.kind], fmt("commands returned %llu, the documented grammar stops at item %llu of %zu", (unsigned long long)r, (unsigned long long)cl.expect_return, cl.items.size())); return true; }
            } break;
        }
        uint64_t n1 = fp.spine.point_array.count;
        uint64_t added = n1 > n0 ? n1 - n0 : 0;
        for (uint64_t j = 1; j <= added; j++) {
            o.mspine.push_back(fp.spine.point_array[n0 + j - 1]);
            for (int e = 0; e < nelem; e++) {
                double f = (double)j / (double)added;
                o.mwo[e].push_back(Vec2{prev[e].x + (req[e].x - prev[e].x) * f, prev[e].y + (req[e].y - prev[e].y) * f});
            }
        }
        if (!check) return true;
        if (added == 0 && cmd_valid == 0) {  // list stops at its first item: nothing may change
            if (compare(o, hist, opi, n0, true)) { R->count("cases"); R->count("book_commands_stopped_at_first_item"); }
            return true;
        }
        if (added == 0) { fail(o, hist, opi, "no-point-added", "construction call added no spine point"); return true; }
        if (cmd_valid > 0 && op.kind >= K_CMDP_0U) { R->count("book_commands_stopped_early_after_valid_instructions"); R->count("nontrivial"); }
        for (uint64_t j = n0; j < n1; j++)
            if (!std::isfinite(fp.spine.point_array[j].x) || !std::isfinite(fp.spine.point_array[j].y)) {
                // a NaN spine point makes every outline meaningless and lets a following turn()/arc() write out of
                // bounds (arc_num_points(NaN)); the state is not explored further
                fail(o, hist, opi, std::string("non-finite-spine-point:") + KIND_NAME[op.kind] + (op.rel ? " rel" : " abs"), fmt("spine point %llu appended by this call is (%g,%g); the call started at (%.17g,%.17g)", (unsigned long long)j, fp.spine.point_array[j].x, fp.spine.point_array[j].y, fp.spine.point_array[n0 - 1].x, fp.spine.point_array[n0 - 1].y));
                return true;
            }
        if (!compare(o, hist, opi, n0, false)) return true;
        R->count("cases");
        if ((op.wm == 2 || op.om == 2) && added >= 2) { R->count("nontrivial"); R->count("book_taper_over_several_points"); }
        if (op.wm == 0 && op.om == 0) R->count("book_null_args");
        return true;
    }
};

static void run_book(int nelem, int alphabet, int depth, const std::string& tag) {
    BookSys sys(nelem, alphabet, "book." + tag + fmt(".n%d", nelem));
    R->note(fmt("%s: %d elements, alphabet of %d operations, depth %d", sys.sub.c_str(), nelem, sys.nops(), depth));
    bfs(*R, sys, sys.sub, depth, 30);
}

// ======================================================================= (b) outline enumeration
static const int NE = 5;
static const char* const END_NAME[NE] = {"flush", "half-width", "extended(1,0.5)", "extended(-0.5,0)", "round"};
static const char* const BEND_NAME[5] = {"none", "circular r=1", "circular r=6", "circular r=0.75", "circular r=3"};
static const double BEND_R[5] = {0, 1, 6, 0.75, 3};
static const char* const WIDTH_NAME[3] = {"1", "2", "taper 2->1"};
static const char* const OFF_NAME[4] = {"0", "+1.5", "-1.5", "two elements +1.5/-1.5"};

static double exp_hw(int wcfg, int i, int n) {
    if (wcfg == 0) return 0.5;
    if (wcfg == 1) return 1.0;
    return 1.0 + (0.5 - 1.0) * ((double)i / (double)(n - 1));
}
static int group_nel(int ocfg) { return ocfg == 3 ? 2 : 1; }
static double group_off(int ocfg, int el) { return ocfg == 0 ? 0 : ocfg == 1 ? 1.5 : ocfg == 2 ? -1.5 : (el == 0 ? 1.5 : -1.5); }

static std::vector<c07::EndVar> end_variants(double hw0, double hwl) {
    std::vector<c07::EndVar> v(NE);
    v[0] = {false, false, 0, 0};
    v[1] = {false, false, hw0, hwl};
    v[2] = {false, false, 1, 0.5};
    v[3] = {false, false, -0.5, 0};
    v[4] = {true, true, 0, 0};
    return v;
}

// How the spine is appended.  mode 0: init + segment(array) [direct calls].  mode 1: init + one complete command list
// (V/H for axis-parallel steps, else alternately absolute L and relative l).  mode 2: a command list that stops early after
// k valid instructions (variant 0: unknown letter, variant 1: last instruction lacks its final argument); the path then has
// the first k+1 points.  mode 3: as mode 2, then segment(array of the remaining points) with a width change to 1.
struct Build { int mode = 0, k = 0, variant = 0; bool abs_width = false; /* scale_width = false: GDSII writes a negative (absolute) WIDTH */ };
static bool g_cmd_return_bad = false;  // set by make_path when commands() did not return the documented item index
static FlexPath* make_path(const std::vector<V>& sp, int wcfg, int ocfg, int bend, int join, int end, bool simple, const Build& bd = Build()) {
    int nel = group_nel(ocfg);
    int n = (int)sp.size();
    FlexPath* fp = (FlexPath*)allocate_clear(sizeof(FlexPath));
    double w[2], of[2], wend[2];
    Tag tg[2];
    for (int e = 0; e < nel; e++) {
        w[e] = wcfg == 0 ? 1 : 2;
        wend[e] = 1;
        of[e] = group_off(ocfg, e);
        tg[e] = make_tag(e + 1, 0);
    }
    fp->init(Vec2{sp[0].x, sp[0].y}, (uint64_t)nel, w, of, TOL, tg);
    std::vector<Vec2> rest;
    for (int i = 1; i < n; i++) rest.push_back(Vec2{sp[i].x, sp[i].y});
    Array<Vec2> pa = {};
    pa.items = rest.data();
    pa.count = rest.size();
    if (bd.mode == 0) fp->segment(pa, wcfg == 2 ? wend : NULL, NULL, false);
    else {
        int k = bd.mode == 1 ? n - 1 : bd.k;
        std::vector<CurveInstruction> ci;
        auto cmd = [&](char c) { CurveInstruction x; memset(&x, 0, sizeof x); x.command = c; ci.push_back(x); };
        auto num = [&](double v) { CurveInstruction x; memset(&x, 0, sizeof x); x.number = v; ci.push_back(x); };
        for (int i = 1; i <= k; i++) {
            double dx = sp[i].x - sp[i - 1].x, dy = sp[i].y - sp[i - 1].y;
            if (dx == 0) { cmd('V'); num(sp[i].y); }
            else if (dy == 0) { cmd('h'); num(dx); }
            else if (i & 1) { cmd('L'); num(sp[i].x); num(sp[i].y); }
            else { cmd('l'); num(dx); num(dy); }
        }
        uint64_t expect = ci.size();
        if (bd.mode >= 2) {
            if (bd.variant == 0) { cmd('X'); num(7); num(9); }
            else { cmd('L'); num(sp[k].x + 4); }
        }
        uint64_t r = fp->commands(ci.data(), ci.size());
        if (r != expect) g_cmd_return_bad = true;
        if (bd.mode == 3) {
            Array<Vec2> tail = {};
            tail.items = rest.data() + k;
            tail.count = rest.size() - k;
            fp->segment(tail, wend, NULL, false);
        }
    }
    fp->simple_path = simple;
    fp->scale_width = !bd.abs_width;
    for (int e = 0; e < nel; e++) {
        FlexPathElement& el = fp->elements[e];
        el.join_type = join == c07::J_NATURAL ? JoinType::Natural : join == c07::J_MITER ? JoinType::Miter : join == c07::J_BEVEL ? JoinType::Bevel : JoinType::Round;
        switch (end) {
            case 0: el.end_type = EndType::Flush; break;
            case 1: el.end_type = EndType::HalfWidth; break;
            case 2: el.end_type = EndType::Extended; el.end_extensions = Vec2{1, 0.5}; break;
            case 3: el.end_type = EndType::Extended; el.end_extensions = Vec2{-0.5, 0}; break;
            case 4: el.end_type = EndType::Round; break;
        }
        if (bend) { el.bend_type = BendType::Circular; el.bend_radius = BEND_R[bend]; }
    }
    return fp;
}
static void free_path(FlexPath* fp) { fp->clear(); free_allocation(fp); }

struct Grid {
    double x0, y0, h;
    int nx, ny;
    V at(int i, int j) const { return V{x0 + i * h, y0 + j * h}; }
    size_t size() const { return (size_t)nx * ny; }
};
static Grid make_grid(double bx0, double by0, double bx1, double by1, double h) {
    Grid g;
    g.h = h;
    double i0 = floor((bx0 - 2) / h), j0 = floor((by0 - 2) / h);
    g.x0 = (i0 + 1.0 / 3) * h;
    g.y0 = (j0 + 1.0 / 7) * h;
    g.nx = (int)ceil((bx1 + 2 - g.x0) / h) + 1;
    g.ny = (int)ceil((by1 + 2 - g.y0) / h) + 1;
    return g;
}
// cov[j*nx+i] = 1 iff sample (i,j) has non-zero winding about the vertex list or lies on an edge
static void coverage(const std::vector<V>& poly, const Grid& g, std::vector<uint8_t>& cov) {
    cov.assign(g.size(), 0);
    size_t n = poly.size();
    std::vector<std::pair<double, int>> xs;
    for (int j = 0; j < g.ny; j++) {
        double y = g.y0 + j * g.h;
        xs.clear();
        for (size_t k = 0; k < n; k++) {
            V a = poly[k], b = poly[(k + 1) % n];
            if ((a.y <= y) == (b.y <= y)) continue;
            double x = a.x + (y - a.y) * (b.x - a.x) / (b.y - a.y);
            xs.push_back({x, b.y > a.y ? 1 : -1});
        }
        if (xs.empty()) continue;
        std::sort(xs.begin(), xs.end());
        size_t p = 0;
        int w = 0;
        for (int i = 0; i < g.nx; i++) {
            double x = g.x0 + i * g.h;
            while (p < xs.size() && xs[p].first < x - 1e-9) { w += xs[p].second; p++; }
            bool onb = p < xs.size() && fabs(xs[p].first - x) <= 1e-9;
            cov[(size_t)j * g.nx + i] = (w != 0 || onb) ? 1 : 0;
        }
    }
}
static std::string pts_str(const std::vector<V>& p) {
    std::string s;
    for (size_t i = 0; i < p.size(); i++) s += fmt("%s%.10g,%.10g", i ? ";" : "", p[i].x, p[i].y);
    return s;
}
static std::vector<V> parse_pts(const std::string& s) {
    std::vector<V> p;
    size_t q = 0;
    while (q < s.size()) {
        size_t e = s.find(';', q);
        if (e == std::string::npos) e = s.size();
        double x, y;
        if (sscanf(s.substr(q, e - q).c_str(), "%lf,%lf", &x, &y) == 2) p.push_back(V{x, y});
        q = e + 1;
    }
    return p;
}
static std::string jpts(const std::vector<V>& p) {
    std::vector<std::string> a;
    for (auto& v : p) a.push_back("[" + jnum(v.x) + "," + jnum(v.y) + "]");
    return jarr(a);
}

struct Member { int wcfg, ocfg, bend, join, end; Build bd = Build(); };
static std::string build_name(const Build& b) {
    if (b.mode == 0) return "init + segment(array)";
    if (b.mode == 1) return "init + commands(complete list V/h/L/l)";
    std::string t = fmt("init + commands(list stopping after %d valid instruction(s): %s)", b.k, b.variant ? "last argument missing" : "unknown letter");
    return b.mode == 2 ? t : t + " + segment(remaining points, width -> 1)";
}
static JFields member_tags(const std::vector<V>& sp, const Member& m, int el, bool bend_fits, bool turn, const std::string& corners = "") {
    double off = group_off(m.ocfg, el);
    return {{"corners", jstr(corners)}, {"join", jstr(c07::JOIN_NAME[m.join])}, {"end", jstr(END_NAME[m.end])}, {"bend", jstr(BEND_NAME[m.bend])}, {"bend_fits", jbool(bend_fits)},
            {"taper", jbool(m.wcfg == 2)}, {"width", jstr(WIDTH_NAME[m.wcfg])}, {"offset_sign", jstr(off > 0 ? "+" : off < 0 ? "-" : "0")},
            {"elements", jint(group_nel(m.ocfg))}, {"element", jint(el)}, {"points", jint((int64_t)sp.size())}, {"turn", jbool(turn)}};
}
static std::string member_json(const std::vector<V>& sp, const Member& m) {
    return jobj({{"spine", jpts(sp)}, {"width", jstr(WIDTH_NAME[m.wcfg])}, {"offsets", jstr(OFF_NAME[m.ocfg])}, {"join", jstr(c07::JOIN_NAME[m.join])},
                 {"end", jstr(END_NAME[m.end])}, {"bend", jstr(BEND_NAME[m.bend])}, {"tolerance", jnum(TOL)}, {"construction", jstr(build_name(m.bd))}, {"scale_width", jbool(!m.bd.abs_width)}});
}
static std::string member_replay(const std::vector<V>& sp, const Member& m) {
    return fmt("sub=outline pts=%s w=%d oc=%d bend=%d join=%d end=%d", pts_str(sp).c_str(), m.wcfg, m.ocfg, m.bend, m.join, m.end) + (m.bd.mode ? fmt(" cm=%d ck=%d cv=%d", m.bd.mode, m.bd.k, m.bd.variant) : std::string()) + (m.bd.abs_width ? " sw=0" : "");
}

// ----------------------------------------------------------------------- PATH record decoding (hook)
struct PathRecord {
    std::vector<V> pts;
    double hw = 0;
    bool round = false;       // end code "round"
    bool scale_width = true;  // GDSII: false when the WIDTH record is negative (absolute width)
    double ext_s = 0, ext_e = 0;  // straight extensions (half-width ends are given as hw)
    std::string end_name;
};
// HOOK: the default decoder is gdstk's own reader (read_gds / read_oas).  An independent decoder of another
// module (codec/gds_codec.py, codec/oas_codec.py through a pipe) can be substituted here: it has to return the
// PATH records of the single cell in file order.
static bool decode_paths(const std::string& file, bool oas, std::vector<PathRecord>& out, std::string& err) {
    ErrorCode ec = ErrorCode::NoError;
    Library lib = oas ? read_oas(file.c_str(), 0, TOL, &ec) : read_gds(file.c_str(), 0, TOL, NULL, &ec);
    bool ok = true;
    if (ec != ErrorCode::NoError) { err = fmt("reader error code %d", (int)ec); ok = false; }
    if (ok && lib.cell_array.count != 1) { err = fmt("%llu cells re-read", (unsigned long long)lib.cell_array.count); ok = false; }
    if (ok) {
        Cell* c = lib.cell_array[0];
        if (c->polygon_array.count) { err = fmt("%llu polygons re-read where PATH records were expected", (unsigned long long)c->polygon_array.count); ok = false; }
        for (uint64_t i = 0; ok && i < c->flexpath_array.count; i++) {
            FlexPath* p = c->flexpath_array[i];
            PathRecord r;
            if (p->num_elements != 1 || p->elements[0].half_width_and_offset.count < 1) { err = "malformed re-read path"; ok = false; break; }
            for (uint64_t k = 0; k < p->spine.point_array.count; k++) r.pts.push_back(V{p->spine.point_array[k].x, p->spine.point_array[k].y});
            r.hw = p->elements[0].half_width_and_offset[0].x;
            r.scale_width = p->scale_width;
            switch (p->elements[0].end_type) {
                case EndType::Flush: r.end_name = "flush"; break;
                case EndType::Round: r.round = true; r.end_name = "round"; break;
                case EndType::HalfWidth: r.ext_s = r.ext_e = r.hw; r.end_name = "half-width"; break;
                case EndType::Extended: r.ext_s = p->elements[0].end_extensions.x; r.ext_e = p->elements[0].end_extensions.y; r.end_name = "extended"; break;
                default: err = "unexpected end type in re-read path"; ok = false;
            }
            out.push_back(r);
        }
    }
    lib.free_all();
    return ok;
}
static bool write_library(const std::vector<FlexPath*>& paths, const std::string& file, bool oas) {
    Library lib = {};
    lib.init("LIB", 1e-6, 1e-9);
    Cell* cell = (Cell*)allocate_clear(sizeof(Cell));
    cell->name = copy_string("C", NULL);
    for (FlexPath* p : paths) cell->flexpath_array.append(p);
    lib.cell_array.append(cell);
    ErrorCode ec;
    if (oas) ec = lib.write_oas(file.c_str(), 0, 0, 0);
    else {
        tm t = {};
        t.tm_year = 100; t.tm_mon = 0; t.tm_mday = 1;
        ec = lib.write_gds(file.c_str(), 0, &t);
    }
    lib.free_all();  // frees the cell and the paths
    return ec == ErrorCode::NoError;
}

// ----------------------------------------------------------------------- one group = spine x width x offsets x bend
struct GroupOpts {
    bool do_b = true, do_c = false, verbose = false, probe = false;
    int only_join = -1, only_end = -1;
    double h = 0.25;
    Build bd;  // how the members of the group are constructed
    bool c_all_joins = false;  // PATH-record comparison against all four source joins (default natural/miter)
};
struct ElemOracle {
    c07::ElementInput in;
    c07::Oracle o;
    std::vector<c07::Cls> cls;
};
static std::string describe_sample(const c07::Oracle& o, V q, int v, int j, double g) {
    c07::EvalDetail d;
    c07::classify(o, q, g, NE, v, j, &d);
    return fmt("sample (%.6f,%.6f): must-cover region=%s; nearest upper region=%s at excess %.4f", q.x, q.y, d.mc_region ? d.mc_region->name : "-",
               d.near_region ? d.near_region->name : "-", d.near_ex);
}

static void run_group(const std::vector<V>& sp, int wcfg, int ocfg, int bend, const GroupOpts& opt) {
    const int n = (int)sp.size(), nel = group_nel(ocfg);
    const int njoin = c07::NJ;
    int members = 0;
    for (int j = 0; j < njoin; j++) for (int e = 0; e < NE; e++) if ((opt.only_join < 0 || opt.only_join == j) && (opt.only_end < 0 || opt.only_end == e)) members++;
    R->count("outline_members_enumerated", members);
    std::vector<ElemOracle> eo(nel);
    for (int el = 0; el < nel; el++) {
        c07::ElementInput& in = eo[el].in;
        in.spine = sp;
        for (int i = 0; i < n; i++) {
            double h = exp_hw(wcfg, i, n);
            if (opt.bd.mode == 1 || opt.bd.mode == 2) h = wcfg == 0 ? 0.5 : 1.0;          // command lists carry no width change
            if (opt.bd.mode == 3) {                                                       // the taper belongs to the last call only
                double h0 = wcfg == 0 ? 0.5 : 1.0;
                h = i <= opt.bd.k ? h0 : h0 + (0.5 - h0) * ((double)(i - opt.bd.k) / (double)(n - 1 - opt.bd.k));
            }
            in.hw.push_back(h);
            in.off.push_back(group_off(ocfg, el));
        }
        in.bend_r = BEND_R[bend];
        in.ends = end_variants(in.hw[0], in.hw[n - 1]);
        eo[el].o = c07::build(in);
        if (eo[el].o.status != c07::OK) {
            R->count(std::string("outline_dropped:") + c07::STATUS_NAME[eo[el].o.status], members);
            R->count("outline_members_dropped", members);
            if (opt.verbose) fprintf(stderr, "group dropped: element %d: %s\n", el, c07::STATUS_NAME[eo[el].o.status]);
            return;
        }
    }
    double bx0 = 1e300, by0 = 1e300, bx1 = -1e300, by1 = -1e300;
    bool any_turn = false, any_bend = false, compete = false;
    unsigned valid = (1u << NE) - 1;
    for (auto& e : eo) {
        bx0 = std::min(bx0, e.o.bx0); by0 = std::min(by0, e.o.by0); bx1 = std::max(bx1, e.o.bx1); by1 = std::max(by1, e.o.by1);
        any_turn |= e.o.any_turn; any_bend |= e.o.any_bend; compete |= e.o.bends_compete;
        valid &= e.o.valid_ends;
    }
    Grid grid = make_grid(bx0, by0, bx1, by1, opt.h);
    for (auto& e : eo) {
        e.cls.resize(grid.size());
        for (int j = 0; j < grid.ny; j++)
            for (int i = 0; i < grid.nx; i++) e.cls[(size_t)j * grid.nx + i] = c07::classify(e.o, grid.at(i, j), G, NE);
    }
    bool nontrivial = (ocfg != 0 && any_turn) || (wcfg == 2 && n >= 3) || any_bend || opt.bd.mode >= 2;
    if (opt.verbose) {
        fprintf(stderr, "group: spine %s width %s offsets %s bend %s; grid %dx%d h=%.3f; turn=%d bend_fits=%d\n", pts_str(sp).c_str(), WIDTH_NAME[wcfg], OFF_NAME[ocfg], BEND_NAME[bend], grid.nx, grid.ny, grid.h, any_turn, any_bend);
        for (int el = 0; el < nel; el++) {
            fprintf(stderr, " element %d centre line:", el);
            for (auto& p : eo[el].o.C) fprintf(stderr, " (%.6f,%.6f)", p.x, p.y);
            fprintf(stderr, "\n");
            for (int i = 1; i + 1 < n; i++) {
                const c07::Corner& c = eo[el].o.corner[i];
                if (c.bend) fprintf(stderr, "  corner %d: turn %.3f deg, bend fits: centre (%.6f,%.6f) R=%.4f T=%.4f hw[%.4f,%.4f]\n", i, c.phi * 180 / M_PI, c.cc.x, c.cc.y, c.R, c.T, c.hlo, c.hhi);
                else fprintf(stderr, "  corner %d: turn %.3f deg, hw %.4f, reach natural %.4f miter %.4f bevel %.4f round %.4f\n", i, c.phi * 180 / M_PI, c.hw, c.reach[0], c.reach[1], c.reach[2], c.reach[3]);
            }
        }
    }
    bool book_failed = false;
    // source coverage kept for the PATH-record comparison: [join 0..1][end][element]
    std::vector<uint8_t> keep[c07::NJ][NE][2];
    const int cjoins = opt.c_all_joins ? c07::NJ : 2;  // source joins compared with the PATH record
    std::vector<uint8_t> cov;
    for (int j = 0; j < njoin; j++) {
        if (opt.only_join >= 0 && opt.only_join != j) continue;
        for (int e = 0; e < NE; e++) {
            if (opt.only_end >= 0 && opt.only_end != e) continue;
            Member m{wcfg, ocfg, bend, j, e, opt.bd};
            if (!(valid >> e & 1)) {
                R->count(std::string("outline_dropped:") + c07::STATUS_NAME[c07::DROP_SHORT_END]);
                R->count("outline_members_dropped");
                continue;
            }
            g_cmd_return_bad = false;
            FlexPath* fp = make_path(sp, wcfg, ocfg, bend, j, e, false, opt.bd);
            if (g_cmd_return_bad) {
                R->violation("outline", "commands-return", member_tags(sp, m, 0, any_bend, any_turn), member_json(sp, m), "FlexPath::commands did not return the index of the first item that cannot be parsed (or the item count for a complete list)", member_replay(sp, m));
                book_failed = true;
                free_path(fp);
                continue;
            }
            // the construction calls must have produced the requested per-point widths/offsets
            bool book_ok = true;
            for (int el = 0; el < nel && book_ok; el++) {
                const Array<Vec2>& a = fp->elements[el].half_width_and_offset;
                if (a.count != (uint64_t)n || fp->spine.point_array.count != (uint64_t)n) book_ok = false;
                for (int i = 0; book_ok && i < n; i++)
                    if (fabs(a[i].x - eo[el].in.hw[i]) > 1e-12 || fabs(a[i].y - eo[el].in.off[i]) > 1e-12) book_ok = false;
            }
            if (!book_ok) {
                std::string what = fmt("spine has %llu points, expected %d;", (unsigned long long)fp->spine.point_array.count, n);
                for (int el = 0; el < nel; el++) what += fmt(" element %d has %llu (half width, offset) entries;", el, (unsigned long long)fp->elements[el].half_width_and_offset.count);
                JFields bt = member_tags(sp, m, 0, any_bend, any_turn);
                bt.push_back({"construction_mode", jint(opt.bd.mode)});
                R->violation("outline", fmt("bookkeeping:mode%d", opt.bd.mode), bt, member_json(sp, m), build_name(opt.bd) + " did not leave the requested (half width, offset) entry per spine point: " + what, member_replay(sp, m));
                book_failed = true;
                free_path(fp);
                continue;
            }
            Array<Polygon*> res = {};
            ErrorCode ec = fp->to_polygons(false, 0, res);
            if (ec != ErrorCode::NoError || res.count != (uint64_t)nel) {
                R->violation("outline", "no-polygon", member_tags(sp, m, 0, any_bend, any_turn), member_json(sp, m), fmt("to_polygons returned error %d and %llu polygons for %d elements", (int)ec, (unsigned long long)res.count, nel), member_replay(sp, m));
            } else {
                R->count("cases");
                R->count("outline_members_checked");
                if (nontrivial) R->count("nontrivial");
                if (ocfg != 0 && any_turn) R->count("nt_offset_with_turn");
                if (wcfg == 2 && n >= 3) R->count("nt_taper_across_corner");
                if (any_bend) R->count("nt_bend_fits");
                if (compete) R->count("nt_bends_compete_for_a_segment");
                if (opt.bd.mode == 1) R->count("cmd_complete_list_members");
                if (opt.bd.mode == 2) R->count("nt_cmd_list_stopped_early_then_export");
                if (opt.bd.mode == 3) R->count("nt_cmd_list_stopped_early_then_tapering_section");
                // a complete command list must give the very outline of the equivalent direct calls
                std::vector<std::vector<V>> direct;
                if (opt.bd.mode == 1) {
                    FlexPath* dp = make_path(sp, wcfg, ocfg, bend, j, e, false);
                    Array<Polygon*> dres = {};
                    dp->to_polygons(false, 0, dres);
                    for (uint64_t k = 0; k < dres.count; k++) {
                        direct.push_back({});
                        for (uint64_t t = 0; t < dres[k]->point_array.count; t++) direct.back().push_back(V{dres[k]->point_array[t].x, dres[k]->point_array[t].y});
                        dres[k]->clear();
                        free_allocation(dres[k]);
                    }
                    dres.clear();
                    free_path(dp);
                }
                for (int el = 0; el < nel; el++) {
                    std::vector<V> poly;
                    bool finite = true;
                    for (uint64_t k = 0; k < res[el]->point_array.count; k++) {
                        Vec2 p = res[el]->point_array[k];
                        if (!std::isfinite(p.x) || !std::isfinite(p.y)) finite = false;
                        poly.push_back(V{p.x, p.y});
                    }
                    const c07::Oracle& o = eo[el].o;
                    auto tags = [&](const char* region) {
                        std::string ck;  // per corner: J = join, B = bend fits, S = straight through
                        for (int i = 1; i + 1 < n; i++) ck += o.corner[i].bend ? "B" : fabs(o.corner[i].phi) > 1e-9 ? "J" : "S";
                        JFields t = member_tags(sp, m, el, o.any_bend, o.any_turn, ck);
                        t.push_back({"region", jstr(region)});
                        t.push_back({"bends_compete", jbool(o.bends_compete)});
                        return t;
                    };
                    if (!finite) {
                        R->violation("outline", "non-finite-vertex", tags("-"), member_json(sp, m), "polygon contains a NaN/inf vertex", member_replay(sp, m));
                        continue;
                    }
                    if (opt.verbose) fprintf(stderr, " join %s end %s element %d polygon: %s\n", c07::JOIN_NAME[j], END_NAME[e], el, pts_str(poly).c_str());
                    if (opt.bd.mode == 1) {
                        bool same = (int)direct.size() == nel && direct[el].size() == poly.size();
                        for (size_t t = 0; same && t < poly.size(); t++) same = fabs(direct[el][t].x - poly[t].x) <= 1e-9 && fabs(direct[el][t].y - poly[t].y) <= 1e-9;
                        if (!same) R->violation("outline", fmt("commands-differs-from-direct-calls:%s:%s", c07::JOIN_NAME[j], END_NAME[e]), tags("-"), member_json(sp, m), "polygon of the path built by a complete command list differs from the polygon of the same spine built by init + segment(array)", member_replay(sp, m));
                    }
                    coverage(poly, grid, cov);
                    int64_t nmc = 0, nmn = 0, ndc = 0;
                    int bad_mc = 0, bad_mn = 0;
                    V first_mc{0, 0}, first_mn{0, 0};
                    for (size_t s = 0; s < cov.size(); s++) {
                        const c07::Cls& c = eo[el].cls[s];
                        bool mc = c.mc >> e & 1, mn = (c.farE >> e & 1) && (c.farJ >> j & 1);
                        if (mc && mn) { R->internal_error("oracle inconsistent: sample both must-cover and must-not-cover, " + member_replay(sp, m)); mc = mn = false; }
                        if (mc) { nmc++; if (!cov[s]) { if (!bad_mc) first_mc = grid.at((int)(s % grid.nx), (int)(s / grid.nx)); bad_mc++; } }
                        else if (mn) { nmn++; if (cov[s]) { if (!bad_mn) first_mn = grid.at((int)(s % grid.nx), (int)(s / grid.nx)); bad_mn++; } }
                        else ndc++;
                    }
                    R->count("samples_must_cover", nmc);
                    R->count("samples_must_not_cover", nmn);
                    R->count("samples_dont_care", ndc);
                    if (bad_mc) {
                        c07::EvalDetail d;
                        c07::classify(o, first_mc, G, NE, e, j, &d);
                        const char* rn = d.mc_region ? d.mc_region->name : "?";
                        R->violation("outline", fmt("uncovered:%s:%s:%s", rn, c07::JOIN_NAME[j], END_NAME[e]), tags(rn), member_json(sp, m),
                                     fmt("%d sample(s) that lie within hw-g of the centre line / inside the promised end cap are not covered by the polygon of element %d; first: %s", bad_mc, el, describe_sample(o, first_mc, e, j, G).c_str()),
                                     member_replay(sp, m));
                    }
                    if (bad_mn) {
                        c07::EvalDetail d;
                        c07::classify(o, first_mn, G, NE, e, j, &d);
                        const char* rn = d.near_region ? d.near_region->name : "?";
                        R->violation("outline", fmt("covered-outside:%s:%s:%s", rn, c07::JOIN_NAME[j], END_NAME[e]), tags(rn), member_json(sp, m),
                                     fmt("%d sample(s) farther than reach+g from the whole centre line and its caps are covered by the polygon of element %d; first: %s", bad_mn, el, describe_sample(o, first_mn, e, j, G).c_str()),
                                     member_replay(sp, m));
                    }
                    // every output vertex has to lie within reach+g as well (catches spikes between samples)
                    int bad_v = 0;
                    V first_v{0, 0};
                    for (auto& q : poly) {
                        c07::Cls c = c07::classify(o, q, G, NE);
                        if ((c.farE >> e & 1) && (c.farJ >> j & 1)) { if (!bad_v) first_v = q; bad_v++; }
                    }
                    if (bad_v) {
                        c07::EvalDetail d;
                        c07::classify(o, first_v, G, NE, e, j, &d);
                        const char* rn = d.near_region ? d.near_region->name : "?";
                        R->violation("outline", fmt("vertex-outside:%s:%s:%s", rn, c07::JOIN_NAME[j], END_NAME[e]), tags(rn), member_json(sp, m),
                                     fmt("%d polygon vertex/vertices farther than reach+g from the centre line and caps; first: %s", bad_v, describe_sample(o, first_v, e, j, G).c_str()), member_replay(sp, m));
                    }
                    if (opt.do_c && j < cjoins) keep[j][e][el] = cov;
                }
            }
            for (uint64_t k = 0; k < res.count; k++) { res[k]->clear(); free_allocation(res[k]); }
            res.clear();
            free_path(fp);
        }
    }
    if (!opt.do_c || book_failed) return;  // PATH export of a path with inconsistent bookkeeping would read out of bounds
    // ------------------------------------------------------------------- (c) PATH records
    std::vector<int> ends;
    for (int e = 0; e < NE; e++) if ((valid >> e & 1) && (opt.only_end < 0 || opt.only_end == e)) ends.push_back(e);
    if (ends.empty()) return;
    for (int fmt_i = 0; fmt_i < 2; fmt_i++) {
        const bool oas = fmt_i == 1;
        const std::string sub = oas ? "path.oas" : "path.gds";
        std::vector<FlexPath*> paths;
        for (int e : ends) paths.push_back(make_path(sp, wcfg, ocfg, bend, c07::J_NATURAL, e, true, opt.bd));
        std::string file = R->scratch + fmt("/p%d.%s", (int)getpid(), oas ? "oas" : "gds");
        Member m0{wcfg, ocfg, bend, c07::J_NATURAL, ends[0], opt.bd};
        auto ctags = [&](const Member& m, int el, const char* what) {
            // few tag combinations on purpose: the engine caps output per (class, tags) and per process
            double off = group_off(m.ocfg, el);
            std::string w = what;
            if (w != "centerline" && w != "width" && w != "count" && w != "write") w = "region";
            JFields t = {{"format", jstr(oas ? "oas" : "gds")}, {"join", jstr(c07::JOIN_NAME[m.join])}, {"end", jstr(END_NAME[m.end])}, {"bend_fits", jbool(eo[el].o.any_bend)},
                         {"taper", jbool(m.wcfg == 2)}, {"offset_sign", jstr(off > 0 ? "+" : off < 0 ? "-" : "0")}, {"what", jstr(w)}, {"bends_compete", jbool(eo[el].o.bends_compete)}, {"scale_width", jbool(!m.bd.abs_width)}};
            return t;
        };
        auto creplay = [&](const Member& m) { return member_replay(sp, m) + " c=1"; };
        if (!write_library(paths, file, oas)) {
            R->violation(sub, "write-error", ctags(m0, 0, "write"), member_json(sp, m0), "writer returned an error", creplay(m0));
            continue;
        }
        std::vector<PathRecord> recs;
        std::string err;
        bool ok = decode_paths(file, oas, recs, err);
        unlink(file.c_str());
        if (!ok || recs.size() != ends.size() * nel) {
            R->violation(sub, "record-count", ctags(m0, 0, "count"), member_json(sp, m0), fmt("expected %zu PATH records, re-read %zu (%s)", ends.size() * nel, recs.size(), err.c_str()), creplay(m0));
            continue;
        }
        for (int el = 0; el < nel; el++) {
            const c07::Oracle& o = eo[el].o;
            // record oracle(s): records with identical centre lines share one evaluation
            struct RecGroup { std::vector<int> idx; };  // indices into ends
            std::vector<RecGroup> rgs;
            for (size_t k = 0; k < ends.size(); k++) {
                const PathRecord& r = recs[k * nel + el];
                bool placed = false;
                for (auto& rg : rgs) {
                    const PathRecord& q = recs[rg.idx[0] * nel + el];
                    bool same = q.pts.size() == r.pts.size() && fabs(q.hw - r.hw) < 1e-12;
                    for (size_t t = 0; same && t < r.pts.size(); t++) same = fabs(q.pts[t].x - r.pts[t].x) < 1e-12 && fabs(q.pts[t].y - r.pts[t].y) < 1e-12;
                    if (same) { rg.idx.push_back((int)k); placed = true; break; }
                }
                if (!placed) { rgs.push_back(RecGroup()); rgs.back().idx.push_back((int)k); }
            }
            for (auto& rg : rgs) {
                const PathRecord& r0 = recs[rg.idx[0] * nel + el];
                Member mr{wcfg, ocfg, bend, c07::J_NATURAL, ends[rg.idx[0]], opt.bd};
                R->count("cases", (int64_t)rg.idx.size());
                R->count("path_records_checked", (int64_t)rg.idx.size());
                if (opt.verbose) fprintf(stderr, " %s element %d record (ends %s...): hw %.6f centre %s\n", sub.c_str(), el, END_NAME[ends[rg.idx[0]]], r0.hw, pts_str(r0.pts).c_str());
                // --- centre line of the record vs the oracle's centre line
                double dtol = 2.25 * TOL + 1.5 * GRID;
                double worst = 0;
                for (auto& q : r0.pts) worst = std::max(worst, c07::dist_centerline(o, q));
                double worst2 = 0;
                for (auto& q : c07::centerline_keypoints(o)) {
                    double d = 1e300;
                    for (size_t t = 0; t + 1 < r0.pts.size(); t++) d = std::min(d, c07::dist_seg(r0.pts[t], r0.pts[t + 1], q));
                    worst2 = std::max(worst2, d);
                }
                bool cl_bad = r0.pts.size() < 2 || worst > dtol || worst2 > dtol || c07::norm(r0.pts[0] - o.C[0]) > 1.5 * GRID || c07::norm(r0.pts.back() - o.C[n - 1]) > 1.5 * GRID;
                if (cl_bad) {
                    if (wcfg == 2) {
                        // tapered simple paths are documented as unsupported ("do not support width changes along the path"): observation only
                        R->count(opt.probe ? "obs_probe_r0.75_tapered_simple_path_centerline_differs" : "obs_tapered_simple_path_centerline_differs", (int64_t)rg.idx.size());
                        if (nontrivial) R->outcome(sub, "tapered simple path: record centre line differs from element centre line");
                    } else {
                        R->violation(sub, fmt("centerline:%s", BEND_NAME[bend]), ctags(mr, el, "centerline"), member_json(sp, mr),
                                     fmt("PATH record centre line deviates from the element centre line: record->ideal %.4f, ideal->record %.4f (allowed %.4f); record: %s", worst, worst2, dtol, pts_str(r0.pts).c_str()), creplay(mr));
                    }
                    continue;
                }
                if (fabs(r0.hw - eo[el].in.hw[0]) > GRID) {
                    R->violation(sub, opt.bd.abs_width ? "width:scale_width=false" : "width", ctags(mr, el, "width"), member_json(sp, mr), fmt("PATH record half width %.6f, element starts with %.6f", r0.hw, eo[el].in.hw[0]), creplay(mr));
                    continue;
                }
                if (opt.bd.abs_width) {
                    R->count("path_records_absolute_width", (int64_t)rg.idx.size());
                    bool flag_bad = false;
                    for (int k : rg.idx) if (!oas && recs[k * nel + el].scale_width) flag_bad = true;  // OASIS has no absolute width
                    if (flag_bad) { R->violation(sub, "scale-width-flag", ctags(mr, el, "width"), member_json(sp, mr), "path written with scale_width = false re-read with scale_width = true", creplay(mr)); continue; }
                }
                if (wcfg == 2) { R->count("path_records_tapered_centerline_only", (int64_t)rg.idx.size()); continue; }
                // --- region denoted by the record (format definition: swept centre line, mitred corners) vs source polygons
                c07::ElementInput rin;
                rin.raw = true;
                rin.spine = r0.pts;
                // drop exact duplicates (zero-length record segments carry no area)
                {
                    std::vector<V> u;
                    for (auto& q : rin.spine) if (u.empty() || c07::norm(q - u.back()) > 1e-9) u.push_back(q);
                    rin.spine = u;
                }
                rin.hw.assign(rin.spine.size(), r0.hw);
                rin.off.assign(rin.spine.size(), 0.0);
                rin.ends.assign(NE, c07::EndVar{false, false, 0, 0});
                unsigned rmask = 0;
                for (int k : rg.idx) {
                    const PathRecord& r = recs[k * nel + el];
                    rin.ends[ends[k]] = c07::EndVar{r.round, r.round, r.round ? 0 : r.ext_s, r.round ? 0 : r.ext_e};
                    rmask |= 1u << ends[k];
                }
                c07::Oracle ro = c07::build(rin);
                std::vector<c07::Cls> rcls(grid.size());
                for (int jj = 0; jj < grid.ny; jj++)
                    for (int ii = 0; ii < grid.nx; ii++) rcls[(size_t)jj * grid.nx + ii] = c07::classify(ro, grid.at(ii, jj), G_REC, NE);
                for (int k : rg.idx) {
                    int e = ends[k];
                    if (!(ro.valid_ends >> e & 1)) continue;
                    for (int j = 0; j < cjoins; j++) {
                        if (opt.only_join >= 0 && opt.only_join != j) continue;
                        const std::vector<uint8_t>& sc = keep[j][e][el];
                        if (sc.size() != grid.size()) continue;  // source member had no polygon (reported above)
                        Member m{wcfg, ocfg, bend, j, e, opt.bd};
                        R->count("path_region_comparisons");
                        int bad_in = 0, bad_out = 0;
                        V f_in{0, 0}, f_out{0, 0};
                        int64_t nin = 0, nout = 0;
                        for (size_t s = 0; s < sc.size(); s++) {
                            const c07::Cls& c = rcls[s];
                            bool mc = c.mc >> e & 1, mn = (c.farE >> e & 1) && (c.farJ >> c07::J_MITER & 1);
                            if (mc) { nin++; if (!sc[s]) { if (!bad_in) f_in = grid.at((int)(s % grid.nx), (int)(s / grid.nx)); bad_in++; } }
                            else if (mn) { nout++; if (sc[s]) { if (!bad_out) f_out = grid.at((int)(s % grid.nx), (int)(s / grid.nx)); bad_out++; } }
                        }
                        R->count("path_samples_inside_record", nin);
                        R->count("path_samples_outside_record", nout);
                        const PathRecord& r = recs[k * nel + el];
                        if (bad_in) {
                            c07::EvalDetail d;
                            c07::classify(ro, f_in, G_REC, NE, e, c07::J_MITER, &d);
                            const char* rn = d.mc_region ? d.mc_region->name : "?";
                            JFields tg = ctags(m, el, rn);
                            tg.push_back({"record_end", jstr(r.end_name)});
                            R->violation(sub, fmt("record-larger:%s:%s", END_NAME[e], c07::JOIN_NAME[j]), tg, member_json(sp, m),
                                         fmt("%d sample(s) inside the region denoted by the re-read PATH record (end code %s, extensions %.4f/%.4f, hw %.4f) are not covered by the source to_polygons; first: %s", bad_in, r.end_name.c_str(), r.ext_s, r.ext_e, r.hw, describe_sample(ro, f_in, e, c07::J_MITER, G_REC).c_str()),
                                         creplay(m));
                        }
                        if (bad_out) {
                            c07::EvalDetail d;
                            c07::classify(ro, f_out, G_REC, NE, e, c07::J_MITER, &d);
                            const char* rn = d.near_region ? d.near_region->name : "?";
                            JFields tg = ctags(m, el, rn);
                            tg.push_back({"record_end", jstr(r.end_name)});
                            R->violation(sub, fmt("record-smaller:%s:%s", END_NAME[e], c07::JOIN_NAME[j]), tg, member_json(sp, m),
                                         fmt("%d sample(s) covered by the source to_polygons lie outside the region denoted by the re-read PATH record (end code %s, extensions %.4f/%.4f, hw %.4f); first: %s", bad_out, r.end_name.c_str(), r.ext_s, r.ext_e, r.hw, describe_sample(ro, f_out, e, c07::J_MITER, G_REC).c_str()),
                                         creplay(m));
                        }
                    }
                }
            }
        }
    }
}

// ----------------------------------------------------------------------- spine families
typedef std::pair<int, int> IV;
static std::vector<IV> vec_set(int which) {
    std::vector<IV> v;
    if (which == 0) {  // every lattice vector
        for (int dx = -4; dx <= 4; dx++) for (int dy = -4; dy <= 4; dy++) if (dx || dy) v.push_back({dx, dy});
    } else {           // 8 lattice directions + the arctan(1/2) family (16), optionally the doubled axis/diagonal steps (24)
        for (int dx = -2; dx <= 2; dx++) for (int dy = -2; dy <= 2; dy++) {
            if (!dx && !dy) continue;
            int ax = abs(dx), ay = abs(dy);
            bool unit = ax <= 1 && ay <= 1, knight = (ax == 2 && ay == 1) || (ax == 1 && ay == 2), dbl = (ax == 2 || ay == 2) && (ax == ay || !ax || !ay);
            if (which == 3 ? unit : (unit || knight || (which == 2 && dbl))) v.push_back({dx, dy});
        }
    }
    // shortest first
    std::stable_sort(v.begin(), v.end(), [](IV a, IV b) { return a.first * a.first + a.second * a.second < b.first * b.first + b.second * b.second; });
    return v;
}
// need_doubled: keep only polylines with at least one doubled axis/diagonal step ((2,0),(0,2),(2,2) families)
static void enum_spines(int npts, const std::vector<IV>& vs, std::vector<std::vector<V>>& out, bool need_doubled = false) {
    std::vector<int> idx(npts - 1, 0);
    int64_t total = 1;
    for (int i = 0; i < npts - 1; i++) total *= (int64_t)vs.size();
    for (int64_t c = 0; c < total; c++) {
        int64_t t = c;
        for (int i = npts - 2; i >= 0; i--) { idx[i] = (int)(t % vs.size()); t /= vs.size(); }
        std::vector<IV> p(npts);
        p[0] = {0, 0};
        bool ok = true;
        for (int i = 1; i < npts; i++) p[i] = {p[i - 1].first + vs[idx[i - 1]].first, p[i - 1].second + vs[idx[i - 1]].second};
        for (int i = 1; ok && i + 1 < npts; i++) {
            IV a = vs[idx[i - 1]], b = vs[idx[i]];
            int cr = a.first * b.second - a.second * b.first, dt = a.first * b.first + a.second * b.second;
            if (cr == 0 && dt < 0) ok = false;  // reversal
        }
        int x0 = 0, x1 = 0, y0 = 0, y1 = 0;
        for (auto& q : p) { x0 = std::min(x0, q.first); x1 = std::max(x1, q.first); y0 = std::min(y0, q.second); y1 = std::max(y1, q.second); }
        if (x1 - x0 > 4 || y1 - y0 > 4) ok = false;  // does not fit the 5x5 lattice
        if (ok && need_doubled) {
            bool any = false;
            for (int i = 0; i < npts - 1; i++) {
                int ax = abs(vs[idx[i]].first), ay = abs(vs[idx[i]].second);
                if ((ax == 2 || ay == 2) && (ax == ay || !ax || !ay)) any = true;
            }
            if (!any) ok = false;
        }
        if (!ok) continue;
        std::vector<V> s;
        for (auto& q : p) s.push_back(V{4.0 * (q.first - x0), 4.0 * (q.second - y0)});
        out.push_back(s);
    }
}

static void run_family(const std::string& name, const std::string& desc, const std::vector<std::vector<V>>& spines, const GroupOpts& opt, double timeout_s,
                       const std::vector<int>& bends = {0, 1, 2}) {
    if (getenv("C07_FAM") && name.find(getenv("C07_FAM")) == std::string::npos) return;  // development aid
    auto body = [&](int64_t i) {
        static const char* fw = getenv("C07_W");  // development aids
        static const char* fb = getenv("C07_B");
        for (int w = 0; w < 3; w++) for (int oc = 0; oc < 4; oc++) for (int b : bends) {
            if ((fw && atoi(fw) != w) || (fb && atoi(fb) != b)) continue;
            run_group(spines[i], w, oc, b, opt);
        }
    };
    auto describe = [&](int64_t i) { return jobj({{"spine", jpts(spines[i])}, {"then", jstr("all width x offset x bend x join x end members of this spine")}}); };
    auto replay_of = [&](int64_t i) { return fmt("sub=outline pts=%s%s", pts_str(spines[i]).c_str(), opt.do_c ? " c=1" : ""); };
    bool ok = parallel_for(*R, (int64_t)spines.size(), body, describe, replay_of, PFOptions{timeout_s, "outline", true});
    if (!spines.empty()) {
        Member m{2, 3, bends.back(), c07::J_ROUND, 3};
        R->sample("outline", member_json(spines[spines.size() / 2], m));
    }
    std::string bl;
    for (int b : bends) bl += std::string(bl.empty() ? "" : ", ") + BEND_NAME[b];
    R->bound("outline." + name, desc + fmt("; %zu spines x 3 widths x 4 offset configurations x bends {%s} x 4 joins x 5 ends; sample spacing %.3g%s", spines.size(), bl.c_str(), opt.h, opt.do_c ? "; PATH records (gds+oas) for joins natural/miter" : ""), ok, (int64_t)spines.size() * 240 * (int64_t)bends.size());
}

// ----------------------------------------------------------------------- construction through FlexPath::commands
// For every spine: (1) complete command list, widths {1,2}; (2) lists stopping early after k = 1..n-1 valid instructions
// (unknown letter / last argument missing) followed by immediate outline + PATH export of the k+1 points that exist;
// (3) the same lists with k = 1..n-2 followed by segment(remaining points, width 2 -> 1): the taper must stay inside
// that last call.  Offsets {0, two elements +1.5/-1.5}, no bends, all joins and ends.
static void run_cmd_family(const std::string& name, const std::string& desc, const std::vector<std::vector<V>>& spines, const GroupOpts& base) {
    if (getenv("C07_FAM") && name.find(getenv("C07_FAM")) == std::string::npos) return;  // development aid
    auto body = [&](int64_t i) {
        const std::vector<V>& sp = spines[i];
        const int n = (int)sp.size();
        for (int oc : {0, 3}) {
            GroupOpts o = base;
            o.bd.mode = 1;
            for (int w : {0, 1}) run_group(sp, w, oc, 0, o);
            for (int variant = 0; variant < 2; variant++) {
                for (int k = 1; k <= n - 1; k++) {
                    o.bd.mode = 2; o.bd.k = k; o.bd.variant = variant;
                    std::vector<V> prefix(sp.begin(), sp.begin() + k + 1);
                    run_group(prefix, 1, oc, 0, o);
                }
                for (int k = 1; k <= n - 2; k++) {
                    o.bd.mode = 3; o.bd.k = k; o.bd.variant = variant;
                    run_group(sp, 2, oc, 0, o);
                }
            }
        }
    };
    auto describe = [&](int64_t i) { return jobj({{"spine", jpts(spines[i])}, {"then", jstr("all command-list constructions of this spine")}}); };
    auto replay_of = [&](int64_t i) { return fmt("sub=outline pts=%s cm=1 w=1 oc=3 bend=0%s", pts_str(spines[i]).c_str(), base.do_c ? " c=1" : ""); };
    bool ok = parallel_for(*R, (int64_t)spines.size(), body, describe, replay_of, PFOptions{60, "outline", true});
    if (!spines.empty()) {
        Member m{2, 3, 0, c07::J_MITER, 2, Build{3, 1, 1}};
        R->sample("outline", member_json(spines[spines.size() / 2], m));
    }
    R->bound("outline." + name, desc + "; per spine: complete command list (widths 1, 2), lists stopping after k valid instructions (unknown letter / missing last argument) + immediate outline and PATH export, the same + segment(rest, width 2->1); offsets {0, two elements}; all joins and ends" + (base.do_c ? "; PATH records (gds+oas)" : ""), ok, (int64_t)spines.size());
}

// ----------------------------------------------------------------------- Extended end alphabet for PATH records
// Start x end extension over {0, half width exactly, 0.35 (positive, != half width), -0.5 (legal: the path is cut
// short)}: all 16 pairs, constant width 1 or 2, one element or two (+1.5/-1.5), join natural, no bends.  For every
// pair: the source outline against the centre-line oracle, then write_gds / write_oas, re-read, and the record must
// carry the same effective extensions (flush = (0,0), half-width = (hw,hw)) and denote the region to_polygons covers.
static const char* const EXTV_NAME[4] = {"0", "hw", "0.35", "-0.5"};
static double extv(int k, double hw) { return k == 0 ? 0 : k == 1 ? hw : k == 2 ? 0.35 : -0.5; }
static void run_ext_group(const std::vector<V>& sp, int wcfg, int ocfg, bool verbose) {
    const int n = (int)sp.size(), nel = group_nel(ocfg);
    const double hw = wcfg == 0 ? 0.5 : 1.0;
    R->count("path_ext_members_enumerated", 16);
    for (int batch = 0; batch < 2; batch++) {
        // 8 pairs per batch (the classification masks hold 8 end variants)
        std::vector<std::pair<int, int>> pairs;
        for (int q = batch * 8; q < batch * 8 + 8; q++) pairs.push_back({q / 4, q % 4});
        std::vector<ElemOracle> eo(nel);
        bool dropped = false;
        for (int el = 0; el < nel && !dropped; el++) {
            c07::ElementInput& in = eo[el].in;
            in.spine = sp;
            in.hw.assign(n, hw);
            in.off.assign(n, group_off(ocfg, el));
            for (auto& pr : pairs) in.ends.push_back(c07::EndVar{false, false, extv(pr.first, hw), extv(pr.second, hw)});
            eo[el].o = c07::build(in);
            if (eo[el].o.status != c07::OK) dropped = true;
        }
        if (dropped) { R->count("path_ext_members_dropped", 8); continue; }
        double bx0 = 1e300, by0 = 1e300, bx1 = -1e300, by1 = -1e300;
        unsigned valid = 0xff;
        for (auto& e : eo) { bx0 = std::min(bx0, e.o.bx0); by0 = std::min(by0, e.o.by0); bx1 = std::max(bx1, e.o.bx1); by1 = std::max(by1, e.o.by1); valid &= e.o.valid_ends; }
        Grid grid = make_grid(bx0, by0, bx1, by1, 0.25);
        for (auto& e : eo) {
            e.cls.resize(grid.size());
            for (int j = 0; j < grid.ny; j++) for (int i = 0; i < grid.nx; i++) e.cls[(size_t)j * grid.nx + i] = c07::classify(e.o, grid.at(i, j), G, 8);
        }
        auto mjson = [&](int v) {
            return jobj({{"spine", jpts(sp)}, {"width", jstr(WIDTH_NAME[wcfg])}, {"offsets", jstr(OFF_NAME[ocfg])}, {"join", jstr("natural")}, {"simple_path", jbool(true)},
                         {"end", jstr(fmt("extended(%s, %s) = (%.3g, %.3g)", EXTV_NAME[pairs[v].first], EXTV_NAME[pairs[v].second], extv(pairs[v].first, hw), extv(pairs[v].second, hw)))}});
        };
        auto tags = [&](int v, int el, const char* fmtname, const char* what) {
            JFields t = {{"format", jstr(fmtname)}, {"ext_pair", jbool(true)}, {"start_ext", jstr(EXTV_NAME[pairs[v].first])}, {"end_ext", jstr(EXTV_NAME[pairs[v].second])}, {"elements", jint(nel)},
                         {"element", jint(el)}, {"points", jint(n)}, {"what", jstr(what)}};
            return t;
        };
        auto cls_name = [&](const char* what, int v) { return fmt("ext:%s:%s:%s", what, EXTV_NAME[pairs[v].first], EXTV_NAME[pairs[v].second]); };
        std::string replay = fmt("sub=pathext pts=%s w=%d oc=%d", pts_str(sp).c_str(), wcfg, ocfg);
        auto build_path = [&](int v) {
            FlexPath* fp = make_path(sp, wcfg, ocfg, 0, c07::J_NATURAL, 2, true);
            for (int el = 0; el < nel; el++) fp->elements[el].end_extensions = Vec2{extv(pairs[v].first, hw), extv(pairs[v].second, hw)};
            return fp;
        };
        // ---- source outlines
        std::vector<uint8_t> keep[8][2];
        std::vector<int> live;
        for (int v = 0; v < 8; v++) {
            if (!(valid >> v & 1)) { R->count("path_ext_members_dropped"); continue; }
            FlexPath* fp = build_path(v);
            Array<Polygon*> res = {};
            ErrorCode ec = fp->to_polygons(false, 0, res);
            bool ok = ec == ErrorCode::NoError && res.count == (uint64_t)nel;
            if (!ok) R->violation("outline", cls_name("no-polygon", v), tags(v, 0, "-", "no-polygon"), mjson(v), "to_polygons failed", replay);
            for (int el = 0; ok && el < nel; el++) {
                std::vector<V> poly;
                for (uint64_t k = 0; k < res[el]->point_array.count; k++) poly.push_back(V{res[el]->point_array[k].x, res[el]->point_array[k].y});
                coverage(poly, grid, keep[v][el]);
                int bad_mc = 0, bad_mn = 0;
                V f{0, 0};
                for (size_t s2 = 0; s2 < grid.size(); s2++) {
                    const c07::Cls& c = eo[el].cls[s2];
                    bool mc = c.mc >> v & 1, mn = (c.farE >> v & 1) && (c.farJ >> c07::J_NATURAL & 1);
                    if (mc && !keep[v][el][s2]) { if (!bad_mc && !bad_mn) f = grid.at((int)(s2 % grid.nx), (int)(s2 / grid.nx)); bad_mc++; }
                    if (mn && keep[v][el][s2]) { if (!bad_mc && !bad_mn) f = grid.at((int)(s2 % grid.nx), (int)(s2 / grid.nx)); bad_mn++; }
                }
                if (verbose) fprintf(stderr, " ext(%s,%s) element %d polygon: %s\n", EXTV_NAME[pairs[v].first], EXTV_NAME[pairs[v].second], el, pts_str(poly).c_str());
                if (bad_mc || bad_mn)
                    R->violation("outline", cls_name(bad_mc ? "uncovered" : "covered-outside", v), tags(v, el, "-", "outline"), mjson(v),
                                 fmt("%d must-cover sample(s) uncovered, %d must-not sample(s) covered by the polygon of element %d; first: %s", bad_mc, bad_mn, el, describe_sample(eo[el].o, f, v, c07::J_NATURAL, G).c_str()), replay);
            }
            for (uint64_t k = 0; k < res.count; k++) { res[k]->clear(); free_allocation(res[k]); }
            res.clear();
            free_path(fp);
            if (ok) { live.push_back(v); R->count("cases"); R->count("nontrivial"); R->count("path_ext_members_checked"); }
        }
        if (live.empty()) continue;
        // ---- records
        for (int fmt_i = 0; fmt_i < 2; fmt_i++) {
            const bool oas = fmt_i == 1;
            const char* fname = oas ? "oas" : "gds";
            const std::string sub = oas ? "path.oas" : "path.gds";
            std::vector<FlexPath*> paths;
            for (int v : live) paths.push_back(build_path(v));
            std::string file = R->scratch + fmt("/e%d.%s", (int)getpid(), fname);
            if (!write_library(paths, file, oas)) { R->violation(sub, "ext:write-error", tags(live[0], 0, fname, "write"), mjson(live[0]), "writer returned an error", replay); continue; }
            std::vector<PathRecord> recs;
            std::string err;
            bool ok = decode_paths(file, oas, recs, err);
            unlink(file.c_str());
            if (!ok || recs.size() != live.size() * nel) { R->violation(sub, "ext:record-count", tags(live[0], 0, fname, "count"), mjson(live[0]), fmt("expected %zu PATH records, re-read %zu (%s)", live.size() * nel, recs.size(), err.c_str()), replay); continue; }
            for (int el = 0; el < nel; el++) {
                // one record oracle for the batch: same centre line, one end variant per record
                c07::ElementInput rin;
                rin.raw = true;
                rin.spine = recs[el].pts;
                rin.hw.assign(rin.spine.size(), recs[el].hw);
                rin.off.assign(rin.spine.size(), 0.0);
                rin.ends.assign(8, c07::EndVar{false, false, 0, 0});
                bool cl_ok = true;
                for (size_t k = 0; k < live.size(); k++) {
                    const PathRecord& r = recs[k * nel + el];
                    int v = live[k];
                    R->count("cases");
                    R->count("path_ext_records_checked");
                    // centre line and width
                    bool same = r.pts.size() == (size_t)n && fabs(r.hw - hw) <= GRID;
                    for (int i = 0; same && i < n; i++) same = c07::norm(r.pts[i] - eo[el].o.C[i]) <= 1.5 * GRID;
                    if (!same) { R->violation(sub, cls_name("centerline-or-width", v), tags(v, el, fname, "centerline-or-width"), mjson(v), fmt("record centre line %s, hw %.4f", pts_str(r.pts).c_str(), r.hw), replay); cl_ok = false; continue; }
                    // effective extensions carried by the record (flush = (0,0), half-width = (hw,hw))
                    double wu = extv(pairs[v].first, hw), wv = extv(pairs[v].second, hw);
                    if (r.round || fabs(r.ext_s - wu) > GRID || fabs(r.ext_e - wv) > GRID)
                        R->violation(sub, cls_name("end-values", v), tags(v, el, fname, "end-values"), mjson(v),
                                     fmt("written extended(%.4g, %.4g); the re-read record has end code %s with effective extensions (%.4g, %.4g)", wu, wv, r.end_name.c_str(), r.round ? 0.0 : r.ext_s, r.round ? 0.0 : r.ext_e), replay);
                    rin.ends[v] = c07::EndVar{r.round, r.round, r.round ? 0 : r.ext_s, r.round ? 0 : r.ext_e};
                }
                if (!cl_ok) continue;
                c07::Oracle ro = c07::build(rin);
                std::vector<c07::Cls> rcls(grid.size());
                for (int jj = 0; jj < grid.ny; jj++) for (int ii = 0; ii < grid.nx; ii++) rcls[(size_t)jj * grid.nx + ii] = c07::classify(ro, grid.at(ii, jj), G_REC, 8);
                for (int v : live) {
                    if (!(ro.valid_ends >> v & 1) || keep[v][el].size() != grid.size()) continue;
                    int bad_in = 0, bad_out = 0;
                    V f{0, 0};
                    for (size_t s2 = 0; s2 < grid.size(); s2++) {
                        const c07::Cls& c = rcls[s2];
                        bool mc = c.mc >> v & 1, mn = (c.farE >> v & 1) && (c.farJ >> c07::J_MITER & 1);
                        if (mc && !keep[v][el][s2]) { if (!bad_in && !bad_out) f = grid.at((int)(s2 % grid.nx), (int)(s2 / grid.nx)); bad_in++; }
                        if (mn && keep[v][el][s2]) { if (!bad_in && !bad_out) f = grid.at((int)(s2 % grid.nx), (int)(s2 / grid.nx)); bad_out++; }
                    }
                    R->count("path_ext_region_comparisons");
                    if (bad_in || bad_out)
                        R->violation(sub, cls_name(bad_in ? "record-larger" : "record-smaller", v), tags(v, el, fname, "region"), mjson(v),
                                     fmt("%d sample(s) inside the re-read record's region not covered by the source to_polygons, %d covered outside it; first (%.4f,%.4f)", bad_in, bad_out, f.x, f.y), replay);
                }
            }
        }
    }
}
static void run_ext_family(const std::string& name, const std::string& desc, const std::vector<std::vector<V>>& spines) {
    if (getenv("C07_FAM") && name.find(getenv("C07_FAM")) == std::string::npos) return;  // development aid
    auto body = [&](int64_t i) { for (int w : {0, 1}) for (int oc : {0, 3}) run_ext_group(spines[i], w, oc, false); };
    auto describe = [&](int64_t i) { return jobj({{"spine", jpts(spines[i])}, {"then", jstr("16 extended(start,end) pairs x widths {1,2} x {one, two elements} x {gds, oas}")}}); };
    auto replay_of = [&](int64_t i) { return fmt("sub=pathext pts=%s", pts_str(spines[i]).c_str()); };
    bool ok = parallel_for(*R, (int64_t)spines.size(), body, describe, replay_of, PFOptions{60, "path.oas", true});
    R->bound("path.ext." + name, desc + "; simple paths x widths {1, 2} x {one element, two elements +1.5/-1.5} x extended(start, end) with start, end in {0, hw, 0.35, -0.5} (16 pairs) x {gds, oas}: source outline, record centre line/width, effective extensions, region", ok, (int64_t)spines.size() * 64);
}

// ----------------------------------------------------------------------- Manhattan / octangular / general centre lines
// OASIS stores a PATH centre line as a point list of type 0/1 (alternating Manhattan, H- or V-first), 2 (Manhattan),
// 3 (octangular) or 4/5 (general).  Explicit spine families make every type occur for OPEN lists with both parities:
//   * every non-reversing sequence of 1..5 axis-parallel steps (includes repeated directions = collinear segments),
//   * every strictly alternating H/V sequence of 6 and 7 steps (staircases, spirals, both first directions),
//   * 8-direction sequences of 1..3 steps with a diagonal, 45-degree alternations (each step turned +-45 degrees)
//     of 4 and 5 steps, and 2-step sequences starting with a (2,1)-type step (general lists).
// Simple paths, width 1, one element / one offset element / two elements, end flush (thorough: also extended);
// written with write_gds / write_oas, re-read: same centre line point for point, same width/end, same region.
struct StepSpine { std::vector<V> pts; std::string kind; };
static void manh_spines(bool thorough, std::vector<StepSpine>& out) {
    const int AX[4][2] = {{1, 0}, {0, 1}, {-1, 0}, {0, -1}};
    const int D8[8][2] = {{1, 0}, {1, 1}, {0, 1}, {-1, 1}, {-1, 0}, {-1, -1}, {0, -1}, {1, -1}};
    auto emit = [&](const std::vector<std::pair<int, int>>& steps, int scheme) {
        StepSpine sp;
        double x = 0, y = 0;
        sp.pts.push_back(V{0, 0});
        bool all_axis = true, all_oct = true, alternating = true;
        for (size_t i = 0; i < steps.size(); i++) {
            double len = scheme == 0 ? 8.0 : 4.0 * (1 + (int)i / 2);
            int dx = steps[i].first, dy = steps[i].second;
            x += len * dx; y += len * dy;
            sp.pts.push_back(V{x, y});
            bool axis = dx == 0 || dy == 0, oct = axis || abs(dx) == abs(dy);
            all_axis &= axis; all_oct &= oct;
            if (i > 0) { bool ph = steps[i - 1].second == 0, h = dy == 0; if (ph == h) alternating = false; }
        }
        sp.kind = !all_oct ? "general" : !all_axis ? "octangular" : (alternating ? (steps[0].second == 0 ? "alternating-H-first" : "alternating-V-first") : "manhattan");
        out.push_back(sp);
    };
    for (int scheme = 0; scheme < (thorough ? 2 : 1); scheme++) {
        // axis-parallel, non-reversing, 1..5 steps
        for (int k = 1; k <= 5; k++) {
            int total = 1;
            for (int i = 0; i < k; i++) total *= 4;
            for (int c = 0; c < total; c++) {
                std::vector<std::pair<int, int>> st;
                int t = c;
                bool ok = true;
                for (int i = 0; i < k; i++) {
                    int d = t % 4; t /= 4;
                    if (i > 0 && AX[d][0] == -st.back().first && AX[d][1] == -st.back().second) ok = false;
                    st.push_back({AX[d][0], AX[d][1]});
                }
                if (ok) emit(st, scheme);
            }
        }
        // strictly alternating, 6 and 7 steps
        for (int k = 6; k <= 7; k++)
            for (int first = 0; first < 2; first++)
                for (int signs = 0; signs < (1 << k); signs++) {
                    std::vector<std::pair<int, int>> st;
                    for (int i = 0; i < k; i++) {
                        int sg = (signs >> i & 1) ? 1 : -1;
                        bool h = (i % 2 == 0) == (first == 0);
                        st.push_back(h ? std::make_pair(sg, 0) : std::make_pair(0, sg));
                    }
                    emit(st, scheme);
                }
    }
    // 8 directions, 1..3 steps, at least one diagonal
    for (int k = 1; k <= 3; k++) {
        int total = 1;
        for (int i = 0; i < k; i++) total *= 8;
        for (int c = 0; c < total; c++) {
            std::vector<std::pair<int, int>> st;
            int t = c;
            bool ok = true, diag = false;
            for (int i = 0; i < k; i++) {
                int d = t % 8; t /= 8;
                if (i > 0 && D8[d][0] == -st.back().first && D8[d][1] == -st.back().second) ok = false;
                if (D8[d][0] && D8[d][1]) diag = true;
                st.push_back({D8[d][0], D8[d][1]});
            }
            if (ok && diag) emit(st, 0);
        }
    }
    // 45-degree alternations, 4 and 5 steps
    for (int k = 4; k <= 5; k++)
        for (int d0 = 0; d0 < 8; d0++)
            for (int turns = 0; turns < (1 << (k - 1)); turns++) {
                std::vector<std::pair<int, int>> st;
                int d = d0;
                st.push_back({D8[d][0], D8[d][1]});
                for (int i = 0; i < k - 1; i++) { d = (d + ((turns >> i & 1) ? 1 : 7)) % 8; st.push_back({D8[d][0], D8[d][1]}); }
                emit(st, 0);
            }
    // general: a (2,1)-type step followed by one of the 8 directions
    for (int a = 0; a < 8; a++) {
        int kx = (a & 1) ? 2 : 1, ky = (a & 1) ? 1 : 2;
        if (a & 2) kx = -kx;
        if (a & 4) ky = -ky;
        for (int d = 0; d < 8; d++) {
            if (D8[d][0] * kx + D8[d][1] * ky < 0 && D8[d][0] * ky - D8[d][1] * kx == 0) continue;
            emit({{kx, ky}, {D8[d][0], D8[d][1]}}, 0);
        }
        emit({{kx, ky}}, 0);
    }
}
static void run_manh_member(const StepSpine& ss, int ocfg, int end, double h, bool verbose) {
    const std::vector<V>& sp = ss.pts;
    const int n = (int)sp.size(), nel = group_nel(ocfg), nseg = n - 1;
    auto mjson = [&]() { return jobj({{"spine", jpts(sp)}, {"centre_line_kind", jstr(ss.kind)}, {"segments", jint(nseg)}, {"width", jstr("1")}, {"offsets", jstr(OFF_NAME[ocfg])}, {"end", jstr(END_NAME[end])}, {"simple_path", jbool(true)}}); };
    std::string replay = fmt("sub=pathmanh pts=%s oc=%d end=%d kind=%s", pts_str(sp).c_str(), ocfg, end, ss.kind.c_str());
    std::vector<c07::Oracle> orc(nel);
    bool all_ok = true;
    for (int el = 0; el < nel; el++) {
        c07::ElementInput in;
        in.spine = sp;
        in.hw.assign(n, 0.5);
        in.off.assign(n, group_off(ocfg, el));
        in.ends = end_variants(0.5, 0.5);
        orc[el] = c07::build(in);  // the corner points C are valid even when the predicate rejects the member
        if (orc[el].status != c07::OK) all_ok = false;
    }
    std::vector<std::vector<V>> spoly(nel);
    {
        FlexPath* fp = make_path(sp, 0, ocfg, 0, c07::J_NATURAL, end, true);
        Array<Polygon*> res = {};
        ErrorCode ec = fp->to_polygons(false, 0, res);
        bool ok = ec == ErrorCode::NoError && res.count == (uint64_t)nel;
        for (int el = 0; ok && el < nel; el++)
            for (uint64_t k = 0; k < res[el]->point_array.count; k++) spoly[el].push_back(V{res[el]->point_array[k].x, res[el]->point_array[k].y});
        for (uint64_t k = 0; k < res.count; k++) { res[k]->clear(); free_allocation(res[k]); }
        res.clear();
        free_path(fp);
        if (!ok) { R->violation("path.gds", "manh:no-polygon", {{"segments", jint(nseg)}}, mjson(), "to_polygons failed", replay); return; }
    }
    for (int fmt_i = 0; fmt_i < 2; fmt_i++) {
        const bool oas = fmt_i == 1;
        const std::string sub = oas ? "path.oas" : "path.gds";
        auto tags = [&](int el, const char* what) {
            double off = group_off(ocfg, el);
            JFields t = {{"format", jstr(oas ? "oas" : "gds")}, {"manh_family", jbool(true)}, {"centre_line_kind", jstr(ss.kind)}, {"segments", jint(nseg)}, {"parity", jstr(nseg % 2 ? "odd" : "even")},
                         {"elements", jint(nel)}, {"element", jint(el)}, {"offset_sign", jstr(off > 0 ? "+" : off < 0 ? "-" : "0")}, {"end", jstr(END_NAME[end])}, {"what", jstr(what)}};
            return t;
        };
        auto cname = [&](const char* what) { return fmt("manh:%s:%s:%s", what, ss.kind.c_str(), nseg % 2 ? "odd" : "even"); };
        std::vector<FlexPath*> paths;
        paths.push_back(make_path(sp, 0, ocfg, 0, c07::J_NATURAL, end, true));
        std::string file = R->scratch + fmt("/m%d.%s", (int)getpid(), oas ? "oas" : "gds");
        if (!write_library(paths, file, oas)) { R->violation(sub, cname("write-error"), tags(0, "write"), mjson(), "writer returned an error", replay); continue; }
        std::vector<PathRecord> recs;
        std::string err;
        bool ok = decode_paths(file, oas, recs, err);
        unlink(file.c_str());
        if (!ok || recs.size() != (size_t)nel) { R->violation(sub, cname("record-count"), tags(0, "count"), mjson(), fmt("expected %d PATH records, re-read %zu (%s)", nel, recs.size(), err.c_str()), replay); continue; }
        for (int el = 0; el < nel; el++) {
            const PathRecord& r = recs[el];
            R->count("cases");
            R->count("nontrivial");
            R->count("path_manh_records_checked");
            R->count("path_manh_records:" + ss.kind + (nseg % 2 ? ":odd" : ":even"));
            if (verbose) fprintf(stderr, " %s element %d record: hw %.4f end %s centre %s\n", sub.c_str(), el, r.hw, r.end_name.c_str(), pts_str(r.pts).c_str());
            if (r.pts.size() != (size_t)n) {
                R->violation(sub, cname("point-count"), tags(el, "point-count"), mjson(), fmt("PATH record re-read with %zu centre-line points, element centre line has %d; record: %s", r.pts.size(), n, pts_str(r.pts).c_str()), replay);
                continue;
            }
            int first_bad = -1;
            for (int i = 0; i < n && first_bad < 0; i++) if (c07::norm(r.pts[i] - orc[el].C[i]) > 1.5 * GRID) first_bad = i;
            if (first_bad >= 0) {
                R->violation(sub, cname("point"), tags(el, "point"), mjson(), fmt("centre-line point %d re-read as (%.4f,%.4f), expected (%.4f,%.4f)", first_bad, r.pts[first_bad].x, r.pts[first_bad].y, orc[el].C[first_bad].x, orc[el].C[first_bad].y), replay);
                continue;
            }
            bool end_ok = fabs(r.hw - 0.5) <= GRID && !r.round && fabs(r.ext_s - (end == 2 ? 1 : 0)) <= GRID && fabs(r.ext_e - (end == 2 ? 0.5 : 0)) <= GRID;
            if (!end_ok) { R->violation(sub, cname("width-or-end"), tags(el, "width-or-end"), mjson(), fmt("record hw %.4f end %s extensions %.4f/%.4f", r.hw, r.end_name.c_str(), r.ext_s, r.ext_e), replay); continue; }
            if (!all_ok) { R->count("path_manh_region_skipped_degenerate"); continue; }
            c07::ElementInput rin;
            rin.raw = true;
            rin.spine = r.pts;
            rin.hw.assign(n, r.hw);
            rin.off.assign(n, 0.0);
            rin.ends.assign(1, c07::EndVar{false, false, r.ext_s, r.ext_e});
            c07::Oracle ro = c07::build(rin);
            Grid g = make_grid(ro.bx0, ro.by0, ro.bx1, ro.by1, h);
            std::vector<uint8_t> cov;
            coverage(spoly[el], g, cov);
            int bad_in = 0, bad_out = 0;
            V f{0, 0};
            for (int j = 0; j < g.ny; j++)
                for (int i = 0; i < g.nx; i++) {
                    V q = g.at(i, j);
                    c07::Cls cl = c07::classify(ro, q, G_REC, 1);
                    bool mc = cl.mc & 1, mn = (cl.farE & 1) && (cl.farJ >> c07::J_MITER & 1), cv = cov[(size_t)j * g.nx + i];
                    if (mc && !cv) { if (!bad_in && !bad_out) f = q; bad_in++; }
                    if (mn && cv) { if (!bad_in && !bad_out) f = q; bad_out++; }
                }
            R->count("path_manh_region_comparisons");
            if (bad_in || bad_out)
                R->violation(sub, cname("region"), tags(el, "region"), mjson(), fmt("%d sample(s) inside the record's region not covered by the source polygon, %d covered outside it; first (%.4f,%.4f)", bad_in, bad_out, f.x, f.y), replay);
        }
    }
}
static void run_manh(bool thorough) {
    if (getenv("C07_FAM") && std::string("manh").find(getenv("C07_FAM")) == std::string::npos) return;  // development aid
    std::vector<StepSpine> sps;
    manh_spines(thorough, sps);
    const std::vector<int> ocs = thorough ? std::vector<int>{0, 1, 2, 3} : std::vector<int>{0, 3};
    const std::vector<int> ends = thorough ? std::vector<int>{0, 2} : std::vector<int>{0};
    const double h = thorough ? 0.25 : 0.5;
    auto body = [&](int64_t i) { for (int oc : ocs) for (int e : ends) run_manh_member(sps[i], oc, e, h, false); };
    auto describe = [&](int64_t i) { return jobj({{"spine", jpts(sps[i].pts)}, {"centre_line_kind", jstr(sps[i].kind)}}); };
    auto replay_of = [&](int64_t i) { return fmt("sub=pathmanh pts=%s oc=3 end=0 kind=%s", pts_str(sps[i].pts).c_str(), sps[i].kind.c_str()); };
    bool ok = parallel_for(*R, (int64_t)sps.size(), body, describe, replay_of, PFOptions{60, "path.oas", true});
    std::map<std::string, int> kinds;
    for (auto& sp : sps) kinds[sp.kind + ((sp.pts.size() - 1) % 2 ? ":odd" : ":even")]++;
    std::string ks;
    for (auto& kv : kinds) ks += fmt("%s%s x%d", ks.empty() ? "" : ", ", kv.first.c_str(), kv.second);
    if (!sps.empty()) R->sample("path.oas", jobj({{"spine", jpts(sps[sps.size() / 3].pts)}, {"centre_line_kind", jstr(sps[sps.size() / 3].kind)}}));
    R->bound("path.manh", fmt("simple paths on %zu explicit centre lines (%s; step 8%s) x offsets {%s} x end {%s} x {gds, oas}: record centre line point for point, width/end, region (spacing %.3g)", sps.size(), ks.c_str(),
                              thorough ? " and growing 4,4,8,8,12,12,16" : "", thorough ? "0, +1.5, -1.5, two elements" : "0, two elements", thorough ? "flush, extended(1,0.5)" : "flush", h), ok, (int64_t)sps.size() * (int64_t)ocs.size() * (int64_t)ends.size() * 2);
}

// ----------------------------------------------------------------------- OASIS PATH records far from the origin
// Library unit 1e-6, precision 1e-12: one database unit = 1e-6 user units, so 2^31 database units = 2147.48 user units.
// Simple FlexPaths (offset 0 and two elements +1.5/-1.5) and simple RobustPaths (one element) of a few shapes
// (alternating Manhattan with odd and even step counts, Manhattan with a repeated direction, octangular, general,
// single step) start at (+-2500, +-3100); three more start near the origin and consist of one step of 3000 user
// units (horizontal, diagonal, general), so that a single 1-/2-/3-/g-delta exceeds 2^31.  OASIS only: GDSII
// coordinates are 32-bit database units and cannot hold these values at this precision.  The re-read record must
// have the source's centre line (each record point within 1.5 database units of the source centre line and vice
// versa; FlexPath: point for point), the same half width and end code and, for the short shapes, the region of
// the source to_polygons.
struct FarShape { const char* name; std::vector<V> rel; bool is_long; };
static std::vector<FarShape> far_shapes() {
    return {
        {"manhattan-alternating-3", {{0, 0}, {8, 0}, {8, 8}, {16, 8}}, false},
        {"manhattan-alternating-4", {{0, 0}, {0, 8}, {-8, 8}, {-8, 16}, {-16, 16}}, false},
        {"manhattan-repeated", {{0, 0}, {8, 0}, {16, 0}, {16, -8}}, false},
        {"octangular", {{0, 0}, {8, 8}, {16, 8}, {24, 0}}, false},
        {"general", {{0, 0}, {8, 4}, {12, 12}, {4, 16}}, false},
        {"single-step", {{0, 0}, {-8, 4}}, false},
        {"long-horizontal-delta", {{1, 2}, {3001, 2}}, true},
        {"long-diagonal-delta", {{1, 2}, {-2999, 3002}}, true},
        {"long-general-delta", {{1, 2}, {3001, -1498}}, true},
    };
}
static void run_far_member(int shape_i, int origin_i, int cls, int ocfg, bool verbose) {
    const double FGRID = 1e-6;
    const FarShape sh = far_shapes()[shape_i];
    const V org = sh.is_long ? V{0, 0} : V{(origin_i & 1) ? -2500.0 : 2500.0, (origin_i & 2) ? -3100.0 : 3100.0};
    std::vector<V> sp;
    for (auto& q : sh.rel) sp.push_back(q + org);
    const int n = (int)sp.size(), nel = cls == 1 ? 1 : group_nel(ocfg);
    const char* cname = cls == 1 ? "RobustPath" : "FlexPath";
    auto mjson = [&]() { return jobj({{"class", jstr(cname)}, {"shape", jstr(sh.name)}, {"spine", jpts(sp)}, {"width", jstr("1")}, {"offsets", jstr(cls == 1 ? "0" : OFF_NAME[ocfg])}, {"end", jstr("flush")}, {"unit", jnum(1e-6)}, {"precision", jnum(1e-12)}, {"simple_path", jbool(true)}}); };
    std::string replay = fmt("sub=pathfar shape=%d origin=%d cls=%d oc=%d", shape_i, origin_i, cls, ocfg);
    auto tags = [&](int el, const char* what) {
        JFields t = {{"format", jstr("oas")}, {"far", jbool(true)}, {"class", jstr(cname)}, {"shape", jstr(sh.name)}, {"origin_quadrant", jint(sh.is_long ? -1 : origin_i)}, {"elements", jint(nel)}, {"element", jint(el)}, {"what", jstr(what)}};
        return t;
    };
    auto vname = [&](const char* what) { return fmt("far:%s:%s:%s", what, cname, sh.name); };
    // expected centre lines and source polygons
    std::vector<std::vector<V>> centre(nel), spoly(nel);
    Library lib = {};
    lib.init("LIB", 1e-6, 1e-12);
    Cell* cell = (Cell*)allocate_clear(sizeof(Cell));
    cell->name = copy_string("C", NULL);
    lib.cell_array.append(cell);
    bool src_ok = true;
    if (cls == 0) {
        for (int el = 0; el < nel; el++) {
            c07::ElementInput in;
            in.spine = sp;
            in.hw.assign(n, 0.5);
            in.off.assign(n, group_off(ocfg, el));
            in.ends = end_variants(0.5, 0.5);
            centre[el] = c07::build(in).C;
        }
        FlexPath* fp = make_path(sp, 0, ocfg, 0, c07::J_NATURAL, 0, true);
        Array<Polygon*> res = {};
        src_ok = fp->to_polygons(false, 0, res) == ErrorCode::NoError && res.count == (uint64_t)nel;
        for (int el = 0; src_ok && el < nel; el++)
            for (uint64_t k = 0; k < res[el]->point_array.count; k++) spoly[el].push_back(V{res[el]->point_array[k].x, res[el]->point_array[k].y});
        for (uint64_t k = 0; k < res.count; k++) { res[k]->clear(); free_allocation(res[k]); }
        res.clear();
        cell->flexpath_array.append(fp);
    } else {
        centre[0] = sp;
        RobustPath* rp = (RobustPath*)allocate_clear(sizeof(RobustPath));
        rp->init(Vec2{sp[0].x, sp[0].y}, 1, 1.0, 0.0, TOL, 1000, make_tag(1, 0));
        rp->simple_path = true;
        rp->scale_width = true;
        for (int i = 1; i < n; i++) rp->segment(Vec2{sp[i].x, sp[i].y}, NULL, NULL, false);
        Array<Polygon*> res = {};
        src_ok = rp->to_polygons(false, 0, res) == ErrorCode::NoError && res.count == 1;
        if (src_ok) for (uint64_t k = 0; k < res[0]->point_array.count; k++) spoly[0].push_back(V{res[0]->point_array[k].x, res[0]->point_array[k].y});
        for (uint64_t k = 0; k < res.count; k++) { res[k]->clear(); free_allocation(res[k]); }
        res.clear();
        cell->robustpath_array.append(rp);
    }
    std::string file = R->scratch + fmt("/f%d.oas", (int)getpid());
    ErrorCode wec = lib.write_oas(file.c_str(), 0, 0, 0);
    lib.free_all();
    if (!src_ok) { R->violation("path.oas", vname("no-polygon"), tags(0, "no-polygon"), mjson(), "to_polygons of the source failed", replay); unlink(file.c_str()); return; }
    if (wec != ErrorCode::NoError) { R->violation("path.oas", vname("write-error"), tags(0, "write"), mjson(), fmt("write_oas returned %d", (int)wec), replay); unlink(file.c_str()); return; }
    std::vector<PathRecord> recs;
    std::string err;
    bool ok = decode_paths(file, true, recs, err);
    unlink(file.c_str());
    if (!ok || recs.size() != (size_t)nel) { R->violation("path.oas", vname("record-count"), tags(0, "count"), mjson(), fmt("expected %d PATH records, re-read %zu (%s)", nel, recs.size(), err.c_str()), replay); return; }
    for (int el = 0; el < nel; el++) {
        const PathRecord& r = recs[el];
        R->count("cases");
        R->count("nontrivial");
        R->count("path_far_records_checked");
        if (verbose) fprintf(stderr, " %s element %d record: hw %.7f end %s centre %s\n  expected centre %s\n", cname, el, r.hw, r.end_name.c_str(), pts_str(r.pts).c_str(), pts_str(centre[el]).c_str());
        const double ptol = 1.5 * FGRID + 1e-9;  // database grid + generous double rounding (ulp of 3e3 is 4.5e-13)
        double worst = 0;
        bool bad = r.pts.size() < 2;
        if (!bad) {
            for (auto& q : r.pts) { double d = 1e300; for (size_t t = 0; t + 1 < centre[el].size(); t++) d = std::min(d, c07::dist_seg(centre[el][t], centre[el][t + 1], q)); worst = std::max(worst, d); }
            for (auto& q : centre[el]) { double d = 1e300; for (size_t t = 0; t + 1 < r.pts.size(); t++) d = std::min(d, c07::dist_seg(r.pts[t], r.pts[t + 1], q)); worst = std::max(worst, d); }
            if (worst > ptol) bad = true;
            if (c07::norm(r.pts[0] - centre[el][0]) > ptol || c07::norm(r.pts.back() - centre[el].back()) > ptol) bad = true;
            if (cls == 0) {
                if (r.pts.size() != centre[el].size()) bad = true;
                for (size_t i = 0; !bad && i < r.pts.size(); i++) if (c07::norm(r.pts[i] - centre[el][i]) > ptol) bad = true;
            }
        }
        if (bad) {
            R->violation("path.oas", vname("centerline"), tags(el, "centerline"), mjson(), fmt("re-read centre line %s differs from the source centre line %s (worst distance %.6g, allowed %.3g)", pts_str(r.pts).c_str(), pts_str(centre[el]).c_str(), worst, ptol), replay);
            continue;
        }
        if (fabs(r.hw - 0.5) > ptol || r.round || fabs(r.ext_s) > ptol || fabs(r.ext_e) > ptol) {
            R->violation("path.oas", vname("width-or-end"), tags(el, "width-or-end"), mjson(), fmt("record hw %.7f end %s extensions %.6f/%.6f; written hw 0.5, flush", r.hw, r.end_name.c_str(), r.ext_s, r.ext_e), replay);
            continue;
        }
        if (sh.is_long) { R->count("path_far_long_delta_records"); continue; }
        c07::ElementInput rin;
        rin.raw = true;
        for (auto& q : r.pts) if (rin.spine.empty() || c07::norm(q - rin.spine.back()) > 1e-9) rin.spine.push_back(q);
        rin.hw.assign(rin.spine.size(), r.hw);
        rin.off.assign(rin.spine.size(), 0.0);
        rin.ends.assign(1, c07::EndVar{false, false, 0, 0});
        c07::Oracle ro = c07::build(rin);
        Grid g = make_grid(ro.bx0, ro.by0, ro.bx1, ro.by1, 0.25);
        std::vector<uint8_t> cov;
        coverage(spoly[el], g, cov);
        int bad_in = 0, bad_out = 0;
        V f{0, 0};
        for (int j = 0; j < g.ny; j++)
            for (int i = 0; i < g.nx; i++) {
                V q = g.at(i, j);
                c07::Cls cl = c07::classify(ro, q, G_REC, 1);
                bool mc = cl.mc & 1, mn = (cl.farE & 1) && (cl.farJ >> c07::J_MITER & 1), cv = cov[(size_t)j * g.nx + i];
                if (mc && !cv) { if (!bad_in && !bad_out) f = q; bad_in++; }
                if (mn && cv) { if (!bad_in && !bad_out) f = q; bad_out++; }
            }
        R->count("path_far_region_comparisons");
        if (bad_in || bad_out) R->violation("path.oas", vname("region"), tags(el, "region"), mjson(), fmt("%d sample(s) inside the record's region not covered by the source polygon, %d covered outside it; first (%.4f,%.4f)", bad_in, bad_out, f.x, f.y), replay);
    }
}
static void run_far() {
    if (getenv("C07_FAM") && std::string("path.oas.far").find(getenv("C07_FAM")) == std::string::npos) return;  // development aid
    struct FM { int shape, origin, cls, oc; };
    std::vector<FM> ms;
    std::vector<FarShape> shapes = far_shapes();
    for (int sh = 0; sh < (int)shapes.size(); sh++)
        for (int org = 0; org < (shapes[sh].is_long ? 1 : 4); org++) {
            ms.push_back({sh, org, 0, 0});
            ms.push_back({sh, org, 0, 3});
            ms.push_back({sh, org, 1, 0});
        }
    auto body = [&](int64_t i) { run_far_member(ms[i].shape, ms[i].origin, ms[i].cls, ms[i].oc, false); };
    auto describe = [&](int64_t i) { return jobj({{"shape", jstr(shapes[ms[i].shape].name)}, {"origin", jint(ms[i].origin)}, {"class", jstr(ms[i].cls ? "RobustPath" : "FlexPath")}}); };
    auto replay_of = [&](int64_t i) { return fmt("sub=pathfar shape=%d origin=%d cls=%d oc=%d", ms[i].shape, ms[i].origin, ms[i].cls, ms[i].oc); };
    bool ok = parallel_for(*R, (int64_t)ms.size(), body, describe, replay_of, PFOptions{60, "path.oas", true});
    R->sample("path.oas", jobj({{"far_shape", jstr("octangular")}, {"start", jstr("(-2500, 3100)")}, {"unit", jnum(1e-6)}, {"precision", jnum(1e-12)}}));
    R->bound("path.oas.far", fmt("OASIS only (GDSII's 32-bit coordinates cannot hold them): unit 1e-6, precision 1e-12; simple FlexPath (offset 0; two elements +1.5/-1.5) and simple RobustPath x %zu shapes (6 short shapes started at (+-2500, +-3100), 3 single steps of 3000 user units from (1,2)): centre line within 1.5 database units, width/end, region for the short shapes", shapes.size()), ok, (int64_t)ms.size());
}

// ----------------------------------------------------------------------- smooth continuations after every section kind
// The spine of a smooth continuation (quadratic_smooth, cubic_smooth, commands t/T/s/S, turn / 'a') starts with the
// reflection of the previous section's last control point about the current point.  Histories: start (init (10,5) +
// segment rel (2,1) | init (0,0) + segment abs (7,-3)) -> predecessor (every section kind that defines a last control
// point, relative and absolute, direct call and command letter) -> continuation (relative and absolute, direct and
// command).  Oracle: the harness keeps (current point P, last control L) by the documented rules, evaluates the exact
// Bezier / arc of every section itself and demands that every appended spine point lies on it (1e-4), that the exact
// curve stays within 2.5 tolerance of the spine polyline, that the section ends at the requested point, and one
// (half width, offset) entry per spine point.
struct SmoothSec { const char* name; int kind; bool rel; bool cmd; };  // kind: see smooth_apply
enum { SK_SEG, SK_SEGARR, SK_H, SK_V, SK_QUAD, SK_CUBIC, SK_CUBICS, SK_QUADS, SK_QUADSARR, SK_BEZIER, SK_TURNP, SK_TURNN };
struct ExactPiece { int deg; V c[4]; V cc; double r, a0, a1; };  // deg 1..3 Bezier, 0 = arc
static V bez(const ExactPiece& e, double t) {
    double u = 1 - t;
    if (e.deg == 0) { double a = e.a0 + (e.a1 - e.a0) * t; return e.cc + V{cos(a), sin(a)} * e.r; }
    if (e.deg == 1) return e.c[0] * u + e.c[1] * t;
    if (e.deg == 2) return e.c[0] * (u * u) + e.c[1] * (2 * u * t) + e.c[2] * (t * t);
    return e.c[0] * (u * u * u) + e.c[1] * (3 * u * u * t) + e.c[2] * (3 * u * t * t) + e.c[3] * (t * t * t);
}
// applies the section to the real path and to the model (P, L); returns the exact pieces
static bool smooth_apply(FlexPath& fp, const SmoothSec& sc, V& P, V& L, std::vector<ExactPiece>& ex, bool& defines_ctrl) {
    const bool rel = sc.rel;
    const V ref = rel ? P : V{0, 0};
    // argument values are given relative to P and converted for the absolute variants
    auto arg = [&](double x, double y) { return rel ? V{x, y} : V{P.x + x, P.y + y}; };
    auto absv = [&](V a) { return a + ref; };
    auto G2 = [](V v) { return Vec2{v.x, v.y}; };
    std::vector<V> a;
    std::vector<CurveInstruction> ci;
    auto cmd = [&](char c) { CurveInstruction x; memset(&x, 0, sizeof x); x.command = c; ci.push_back(x); };
    auto num = [&](double v) { CurveInstruction x; memset(&x, 0, sizeof x); x.number = v; ci.push_back(x); };
    auto numv = [&](V v) { num(v.x); num(v.y); };
    Vec2 buf[4];
    Array<Vec2> pa = {};
    pa.items = buf;
    defines_ctrl = true;
    switch (sc.kind) {
        case SK_SEG: {
            V e = arg(3, 1);
            if (sc.cmd) { cmd(rel ? 'l' : 'L'); numv(e); } else fp.segment(G2(e), NULL, NULL, rel);
            ex.push_back({1, {P, absv(e)}});
            L = P; P = absv(e);
        } break;
        case SK_SEGARR: {
            V e0 = arg(1, 2), e1 = arg(4, 1);
            buf[0] = G2(e0); buf[1] = G2(e1); pa.count = 2;
            fp.segment(pa, NULL, NULL, rel);
            ex.push_back({1, {P, absv(e0)}});
            ex.push_back({1, {absv(e0), absv(e1)}});
            L = absv(e0); P = absv(e1);
        } break;
        case SK_H: {
            double x = rel ? 2.0 : P.x + 2.0;
            if (sc.cmd) { cmd(rel ? 'h' : 'H'); num(x); } else fp.horizontal(x, NULL, NULL, rel);
            V e{P.x + 2.0, P.y};
            ex.push_back({1, {P, e}});
            L = P; P = e;
        } break;
        case SK_V: {
            double y = rel ? 1.5 : P.y + 1.5;
            if (sc.cmd) { cmd(rel ? 'v' : 'V'); num(y); } else fp.vertical(y, NULL, NULL, rel);
            V e{P.x, P.y + 1.5};
            ex.push_back({1, {P, e}});
            L = P; P = e;
        } break;
        case SK_QUAD: {
            V c = arg(1, 2), e = arg(3, 1);
            if (sc.cmd) { cmd(rel ? 'q' : 'Q'); numv(c); numv(e); }
            else { buf[0] = G2(c); buf[1] = G2(e); pa.count = 2; fp.quadratic(pa, NULL, NULL, rel); }
            ex.push_back({2, {P, absv(c), absv(e)}});
            L = absv(c); P = absv(e);
        } break;
        case SK_CUBIC: {
            V c1 = arg(1, 1.5), c2 = arg(2.5, 2), e = arg(4, 0.5);
            if (sc.cmd) { cmd(rel ? 'c' : 'C'); numv(c1); numv(c2); numv(e); }
            else { buf[0] = G2(c1); buf[1] = G2(c2); buf[2] = G2(e); pa.count = 3; fp.cubic(pa, NULL, NULL, rel); }
            ex.push_back({3, {P, absv(c1), absv(c2), absv(e)}});
            L = absv(c2); P = absv(e);
        } break;
        case SK_CUBICS: {
            V c2 = arg(2, 1.5), e = arg(3.5, -0.5);
            if (sc.cmd) { cmd(rel ? 's' : 'S'); numv(c2); numv(e); }
            else { buf[0] = G2(c2); buf[1] = G2(e); pa.count = 2; fp.cubic_smooth(pa, NULL, NULL, rel); }
            ex.push_back({3, {P, P * 2.0 - L, absv(c2), absv(e)}});
            L = absv(c2); P = absv(e);
        } break;
        case SK_QUADS: {
            V e = arg(2.5, 1);
            if (sc.cmd) { cmd(rel ? 't' : 'T'); numv(e); } else fp.quadratic_smooth(G2(e), NULL, NULL, rel);
            V c = P * 2.0 - L;
            ex.push_back({2, {P, c, absv(e)}});
            L = c; P = absv(e);
        } break;
        case SK_QUADSARR: {
            V e0 = arg(2, 1), e1 = arg(4, -1);
            buf[0] = G2(e0); buf[1] = G2(e1); pa.count = 2;
            fp.quadratic_smooth(pa, NULL, NULL, rel);
            V c = P * 2.0 - L;
            ex.push_back({2, {P, c, absv(e0)}});
            V c1 = absv(e0) * 2.0 - c;
            ex.push_back({2, {absv(e0), c1, absv(e1)}});
            L = c1; P = absv(e1);
        } break;
        case SK_BEZIER: {
            V c1 = arg(1, 1), c2 = arg(2, -1), e = arg(3, 0.5);
            buf[0] = G2(c1); buf[1] = G2(c2); buf[2] = G2(e); pa.count = 3;
            fp.bezier(pa, NULL, NULL, rel);
            ex.push_back({3, {P, absv(c1), absv(c2), absv(e)}});
            L = absv(c2); P = absv(e);
        } break;
        case SK_TURNP:
        case SK_TURNN: {
            double ang = sc.kind == SK_TURNP ? 1.2 : -0.9, r = 1.5;
            if (sc.cmd) { cmd('a'); num(r); num(ang); } else fp.turn(r, ang, NULL, NULL);
            V d = P - L;
            double ia = atan2(d.y, d.x) + (ang < 0 ? 0.5 * M_PI : -0.5 * M_PI);
            ExactPiece e{};
            e.deg = 0; e.r = r; e.a0 = ia; e.a1 = ia + ang;
            e.cc = P - V{cos(ia), sin(ia)} * r;
            ex.push_back(e);
            P = e.cc + V{cos(e.a1), sin(e.a1)} * r;
            defines_ctrl = false;  // the control point after an arc follows the last chord of the polyline, not a closed form
        } break;
    }
    if (sc.cmd) {
        uint64_t rr = fp.commands(ci.data(), ci.size());
        if (rr != ci.size()) return false;
    }
    return true;
}
static void run_smooth() {
    if (getenv("C07_FAM") && std::string("spine.smooth").find(getenv("C07_FAM")) == std::string::npos) return;  // development aid
    const std::string sub = "spine.smooth";
    std::vector<SmoothSec> preds, conts;
    struct KD { const char* n; int k; bool has_cmd; };
    for (KD kd : {KD{"segment(p)", SK_SEG, true}, KD{"segment([p,p])", SK_SEGARR, false}, KD{"horizontal", SK_H, true}, KD{"vertical", SK_V, true}, KD{"quadratic", SK_QUAD, true}, KD{"cubic", SK_CUBIC, true},
                  KD{"cubic_smooth", SK_CUBICS, true}, KD{"quadratic_smooth(p)", SK_QUADS, true}, KD{"quadratic_smooth([p,p])", SK_QUADSARR, false}, KD{"bezier", SK_BEZIER, false}})
        for (int rel = 0; rel < 2; rel++) {
            preds.push_back({kd.n, kd.k, rel == 1, false});
            if (kd.has_cmd) preds.push_back({kd.n, kd.k, rel == 1, true});
        }
    for (KD kd : {KD{"quadratic_smooth(p)", SK_QUADS, true}, KD{"quadratic_smooth([p,p])", SK_QUADSARR, false}, KD{"cubic_smooth", SK_CUBICS, true}})
        for (int rel = 0; rel < 2; rel++) {
            conts.push_back({kd.n, kd.k, rel == 1, false});
            if (kd.has_cmd) conts.push_back({kd.n, kd.k, rel == 1, true});
        }
    for (int k : {SK_TURNP, SK_TURNN}) { conts.push_back({k == SK_TURNP ? "turn(1.5,+1.2)" : "turn(1.5,-0.9)", k, false, false}); conts.push_back({k == SK_TURNP ? "turn(1.5,+1.2)" : "turn(1.5,-0.9)", k, false, true}); }
    int64_t ncase = 0;
    bool complete = true;
    for (int start = 0; start < 2 && complete; start++)
        for (size_t pi = 0; pi < preds.size() && complete; pi++)
            for (size_t qi = 0; qi < conts.size(); qi++) {
                if (R->out_of_time()) { complete = false; break; }
                const SmoothSec& pr = preds[pi];
                const SmoothSec& co = conts[qi];
                FlexPath fp;
                memset(&fp, 0, sizeof fp);
                double w[1] = {0.4}, of[1] = {0.0};
                Tag tg[1] = {make_tag(1, 0)};
                V P = start == 0 ? V{10, 5} : V{0, 0}, L{0, 0};
                fp.init(Vec2{P.x, P.y}, 1, w, of, TOL, tg);
                if (start == 0) { fp.segment(Vec2{2, 1}, NULL, NULL, true); L = P; P = V{12, 6}; }
                else { fp.segment(Vec2{7, -3}, NULL, NULL, false); L = P; P = V{7, -3}; }
                auto secname = [&](const SmoothSec& x) { return fmt("%s %s%s", x.name, x.kind >= SK_TURNP ? "" : (x.rel ? "relative" : "absolute"), x.cmd ? " [commands]" : ""); };
                std::string hist = fmt("%s -> %s -> %s", start == 0 ? "init(10,5)+segment rel (2,1)" : "init(0,0)+segment abs (7,-3)", secname(pr).c_str(), secname(co).c_str());
                JFields tags = {{"start", jint(start)}, {"predecessor", jstr(pr.name)}, {"predecessor_relative", jbool(pr.rel)}, {"predecessor_via_commands", jbool(pr.cmd)},
                                {"continuation", jstr(co.name)}, {"continuation_relative", jbool(co.rel)}, {"continuation_via_commands", jbool(co.cmd)}};
                std::string cj = jobj({{"history", jstr(hist)}});
                std::string replay = fmt("sub=spine.smooth start=%d pred=%zu cont=%zu", start, pi, qi);
                const SmoothSec* secs[2] = {&pr, &co};
                bool stop = false;
                for (int si = 0; si < 2 && !stop; si++) {
                    uint64_t n0 = fp.spine.point_array.count;
                    std::vector<ExactPiece> ex;
                    bool dc = true;
                    V P0 = P;
                    bool ok = smooth_apply(fp, *secs[si], P, L, ex, dc);
                    const char* which = si == 0 ? "predecessor" : "continuation";
                    std::string cls = fmt("%s:%s%s->%s%s", which, pr.name, pr.rel ? " rel" : " abs", co.name, co.rel ? " rel" : " abs");
                    if (!ok) { R->violation(sub, "commands-return:" + cls, tags, cj, "commands() did not process the whole list", replay); stop = true; break; }
                    uint64_t n1 = fp.spine.point_array.count;
                    if (fp.elements[0].half_width_and_offset.count != n1) { R->violation(sub, "count-mismatch:" + cls, tags, cj, fmt("%llu spine points, %llu entries", (unsigned long long)n1, (unsigned long long)fp.elements[0].half_width_and_offset.count), replay); stop = true; break; }
                    // exact curve as a dense polyline
                    std::vector<V> dense;
                    for (auto& e : ex) for (int t = 0; t <= 2000; t++) dense.push_back(bez(e, t / 2000.0));
                    double worst_pt = 0, worst_cv = 0;
                    bool finite = true;
                    for (uint64_t i = n0; i < n1; i++) {
                        V q{fp.spine.point_array[i].x, fp.spine.point_array[i].y};
                        if (!std::isfinite(q.x) || !std::isfinite(q.y)) { finite = false; break; }
                        double d = 1e300;
                        for (size_t t = 0; t + 1 < dense.size(); t++) d = std::min(d, c07::dist_seg(dense[t], dense[t + 1], q));
                        worst_pt = std::max(worst_pt, d);
                    }
                    for (size_t t = 0; finite && t < dense.size(); t += 25) {
                        double d = 1e300;
                        for (uint64_t i = n0 - 1; i + 1 < n1; i++) d = std::min(d, c07::dist_seg(V{fp.spine.point_array[i].x, fp.spine.point_array[i].y}, V{fp.spine.point_array[i + 1].x, fp.spine.point_array[i + 1].y}, dense[t]));
                        worst_cv = std::max(worst_cv, d);
                    }
                    V endp{fp.spine.point_array[n1 - 1].x, fp.spine.point_array[n1 - 1].y};
                    R->count("cases");
                    R->count("spine_smooth_sections_checked");
                    if (si == 1) { R->count("nontrivial"); if (pr.rel && (pr.kind == SK_QUAD || pr.kind == SK_CUBIC || pr.kind == SK_CUBICS || pr.kind == SK_BEZIER)) R->count("spine_smooth_after_relative_bezier_section"); }
                    if (!finite || n1 <= n0 || worst_pt > 1e-4 || worst_cv > 2.5 * TOL || c07::norm(endp - P) > 1e-9) {
                        R->violation(sub, "off-curve:" + cls, tags, cj,
                                     fmt("%s section from (%.6g,%.6g): appended spine points up to %.4g away from the exact curve (allowed 1e-4: the exact curve is a 2000-chord polyline), exact curve up to %.4g away from the spine polyline (allowed %.3g), section ends at (%.9g,%.9g), requested (%.9g,%.9g)%s",
                                         which, P0.x, P0.y, worst_pt, worst_cv, 2.5 * TOL, endp.x, endp.y, P.x, P.y, finite ? "" : "; non-finite spine point"), replay);
                        stop = true;
                    }
                }
                fp.clear();
                ncase++;
            }
    R->sample(sub, jobj({{"history", jstr("init(10,5)+segment rel (2,1) -> quadratic relative -> quadratic_smooth(p) absolute")}}));
    R->bound(sub, fmt("2 starts away from the origin x %zu predecessor sections (segment, segment array, horizontal, vertical, quadratic, cubic, cubic_smooth, quadratic_smooth point/array, bezier; relative and absolute; direct and command letters l h v q c s t) x %zu continuations (quadratic_smooth point/array, cubic_smooth relative/absolute direct and t/T/s/S, turn +1.2/-0.9 direct and 'a')", preds.size(), conts.size()), complete, ncase);
}

// ----------------------------------------------------------------------- long simple paths (multi-record XY lists)
// GDSII XY records hold at most 8190 points, so FlexPath::to_gds splits the centre line of a long simple path
// over several records.  Members: zig-zag spine (0,0),(4,4),(8,0),(12,4),... with n points built by init +
// segment(array), width 1, one element (offset 0) or two (+1.5/-1.5), end flush or extended(1,0.5).  The re-read
// record must reproduce the oracle's centre line point by point (grid tolerance), its width and end code, and,
// in windows around the start, every 8190-point boundary, the middle and the end, denote the region the source
// to_polygons covers (same record oracle as above on the window's sub-polyline; samples restricted to the part
// of the window that the rest of the path cannot reach).
static std::vector<V> zigzag(int n) {
    std::vector<V> sp;
    for (int k = 0; k < n; k++) sp.push_back(V{4.0 * k, (k & 1) ? 4.0 : 0.0});
    return sp;
}
static void run_long_member(int n, int ocfg, int end, bool verbose) {
    const std::vector<V> sp = zigzag(n);
    const int nel = group_nel(ocfg);
    auto mjson = [&]() {
        return jobj({{"spine", jstr(fmt("zig-zag (4k, 4*(k odd)) k=0..%d", n - 1))}, {"points", jint(n)}, {"width", jstr("1")}, {"offsets", jstr(OFF_NAME[ocfg])}, {"end", jstr(END_NAME[end])}, {"simple_path", jbool(true)}});
    };
    std::string replay = fmt("sub=pathlong n=%d oc=%d end=%d", n, ocfg, end);
    // oracle centre lines
    std::vector<c07::Oracle> orc(nel);
    for (int el = 0; el < nel; el++) {
        c07::ElementInput in;
        in.spine = sp;
        in.hw.assign(n, 0.5);
        in.off.assign(n, group_off(ocfg, el));
        in.ends = end_variants(0.5, 0.5);
        orc[el] = c07::build(in);
        if (orc[el].status != c07::OK) { R->internal_error("long zig-zag member rejected by the non-degeneracy predicate: " + replay); return; }
    }
    // source polygons
    std::vector<std::vector<V>> spoly(nel);
    {
        FlexPath* fp = make_path(sp, 0, ocfg, 0, c07::J_NATURAL, end, true);
        Array<Polygon*> res = {};
        ErrorCode ec = fp->to_polygons(false, 0, res);
        bool ok = ec == ErrorCode::NoError && res.count == (uint64_t)nel;
        for (int el = 0; ok && el < nel; el++)
            for (uint64_t k = 0; k < res[el]->point_array.count; k++) spoly[el].push_back(V{res[el]->point_array[k].x, res[el]->point_array[k].y});
        for (uint64_t k = 0; k < res.count; k++) { res[k]->clear(); free_allocation(res[k]); }
        res.clear();
        free_path(fp);
        if (!ok) { R->violation("path.gds", "long:no-polygon", {{"points", jint(n)}}, mjson(), "to_polygons failed on the long path", replay); return; }
    }
    for (int fmt_i = 0; fmt_i < 2; fmt_i++) {
        const bool oas = fmt_i == 1;
        const std::string sub = oas ? "path.oas" : "path.gds";
        auto tags = [&](int el, const char* what, int64_t idx) {
            JFields t = {{"format", jstr(oas ? "oas" : "gds")}, {"long", jbool(true)}, {"points", jint(n)}, {"elements", jint(nel)}, {"element", jint(el)}, {"end", jstr(END_NAME[end])},
                         {"what", jstr(what)}, {"xy_record", jint(idx < 0 ? -1 : idx / 8190)}};
            return t;
        };
        std::vector<FlexPath*> paths;
        paths.push_back(make_path(sp, 0, ocfg, 0, c07::J_NATURAL, end, true));
        std::string file = R->scratch + fmt("/l%d.%s", (int)getpid(), oas ? "oas" : "gds");
        if (!write_library(paths, file, oas)) { R->violation(sub, "long:write-error", tags(0, "write", -1), mjson(), "writer returned an error", replay); continue; }
        std::vector<PathRecord> recs;
        std::string err;
        bool ok = decode_paths(file, oas, recs, err);
        unlink(file.c_str());
        if (!ok || recs.size() != (size_t)nel) { R->violation(sub, "long:record-count", tags(0, "count", -1), mjson(), fmt("expected %d PATH records, re-read %zu (%s)", nel, recs.size(), err.c_str()), replay); continue; }
        for (int el = 0; el < nel; el++) {
            const PathRecord& r = recs[el];
            const c07::Oracle& o = orc[el];
            R->count("cases");
            R->count("nontrivial");
            R->count("path_long_records_checked");
            if (n > 8190) R->count("path_long_records_spanning_several_xy_records");
            if (verbose) fprintf(stderr, " %s element %d: %zu points re-read (expected %d), hw %.4f end %s ext %.3f/%.3f\n", sub.c_str(), el, r.pts.size(), n, r.hw, r.end_name.c_str(), r.ext_s, r.ext_e);
            if (r.pts.size() != (size_t)n) {
                R->violation(sub, "long:point-count", tags(el, "point-count", -1), mjson(), fmt("PATH record re-read with %zu centre-line points, element centre line has %d", r.pts.size(), n), replay);
                continue;
            }
            int64_t first_bad = -1, nbad = 0;
            double worst = 0;
            for (int i = 0; i < n; i++) {
                double d = c07::norm(r.pts[i] - o.C[i]);
                if (d > 1.5 * GRID) { if (first_bad < 0) first_bad = i; nbad++; worst = std::max(worst, d); }
            }
            R->count("path_long_points_compared", n);
            if (nbad) {
                R->violation(sub, "long:point", tags(el, "point", first_bad), mjson(),
                             fmt("%lld of %d re-read centre-line points differ from the element centre line; first at index %lld: record (%.4f,%.4f), expected (%.4f,%.4f); worst distance %.4f", (long long)nbad, n, (long long)first_bad,
                                 r.pts[first_bad].x, r.pts[first_bad].y, o.C[first_bad].x, o.C[first_bad].y, worst), replay);
                continue;
            }
            bool end_ok = fabs(r.hw - 0.5) <= GRID && (end == 0 ? (!r.round && fabs(r.ext_s) <= GRID && fabs(r.ext_e) <= GRID) : (!r.round && fabs(r.ext_s - 1) <= GRID && fabs(r.ext_e - 0.5) <= GRID));
            if (!end_ok) { R->violation(sub, "long:width-or-end", tags(el, "width-or-end", -1), mjson(), fmt("record hw %.4f end %s extensions %.4f/%.4f", r.hw, r.end_name.c_str(), r.ext_s, r.ext_e), replay); continue; }
            // --- region in windows (coarse grid h = 0.5)
            std::vector<int> centres = {0, n / 2, n - 1};
            for (int b = 8190; b < n; b += 8190) centres.push_back(b);
            for (int c : centres) {
                int a = std::max(0, c - 6), b = std::min(n - 1, c + 6);
                c07::ElementInput rin;
                rin.raw = true;
                for (int i = a; i <= b; i++) rin.spine.push_back(r.pts[i]);
                rin.hw.assign(rin.spine.size(), r.hw);
                rin.off.assign(rin.spine.size(), 0.0);
                c07::EndVar ev{false, false, 0, 0};
                if (a == 0) { ev.s_round = r.round; ev.s_ext = r.round ? 0 : r.ext_s; }
                if (b == n - 1) { ev.e_round = r.round; ev.e_ext = r.round ? 0 : r.ext_e; }
                rin.ends.assign(1, ev);
                c07::Oracle ro = c07::build(rin);
                // samples: x between the second and the second-to-last window point (true ends: beyond the cap)
                double xlo = a == 0 ? ro.bx0 : r.pts[a + 2].x, xhi = b == n - 1 ? ro.bx1 : r.pts[b - 2].x;
                Grid g = make_grid(xlo + (a == 0 ? 0 : 2), ro.by0, xhi - (b == n - 1 ? 0 : 2), ro.by1, 0.5);
                std::vector<uint8_t> cov;
                coverage(spoly[el], g, cov);
                int bad_in = 0, bad_out = 0;
                V f{0, 0};
                int64_t nin = 0, nout = 0;
                for (int j = 0; j < g.ny; j++)
                    for (int i = 0; i < g.nx; i++) {
                        V q = g.at(i, j);
                        c07::Cls cl = c07::classify(ro, q, G_REC, 1);
                        bool mc = cl.mc & 1, mn = (cl.farE & 1) && (cl.farJ >> c07::J_MITER & 1);
                        bool cv = cov[(size_t)j * g.nx + i];
                        if (mc) { nin++; if (!cv) { if (!bad_in && !bad_out) f = q; bad_in++; } }
                        else if (mn) { nout++; if (cv) { if (!bad_in && !bad_out) f = q; bad_out++; } }
                    }
                R->count("path_long_window_samples_inside", nin);
                R->count("path_long_window_samples_outside", nout);
                R->count("path_long_windows");
                if (bad_in || bad_out)
                    R->violation(sub, "long:region", tags(el, "region", c), mjson(),
                                 fmt("window around point %d: %d sample(s) inside the record's region not covered by the source polygon, %d covered outside it; first (%.4f,%.4f)", c, bad_in, bad_out, f.x, f.y), replay);
            }
        }
    }
}
static void run_long(bool thorough) {
    struct LM { int n, oc, end; };
    std::vector<LM> ms;
    std::vector<int> ns = {8189, 8190, 8191, 9001};
    if (thorough) { ns.push_back(16381); ns.push_back(20000); }
    for (int n : ns) for (int oc : {0, 3}) for (int e : {0, 2}) ms.push_back({n, oc, e});
    auto body = [&](int64_t i) { run_long_member(ms[i].n, ms[i].oc, ms[i].end, false); };
    auto describe = [&](int64_t i) { return jobj({{"long_zigzag_points", jint(ms[i].n)}, {"offsets", jstr(OFF_NAME[ms[i].oc])}, {"end", jstr(END_NAME[ms[i].end])}}); };
    auto replay_of = [&](int64_t i) { return fmt("sub=pathlong n=%d oc=%d end=%d", ms[i].n, ms[i].oc, ms[i].end); };
    bool ok = parallel_for(*R, (int64_t)ms.size(), body, describe, replay_of, PFOptions{120, "path.gds", true});
    std::string nl;
    for (int n : ns) nl += fmt("%s%d", nl.empty() ? "" : ", ", n);
    R->sample("path.gds", jobj({{"long_zigzag_points", jint(ns.back())}, {"offsets", jstr(OFF_NAME[3])}, {"end", jstr(END_NAME[2])}}));
    R->bound("path.long", fmt("simple zig-zag paths with {%s} centre-line points x {one element, two elements +1.5/-1.5} x end {flush, extended(1,0.5)} x {gds, oas}: point-by-point centre line, width/end code, region in windows (start, middle, end, every 8190-point boundary; spacing 0.5)", nl.c_str()), ok, (int64_t)ms.size() * 2);
}

// probe for the element_center index slip (path_half_widths[2*1] instead of [2*i]): tapered simple paths,
// 4-point spines, offset 0, bend radius 0.75 (between hw[2]=2/3 and hw[1]=5/6).  Observation only.
static void run_probe(const std::vector<std::vector<V>>& spines) {
    GroupOpts opt;
    opt.do_c = true;
    opt.probe = true;
    opt.only_join = c07::J_NATURAL;
    opt.only_end = 0;
    auto body = [&](int64_t i) { run_group(spines[i], 2, 0, 3, opt); };
    auto describe = [&](int64_t i) { return jobj({{"spine", jpts(spines[i])}, {"probe", jstr("tapered simple path, bend r=0.75")}}); };
    auto replay_of = [&](int64_t i) { return fmt("sub=outline pts=%s w=2 oc=0 bend=3 join=0 end=0 c=1", pts_str(spines[i]).c_str()); };
    bool ok = parallel_for(*R, (int64_t)spines.size(), body, describe, replay_of, PFOptions{60, "outline", true});
    R->bound("outline.probe_r0.75", fmt("tapered 2->1, offset 0, bend r=0.75, join natural, end flush over %zu four-point spines (outline + PATH centre line)", spines.size()), ok, (int64_t)spines.size());
}

// ======================================================================= main
template <class Sys>
static void replay_bfs(Sys& sys) {
    if (!R->rarg("hist").empty()) replay_hist(*R, sys, sys.sub, parse_hist(R->rarg("hist")));
    else expand_inprocess(*R, sys, parse_hist(R->rarg("expand")));
}
static int book_alphabet_of(const std::string& tag) { return tag == "full" ? 0 : tag == "mid" ? 1 : tag == "wide" ? 2 : 3; }

int main(int argc, char** argv) {
    Run run("C07", argc, argv);
    R = &run;
    error_logger = NULL;
    const bool T = run.thorough();
    if (run.replaying()) {
        std::string sub = run.rarg("sub");
        if (sub.rfind("book.", 0) == 0) {
            // book.<tag>.n<k>
            size_t p = sub.find('.', 5);
            std::string tag = sub.substr(5, p - 5);
            int nelem = atoi(sub.substr(p + 2).c_str());
            BookSys s(nelem, book_alphabet_of(tag), sub);
            s.printable = true;
            replay_bfs(s);
        } else if (sub == "pathext") {
            std::vector<V> sp = parse_pts(run.rarg("pts"));
            for (int w : {0, 1}) for (int oc : {0, 3}) {
                if (!run.rarg("w").empty() && (atoi(run.rarg("w").c_str()) != w || atoi(run.rarg("oc").c_str()) != oc)) continue;
                run_ext_group(sp, w, oc, true);
            }
        } else if (sub == "pathmanh") {
            StepSpine ss;
            ss.pts = parse_pts(run.rarg("pts"));
            ss.kind = run.rarg("kind");
            run_manh_member(ss, atoi(run.rarg("oc").c_str()), atoi(run.rarg("end").c_str()), 0.25, true);
        } else if (sub == "spine.smooth") {
            run_smooth();  // the whole sub-search is a fraction of a second; violations are printed again
        } else if (sub == "pathfar") {
            run_far_member(atoi(run.rarg("shape").c_str()), atoi(run.rarg("origin").c_str()), atoi(run.rarg("cls").c_str()), atoi(run.rarg("oc").c_str()), true);
        } else if (sub == "pathlong") {
            run_long_member(atoi(run.rarg("n").c_str()), atoi(run.rarg("oc").c_str()), atoi(run.rarg("end").c_str()), true);
        } else {
            std::vector<V> sp = parse_pts(run.rarg("pts"));
            GroupOpts opt;
            opt.verbose = true;
            opt.do_c = run.rarg("c") == "1";
            if (!run.rarg("join").empty()) opt.only_join = atoi(run.rarg("join").c_str());
            if (!run.rarg("end").empty()) opt.only_end = atoi(run.rarg("end").c_str());
            if (!run.rarg("h").empty()) opt.h = atof(run.rarg("h").c_str());
            if (run.rarg("sw") == "0") { opt.bd.abs_width = true; opt.c_all_joins = true; }
            if (!run.rarg("cm").empty()) { opt.bd.mode = atoi(run.rarg("cm").c_str()); opt.bd.k = atoi(run.rarg("ck").c_str()); opt.bd.variant = atoi(run.rarg("cv").c_str()); }
            if (sp.size() >= 2) {
                if (!run.rarg("w").empty()) run_group(sp, atoi(run.rarg("w").c_str()), atoi(run.rarg("oc").c_str()), atoi(run.rarg("bend").c_str()), opt);
                else for (int w = 0; w < 3; w++) for (int oc = 0; oc < 4; oc++) for (int b : {0, 1, 2, 4}) run_group(sp, w, oc, b, opt);
            }
        }
        return run.finish();
    }
    run.note(fmt("outline oracle: tolerance %.3g, guard band g=%.3g (PATH records %.3g); Natural join reach read from the code: miter kept while the tip is within one half width of the corner cross-sections, else edges prolonged by hw and bevelled => reach sqrt(2)*hw for constant width; bend radius of an element = requested radius - turn_direction*offset (spine arc displaced sideways)", TOL, G, G_REC));

    // ---- (a)
    const char* only = getenv("C07_ONLY");  // development aid: "book" or "outline"
    if (!only || !strcmp(only, "book")) {
        for (int ne = 1; ne <= 3; ne++) run_book(ne, 0, 2, "full");
        if (!T) run_book(2, 3, 3, "small");
        if (T) {
            for (int ne = 1; ne <= 3; ne++) run_book(ne, 1, 3, "mid");
            run_book(2, 2, 3, "wide");
            run_book(2, 3, 4, "small");
        }
    }
    if (only && !strcmp(only, "book")) return run.finish();
    run_smooth();

    // ---- (b) + (c), smallest first
    std::vector<std::vector<V>> s2, s3a, s3b, s3, s4a, s4b;
    const std::string tail = ", non-reversing, fitting the 5x5 lattice scaled by 4, up to translation";
    enum_spines(2, vec_set(0), s2);
    GroupOpts opt;
    opt.do_c = !getenv("C07_NOC");
    run_family("2pt", "every 2-point polyline of the 5x5 lattice scaled by 4, up to translation", s2, opt, 60);
    if (opt.do_c && !getenv("C07_FAM")) run_long(T);
    if (opt.do_c) run_manh(T);
    if (opt.do_c) run_far();
    if (opt.do_c) {
        // scale_width = false: FlexPath::to_gds writes a negative WIDTH (absolute width); the record must re-load with the
        // same positive half width, scale_width == false (GDSII) and the same region for every end and source join
        std::vector<std::vector<V>> a3;
        enum_spines(3, vec_set(T ? 1 : 3), a3);
        GroupOpts ao = opt;
        ao.bd.abs_width = true;
        ao.c_all_joins = true;
        auto body = [&](int64_t i) {
            for (int w : {0, 1}) for (int oc : (T ? std::vector<int>{0, 1, 2, 3} : std::vector<int>{0, 3})) for (int b : (T ? std::vector<int>{0, 1} : std::vector<int>{0})) run_group(a3[i], w, oc, b, ao);
        };
        auto describe = [&](int64_t i) { return jobj({{"spine", jpts(a3[i])}, {"then", jstr("scale_width=false members of this spine")}}); };
        auto replay_of = [&](int64_t i) { return fmt("sub=outline pts=%s sw=0 c=1", pts_str(a3[i]).c_str()); };
        if (!getenv("C07_FAM") || std::string("abswidth").find(getenv("C07_FAM")) != std::string::npos) {
            bool ok = parallel_for(run, (int64_t)a3.size(), body, describe, replay_of, PFOptions{60, "path.gds", true});
            run.bound("path.abswidth", fmt("scale_width = false (negative GDSII WIDTH): %zu 3-point spines with steps from the %d shortest lattice vectors x widths {1, 2} x offsets {%s} x bends {%s} x 4 joins x 5 ends x {gds, oas}: outline, record centre line, positive half width, scale_width flag (gds), region against every source join",
                                            a3.size(), T ? 16 : 8, T ? "0, +1.5, -1.5, two elements" : "0, two elements", T ? "none, r=1" : "none"), ok, (int64_t)a3.size() * (T ? 16 : 4) * 20);
        }
    }
    if (opt.do_c) {
        std::vector<std::vector<V>> e3;
        enum_spines(3, vec_set(T ? 1 : 3), e3);
        run_ext_family("2pt", "every 2-point polyline of the 5x5 lattice scaled by 4, up to translation", s2);
        run_ext_family(T ? "3pt.dir16" : "3pt.dir8", std::string("3-point polylines with steps from the ") + (T ? "16" : "8") + " shortest lattice vectors" + tail, e3);
    }
    if (!T) {
        enum_spines(3, vec_set(1), s3a);
        run_family("3pt.dir16", "3-point polylines whose two steps are taken from the 16 shortest lattice vectors (8 directions and the arctan(1/2) family)" + tail, s3a, opt, 60);
        // two consecutive bends competing for the shared segment (each fits alone, not both): r=3 on 4-point spines
        // with steps of length 4 and 4*sqrt(2) (a = b = 3 on a 90-degree U/Z/S of length 4, 3 + 1.24 on 90+45 degrees, ...)
        enum_spines(4, vec_set(3), s4a);
        run_cmd_family("cmd.3pt.dir16", "3-point polylines with steps from the 16 shortest lattice vectors" + tail, s3a, opt);
        run_family("4pt.dir8.r3", "4-point polylines whose three steps are taken from the 8 shortest lattice vectors (axis and diagonal unit steps)" + tail, s4a, opt, 120, {4});
    } else {
        enum_spines(3, vec_set(0), s3);
        run_family("3pt", "every 3-point polyline" + tail, s3, opt, 60);
        enum_spines(4, vec_set(1), s4a);
        run_family("4pt.dir16", "4-point polylines whose three steps are taken from the 16 shortest lattice vectors (8 directions and the arctan(1/2) family)" + tail, s4a, opt, 120, {0, 1, 2, 4});
        {
            std::vector<std::vector<V>> c3, c4;
            enum_spines(3, vec_set(1), c3);
            enum_spines(4, vec_set(3), c4);
            run_cmd_family("cmd.3pt.dir16", "3-point polylines with steps from the 16 shortest lattice vectors" + tail, c3, opt);
            run_cmd_family("cmd.4pt.dir8", "4-point polylines with steps from the 8 shortest lattice vectors" + tail, c4, opt);
        }
        run_probe(s4a);
        enum_spines(4, vec_set(2), s4b, true);
        run_family("4pt.dir24", "4-point polylines with steps from the 24 short lattice vectors and at least one doubled axis/diagonal step (the rest of the 24-vector family)" + tail, s4b, opt, 120);
    }
    return run.finish();
}
