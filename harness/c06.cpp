// C06 — flattening and hierarchy queries preserve the layout geometry.
// E2 over three-level hierarchies x query parameters, plus all operation sequences (<= 3) of
// flatten / deep copy on a reduced set; oracle = the harness's own affine composition (hier.hpp).
// DESIGN.md 2/C06.
#include "hier.hpp"

using namespace gdstk;
using namespace vf;
using namespace hier;

static Run* R;

struct CaseId { int leaf; RefSpec s1, s2; };
static std::string case_json(const CaseId& c) {
    return jobj({{"leaf", jstr(leaf_name(c.leaf))}, {"ref_mid_to_leaf", jstr(c.s1.str())}, {"ref_top_to_mid", jstr(c.s2.str())}});
}
static std::string case_replay(const CaseId& c) {
    return fmt("leaf=%d s1=%d,%d,%d,%d,%d s2=%d,%d,%d,%d,%d", c.leaf, c.s1.rot, c.s1.refl, c.s1.mag, c.s1.org, c.s1.rep, c.s2.rot, c.s2.refl, c.s2.mag, c.s2.org, c.s2.rep);
}
static RefSpec parse_spec(const std::string& s) {
    RefSpec r{};
    sscanf(s.c_str(), "%d,%d,%d,%d,%d", &r.rot, &r.refl, &r.mag, &r.org, &r.rep);
    return r;
}

// ---------------------------------------------------------------- multiset comparison
struct Item { Tag tag; std::vector<Vec2> pts; double cx, cy; };
static Item mkitem(Tag tag, std::vector<Vec2> pts) {
    Item it{tag, std::move(pts), 0, 0};
    for (auto& p : it.pts) { it.cx += p.x; it.cy += p.y; }
    if (!it.pts.empty()) { it.cx /= it.pts.size(); it.cy /= it.pts.size(); }
    return it;
}
// Curved outlines: a path with circular bends that is polygonised AFTER being magnified is re-sampled (more points on the larger
// arc), so its outline equals the magnified leaf outline only up to the arc tolerance.  For the leaf kind with bends the case sets
// g_curved_tol > 0 and outlines with more than 12 vertices are matched as closed polylines within that distance (both ways).
static double g_curved_tol = 0;
// returns "" if equal as multisets (vertex cycles up to start/direction, tol), else a description
static std::string compare_items(std::vector<Item>& exp, std::vector<Item>& obs, double tol) {
    if (exp.size() != obs.size()) return fmt("expected %zu shapes, got %zu", exp.size(), obs.size());
    if (g_curved_tol > 0) {
        std::vector<char> used(obs.size(), 0);
        for (auto& e : exp) {
            bool found = false;
            for (size_t j = 0; j < obs.size() && !found; j++) {
                if (used[j] || obs[j].tag != e.tag) continue;
                bool curved = e.pts.size() > 12 || obs[j].pts.size() > 12;
                if (curved ? same_outline_within(e.pts, obs[j].pts, g_curved_tol) : same_cycle(e.pts, obs[j].pts, tol)) { used[j] = 1; found = true; }
            }
            if (!found) return fmt("expected outline tag %u/%u with %zu vertices (first %s) has no returned counterpart within %g", get_layer(e.tag), get_type(e.tag), e.pts.size(), pts_json(e.pts, 4).c_str(), g_curved_tol);
        }
        R->count("curved_outline_comparisons");
        return "";
    }
    auto key = [](const Item& a, const Item& b) { return a.cx < b.cx; };
    std::sort(exp.begin(), exp.end(), key);
    std::sort(obs.begin(), obs.end(), key);
    std::vector<char> used(obs.size(), 0);
    size_t lo = 0;
    for (auto& e : exp) {
        while (lo < obs.size() && obs[lo].cx < e.cx - tol) lo++;
        bool found = false;
        for (size_t j = lo; j < obs.size() && obs[j].cx <= e.cx + tol; j++) {
            if (used[j] || obs[j].tag != e.tag || fabs(obs[j].cy - e.cy) > tol) continue;
            if (same_cycle(e.pts, obs[j].pts, tol)) { used[j] = 1; found = true; break; }
        }
        if (!found) {
            // nearest observed by centroid, for the report
            double best = INFINITY; size_t bj = 0;
            for (size_t j = 0; j < obs.size(); j++) if (!used[j]) { double d = hypot(obs[j].cx - e.cx, obs[j].cy - e.cy); if (d < best) { best = d; bj = j; } }
            return fmt("expected shape tag %u/%u %s has no counterpart; closest unmatched returned shape (centroid distance %.3g): tag %u/%u %s", get_layer(e.tag), get_type(e.tag), pts_json(e.pts, 8).c_str(), best,
                       obs.empty() ? 0 : get_layer(obs[bj].tag), obs.empty() ? 0 : get_type(obs[bj].tag), obs.empty() ? "[]" : pts_json(obs[bj].pts, 8).c_str());
        }
    }
    return "";
}
static double wrap(double a) { a = fmod(a, 2 * M_PI); if (a > M_PI) a -= 2 * M_PI; if (a < -M_PI) a += 2 * M_PI; return a; }
static std::string compare_labels(std::vector<Lab> exp, std::vector<Lab> obs, double tol) {
    if (exp.size() != obs.size()) return fmt("expected %zu labels, got %zu", exp.size(), obs.size());
    std::vector<char> used(obs.size(), 0);
    for (auto& e : exp) {
        bool found = false;
        for (size_t j = 0; j < obs.size(); j++) {
            const Lab& o = obs[j];
            if (used[j] || o.tag != e.tag || o.text != e.text || o.anchor != e.anchor || o.refl != e.refl) continue;
            if (dist(o.origin, e.origin) > tol || fabs(o.mag - e.mag) > 1e-9 * std::max(1.0, fabs(e.mag)) || fabs(wrap(o.rot - e.rot)) > 1e-9) continue;
            used[j] = 1; found = true; break;
        }
        if (!found) return fmt("expected label '%s' at (%.12g,%.12g) rot %.9g mag %g refl %d has no counterpart", e.text.c_str(), e.origin.x, e.origin.y, e.rot, e.mag, (int)e.refl);
    }
    return "";
}

// ---------------------------------------------------------------- observed side -> items
static void expand_polygon(const Polygon* p, std::vector<Item>& out) {
    for (auto& off : dump::own_offsets(p->repetition)) {
        std::vector<Vec2> v;
        for (uint64_t k = 0; k < p->point_array.count; k++) v.push_back(add(p->point_array[k], off));
        out.push_back(mkitem(p->tag, v));
    }
}
template <class PathT>
static void expand_path(PathT* path, std::vector<Item>& out) {
    Array<Polygon*> arr = {};
    path->to_polygons(false, 0, arr);
    for (uint64_t j = 0; j < arr.count; j++) {
        for (auto& off : dump::own_offsets(path->repetition)) {
            std::vector<Vec2> v;
            for (uint64_t k = 0; k < arr[j]->point_array.count; k++) v.push_back(add(arr[j]->point_array[k], off));
            out.push_back(mkitem(arr[j]->tag, v));
        }
        arr[j]->clear();
        free_allocation(arr[j]);
    }
    arr.clear();
}
static std::vector<Item> items_of(const Denot& d, int kind_lo, int kind_hi) {
    std::vector<Item> v;
    for (auto& s : d.shapes) if (s.kind >= kind_lo && s.kind <= kind_hi) v.push_back(mkitem(s.tag, s.pts));
    return v;
}
static double extent_of_denot(const Denot& d) { return extent_of(d.cloud()); }

struct QCtx { const CaseId* c; const char* object; std::string stage; };
static void report(const QCtx& x, const std::string& query, const std::string& cls, const JFields& qtags, const std::string& detail, const std::string& extra_replay) {
    const CaseId& c = *x.c;
    auto rotcls = [](int r) { return r == 0 ? "zero" : (r < 4 || r == 6) ? "multiple_of_90" : "oblique"; };
    JFields tags = {{"query", jstr(query)}, {"object", jstr(x.object)}, {"leaf", jstr(leaf_name(c.leaf))}, {"stage", jstr(x.stage)},
                    {"r1_rot", jstr(rotcls(c.s1.rot))}, {"r2_rot", jstr(rotcls(c.s2.rot))}, {"r1_refl", jbool(c.s1.refl)}, {"r2_refl", jbool(c.s2.refl)},
                    {"r1_mag", jnum(MAGS[c.s1.mag])}, {"r2_mag", jnum(MAGS[c.s2.mag])}, {"r1_rep", jstr(rep_name(c.s1.rep))}, {"r2_rep", jstr(rep_name(c.s2.rep))}};
    for (auto& t : qtags) tags.push_back(t);
    R->violation("hier." + query, cls, tags, jobj({{"hierarchy", case_json(c)}, {"object", jstr(x.object)}, {"stage", jstr(x.stage)}, {"query", jstr(query)}, {"params", jobj(qtags)}}), detail,
                 case_replay(c) + extra_replay);
}

static const int64_t DEPTHS[] = {0, 1, 2, -1, -3};   // every negative depth removes the limit
struct Filt { bool on; Tag tag; const char* name; };
static const Filt FILTS[] = {{false, 0, "none"}, {true, TAG_A, "present_tag"}, {true, TAG_ABSENT, "absent_tag"}, {true, TAG_C, "label_tag"}};

// all hierarchy queries on `cell`, judged against the harness's denotation of `model_cell` (normally the same cell)
static bool query_all(const QCtx& x, Cell* cell, const Cell* model_cell, bool full_only) {
    bool ok = true;
    for (int di = 0; di < 5; di++) {
        int64_t depth = DEPTHS[di];
        if (full_only && depth != -1) continue;
        for (int fi = 0; fi < 4; fi++) {
            const Filt& f = FILTS[fi];
            if (full_only && fi > 1) continue;
            if (depth == -3 && fi != 0) continue;   // the second negative depth only without a tag filter
            for (int ar = 0; ar < 2; ar++) {
                JFields qt = {{"apply_repetitions", jbool(ar)}, {"depth", jint(depth)}, {"filter", jstr(f.name)}};
                Denot d;
                denote(model_cell, depth, Aff(), f.on, f.tag, true, d);
                double tol = 1e-9 * extent_of_denot(d);
                // polygons, with and without paths
                for (int ip = 0; ip < 2; ip++) {
                    Array<Polygon*> res = {};
                    cell->get_polygons(ar, ip, depth, f.on, f.tag, res);
                    std::vector<Item> obs, exp = items_of(d, 0, ip ? 2 : 0);
                    bool rep_left = false;
                    for (uint64_t i = 0; i < res.count; i++) {
                        if (res[i]->repetition.type != RepetitionType::None) rep_left = true;
                        expand_polygon(res[i], obs);
                        res[i]->clear();
                        free_allocation(res[i]);
                    }
                    res.clear();
                    JFields q2 = qt;
                    q2.push_back({"include_paths", jbool(ip)});
                    if (ar && rep_left) { report(x, "get_polygons", "repetition-left", q2, "apply_repetitions=true returned a polygon that still carries a repetition", ""); ok = false; }
                    std::string e = compare_items(exp, obs, tol);
                    if (!e.empty()) { report(x, "get_polygons", "shapes-differ", q2, e, ""); ok = false; }
                    R->count("queries");
                }
                {
                    Array<FlexPath*> res = {};
                    cell->get_flexpaths(ar, depth, f.on, f.tag, res);
                    std::vector<Item> obs, exp = items_of(d, 1, 1);
                    for (uint64_t i = 0; i < res.count; i++) { expand_path(res[i], obs); res[i]->clear(); free_allocation(res[i]); }
                    res.clear();
                    std::string e = compare_items(exp, obs, tol);
                    if (!e.empty()) { report(x, "get_flexpaths", "shapes-differ", qt, e, ""); ok = false; }
                    R->count("queries");
                }
                {
                    Array<RobustPath*> res = {};
                    cell->get_robustpaths(ar, depth, f.on, f.tag, res);
                    std::vector<Item> obs, exp = items_of(d, 2, 2);
                    for (uint64_t i = 0; i < res.count; i++) { expand_path(res[i], obs); res[i]->clear(); free_allocation(res[i]); }
                    res.clear();
                    std::string e = compare_items(exp, obs, tol);
                    if (!e.empty()) { report(x, "get_robustpaths", "shapes-differ", qt, e, ""); ok = false; }
                    R->count("queries");
                }
                {
                    Array<Label*> res = {};
                    cell->get_labels(ar, depth, f.on, f.tag, res);
                    std::vector<Lab> obs;
                    for (uint64_t i = 0; i < res.count; i++) {
                        Label* l = res[i];
                        for (auto& off : dump::own_offsets(l->repetition)) obs.push_back(Lab{l->tag, l->text, add(l->origin, off), l->rotation, l->magnification, l->x_reflection, (int)l->anchor});
                        l->clear();
                        free_allocation(l);
                    }
                    res.clear();
                    std::string e = compare_labels(d.labels, obs, tol);
                    if (!e.empty()) { report(x, "get_labels", "labels-differ", qt, e, ""); ok = false; }
                    R->count("queries");
                }
            }
        }
    }
    return ok;
}

// the denotation read directly off the struct fields of `cell` must equal `want` (used after flatten/copy)
static bool denotation_equals(const QCtx& x, const Cell* cell, const Denot& want, const std::string& what, const JFields& tags) {
    Denot got;
    denote(cell, -1, Aff(), false, 0, true, got);
    double tol = 1e-9 * extent_of_denot(want);
    std::vector<Item> e = items_of(want, 0, 2), o = items_of(got, 0, 2);
    std::string err = compare_items(e, o, tol);
    if (err.empty()) err = compare_labels(want.labels, got.labels, tol);
    if (!err.empty()) { report(x, what, "denotation-changed", tags, err, ""); return false; }
    return true;
}
static void free_refs(Array<Reference*>& a) {
    for (uint64_t i = 0; i < a.count; i++) { a[i]->clear(); free_allocation(a[i]); }
    a.clear();
}

static void run_case(const CaseId& c) {
    bool ok = true;
    // arcs are sampled to the path tolerance 1e-2 before or after the magnification: allow 2.5 tolerances times the total magnification
    g_curved_tol = c.leaf == L_FLEX_BEND ? 2.5e-2 * std::max(1.0, std::max(MAGS[c.s1.mag], 2.0) * MAGS[c.s2.mag]) : 0;  // MID's second reference to LEAF magnifies by 2: the largest composite magnification sets the arc re-sampling error
    {   // A. queries on the intact hierarchy
        World w = build(c.leaf, c.s1, c.s2, true, true);
        QCtx xt{&c, "TOP", "intact"}, xm{&c, "MID", "intact"};
        ok &= query_all(xt, w.top, w.top, false);
        ok &= query_all(xm, w.mid, w.mid, false);
        w.destroy();
    }
    // B. flatten, then the denotation and every full-depth query must be unchanged
    for (int ar = 0; ar < 2; ar++)
        for (int which = 0; which < 2; which++) {
            World w = build(c.leaf, c.s1, c.s2, true, true);
            Denot before;
            denote(w.top, -1, Aff(), false, 0, true, before);
            Array<Reference*> removed = {};
            (which ? w.mid : w.top)->flatten(ar, removed);
            JFields tags = {{"apply_repetitions", jbool(ar)}, {"flattened", jstr(which ? "MID" : "TOP")}};
            QCtx x{&c, "TOP", fmt("after %s.flatten(apply_repetitions=%d)", which ? "MID" : "TOP", ar)};
            if ((which ? w.mid : w.top)->reference_array.count != 0) { report(x, "flatten", "references-left", tags, "flatten left cell references behind", ""); ok = false; }
            ok &= denotation_equals(x, w.top, before, "flatten", tags);
            // the queries on the flattened hierarchy agree with the harness's reading of it
            ok &= query_all(x, w.top, w.top, true);
            free_refs(removed);
            R->count("flatten_cases");
            w.destroy();
        }
    {   // C. deep copies are independent of their source
        World w = build(c.leaf, c.s1, c.s2, true, true);
        Denot before;
        denote(w.top, -1, Aff(), false, 0, true, before);
        std::string dump_before = dump::cell(*w.top) + dump::cell(*w.mid) + dump::cell(*w.leaf);
        Cell* cp = (Cell*)allocate_clear(sizeof(Cell));
        cp->copy_from(*w.top, "COPY", true);
        Cell* cpm = (Cell*)allocate_clear(sizeof(Cell));
        cpm->copy_from(*w.mid, "COPYMID", true);
        QCtx x{&c, "TOP", "deep copy then mutate the copy"};
        ok &= denotation_equals(x, cp, before, "copy", {{"what", jstr("copy denotes the same geometry")}});
        for (Cell* k : {cp, cpm}) {
            for (uint64_t i = 0; i < k->polygon_array.count; i++) { k->polygon_array[i]->translate(Vec2{100, 100}); k->polygon_array[i]->repetition.clear(); set_gds_property(k->polygon_array[i]->properties, 1, "x"); }
            for (uint64_t i = 0; i < k->label_array.count; i++) { k->label_array[i]->origin = Vec2{-50, -50}; k->label_array[i]->text[0] = 'Z'; }
            for (uint64_t i = 0; i < k->flexpath_array.count; i++) k->flexpath_array[i]->scale(3, Vec2{0, 0});
            for (uint64_t i = 0; i < k->robustpath_array.count; i++) k->robustpath_array[i]->translate(Vec2{9, 9});
            for (uint64_t i = 0; i < k->reference_array.count; i++) { k->reference_array[i]->origin = Vec2{77, 77}; k->reference_array[i]->repetition.clear(); }
            Array<Reference*> removed = {};
            k->flatten(true, removed);
            free_refs(removed);
        }
        ok &= denotation_equals(x, w.top, before, "copy", {{"what", jstr("source unchanged after mutating the copy")}});
        if (dump_before != dump::cell(*w.top) + dump::cell(*w.mid) + dump::cell(*w.leaf)) { report(x, "copy", "source-fields-changed", {}, "struct dump of the source cells changed after mutating deep copies", ""); ok = false; }
        cp->free_all(); free_allocation(cp);
        cpm->free_all(); free_allocation(cpm);
        w.destroy();
    }
    R->count("cases");
    bool attached = c.leaf >= L_POLY_RECT && c.leaf != L_ZERO_AREA_AD && c.leaf != L_SAME_POINT;
    bool nontrivial = (attached && (c.s1.rot != 0 || c.s1.refl || c.s1.mag)) || ((c.leaf == L_FLEX || c.leaf == L_MIXED) && (c.s1.refl ^ c.s2.refl));
    if (nontrivial) R->count("nontrivial");
    R->outcome("hier", fmt("%s %d %d %d", leaf_name(c.leaf), c.s1.rep, c.s2.rep, (int)ok));
}

// D. every operation sequence of length <= 3 over {flatten TOP/MID x apply F/T, deep-copy TOP and continue on the copy}
static void run_history(const CaseId& c, const std::vector<int>& ops) {
    World w = build(c.leaf, c.s1, c.s2, true, true);
    Denot want;
    denote(w.top, -1, Aff(), false, 0, true, want);
    Cell* top = w.top;
    std::vector<Cell*> copies;
    std::string hs;
    bool ok = true;
    for (size_t k = 0; k < ops.size() && ok; k++) {
        int op = ops[k];
        hs += (k ? "," : "") + std::to_string(op);
        Array<Reference*> removed = {};
        if (op < 2) top->flatten(op, removed);
        else if (op < 4) w.mid->flatten(op - 2, removed);
        else { Cell* cp = (Cell*)allocate_clear(sizeof(Cell)); cp->copy_from(*top, "COPY", true); copies.push_back(cp); top = cp; }
        free_refs(removed);
        QCtx x{&c, "TOP", "history " + hs};
        JFields tags = {{"history", jstr(hs)}, {"last_op", jstr(op < 2 ? "flatten_top" : op < 4 ? "flatten_mid" : "deep_copy")}, {"apply_repetitions", jbool(op < 4 && (op & 1))}};
        ok &= denotation_equals(x, top, want, "history", tags);
        if (ok) ok &= query_all(x, top, top, true);
        if (!ok) R->count("histories_failed");
    }
    // the original (if we moved to a copy) still denotes the same geometry unless it was itself flattened — it always should
    if (ok && top != w.top) { QCtx x{&c, "TOP", "history " + hs + " (source of the copy)"}; denotation_equals(x, w.top, want, "history", {{"history", jstr(hs)}, {"last_op", jstr("source-after-copy")}}); }
    for (Cell* cp : copies) { cp->free_all(); free_allocation(cp); }
    w.destroy();
    R->count("histories");
}

int main(int argc, char** argv) {
    Run run("C06", argc, argv);
    R = &run;
    error_logger = NULL;
    bool T = run.thorough();
    if (run.replaying()) {
        CaseId c{atoi(run.rarg("leaf").c_str()), parse_spec(run.rarg("s1")), parse_spec(run.rarg("s2"))};
        fprintf(stderr, "replay %s\n", case_json(c).c_str());
        if (!run.rarg("ops").empty()) run_history(c, parse_hist(run.rarg("ops")));
        else run_case(c);
        return run.finish();
    }
    const int leaves[] = {L_SQUARE, L_TRIANGLE, L_LABEL2, L_EMPTY, L_FLEX, L_ROBUST, L_POLY_RECT, L_POLY_REGULAR, L_POLY_EXPLICIT, L_POLY_EXPLICIT_X, L_POLY_EXPLICIT_Y, L_LABEL_EXPLICIT, L_MIXED, L_POLY_REG_1COL, L_LABEL_REG_1ROW, L_FLEX_BEND};
    std::vector<RefSpec> specs;
    for (int rot = 0; rot < NROT_NEG; rot++) for (int refl = 0; refl < 2; refl++) for (int mag = 0; mag < 2; mag++) for (int org = 0; org < 2; org++) for (int rep = 0; rep < NREP; rep++) {
        if (rot >= NROT && (mag || org)) continue;                    // rotation -pi/2: origin (0,0), magnification 1
        if (!T) {
            if (rot == 2 || rot == 3 || rot == 5) continue;            // quick: rotations {0, pi/2, 0.5}
            if (mag != (org ? 1 : 0)) continue;                       // magnification tied to origin
            if (rep == REP_EXPLICIT_Y || rep == REP_REGULAR || rep >= REP_REGULAR_1COL) continue;  // quick: none, rect, explicit, explicit_x
        } else if (org != mag || rot == 3) continue;                  // thorough: magnification tied to origin, rotations {0, pi/2, pi, 0.5, pi/4} (the full product does not fit the 40 min budget)
        specs.push_back({rot, refl, mag, org, rep});
    }
    std::vector<CaseId> cases;
    for (int leaf : leaves) for (auto& s1 : specs) for (auto& s2 : specs) {
        if (!T && s2.org != s2.refl && s2.rot != 0) continue;   // quick: origin tied to reflection, except for unrotated outer references (mirror-only and translate-only placements at magnification 1 and 2)
        if (!T && s1.org != 1) continue;
        if (s1.rep != REP_NONE && s2.rep != REP_NONE && leaf == L_MIXED && !T) continue;  // quick: mixed leaf with one repeated level at most
        cases.push_back({leaf, s1, s2});
    }
    auto body = [&](int64_t i) { run_case(cases[i]); };
    bool ok = parallel_for(run, (int64_t)cases.size(), body, [&](int64_t i) { return case_json(cases[i]); }, [&](int64_t i) { return case_replay(cases[i]); }, PFOptions{60, "hier.crash", true});
    run.sample("hier", jobj({{"hierarchy", case_json(cases[cases.size() / 3])}, {"queries", jstr("get_polygons/get_flexpaths/get_robustpaths/get_labels x apply_repetitions x include_paths x depth {0,1,2,-1 (and -3 unfiltered)} x filter {none,present,absent,label tag} on TOP and MID; flatten(F/T) of TOP or MID; deep copy + mutate")}}));
    run.bound("hier", fmt("%zu leaf contents x %zu reference placements per level (%zu hierarchies)", sizeof(leaves) / sizeof(int), specs.size(), cases.size()), ok, (int64_t)cases.size());

    // reductions: magnification 0.5 on the inner level, 0.5 or 2 on the outer one (the main space only magnifies by 1 and 2)
    std::vector<CaseId> rc;
    for (int leaf : leaves)
        for (int r1 : {0, 4}) for (int f1 = 0; f1 < 2; f1++) for (int rep1 : {REP_NONE, REP_RECT, REP_EXPLICIT})
            for (int r2 : {1, 4}) for (int f2 = 0; f2 < 2; f2++) for (int m2 : {2, 1}) for (int rep2 : {REP_NONE, REP_EXPLICIT})
                rc.push_back({leaf, {r1, f1, 2, 1, rep1}, {r2, f2, m2, 1, rep2}});
    auto rbody = [&](int64_t i) { run_case(rc[i]); };
    bool ok3 = parallel_for(run, (int64_t)rc.size(), rbody, [&](int64_t i) { return case_json(rc[i]); }, [&](int64_t i) { return case_replay(rc[i]); }, PFOptions{60, "hier.reduce.crash", true});
    run.sample("hier.reduce", jobj({{"hierarchy", case_json(rc[rc.size() / 2 + 3])}}));
    run.bound("hier.reduce", fmt("%zu leaf contents x 12 inner placements at magnification 0.5 x 16 outer placements at magnification 0.5 or 2 (%zu hierarchies): same queries and oracles as hier", sizeof(leaves) / sizeof(int), rc.size()), ok3, (int64_t)rc.size());

    // histories on a reduced set
    std::vector<std::pair<CaseId, std::vector<int>>> hs;
    for (int leaf : {L_TRIANGLE, L_FLEX, L_POLY_REGULAR, L_LABEL_EXPLICIT, L_MIXED})
        for (int r1 : {0, 4}) for (int refl = 0; refl < 2; refl++) for (int rep1 : {REP_NONE, REP_RECT}) for (int rep2 : {REP_NONE, REP_EXPLICIT}) {
            if (!T && rep1 != REP_NONE && rep2 != REP_NONE) continue;
            CaseId c{leaf, {r1, refl, 1, 1, rep1}, {4, !refl, 0, 0, rep2}};
            for (int len = 1; len <= 3; len++) {
                int total = 1;
                for (int i = 0; i < len; i++) total *= 5;
                for (int code = 0; code < total; code++) {
                    std::vector<int> ops;
                    int t = code;
                    for (int i = 0; i < len; i++) { ops.push_back(t % 5); t /= 5; }
                    hs.push_back({c, ops});
                }
            }
        }
    auto hbody = [&](int64_t i) { run_history(hs[i].first, hs[i].second); };
    bool ok2 = parallel_for(run, (int64_t)hs.size(), hbody, [&](int64_t i) { return jobj({{"hierarchy", case_json(hs[i].first)}, {"ops", jstr(hist_str(hs[i].second))}}); },
                            [&](int64_t i) { return case_replay(hs[i].first) + " ops=" + hist_str(hs[i].second); }, PFOptions{60, "hier.history.crash", true});
    run.sample("hier.history", jobj({{"hierarchy", case_json(hs[hs.size() / 2].first)}, {"ops (0/1 flatten TOP F/T, 2/3 flatten MID F/T, 4 deep copy)", jstr(hist_str(hs[hs.size() / 2].second))}}));
    run.bound("hier.history", "all operation sequences of length <= 3 over {flatten TOP F/T, flatten MID F/T, deep copy} on the reduced hierarchy set", ok2, (int64_t)hs.size());
    return run.finish();
}
