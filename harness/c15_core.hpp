// c15_core.hpp — section specifications, calls into the real gdstk Curve, the independent model of
// each section (exact pieces, requested end point, continuation state) and the oracle items (1)-(5).
#pragma once
#include <gdstk/gdstk.hpp>
#include <sys/mman.h>

#include "c15_geom.hpp"
#include "vf.hpp"

using namespace gdstk;
using namespace vf;
using namespace c15;

static Run* R;
static const double K_DEV = 2.0;   // constant of the check: deviation <= K_DEV * tolerance

// ------------------------------------------------------------------ shared maxima (across workers)
enum { MX_QUAD, MX_CUBIC, MX_BEZIER, MX_ARC, MX_TURN, MX_PARAM, MX_INTERP, MX_ELLIPSE, MX_RACETRACK, MX_FILLET, MX_N };
static const char* MX_NAME[MX_N] = {"quadratic", "cubic", "bezier", "arc", "turn", "parametric", "interpolation",
                                    "ellipse", "racetrack", "fillet"};
static volatile uint64_t* g_max;      // bit patterns of non-negative doubles: [0..MX_N) all, [MX_N..2MX_N) passing only
static void mx_init() {
    g_max = (volatile uint64_t*)mmap(NULL, sizeof(uint64_t) * 2 * MX_N, PROT_READ | PROT_WRITE, MAP_SHARED | MAP_ANONYMOUS, -1, 0);
    for (int i = 0; i < 2 * MX_N; i++) g_max[i] = 0;
}
// quiet mode: a judgement is being tried (one of several admissible descriptions of a closed
// outline); nothing is emitted or recorded until one is accepted or all have failed
static bool g_quiet = false;
// deferred mode: violations of a tried description are buffered; the caller emits them only if no
// description of the outline is accepted (and records the ratios itself)
struct Deferred { std::string sub, cls; JFields tags; std::string case_json, detail, replay; };
static std::vector<Deferred>* g_defer = nullptr;
static void emit_violation(const std::string& sub, const std::string& cls, const JFields& tags, const std::string& case_json,
                           const std::string& detail, const std::string& replay, bool verbose) {
    if (g_quiet) return;
    if (g_defer) { g_defer->push_back({sub, cls, tags, case_json, detail, replay}); return; }
    R->violation(sub, cls, tags, case_json, detail, replay);
    if (verbose) fprintf(stderr, "  ** VIOLATION %s/%s: %s\n", sub.c_str(), cls.c_str(), detail.c_str());
}
static void mx_note(int slot, double r) {
    if (g_quiet || g_defer || slot < 0 || !(r >= 0) || !std::isfinite(r)) return;
    uint64_t b;
    memcpy(&b, &r, 8);
    uint64_t cur = __atomic_load_n(&g_max[slot], __ATOMIC_RELAXED);
    while (b > cur && !__atomic_compare_exchange_n(&g_max[slot], &cur, b, false, __ATOMIC_RELAXED, __ATOMIC_RELAXED)) {}
}
static double mx_get(int slot) {
    uint64_t b = __atomic_load_n(&g_max[slot], __ATOMIC_RELAXED);
    double r;
    memcpy(&r, &b, 8);
    return r;
}

// ------------------------------------------------------------------ specs
enum Kind { SEG, HOR, VER, QUAD, QSM, CUB, CSM, BEZ, ARC, TURN, PAR, INT, NKIND };
static const char* KIND_NAME[NKIND] = {"segment", "horizontal", "vertical", "quadratic", "quadratic_smooth", "cubic",
                                       "cubic_smooth", "bezier", "arc", "turn", "parametric", "interpolation"};
static int kind_slot(Kind k) {
    switch (k) {
        case QUAD: case QSM: return MX_QUAD;
        case CUB: case CSM: return MX_CUBIC;
        case BEZ: return MX_BEZIER;
        case ARC: return MX_ARC;
        case TURN: return MX_TURN;
        case PAR: return MX_PARAM;
        case INT: return MX_INTERP;
        default: return -1;
    }
}
static const double PAR_SCALES[6] = {1, 1e-2, 1e2, 1e-3, 1e-9, 1e9};
struct Spec {
    Kind kind = SEG;
    bool rel = false;
    int variant = 0;                 // 0: scalar overload (single section) where one exists, 1: Array overload
    std::vector<Vec2> pts;           // as passed to gdstk (already relative when rel)
    std::vector<double> vals;        // HOR/VER coordinates
    double rx = 0, ry = 0, a0 = 0, a1 = 0, rot = 0;   // ARC; TURN: rx = radius, a0 = angle
    int fn = 0;                      // PAR: 0 parabola, 1 full circle, 2 straight line
    int pscale = 0;                  // PAR: index into PAR_SCALES (size of the function)
    std::vector<double> angles;      // INT (size pts+1)
    std::vector<int> cons;
    bool cycle = false;
    std::string name;                // label for histories
    std::string json() const {
        JFields f = {{"kind", jstr(KIND_NAME[kind])}};
        if (kind <= BEZ || kind == PAR || kind == INT) f.push_back({"relative", jbool(rel)});
        if (kind == SEG || kind == HOR || kind == VER || kind == QSM) f.push_back({"overload", jstr(variant ? "array" : "scalar")});
        if (!pts.empty()) {
            std::vector<std::string> v;
            for (auto& p : pts) v.push_back("[" + jnum(p.x) + "," + jnum(p.y) + "]");
            f.push_back({"points", jarr(v)});
        }
        if (!vals.empty()) f.push_back({"coords", jnums(vals)});
        if (kind == ARC) {
            f.push_back({"radius_x", jnum(rx)}); f.push_back({"radius_y", jnum(ry)});
            f.push_back({"initial_angle", jnum(a0)}); f.push_back({"final_angle", jnum(a1)});
            f.push_back({"rotation", jnum(rot)});
        }
        if (kind == TURN) { f.push_back({"radius", jnum(rx)}); f.push_back({"angle", jnum(a0)}); }
        if (kind == PAR && pscale) f.push_back({"function_scale", jnum(PAR_SCALES[pscale])});
        if (kind == PAR) f.push_back({"function", jstr(fn == 0 ? "parabola (2u,2u^2)" : fn == 1 ? "circle (cos2piu-1, sin2piu)" : "line (3u,u)")});
        if (kind == INT) {
            f.push_back({"angles", jnums(angles)}); f.push_back({"angle_constraints", jnums(cons)});
            f.push_back({"cycle", jbool(cycle)});
        }
        return jobj(f);
    }
};

// parametric functions: the double version handed to gdstk and the long double twin of the oracle
struct ParData { Vec2 origin; int fn; double scale; };
static Vec2 par_fn(double u, void* data) {
    ParData* d = (ParData*)data;
    Vec2 r;
    if (d->fn == 0) r = Vec2{2 * u, 2 * u * u};
    else if (d->fn == 1) r = Vec2{cos(2 * M_PI * u) - 1, sin(2 * M_PI * u)};
    else r = Vec2{3 * u, u};
    return r * d->scale + d->origin;
}
struct ParL { int fn; LD scale; };
static P2 par_fn_l(LD u, const void* data) {
    const ParL* d = (const ParL*)data;
    P2 r;
    if (d->fn == 0) r = {2 * u, 2 * u * u};
    else if (d->fn == 1) r = {cosl(2 * PI_L * u) - 1, sinl(2 * PI_L * u)};
    else r = {3 * u, u};
    return d->scale * r;
}
static const ParL PAR_TAB[3][6] = {{{0, 1}, {0, 1e-2L}, {0, 1e2L}, {0, 1e-3L}, {0, 1e-9L}, {0, 1e9L}}, {{1, 1}, {1, 1e-2L}, {1, 1e2L}, {1, 1e-3L}, {1, 1e-9L}, {1, 1e9L}}, {{2, 1}, {2, 1e-2L}, {2, 1e2L}, {2, 1e-3L}, {2, 1e-9L}, {2, 1e9L}}};

static void apply_direct(Curve& c, const Spec& s) {
    Array<Vec2> a = {};
    a.items = (Vec2*)s.pts.data();
    a.count = s.pts.size();
    Array<double> d = {};
    d.items = (double*)s.vals.data();
    d.count = s.vals.size();
    switch (s.kind) {
        case SEG: if (s.variant == 0) c.segment(s.pts[0], s.rel); else c.segment(a, s.rel); break;
        case HOR: if (s.variant == 0) c.horizontal(s.vals[0], s.rel); else c.horizontal(d, s.rel); break;
        case VER: if (s.variant == 0) c.vertical(s.vals[0], s.rel); else c.vertical(d, s.rel); break;
        case QUAD: c.quadratic(a, s.rel); break;
        case QSM: if (s.variant == 0) c.quadratic_smooth(s.pts[0], s.rel); else c.quadratic_smooth(a, s.rel); break;
        case CUB: c.cubic(a, s.rel); break;
        case CSM: c.cubic_smooth(a, s.rel); break;
        case BEZ: c.bezier(a, s.rel); break;
        case ARC: c.arc(s.rx, s.ry, s.a0, s.a1, s.rot); break;
        case TURN: c.turn(s.rx, s.a0); break;
        case PAR: {
            ParData pd;
            pd.fn = s.fn;
            pd.scale = PAR_SCALES[s.pscale];
            pd.origin = s.rel ? Vec2{0, 0} : c.point_array[c.point_array.count - 1];
            c.parametric(par_fn, &pd, s.rel);
        } break;
        case INT: {
            size_t n = s.pts.size() + 1;
            std::vector<double> ang(s.angles);
            bool cb[16];
            Vec2 tens[16];
            for (size_t i = 0; i < n; i++) { cb[i] = s.cons[i] != 0; tens[i] = Vec2{1, 1}; }
            c.interpolation(a, ang.data(), cb, tens, 1, 1, s.cycle, s.rel);
        } break;
        default: break;
    }
}
// command-string form of a single-section spec; false if there is none
static bool to_commands(const Spec& s, std::vector<CurveInstruction>& prog) {
    auto cmd = [&](char ch) { CurveInstruction i; memset(&i, 0, sizeof i); i.command = ch; prog.push_back(i); };
    auto num = [&](double v) { CurveInstruction i; memset(&i, 0, sizeof i); i.number = v; prog.push_back(i); };
    auto P = [&](const Vec2& v) { num(v.x); num(v.y); };
    switch (s.kind) {
        case SEG: if (s.pts.size() != 1) return false; cmd(s.rel ? 'l' : 'L'); P(s.pts[0]); return true;
        case HOR: if (s.vals.size() != 1) return false; cmd(s.rel ? 'h' : 'H'); num(s.vals[0]); return true;
        case VER: if (s.vals.size() != 1) return false; cmd(s.rel ? 'v' : 'V'); num(s.vals[0]); return true;
        case QUAD: if (s.pts.size() != 2) return false; cmd(s.rel ? 'q' : 'Q'); P(s.pts[0]); P(s.pts[1]); return true;
        case QSM: if (s.pts.size() != 1) return false; cmd(s.rel ? 't' : 'T'); P(s.pts[0]); return true;
        case CUB: if (s.pts.size() != 3) return false; cmd(s.rel ? 'c' : 'C'); P(s.pts[0]); P(s.pts[1]); P(s.pts[2]); return true;
        case CSM: if (s.pts.size() != 2) return false; cmd(s.rel ? 's' : 'S'); P(s.pts[0]); P(s.pts[1]); return true;
        case ARC:
            if (s.rx == s.ry && s.rot == 0) { cmd('A'); num(s.rx); num(s.a0); num(s.a1); }
            else { cmd('E'); num(s.rx); num(s.ry); num(s.a0); num(s.a1); num(s.rot); }
            return true;
        case TURN: cmd('a'); num(s.rx); num(s.a0); return true;
        default: return false;
    }
}

// ------------------------------------------------------------------ model
static inline P2 toP(const Vec2& v) { return {(LD)v.x, (LD)v.y}; }
struct MState {
    P2 end = {0, 0};      // current end point (the observed last vertex)
    P2 lc = {0, 0};       // "last control point" a smooth continuation / turn refers to
    bool lc_ok = false;
    bool lc_stale = false;  // parametric sections leave it untouched
};
struct Model {
    Exact ex;
    P2 exp_end = {0, 0};
    bool enabled = true;
    enum LcMode { LC_SET, LC_POLYLINE, LC_KEEP } lc_mode = LC_SET;
    P2 new_lc = {0, 0};
    LD lc_len = 1;
    bool cusp = false, smooth = false;
    LD feature = 0;         // feature size for the non-triviality rule
    LD axis_ratio = 1, span = 0, param_span = 0;
    std::string hobby_error;
    int par_id = 0;
};
static LD wrap_pi(LD a) {
    while (a > PI_L) a -= 2 * PI_L;
    while (a <= -PI_L) a += 2 * PI_L;
    return a;
}
static LD poly_feature(const std::vector<P2>& c) {
    LD f = 0;
    for (size_t i = 0; i < c.size(); i++)
        for (size_t j = i + 1; j < c.size(); j++) f = std::max(f, dist(c[i], c[j]));
    return f;
}

// Verification of Hobby's defining equations (METAFONT book ch. 14 / Hobby 1986, tension 1, curl 1)
// on the control points returned for knots K: velocity formulas, tangent continuity, angle
// constraints, mock-curvature continuity and end conditions.  Returns "" if they hold.
static std::string verify_hobby(const std::vector<P2>& K, const std::vector<P2>& c1, const std::vector<P2>& c2,
                                const std::vector<int>& cons, const std::vector<double>& angles, bool cycle) {
    int nk = (int)K.size(), nseg = cycle ? nk : nk - 1;
    const LD A = sqrtl(2.0L), B = 1.0L / 16, C = (3 - sqrtl(5.0L)) / 2;
    std::vector<LD> d(nseg), th(nseg), ph(nseg), da(nseg), db(nseg);
    std::vector<bool> dirok(nseg);
    for (int k = 0; k < nseg; k++) {
        P2 a0 = K[k], b0 = K[(k + 1) % nk];
        d[k] = dist(a0, b0);
        if (d[k] == 0) return "";   // coincident knots: outside the alphabet
        LD del = atan2l(b0.y - a0.y, b0.x - a0.x);
        P2 a = c1[k] - a0, b = b0 - c2[k];
        if (!finite2(a) || !finite2(b)) return fmt("segment %d: non-finite control point", k);
        da[k] = atan2l(a.y, a.x);
        db[k] = atan2l(b.y, b.x);
        dirok[k] = norm(a) > 1e-9L * d[k] && norm(b) > 1e-9L * d[k];   // relative to the chord: magnitude-free
        th[k] = wrap_pi(da[k] - del);
        ph[k] = wrap_pi(del - db[k]);
        LD st = sinl(th[k]), ct = cosl(th[k]), sp = sinl(ph[k]), cp = cosl(ph[k]);
        LD alpha = A * (st - B * sp) * (sp - B * st) * (ct - cp);
        LD rho = (2 + alpha) / (1 + (1 - C) * ct + C * cp), sig = (2 - alpha) / (1 + (1 - C) * cp + C * ct);
        if (dirok[k]) {
            if (fabsl(norm(a) - d[k] * rho / 3) > 1e-9L * d[k])
                return fmt("segment %d: |c1-z0|=%.12Lg but Hobby velocity d*rho(theta,phi)/3=%.12Lg (theta=%.6Lg phi=%.6Lg)", k, norm(a), d[k] * rho / 3, th[k], ph[k]);
            if (fabsl(norm(b) - d[k] * sig / 3) > 1e-9L * d[k])
                return fmt("segment %d: |z1-c2|=%.12Lg but Hobby velocity d*sigma(theta,phi)/3=%.12Lg (theta=%.6Lg phi=%.6Lg)", k, norm(b), d[k] * sig / 3, th[k], ph[k]);
        }
    }
    auto same_dir = [&](LD x, LD y) { return fabsl(wrap_pi(x - y)) <= 1e-9L; };
    for (int j = 0; j < nk; j++) {
        int Lg = j - 1, Rg = j;
        if (cycle) { Lg = (j - 1 + nk) % nk; Rg = j; }
        bool hasL = cycle || j > 0, hasR = cycle || j < nk - 1;
        if (cons[j]) {
            if (hasR && dirok[Rg] && !same_dir(da[Rg], angles[j])) return fmt("knot %d: departure direction %.12Lg != constrained angle %.12g", j, da[Rg], angles[j]);
            if (hasL && dirok[Lg] && !same_dir(db[Lg], angles[j])) return fmt("knot %d: arrival direction %.12Lg != constrained angle %.12g", j, db[Lg], angles[j]);
            continue;
        }
        if (hasL && hasR) {
            if (dirok[Lg] && dirok[Rg] && !same_dir(da[Rg], db[Lg])) return fmt("knot %d: tangent not continuous (%.12Lg vs %.12Lg)", j, db[Lg], da[Rg]);
            if (fabsl(ph[Lg]) < 2 && fabsl(th[Rg]) < 2) {
                // theta of L / phi of R are fixed by an angle constraint when their far knot is
                // constrained; gdstk does not reduce (angle - chord angle) to (-pi, pi] as METAFONT
                // does, so any branch of those two angles is accepted (counted as an outcome)
                int farL = Lg, farR = (Rg + 1) % nk;
                bool ok = false, reduced_ok = false;
                for (int a = -1; a <= 1 && !ok; a++)
                    for (int b = -1; b <= 1 && !ok; b++) {
                        if (a && !cons[farL]) continue;
                        if (b && !cons[farR]) continue;
                        if (!a && !b && !(fabsl(th[Lg]) < 2 && fabsl(ph[Rg]) < 2) && !cons[farL] && !cons[farR]) continue;
                        LD l = (th[Lg] + 2 * PI_L * a - 2 * ph[Lg]) / d[Lg], r = (ph[Rg] + 2 * PI_L * b - 2 * th[Rg]) / d[Rg];
                        if (fabsl(l - r) <= 1e-8L / std::min(d[Lg], d[Rg])) { ok = true; reduced_ok = !a && !b; }   // angles per length: slack scales with 1/chord
                    }
                bool applicable = cons[farL] || cons[farR] || (fabsl(th[Lg]) < 2 && fabsl(ph[Rg]) < 2);
                if (applicable && !ok) {
                    LD l = (th[Lg] - 2 * ph[Lg]) / d[Lg], r = (ph[Rg] - 2 * th[Rg]) / d[Rg];
                    return fmt("knot %d: mock curvature not continuous (%.12Lg vs %.12Lg)", j, l, r);
                }
                if (ok && !reduced_ok) R->count("hobby_unreduced_constraint_angle_branch");
            }
        } else if (nk == 2 && !cons[0] && !cons[1]) {
            if (fabsl(th[0]) > 1e-9L || fabsl(ph[0]) > 1e-9L) return "two free knots must give a straight line";
        } else if (hasR) {  // free start: curl 1 (phi of segment 0 may be constraint-derived: any branch)
            if (fabsl(wrap_pi(th[0] - ph[0])) > 1e-8L) return fmt("free start: theta=%.12Lg != phi=%.12Lg (curl 1)", th[0], ph[0]);
        } else {            // free end
            if (fabsl(wrap_pi(th[nseg - 1] - ph[nseg - 1])) > 1e-8L) return fmt("free end: theta=%.12Lg != phi=%.12Lg (curl 1)", th[nseg - 1], ph[nseg - 1]);
        }
    }
    return "";
}

static void build_model(const MState& st, const Vec2 end_d, const Spec& s, Model& m) {
    const P2 ref = st.end;
    auto AB = [&](const Vec2& p) { return s.rel ? ref + toP(p) : toP(p); };
    std::vector<Piece>& pc = m.ex.pieces;
    P2 prev = ref;
    m.lc_mode = Model::LC_SET;
    switch (s.kind) {
        case SEG: {
            P2 before_last = ref;
            for (size_t i = 0; i < s.pts.size(); i++) { before_last = prev; pc.push_back(line(prev, AB(s.pts[i]))); prev = AB(s.pts[i]); }
            m.new_lc = before_last;
        } break;
        case HOR: case VER: {
            P2 before_last = ref;
            for (double v : s.vals) {
                P2 q = ref;
                if (s.kind == HOR) q.x = s.rel ? ref.x + v : v; else q.y = s.rel ? ref.y + v : v;
                before_last = prev;
                pc.push_back(line(prev, q));
                prev = q;
            }
            m.new_lc = before_last;
        } break;
        case QUAD:
            for (size_t i = 0; i + 1 < s.pts.size(); i += 2) {
                std::vector<P2> c = {prev, AB(s.pts[i]), AB(s.pts[i + 1])};
                m.cusp |= cusp_or_loop(c); m.feature = std::max(m.feature, poly_feature(c));
                pc.push_back(bez(c, span_lt_quarter(c), "quadratic"));
                m.new_lc = c[1]; prev = c[2];
            }
            break;
        case QSM: {
            if (!st.lc_ok) { m.enabled = false; return; }
            P2 lc = st.lc;
            m.smooth = true;
            for (size_t i = 0; i < s.pts.size(); i++) {
                lc = 2 * prev - lc;
                std::vector<P2> c = {prev, lc, AB(s.pts[i])};
                m.cusp |= cusp_or_loop(c); m.feature = std::max(m.feature, poly_feature(c));
                pc.push_back(bez(c, span_lt_quarter(c), "quadratic_smooth"));
                prev = c[2];
            }
            m.new_lc = lc;
        } break;
        case CUB:
            for (size_t i = 0; i + 2 < s.pts.size(); i += 3) {
                std::vector<P2> c = {prev, AB(s.pts[i]), AB(s.pts[i + 1]), AB(s.pts[i + 2])};
                m.cusp |= cusp_or_loop(c); m.feature = std::max(m.feature, poly_feature(c));
                pc.push_back(bez(c, span_lt_quarter(c), "cubic"));
                m.new_lc = c[2]; prev = c[3];
            }
            break;
        case CSM: {
            if (!st.lc_ok) { m.enabled = false; return; }
            P2 lc = st.lc;
            m.smooth = true;
            for (size_t i = 0; i + 1 < s.pts.size(); i += 2) {
                std::vector<P2> c = {prev, 2 * prev - lc, AB(s.pts[i]), AB(s.pts[i + 1])};
                m.cusp |= cusp_or_loop(c); m.feature = std::max(m.feature, poly_feature(c));
                pc.push_back(bez(c, span_lt_quarter(c), "cubic_smooth"));
                lc = c[2]; prev = c[3];
            }
            m.new_lc = lc;
        } break;
        case BEZ: {
            std::vector<P2> c = {prev};
            for (auto& p : s.pts) c.push_back(AB(p));
            m.cusp = cusp_or_loop(c); m.feature = poly_feature(c);
            pc.push_back(bez(c, span_lt_quarter(c), "bezier"));
            m.new_lc = c[c.size() - 2];
        } break;
        case ARC: {
            pc.push_back(arc_from(ref, s.rx, s.ry, s.a0, s.a1, s.rot, "arc"));
            m.lc_mode = Model::LC_POLYLINE;
            m.lc_len = ((LD)s.rx + s.ry) / 2;
            m.feature = std::min(s.rx, s.ry);
            m.axis_ratio = std::max(s.rx, s.ry) / std::min(s.rx, s.ry);
            m.span = fabsl((LD)s.a1 - s.a0);
            m.param_span = fabsl(pc[0].th1 - pc[0].th0);
        } break;
        case TURN: {
            if (!st.lc_ok || (st.lc.x == ref.x && st.lc.y == ref.y)) { m.enabled = false; return; }
            m.smooth = true;
            LD h = atan2l(ref.y - st.lc.y, ref.x - st.lc.x);
            LD ai = s.a0 < 0 ? h + PI_L / 2 : h - PI_L / 2;   // centre to the right (cw) / left (ccw)
            pc.push_back(arc_from(ref, s.rx, s.rx, ai, ai + s.a0, 0, "turn"));
            m.lc_mode = Model::LC_POLYLINE;
            m.lc_len = s.rx;
            m.feature = s.rx;
            m.span = fabsl((LD)s.a0);
            m.param_span = m.span;
        } break;
        case PAR: {
            Piece p;
            p.type = Piece::FUNC;
            p.fn = par_fn_l;
            p.data = &PAR_TAB[s.fn][s.pscale];
            p.ref = ref;
            p.dev = true;
            p.what = "parametric";
            pc.push_back(p);
            m.lc_mode = Model::LC_KEEP;
            m.feature = 2 * PAR_SCALES[s.pscale];
        } break;
        case INT: {
            int np = (int)s.pts.size(), nk = np + 1;
            std::vector<Vec2> hv(3 * nk + 1);
            hv[0] = end_d;
            for (int i = 0; i < np; i++) hv[3 * (i + 1)] = s.rel ? end_d + s.pts[i] : s.pts[i];
            std::vector<double> ang(s.angles);
            bool cb[16];
            Vec2 tens[16];
            for (int i = 0; i < nk; i++) { cb[i] = s.cons[i] != 0; tens[i] = Vec2{1, 1}; }
            hobby_interpolation(nk, hv.data(), ang.data(), cb, tens, 1, 1, s.cycle);
            if (s.cycle) hv[3 * nk] = hv[0];
            int nseg = s.cycle ? nk : nk - 1;
            std::vector<P2> K, c1, c2;
            for (int i = 0; i < nk; i++) K.push_back(toP(hv[3 * i]));
            for (int k = 0; k < nseg; k++) { c1.push_back(toP(hv[3 * k + 1])); c2.push_back(toP(hv[3 * k + 2])); }
            m.hobby_error = verify_hobby(K, c1, c2, s.cons, s.angles, s.cycle);
            for (int k = 0; k < nseg; k++) {
                std::vector<P2> c = {K[k], c1[k], c2[k], K[(k + 1) % nk]};
                m.cusp |= cusp_or_loop(c); m.feature = std::max(m.feature, poly_feature(c));
                pc.push_back(bez(c, span_lt_quarter(c), "interpolation"));
                m.new_lc = c2[k];
            }
        } break;
        default: break;
    }
    if (!pc.empty()) m.exp_end = pc.back().eval(1);
}

// ------------------------------------------------------------------ oracle items (1)-(5)
struct CaseCtx {
    std::string case_json, replay;
    double tol = 0.01;
    std::string tol_s;
    bool verbose = false;
    double scale_floor = 1;   // the on-curve / end-point slacks are relative to max(scale_floor, largest |coordinate|)
};
struct SecOut {
    bool bad = false;
    double ratio = -1;     // largest deviation / tolerance on eligible pieces (-1: none eligible)
    int nnew = 0;
    bool dev_checked = false;
};
static std::string vstr(const Vec2& v) { return fmt("(%.17g, %.17g)", v.x, v.y); }

// curvature*tolerance maximum over the Bezier pieces (own derivative evaluation), capped
static double kt_max(const Exact& ex, double tol, LD extra_param) {
    LD best = 0;
    auto at = [&](LD g) {
        const Piece& p = ex.piece_at(g);
        if (p.type != Piece::BEZ) return;
        int i = std::min((int)floorl(g), (int)ex.pieces.size() - 1);
        P2 d1, d2;
        p.deriv(g - i, d1, d2);
        LD l = norm(d1);
        // zero speed (cusp / coincident control points): curvature is 0/0 there and unbounded next to it
        LD k = l > 0 ? fabsl(cross(d1, d2)) / (l * l * l) : (poly_feature(p.ctrl) > 0 ? 1e30L : 0);
        if (k * tol > best) best = k * tol;
    };
    int n = (int)ex.pieces.size();
    for (auto& p : ex.pieces) {
        // straight control polygon that reverses (or has a degenerate edge): the speed reaches 0 on
        // the line, so the curvature is 0/0 there and unbounded in floating point next to it
        if (p.type != Piece::BEZ || p.ctrl.size() < 3) continue;
        bool collinear = true;
        P2 e0 = {0, 0};
        for (size_t i = 0; i + 1 < p.ctrl.size(); i++) {
            P2 e = p.ctrl[i + 1] - p.ctrl[i];
            if (e0.x == 0 && e0.y == 0) e0 = e;
            else if (fabsl(cross(e0, e)) > 1e-12L * norm(e0) * norm(e)) collinear = false;
        }
        if (collinear && cusp_or_loop(p.ctrl)) best = 1e30L;
    }
    for (int j = 0; j <= 512 * n; j++) at((LD)j / 512);
    if (extra_param >= 0) at(extra_param);
    if (best > 1e30L) best = 1e30L;
    return (double)best;
}

static SecOut check_vertices(const CaseCtx& cx, const std::string& sub, JFields tags, Exact& ex, P2 exp_end,
                             const std::vector<Vec2>& before, const Vec2* after, uint64_t nafter, int slot,
                             const std::string& cls_prefix = "") {
    SecOut out;
    tags.push_back({"tol", jstr(cx.tol_s)});
    auto viol = [&](const std::string& cls0, const JFields& extra, const std::string& detail) {
        std::string cls = cls_prefix + cls0;
        out.bad = true;
        if (g_quiet) return;
        JFields t = tags;
        for (auto& e : extra) t.push_back(e);
        emit_violation(sub, cls, t, cx.case_json, detail, cx.replay, cx.verbose);
    };
    // (1) vertices already present are untouched
    if (nafter < before.size() || memcmp(after, before.data(), sizeof(Vec2) * before.size()) != 0) {
        viol("prefix-modified", {}, fmt("the %zu vertices present before the call were changed or removed (count after: %llu)", before.size(), (unsigned long long)nafter));
        return out;
    }
    const Vec2* nv = after + before.size();
    int nnew = (int)(nafter - before.size());
    out.nnew = nnew;
    ex.build();
    LD scale = ex.scale(cx.scale_floor);
    LD eps = 1e-9L * scale;
    // (3) finite
    int first_bad = -1;
    for (int i = 0; i < nnew; i++)
        if (!std::isfinite(nv[i].x) || !std::isfinite(nv[i].y)) { first_bad = i; break; }
    if (first_bad >= 0) {
        LD tp = 0;
        for (int i = 0; i < first_bad; i++) {
            LD t, dm;
            if (!ex.find_from(toP(nv[i]), tp, eps, t, dm)) break;
            tp = t;
        }
        double kt = kt_max(ex, cx.tol, tp);
        bool gt2 = kt > 2;
        viol(gt2 ? "nan-vertex" : "nan-vertex:kt<=2", {{"kt_max", jnum(kt)}, {"kt_gt2", jbool(gt2)}},
             fmt("new vertex %d of %d is %s (non-finite); last finite vertex at curve parameter %.6Lg of %d; requested end point (%.12Lg, %.12Lg) never reached; max curvature*tolerance along the section = %.4g",
                 first_bad, nnew, vstr(nv[first_bad]).c_str(), tp, (int)ex.pieces.size(), exp_end.x, exp_end.y, kt));
        return out;
    }
    // (2) requested end point
    P2 last = toP(nnew ? nv[nnew - 1] : before.back());
    LD dend = dist(last, exp_end);
    if (!(dend <= 1e-12L * scale))
        viol("end-point", {{"miss", jnum((double)dend)}}, fmt("last vertex (%.17Lg, %.17Lg) is %.3Lg away from the requested end point (%.17Lg, %.17Lg)", last.x, last.y, dend, exp_end.x, exp_end.y));
    // (4) on the exact curve, in order
    std::vector<LD> T(nnew + 1, 0);
    std::vector<P2> N(nnew + 1);
    N[0] = toP(before.back());
    LD tp = 0;
    bool all_on = true;
    int fine = 1;
    for (int i = 0; i < nnew; i++) {
        P2 v = toP(nv[i]);
        N[i + 1] = v;
        LD t, dm;
        if (!ex.find_from(v, tp, eps, t, dm, fine)) {
            if (fine == 1) {   // redo the whole ordered search in careful mode before judging
                fine = 16;
                if (!g_quiet) R->count("careful_search");
                i = -1;
                tp = 0;
                continue;
            }
            LD t0, dm0;
            bool earlier = ex.find_from(v, 0, eps, t0, dm0, fine);
            if (earlier)
                viol("order", {}, fmt("new vertex %d of %d %s lies on the curve only at parameter %.9Lg, before its predecessor's %.9Lg", i, nnew, vstr(nv[i]).c_str(), t0, tp));
            else
                viol("off-curve", {{"dist", jnum((double)dm0)}}, fmt("new vertex %d of %d %s is %.3Lg away from the exact curve (nearest parameter %.9Lg of %d pieces; allowed %.3Lg)", i, nnew, vstr(nv[i]).c_str(), dm0, t0, (int)ex.pieces.size(), eps));
            all_on = false;
            break;
        }
        T[i + 1] = t;
        tp = t;
        if (cx.verbose && !g_quiet) fprintf(stderr, "    v[%d] = %s  param %.9Lg\n", i, vstr(nv[i]).c_str(), t);
    }
    if (!all_on) return out;
    // (5) deviation on eligible pieces
    bool any_dev = false;
    for (auto& p : ex.pieces) any_dev |= (p.dev && !(p.type == Piece::BEZ && p.ctrl.size() == 2));
    if (!any_dev || slot < 0) return out;
    out.dev_checked = true;
    LD lim = K_DEV * cx.tol, maxd = 0, maxs = 0;
    struct Smp { LD s; P2 c; LD d; };
    std::vector<Smp> over;
    int k = nnew ? std::max(4, (2000 + nnew - 1) / nnew) : 0;
    for (int i = 0; i < nnew; i++) {
        if (!(T[i + 1] > T[i])) continue;
        for (int j = 0; j < k; j++) {
            LD s = T[i] + (j + 0.5L) / k * (T[i + 1] - T[i]);
            if (!ex.piece_at(s).dev) continue;
            P2 c = ex.eval(s);
            LD d = dist_seg(c, N[i], N[i + 1]);
            if (i > 0) d = std::min(d, dist_seg(c, N[i - 1], N[i]));
            if (i + 2 <= nnew) d = std::min(d, dist_seg(c, N[i + 1], N[i + 2]));
            if (d > lim) { if (over.size() < 4000) over.push_back({s, c, d}); }
            else if (d > maxd) { maxd = d; maxs = s; }
        }
    }
    if (ex.total() - T[nnew] > 1e-9L) {   // part of the curve after the last vertex's parameter
        int kk = 64;
        for (int j = 0; j < kk; j++) {
            LD s = T[nnew] + (j + 0.5L) / kk * (ex.total() - T[nnew]);
            if (!ex.piece_at(s).dev) continue;
            P2 c = ex.eval(s);
            LD d = nnew ? dist_seg(c, N[nnew - 1], N[nnew]) : dist(c, N[0]);
            if (d > lim) { if (over.size() < 4000) over.push_back({s, c, d}); }
            else if (d > maxd) { maxd = d; maxs = s; }
        }
    }
    for (auto& o : over) {   // confirm against the whole polyline
        LD d = nnew ? 1e300L : dist(o.c, N[0]);
        for (int i = 0; i < nnew; i++) d = std::min(d, dist_seg(o.c, N[i], N[i + 1]));
        if (d > maxd) { maxd = d; maxs = o.s; }
    }
    out.ratio = (double)(maxd / cx.tol);
    mx_note(slot, out.ratio);
    if (maxd > lim) {
        P2 c = ex.eval(maxs);
        viol("deviation", {{"ratio", jnum(out.ratio)}, {"piece", jstr(ex.piece_at(maxs).what)}},
             fmt("exact curve point (%.12Lg, %.12Lg) at parameter %.6Lg is %.6Lg = %.3f x tolerance away from the polyline of %d new vertices (allowed %.1f x)", c.x, c.y, maxs, maxd, out.ratio, nnew, K_DEV));
    } else
        mx_note(MX_N + slot, out.ratio);
    return out;
}
