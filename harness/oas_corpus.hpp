// oas_corpus.hpp — the finite, structured alphabet of libraries used by C02 (OASIS round trip) and
// reusable by other file-format checks (C18 …).
//
// Interface:   oas_corpus::count()            number of libraries in the corpus
//              oas_corpus::build(i)           a freshly allocated Library (free with destroy())
//              oas_corpus::describe(i)        JSON object describing library i
//              oas_corpus::info(i)            classification used for tiers / non-triviality
//              oas_corpus::expected(i)        for members with a transformation history / non-simple paths: what the
//                                             saved file must denote, from the corpus' own arithmetic
//              oas_corpus::key(i) / find_key  stable member identifier (survives corpus growth)
//              oas_corpus::destroy(lib)       frees the library, its cells and the cells that were
//                                             deliberately NOT added to it
//
// Everything is deterministic: no random numbers, no addresses, no time.  The corpus is a list of
// "families"; inside a family the members are a full product / full enumeration of small domains
// (see the comment at each family).  Coordinates are in user units; unless a member says otherwise
// the library has unit 1e-6 and precision 1e-9 (1000 grid steps per user unit) and all repetition
// vectors lie on the grid.
#pragma once
#include <gdstk/gdstk.hpp>

#include <functional>
#include <map>
#include <string>
#include <vector>

#include "exactgeom.hpp"
#include "vf.hpp"

namespace oas_corpus {
using namespace gdstk;
using vf::fmt;
using vf::jbool;
using vf::jint;
using vf::jnum;
using vf::jobj;
using vf::jstr;

struct Info {
    std::string family;  // e.g. "single.poly.lattice", "rep.kitchen_sink"
    std::string desc;    // human readable member description
    bool single = true;  // single-element library (false: representative multi-element library)
    bool reduced = false;              // member of the reduced alphabet Sigma'
    bool lattice = false;              // member of the 4x4 lattice detection family
    bool detectable = false;           // contains an axis-parallel rectangle or a trapezoid with two parallel axis-aligned sides or a right isosceles triangle (own classification)
    bool circle_candidate = false;     // contains a polygon with > 4 vertices built as a circle
    bool many_vertices = false;        // contains a polygon with > 4 vertices (circle tolerance can matter)
    bool circle_family = false;        // member of the circle / near-circle / partial-disc families (run with circle tolerances 1e-3 and 1e-2)
    bool has_repetition = false;       // some element carries a repetition with > 1 copies
    bool multi_value_props = false;    // some property has >= 2 values
    bool dangling_ref = false;         // reference to an absent (by name) or not-added (by pointer) cell
    bool heavy = false;                // large library (thorough only, few configurations)
    bool multi_top = false;            // >= 2 top-level cells (standard-property refresh over several save/load cycles)
};

struct Builder {
    Library* lib = NULL;
    std::vector<Cell*> extra;  // cells not added to the library (owned here)
    void start(double unit = 1e-6, double precision = 1e-9, const char* name = "library") {
        lib = (Library*)allocate_clear(sizeof(Library));
        lib->init(name, unit, precision);
    }
    Cell* cell(const char* name, bool add = true) {
        Cell* c = (Cell*)allocate_clear(sizeof(Cell));
        c->init(name);
        if (add) lib->cell_array.append(c);
        else extra.push_back(c);
        return c;
    }
    Polygon* poly(Cell* c, const std::vector<Vec2>& pts, Tag tag) {
        Polygon* p = (Polygon*)allocate_clear(sizeof(Polygon));
        p->tag = tag;
        for (auto& v : pts) p->point_array.append(v);
        c->polygon_array.append(p);
        return p;
    }
    Polygon* poly_take(Cell* c, Polygon src) {
        Polygon* p = (Polygon*)allocate_clear(sizeof(Polygon));
        *p = src;
        c->polygon_array.append(p);
        return p;
    }
    FlexPath* fpath(Cell* c, const std::vector<Vec2>& pts, double width, EndType end, Vec2 ext, Tag tag) {
        FlexPath* f = (FlexPath*)allocate_clear(sizeof(FlexPath));
        f->init(pts[0], 1, width, 0, 0.01, tag);
        for (size_t i = 1; i < pts.size(); i++) f->segment(pts[i], NULL, NULL, false);
        f->simple_path = true;
        f->scale_width = true;
        f->elements[0].end_type = end;
        f->elements[0].end_extensions = ext;
        c->flexpath_array.append(f);
        return f;
    }
    RobustPath* rpath(Cell* c, const std::vector<Vec2>& pts, double width, EndType end, Vec2 ext, Tag tag) {
        RobustPath* r = (RobustPath*)allocate_clear(sizeof(RobustPath));
        r->init(pts[0], 1, width, 0, 0.01, 1000, tag);
        for (size_t i = 1; i < pts.size(); i++) r->segment(pts[i], NULL, NULL, false);
        r->simple_path = true;
        r->scale_width = true;
        r->elements[0].end_type = end;
        r->elements[0].end_extensions = ext;
        c->robustpath_array.append(r);
        return r;
    }
    Label* label(Cell* c, const char* text, Vec2 origin, Tag tag) {
        Label* l = (Label*)allocate_clear(sizeof(Label));
        l->init(text);
        l->origin = origin;
        l->tag = tag;
        l->anchor = Anchor::O;
        c->label_array.append(l);
        return l;
    }
    Reference* ref(Cell* c, Cell* target, Vec2 origin, double rot = 0, double mag = 1, bool refl = false) {
        Reference* r = (Reference*)allocate_clear(sizeof(Reference));
        r->init(target);
        r->origin = origin; r->rotation = rot; r->magnification = mag; r->x_reflection = refl;
        c->reference_array.append(r);
        return r;
    }
    Reference* ref_name(Cell* c, const char* target, Vec2 origin, double rot = 0, double mag = 1, bool refl = false) {
        Reference* r = (Reference*)allocate_clear(sizeof(Reference));
        r->init(target);
        r->origin = origin; r->rotation = rot; r->magnification = mag; r->x_reflection = refl;
        c->reference_array.append(r);
        return r;
    }
};

// ------------------------------------------------------------------ repetition alphabet
struct RepSpec { const char* name; int type; uint64_t cols, rows; Vec2 a, b; std::vector<Vec2> offs; std::vector<double> coords; };
inline const std::vector<RepSpec>& repetitions() {
    static std::vector<RepSpec> v = {
        // Rectangular (type 1): columns, rows, spacing
        {"rect_2x2_pos", 1, 2, 2, {10, 10}, {}, {}, {}},
        {"rect_3x2_pos", 1, 3, 2, {7, 11}, {}, {}, {}},
        {"rect_3x1_pos", 1, 3, 1, {5, 0}, {}, {}, {}},
        {"rect_1x3_pos", 1, 1, 3, {0, 5}, {}, {}, {}},
        {"rect_2x3_negx", 1, 2, 3, {-10, 5}, {}, {}, {}},
        {"rect_2x2_negy", 1, 2, 2, {10, -10}, {}, {}, {}},
        {"rect_2x2_negxy", 1, 2, 2, {-10, -10}, {}, {}, {}},
        {"rect_3x1_negx", 1, 3, 1, {-5, 0}, {}, {}, {}},
        {"rect_1x2_negy", 1, 1, 2, {0, -5}, {}, {}, {}},
        {"rect_1x1", 1, 1, 1, {3, 3}, {}, {}, {}},
        // Regular (type 2): columns, rows, v1, v2
        {"reg_2x3_axis", 2, 2, 3, {10, 0}, {0, 10}, {}, {}},
        {"reg_2x2_skew", 2, 2, 2, {10, 2}, {-3, 10}, {}, {}},
        {"reg_3x2_neg", 2, 3, 2, {-6, -1}, {2, -9}, {}, {}},
        {"reg_3x1_diag", 2, 3, 1, {5, 5}, {0, 7}, {}, {}},
        {"reg_1x3_v2", 2, 1, 3, {9, 9}, {-2, 5}, {}, {}},
        {"reg_2x2_antidiag", 2, 2, 2, {4, -4}, {4, 4}, {}, {}},
        // Explicit (type 3)
        {"expl_1", 3, 0, 0, {}, {}, {{5, 5}}, {}},
        {"expl_3_mixed", 3, 0, 0, {}, {}, {{5, 0}, {0, 7}, {-3, -4}}, {}},
        {"expl_2_neg_first", 3, 0, 0, {}, {}, {{-5, -5}, {3, 2}}, {}},
        {"expl_4_dirs", 3, 0, 0, {}, {}, {{4, 4}, {-4, 4}, {8, 1}, {0, -6}}, {}},
        // ExplicitX (type 4) / ExplicitY (type 5)
        {"explx_1_pos", 4, 0, 0, {}, {}, {}, {5}},
        {"explx_3_sorted_pos", 4, 0, 0, {}, {}, {}, {5, 12, 20}},
        {"explx_2_unsorted_pos", 4, 0, 0, {}, {}, {}, {12, 5}},
        {"explx_1_neg", 4, 0, 0, {}, {}, {}, {-5}},
        {"explx_2_neg_pos", 4, 0, 0, {}, {}, {}, {-5, 3}},
        {"explx_2_pos_neg", 4, 0, 0, {}, {}, {}, {3, -5}},
        {"exply_1_pos", 5, 0, 0, {}, {}, {}, {5}},
        {"exply_3_sorted_pos", 5, 0, 0, {}, {}, {}, {5, 12, 20}},
        {"exply_2_unsorted_pos", 5, 0, 0, {}, {}, {}, {12, 5}},
        {"exply_1_neg", 5, 0, 0, {}, {}, {}, {-5}},
        {"exply_2_neg_pos", 5, 0, 0, {}, {}, {}, {-5, 3}},
    };
    return v;
}
inline int find_rep(const char* name) {
    auto& v = repetitions();
    for (size_t i = 0; i < v.size(); i++) if (std::string(v[i].name) == name) return (int)i;
    return -1;
}
inline void set_rep(Repetition& r, int idx) {
    const RepSpec& s = repetitions()[idx];
    memset(&r, 0, sizeof r);
    switch (s.type) {
        case 1: r.type = RepetitionType::Rectangular; r.columns = s.cols; r.rows = s.rows; r.spacing = s.a; break;
        case 2: r.type = RepetitionType::Regular; r.columns = s.cols; r.rows = s.rows; r.v1 = s.a; r.v2 = s.b; break;
        case 3: r.type = RepetitionType::Explicit; for (auto& o : s.offs) r.offsets.append(o); break;
        case 4: r.type = RepetitionType::ExplicitX; for (double c : s.coords) r.coords.append(c); break;
        case 5: r.type = RepetitionType::ExplicitY; for (double c : s.coords) r.coords.append(c); break;
    }
}
inline void set_rep(Repetition& r, const char* name) { set_rep(r, find_rep(name)); }

// ------------------------------------------------------------------ property alphabet
// A PropSpec is a list of properties; each property a name and a list of values.
struct PVal { char t; uint64_t u; int64_t i; double r; std::string s; };
inline PVal pu(uint64_t u) { return {'u', u, 0, 0, ""}; }
inline PVal pi(int64_t i) { return {'i', 0, i, 0, ""}; }
inline PVal pr(double r) { return {'r', 0, 0, r, ""}; }
inline PVal ps(const std::string& s) { return {'s', 0, 0, 0, s}; }
struct PSpec { std::string name; std::vector<PVal> vals; bool gds = false; };
struct PropList { const char* label; std::vector<PSpec> props; };
inline const std::vector<PropList>& property_lists() {
    static std::vector<PropList> v;
    if (!v.empty()) return v;
    const double lossy = 0.19999999999999998;  // fl(1/v) == 5 but 1/5 != v
    v.push_back({"u0", {{"a", {pu(0)}}}});
    v.push_back({"umax", {{"PROP_NAME_2", {pu(UINT64_MAX)}}}});
    v.push_back({"i_neg1", {{"a", {pi(-1)}}}});
    v.push_back({"i_big", {{"a", {pi(INT64_MAX)}, false}, {"b", {pi(-(int64_t)(1ull << 62))}, false}}});
    v.push_back({"r_2", {{"a", {pr(2)}}}});
    v.push_back({"r_half", {{"a", {pr(0.5)}}}});
    v.push_back({"r_lossy_recip", {{"a", {pr(lossy)}}}});
    v.push_back({"r_lossy_recip_third", {{"a", {pr(nextafter(1.0 / 3.0, 0.0))}}}});
    v.push_back({"r_lossy_recip_tenth", {{"a", {pr(nextafter(0.1, 1.0))}}}});
    v.push_back({"r_various", {{"a", {pr(-0.25), pr(3.5), pr(1e-3), pr(1.0 / 3.0), pr(-7), pr(1e300), pr(123456789.125)}}}});
    v.push_back({"s_text", {{"a", {ps("abc")}}}});
    v.push_back({"s_space", {{"a", {ps("a b")}}}});
    v.push_back({"s_bin_nul", {{"a", {ps(std::string("a\0b", 3))}}}});
    v.push_back({"s_bin_high", {{"a", {ps("\xff\x80\x01")}}}});
    v.push_back({"s_empty", {{"a", {ps("")}}}});
    // binary values of EQUAL length that agree up to an embedded 0x00 and differ after it (property values are byte
    // strings: a C-string comparison anywhere would merge them), next to genuine duplicates (which may share a table entry)
    auto B = [](std::initializer_list<int> b) { std::string s; for (int x : b) s.push_back((char)x); return ps(s); };
    v.push_back({"bin_nul_pair_same_property", {{"b", {B({1, 2, 0, 0x10, 0x11}), B({1, 2, 0, 0x20, 0x21})}}}});
    v.push_back({"bin_nul_pair_two_properties", {{"a", {B({0, 0x41})}}, {"b", {B({0, 0x42})}}}});
    v.push_back({"bin_nul_triple_and_duplicate", {{"t", {B({1, 2, 0, 0x10, 0x11}), B({1, 2, 0, 0x20, 0x21}), B({1, 2, 0, 0x30, 0x31}), B({1, 2, 0, 0x10, 0x11})}}, {"u", {B({1, 2, 0, 0x30, 0x31}), B({1, 2, 0, 0x20, 0x21})}}}});
    v.push_back({"bin_only_nuls_vs_nuls_plus_byte", {{"z", {B({0, 0}), B({0, 7}), B({0, 0, 0}), B({0, 0, 9}), B({0, 9, 0}), B({0, 0})}}}});
    v.push_back({"bin_text_then_nul_then_differ", {{"a", {ps(std::string("ab\0cd", 5))}}, {"a", {ps(std::string("ab\0ce", 5)), ps("ab")}}}});
    v.push_back({"mixed5", {{"mixed", {pu(1), pi(-2), pr(0.5), ps("x y"), ps(std::string("\0", 1))}}}});
    v.push_back({"mixed_reals", {{"mixed", {pr(2), pu(2), pi(2), pr(0.5), ps("2")}}}});
    // value counts around the limit of the 4-bit count field of the PROPERTY record (15 = "count follows")
    static const char* count_labels[] = {"fourteen_values", "fifteen_values", "sixteen_values", "forty_values"};
    int counts[] = {14, 15, 16, 40};
    for (int c = 0; c < 4; c++) {
        PSpec p{"many", {}, false};
        for (int k = 0; k < counts[c]; k++) p.vals.push_back(k % 3 == 0 ? pu(k) : k % 3 == 1 ? pi(-k) : ps(fmt("v%d", k)));
        v.push_back({count_labels[c], {p}});
    }
    v.push_back({"same_name_twice", {{"a", {pu(1)}}, {"a", {pu(2), ps("abc")}}}});
    v.push_back({"three_props_shared_string", {{"a", {ps("shared")}}, {"b", {ps("shared"), ps("other")}}, {"c", {pi(-5), ps("shared")}}}});
    v.push_back({"gds_property", {{"", {pu(1), ps("abc")}, true}}});
    v.push_back({"gds_property_two", {{"", {pu(2), ps("hello world")}, true}, {"", {pu(1), ps("x")}, true}}});
    v.push_back({"s_gds_like_wrong_shape", {{"S_GDS_PROPERTY", {ps("abc"), pu(1)}}}});
    v.push_back({"no_values", {{"empty_list", {}}}});
    return v;
}
inline int find_props(const char* label) {
    auto& v = property_lists();
    for (size_t i = 0; i < v.size(); i++) if (std::string(v[i].label) == label) return (int)i;
    return -1;
}
// appends the properties to the END of the list so that list order == spec order
inline void add_props(Property*& head, int idx) {
    const PropList& pl = property_lists()[idx];
    Property** tail = &head;
    while (*tail) tail = &(*tail)->next;
    for (auto& ps_ : pl.props) {
        Property* p = (Property*)allocate_clear(sizeof(Property));
        if (ps_.gds) {
            p->name = copy_string("S_GDS_PROPERTY", NULL);
        } else {
            p->name = copy_string(ps_.name.c_str(), NULL);
        }
        PropertyValue** vt = &p->value;
        for (size_t k = 0; k < ps_.vals.size(); k++) {
            const PVal& pv = ps_.vals[k];
            PropertyValue* v = (PropertyValue*)allocate_clear(sizeof(PropertyValue));
            switch (pv.t) {
                case 'u': v->type = PropertyType::UnsignedInteger; v->unsigned_integer = pv.u; break;
                case 'i': v->type = PropertyType::Integer; v->integer = pv.i; break;
                case 'r': v->type = PropertyType::Real; v->real = pv.r; break;
                default: {
                    v->type = PropertyType::String;
                    // GDSII property values carry their terminating NUL (as set_gds_property stores them)
                    std::string s = pv.s;
                    if (ps_.gds && k == 1) s.push_back('\0');
                    v->count = s.size();
                    v->bytes = (uint8_t*)allocate(s.size() ? s.size() : 1);
                    memcpy(v->bytes, s.data(), s.size());
                }
            }
            *vt = v;
            vt = &v->next;
        }
        *tail = p;
        tail = &p->next;
    }
}
inline void add_props(Property*& head, const char* label) { add_props(head, find_props(label)); }
// one property appended at the end of the list (used to plant stale S_* entries as a loaded-then-edited library has)
inline void append_prop(Property*& head, const char* name, const std::vector<PVal>& vals) {
    Property** tail = &head;
    while (*tail) tail = &(*tail)->next;
    Property* p = (Property*)allocate_clear(sizeof(Property));
    p->name = copy_string(name, NULL);
    PropertyValue** vt = &p->value;
    for (auto& pv : vals) {
        PropertyValue* v = (PropertyValue*)allocate_clear(sizeof(PropertyValue));
        switch (pv.t) {
            case 'u': v->type = PropertyType::UnsignedInteger; v->unsigned_integer = pv.u; break;
            case 'i': v->type = PropertyType::Integer; v->integer = pv.i; break;
            case 'r': v->type = PropertyType::Real; v->real = pv.r; break;
            default: v->type = PropertyType::String; v->count = pv.s.size(); v->bytes = (uint8_t*)allocate(pv.s.size() ? pv.s.size() : 1); memcpy(v->bytes, pv.s.data(), pv.s.size());
        }
        *vt = v;
        vt = &v->next;
    }
    *tail = p;
}
inline bool props_multi(int idx) {
    for (auto& p : property_lists()[idx].props) if (p.vals.size() >= 2) return true;
    return false;
}

// ------------------------------------------------------------------ geometry helpers
inline std::vector<Vec2> rotate_cycle(const std::vector<Vec2>& p, int start, bool reverse) {
    std::vector<Vec2> o;
    int n = (int)p.size();
    for (int k = 0; k < n; k++) o.push_back(p[((reverse ? start - k : start + k) % n + n) % n]);
    return o;
}
inline std::vector<Vec2> ngon(Vec2 c, double rx, double ry, int n, double phase = 0) {
    std::vector<Vec2> o;
    for (int k = 0; k < n; k++) {
        double a = phase + 2 * M_PI * k / n;
        o.push_back(Vec2{c.x + rx * cos(a), c.y + ry * sin(a)});
    }
    return o;
}
// own classification of an integer polygon: axis-parallel rectangle / trapezoid with two parallel
// axis-aligned opposite sides / right isosceles triangle with axis-aligned legs or hypotenuse
inline bool classify_detectable(const eg::Poly& p) {
    size_t n = p.size();
    if (n == 4) {
        // opposite edges 0,2 or 1,3 both horizontal or both vertical
        auto horiz = [&](size_t i) { return p[i].y == p[(i + 1) % 4].y; };
        auto vert = [&](size_t i) { return p[i].x == p[(i + 1) % 4].x; };
        return (horiz(0) && horiz(2)) || (horiz(1) && horiz(3)) || (vert(0) && vert(2)) || (vert(1) && vert(3));
    }
    if (n == 3) {
        for (int i = 0; i < 3; i++) {
            eg::P a = p[i], b = p[(i + 1) % 3], c = p[(i + 2) % 3];
            // right angle at a with equal legs
            eg::i128 d = (eg::i128)(b.x - a.x) * (c.x - a.x) + (eg::i128)(b.y - a.y) * (c.y - a.y);
            eg::i128 l1 = (eg::i128)(b.x - a.x) * (b.x - a.x) + (eg::i128)(b.y - a.y) * (b.y - a.y);
            eg::i128 l2 = (eg::i128)(c.x - a.x) * (c.x - a.x) + (eg::i128)(c.y - a.y) * (c.y - a.y);
            if (d == 0 && l1 == l2) return true;
        }
    }
    return false;
}
inline const std::vector<eg::Poly>& lattice_polygons() {
    static std::vector<eg::Poly> out;
    if (!out.empty()) return out;
    std::vector<eg::Poly> all;
    eg::enumerate_simple_polygons(4, 3, 4, false, true, all);
    for (auto& p : all) {
        if (p.size() == 3) { out.push_back(p); continue; }  // every triangle: detected ones + all near-misses
        int h = 0, v = 0;
        for (size_t i = 0; i < 4; i++) {
            if (p[i].y == p[(i + 1) % 4].y) h++;
            if (p[i].x == p[(i + 1) % 4].x) v++;
        }
        if (h >= 2 || v >= 2) out.push_back(p);
    }
    return out;
}

// ------------------------------------------------------------------ the corpus
// What the file written from a member must denote, computed by the corpus' OWN arithmetic from the
// construction parameters (not from gdstk's bookkeeping): used by members whose elements went through
// scale / mirror / rotate / transform before saving, and for non-simple paths (saved as their outline).
struct ExpPath { Tag tag; std::vector<Vec2> centre; double half_width; int end; Vec2 ext; };  // end: 0 flush, 1 half-width, 2 extended (ext = start, end)
struct ExpPoly { Tag tag; std::vector<Vec2> pts; };                                           // compared as a region outline (collinear vertices ignored)
struct Expected {
    bool present = false;
    bool all_simple = true;  // no non-simple path: the struct walk of the source must agree with the expectation too
    std::vector<ExpPath> paths;
    std::vector<ExpPoly> polys;
};
struct Entry {
    Info info;
    std::function<void(Builder&)> make;
    Expected expected;
};

inline Tag T(uint32_t layer, uint32_t type) { return make_tag(layer, type); }

inline void add_single(std::vector<Entry>& E, const std::string& family, const std::string& desc, std::function<void(Builder&, Cell*)> f,
                       std::function<void(Info&)> mark = nullptr, double unit = 1e-6, double precision = 1e-9) {
    Entry e;
    e.info.family = "single." + family;
    e.info.desc = desc;
    e.info.single = true;
    if (mark) mark(e.info);
    e.make = [f, unit, precision](Builder& b) {
        b.start(unit, precision);
        Cell* a = b.cell("A");
        f(b, a);
    };
    E.push_back(e);
}

inline const char* end_name(EndType e) { return e == EndType::Flush ? "flush" : e == EndType::HalfWidth ? "halfwidth" : e == EndType::Extended ? "extended" : "other"; }

inline std::vector<Entry> make_entries() {
    std::vector<Entry> E;
    const std::vector<Vec2> tri = {{0, 0}, {5, 1}, {2, 7}};
    const std::vector<Vec2> quad = {{-3, -2}, {6, -1}, {4, 5}, {-1, 3}};
    const std::vector<Vec2> nine = {{0, 0}, {4, 0}, {4, 2}, {6, 4}, {6, 7}, {3, 8}, {1, 7}, {-2, 4}, {-2, 1}};
    auto reduced = [](Info& i) { i.reduced = true; };

    // ---- family poly.basic: vertex counts 3, 4, 9 x every starting vertex x both orientations (covers
    //      every choice of "first delta" / "closing delta" of the point-list type selection)
    struct Shape { const char* name; std::vector<Vec2> pts; };
    std::vector<Shape> shapes = {
        {"triangle", tri},
        {"quad_general", quad},
        {"nonagon_mixed", nine},
        {"L_manhattan", {{0, 0}, {6, 0}, {6, 2}, {2, 2}, {2, 5}, {0, 5}}},
        {"manhattan_collinear", {{0, 0}, {3, 0}, {6, 0}, {6, 4}, {0, 4}}},
        {"octagon_octangular", {{2, 0}, {5, 0}, {7, 2}, {7, 5}, {5, 7}, {2, 7}, {0, 5}, {0, 2}}},
        {"pentagon_diag_closing", {{0, 0}, {4, 0}, {4, 3}, {2, 3}, {2, 2}}},
        {"pentagon_general_closing", {{0, 0}, {5, 0}, {5, 3}, {2, 3}, {2, 1}}},
        {"right_trapezoid_general_closing", {{0, 0}, {4, 0}, {4, 3}, {2, 3}}},
        {"right_trapezoid_diag_closing", {{0, 0}, {5, 0}, {5, 3}, {3, 3}}},
        {"hexagon_diag_closing", {{0, 0}, {6, 0}, {6, 2}, {3, 2}, {3, 1}, {1, 1}}},
        {"hexagon_general_closing", {{0, 0}, {6, 0}, {6, 3}, {4, 3}, {4, 1}, {2, 1}}},
        {"quad_offgrid_quarter", {{0.00025, 0.00075}, {3.00025, 0.00075}, {2.50075, 2.00025}, {-0.99975, 1.00025}}},
        {"staircase_10", {{0, 0}, {2, 0}, {2, 1}, {4, 1}, {4, 2}, {6, 2}, {6, 3}, {8, 3}, {8, 6}, {0, 6}}},
    };
    for (auto& s : shapes) {
        int n = (int)s.pts.size();
        for (int rev = 0; rev < 2; rev++)
            for (int st = 0; st < n; st++) {
                std::vector<Vec2> pts = rotate_cycle(s.pts, st, rev);
                bool red = (st == 0 && rev == 0) || (st == 1 && rev == 1);
                bool many = n > 4;
                add_single(E, "poly.basic", fmt("%s start=%d reversed=%d", s.name, st, rev),
                           [pts](Builder& b, Cell* a) { b.poly(a, pts, T(1, 2)); },
                           [red, many](Info& i) { i.reduced = red; i.many_vertices = many; });
            }
    }
    // ---- family poly.tag: 32-bit layer / datatype values
    {
        uint32_t vals[] = {0, 1, 127, 128, 255, 256, 32767, 65535, 65536, 0x7fffffffu, 0x80000000u, 0xffffffffu};
        for (uint32_t l : vals)
            for (uint32_t t : {0u, 0xffffffffu, 300u}) {
                bool red = (l == 0xffffffffu && t == 0xffffffffu) || (l == 65536 && t == 300);
                add_single(E, "poly.tag", fmt("layer=%u type=%u", l, t), [=](Builder& b, Cell* a) { b.poly(a, tri, T(l, t)); }, [red](Info& i) { i.reduced = red; });
            }
    }
    // ---- family poly.lattice: EVERY triangle, and every quadrilateral with >= 2 horizontal or >= 2
    //      vertical edges, that is simple with vertices on the 4x4 lattice (all starting vertices, both
    //      orientations, collinear vertices allowed); 1 lattice step = 1 user unit = 1000 grid steps,
    //      translated by (-1,-2) so that coordinates of both signs occur.
    {
        auto& L = lattice_polygons();
        for (size_t k = 0; k < L.size(); k++) {
            const eg::Poly& p = L[k];
            std::vector<Vec2> pts;
            std::string d;
            for (auto& q : p) { pts.push_back(Vec2{(double)q.x - 1, (double)q.y - 2}); d += fmt("(%d,%d)", (int)q.x, (int)q.y); }
            bool det = classify_detectable(p);
            add_single(E, "poly.lattice", d, [pts](Builder& b, Cell* a) { b.poly(a, pts, T(3, 5)); }, [det](Info& i) { i.lattice = true; i.detectable = det; });
        }
    }
    // ---- family poly.rect8: a rectangle and a square with off-grid corners in all 8 vertex orders
    {
        std::vector<std::pair<const char*, std::vector<Vec2>>> rs = {
            {"rect_offgrid", {{-1.50025, 0.25075}, {2.75025, 0.25075}, {2.75025, 1.00049}, {-1.50025, 1.00049}}},
            {"square_offgrid", {{0.10026, -0.30024}, {0.60026, -0.30024}, {0.60026, 0.19976}, {0.10026, 0.19976}}},
            {"rect_big", {{-2000000, -1000000}, {2000000, -1000000}, {2000000, 1500000}, {-2000000, 1500000}}},
        };
        for (auto& r : rs)
            for (int rev = 0; rev < 2; rev++)
                for (int st = 0; st < 4; st++) {
                    std::vector<Vec2> pts = rotate_cycle(r.second, st, rev);
                    bool red = st == 1 && rev == 1;
                    add_single(E, "poly.rect8", fmt("%s start=%d reversed=%d", r.first, st, rev), [pts](Builder& b, Cell* a) { b.poly(a, pts, T(7, 0)); },
                               [red](Info& i) { i.detectable = true; i.reduced = red; });
                }
    }
    // ---- family poly.circle: circles (must re-load within tolerance when detected) and near-misses
    {
        struct C { const char* name; std::function<std::vector<Vec2>()> gen; bool candidate; };
        auto from_ellipse = [](Vec2 c, double rx, double ry, double tol) {
            Polygon e = ellipse(c, rx, ry, 0, 0, 0, 0, tol, 0);
            std::vector<Vec2> o;
            for (uint64_t i = 0; i < e.point_array.count; i++) o.push_back(e.point_array[i]);
            e.clear();
            return o;
        };
        std::vector<C> cs = {
            {"ellipse()_r0.5_tol1e-3", [=] { return from_ellipse(Vec2{3, -2}, 0.5, 0.5, 1e-3); }, true},
            {"ellipse()_r2_tol1e-3", [=] { return from_ellipse(Vec2{0, 0}, 2, 2, 1e-3); }, true},
            {"ellipse()_r0.5_tol1e-2", [=] { return from_ellipse(Vec2{-1.0005, 0.5005}, 0.5, 0.5, 1e-2); }, true},
            {"regular64_r0.5", [] { return ngon(Vec2{3, -2}, 0.5, 0.5, 64); }, true},
            {"regular64_r0.5_phase_reversed", [] { auto p = ngon(Vec2{-3, 2}, 0.5, 0.5, 64, 0.3); return rotate_cycle(p, 5, true); }, true},
            {"regular64_r10", [] { return ngon(Vec2{0, 0}, 10, 10, 64); }, true},
            {"regular256_r10", [] { return ngon(Vec2{1, 1}, 10, 10, 256); }, true},
            {"regular16_r0.05", [] { return ngon(Vec2{0.5, 0.5}, 0.05, 0.05, 16); }, true},
            {"regular8_r0.5_too_few_points", [] { return ngon(Vec2{0, 0}, 0.5, 0.5, 8); }, false},
            {"regular5_r1", [] { return ngon(Vec2{0, 0}, 1, 1, 5); }, false},
            {"ellipse64_0.5x0.54_not_a_circle", [] { return ngon(Vec2{0, 0}, 0.5, 0.54, 64); }, false},
            {"ellipse64_0.5x0.502", [] { return ngon(Vec2{0, 0}, 0.5, 0.502, 64); }, false},
            {"ellipse32_0.05x0.058_not_a_circle", [] { return ngon(Vec2{0, 0}, 0.05, 0.058, 32); }, false},
            {"ellipse32_0.04x0.06_not_a_circle", [] { return ngon(Vec2{1, 1}, 0.04, 0.06, 32); }, false},
            {"regular64_r0.5_one_vertex_out_5e-3", [] { auto p = ngon(Vec2{0, 0}, 0.5, 0.5, 64); p[10] = Vec2{0.505 * cos(2 * M_PI * 10 / 64), 0.505 * sin(2 * M_PI * 10 / 64)}; return p; }, false},
            {"regular64_r0.5_one_vertex_in_3e-2", [] { auto p = ngon(Vec2{0, 0}, 0.5, 0.5, 64); p[33] = Vec2{0.47 * cos(2 * M_PI * 33 / 64), 0.47 * sin(2 * M_PI * 33 / 64)}; return p; }, false},
            {"half_disc_33", [] { std::vector<Vec2> p; for (int k = 0; k <= 32; k++) p.push_back(Vec2{0.5 * cos(M_PI * k / 32), 0.5 * sin(M_PI * k / 32)}); return p; }, false},
        };
        // near-circles: 32-gons on ellipses with semi-axes r-d, r+d (never circles within 1e-3 when d > 1e-3)
        static std::vector<std::string> ell_names;
        {
            double rd[][2] = {{0.05, 0.001}, {0.05, 0.002}, {0.05, 0.003}, {0.05, 0.005}, {0.05, 0.008}, {0.1, 0.002}, {0.1, 0.004}, {0.2, 0.002}, {0.2, 0.004}, {0.4, 0.002}};
            ell_names.clear();
            for (auto& x : rd) ell_names.push_back(fmt("ellipse32_semi_axes_%g_%g", x[0] - x[1], x[0] + x[1]));
            int k = 0;
            for (auto& x : rd) {
                double a = x[0] - x[1], b = x[0] + x[1];
                cs.push_back({ell_names[k++].c_str(), [a, b] { return ngon(Vec2{0, 0}, a, b, 32); }, false});
            }
        }
        for (size_t k = 0; k < cs.size(); k++) {
            auto g = cs[k].gen;
            bool cand = cs[k].candidate;
            bool red = k == 0 || k == 3 || k == 12;
            add_single(E, "poly.circle", cs[k].name, [g](Builder& b, Cell* a) { b.poly(a, g(), T(4, 4)); },
                       [cand, red](Info& i) { i.circle_candidate = cand; i.many_vertices = true; i.reduced = red; i.circle_family = true; });
        }
        add_single(E, "poly.circle", "regular64_r0.5 with repetition rect_2x2_pos and property mixed5",
                   [](Builder& b, Cell* a) { Polygon* p = b.poly(a, ngon(Vec2{3, -2}, 0.5, 0.5, 64), T(4, 4)); set_rep(p->repetition, "rect_2x2_pos"); add_props(p->properties, "mixed5"); },
                   [](Info& i) { i.circle_candidate = true; i.many_vertices = true; i.has_repetition = true; i.multi_value_props = true; i.reduced = true; i.circle_family = true; });
    }
    // ---- family poly.partial_disc: all vertices lie ON one circle, densely spaced (density = vertices a full circle
    //      would have, at/above what circle detection needs at tolerance 1e-3 or 1e-2), but cover only part of it, so
    //      that exactly one edge is long (the chord).  x every position of the long edge in the vertex list (implicit
    //      closing edge, first edge, last explicit edge, interior edge) x both orientations.  Must never become a CIRCLE.
    {
        struct RD { double r; int density; Vec2 c; };
        std::vector<RD> rds = {{0.5, 128, {3, -2}}, {10, 512, {0, 0}}, {10, 200, {-5, 7}}};
        struct SH { const char* name; double keep; int drop; };  // keep: fraction of the circle kept; drop: or number of consecutive vertices removed
        std::vector<SH> shs = {{"half_disc", 0.5, 0}, {"three_quarter_disc", 0.75, 0}, {"circle_minus_8_vertices", 0, 8}, {"circle_minus_2_vertices", 0, 2}};
        for (size_t a = 0; a < rds.size(); a++)
            for (size_t h = 0; h < shs.size(); h++) {
                RD rd = rds[a];
                SH sh = shs[h];
                int n = sh.drop ? rd.density - sh.drop : (int)(rd.density * sh.keep) + 1;
                std::vector<Vec2> base;
                for (int k = 0; k < n; k++) base.push_back(Vec2{rd.c.x + rd.r * cos(2 * M_PI * k / rd.density + 0.1), rd.c.y + rd.r * sin(2 * M_PI * k / rd.density + 0.1)});
                int starts[] = {0, 1, n / 2, n - 1};
                for (int rev = 0; rev < 2; rev++)
                    for (int st : starts) {
                        std::vector<Vec2> pts = rotate_cycle(base, st, rev);
                        bool red = a == 0 && h == 0 && rev == 0 && (st == 0 || st == n / 2);
                        add_single(E, "poly.partial_disc", fmt("%s r=%g density=%d vertices=%d start=%d reversed=%d", sh.name, rd.r, rd.density, n, st, rev),
                                   [pts](Builder& b, Cell* c) { b.poly(c, pts, T(4, 5)); },
                                   [red](Info& i) { i.many_vertices = true; i.circle_family = true; i.reduced = red; });
                    }
            }
    }
    // ---- family rep.<element>: every repetition of the alphabet on every element kind
    {
        auto& R = repetitions();
        const char* kinds[] = {"polygon", "rectangle", "flexpath", "robustpath", "label", "reference"};
        for (int kind = 0; kind < 6; kind++)
            for (size_t r = 0; r < R.size(); r++) {
                bool has = !(std::string(R[r].name) == "rect_1x1");
                bool red = kind != 1 && (std::string(R[r].name) == "rect_2x3_negx" || std::string(R[r].name) == "reg_2x2_skew" || std::string(R[r].name) == "expl_3_mixed" ||
                                         std::string(R[r].name) == "explx_2_unsorted_pos" || (kind == 0 && std::string(R[r].name) == "explx_2_neg_pos") || (kind == 5 && std::string(R[r].name) == "exply_1_neg"));
                int ri = (int)r;
                add_single(E, fmt("rep.%s", kinds[kind]), R[r].name,
                           [=](Builder& b, Cell* a) {
                               switch (kind) {
                                   case 0: set_rep(b.poly(a, tri, T(1, 0))->repetition, ri); break;
                                   case 1: set_rep(b.poly(a, {{0, 0}, {3, 0}, {3, 2}, {0, 2}}, T(1, 0))->repetition, ri); break;
                                   case 2: set_rep(b.fpath(a, {{0, 0}, {8, 0}, {8, 4}}, 1, EndType::Flush, Vec2{0, 0}, T(2, 0))->repetition, ri); break;
                                   case 3: set_rep(b.rpath(a, {{0, 0}, {8, 0}}, 0, EndType::Flush, Vec2{0, 0}, T(2, 1))->repetition, ri); break;
                                   case 4: set_rep(b.label(a, "LBL", Vec2{1, -1}, T(5, 6))->repetition, ri); break;
                                   case 5: { Cell* c = b.cell("B"); b.poly(c, tri, T(1, 0)); set_rep(b.ref(a, c, Vec2{2, 3}, 0.5 * M_PI, 1, false)->repetition, ri); } break;
                               }
                           },
                           [=](Info& i) { i.has_repetition = has; i.reduced = red; i.detectable = kind == 1; });
            }
    }
    // ---- family props.<owner>: every property list of the alphabet on library, cell and every element kind
    {
        auto& P = property_lists();
        const char* owners[] = {"library", "cell", "polygon", "flexpath", "robustpath", "label", "reference"};
        for (int o = 0; o < 7; o++)
            for (size_t k = 0; k < P.size(); k++) {
                int pi_ = (int)k;
                bool multi = props_multi(pi_);
                std::string lbl = P[k].label;
                bool red = (lbl == "mixed5") || (o == 2 && lbl == "bin_nul_triple_and_duplicate") || (o == 2 && (lbl == "r_lossy_recip" || lbl == "sixteen_values" || lbl == "fifteen_values" || lbl == "three_props_shared_string" || lbl == "gds_property")) || (o <= 1 && lbl == "same_name_twice");
                add_single(E, fmt("props.%s", owners[o]), P[k].label,
                           [=](Builder& b, Cell* a) {
                               switch (o) {
                                   case 0: add_props(b.lib->properties, pi_); b.poly(a, tri, T(1, 0)); break;
                                   case 1: add_props(a->properties, pi_); b.poly(a, tri, T(1, 0)); break;
                                   case 2: add_props(b.poly(a, tri, T(1, 0))->properties, pi_); break;
                                   case 3: add_props(b.fpath(a, {{0, 0}, {8, 0}}, 1, EndType::Flush, Vec2{0, 0}, T(2, 0))->properties, pi_); break;
                                   case 4: add_props(b.rpath(a, {{0, 0}, {8, 0}}, 0, EndType::Flush, Vec2{0, 0}, T(2, 1))->properties, pi_); break;
                                   case 5: add_props(b.label(a, "LBL", Vec2{1, -1}, T(5, 6))->properties, pi_); break;
                                   case 6: { Cell* c = b.cell("B"); b.poly(c, tri, T(1, 0)); add_props(b.ref(a, c, Vec2{2, 3})->properties, pi_); } break;
                               }
                           },
                           [=](Info& i) { i.multi_value_props = multi; i.reduced = red; });
            }
    }
    // ---- family flexpath: simple flexpaths, centre lines x end styles x widths
    {
        struct PL { const char* name; std::vector<Vec2> pts; };
        std::vector<PL> pls = {
            {"horizontal2", {{-2, 1}, {6, 1}}},
            {"L3", {{0, 0}, {8, 0}, {8, -4}}},
            {"diagonal2", {{0, 0}, {4, 4}}},
            {"general3", {{-1, -1}, {5, 2}, {3, 7}}},
            {"offgrid2", {{0.00025, 0.00075}, {4.00075, 0.00075}}},
        };
        struct EN { EndType t; Vec2 ext; const char* name; };
        std::vector<EN> ens = {
            {EndType::Flush, {0, 0}, "flush"},
            {EndType::HalfWidth, {0, 0}, "halfwidth"},
            {EndType::Extended, {2, 3}, "extended(2,3)"},
            {EndType::Extended, {0, 0}, "extended(0,0)"},
            {EndType::Extended, {-1, 2}, "extended(-1,2)"},
            {EndType::Extended, {0.5, 0}, "extended(0.5,0)"},
            {EndType::Extended, {0.5, 0.5}, "extended(0.5,0.5)"},
            {EndType::Extended, {0, 1.5}, "extended(0,1.5)"},
        };
        double widths[] = {0, 1, 3, 0.003};
        for (size_t p = 0; p < pls.size(); p++)
            for (size_t e = 0; e < ens.size(); e++)
                for (double w : widths) {
                    auto pts = pls[p].pts;
                    EN en = ens[e];
                    bool red = (p == 1 && w == 1 && e <= 2) || (p == 3 && e == 4 && w == 3);
                    add_single(E, "flexpath", fmt("%s end=%s width=%g", pls[p].name, en.name, w),
                               [=](Builder& b, Cell* a) { b.fpath(a, pts, w, en.t, en.ext, T(2, 9)); }, [red](Info& i) { i.reduced = red; });
                }
        // two parallel elements (offsets +-2) on a straight horizontal spine: two PATH records
        add_single(E, "flexpath", "two_elements_offsets_pm2 horizontal2",
                   [](Builder& b, Cell* a) {
                       FlexPath* f = (FlexPath*)allocate_clear(sizeof(FlexPath));
                       double w[] = {1, 2}, o[] = {-2, 2};
                       Tag t[] = {T(2, 0), T(3, 1)};
                       f->init(Vec2{0, 0}, 2, w, o, 0.01, t);
                       f->segment(Vec2{10, 0}, NULL, NULL, false);
                       f->simple_path = true;
                       f->elements[1].end_type = EndType::HalfWidth;
                       add_props(f->properties, "mixed5");
                       a->flexpath_array.append(f);
                   },
                   [](Info& i) { i.multi_value_props = true; i.reduced = true; });
        add_single(E, "flexpath", "tag 4294967295/4294967295 L3", [](Builder& b, Cell* a) { b.fpath(a, {{0, 0}, {8, 0}, {8, -4}}, 1, EndType::Flush, Vec2{0, 0}, T(0xffffffffu, 0xffffffffu)); });
    }
    // ---- family robustpath: simple robust paths made of straight segments whose lengths are multiples of
    //      4 grid steps (the writer samples each segment at quarter points)
    {
        struct PL { const char* name; std::vector<Vec2> pts; };
        std::vector<PL> pls = {{"horizontal2", {{-2, 1}, {6, 1}}}, {"L3", {{0, 0}, {8, 0}, {8, -4}}}, {"diagonal2", {{0, 0}, {4, 8}}}};
        struct EN { EndType t; Vec2 ext; const char* name; };
        std::vector<EN> ens = {{EndType::Flush, {0, 0}, "flush"}, {EndType::HalfWidth, {0, 0}, "halfwidth"}, {EndType::Extended, {2, 3}, "extended(2,3)"}, {EndType::Extended, {-1, 0}, "extended(-1,0)"}};
        double widths[] = {0, 1, 2};
        for (size_t p = 0; p < pls.size(); p++)
            for (size_t e = 0; e < ens.size(); e++)
                for (double w : widths) {
                    auto pts = pls[p].pts;
                    EN en = ens[e];
                    bool red = (p == 0 && e == 0) || (p == 1 && e == 2 && w == 2);
                    add_single(E, "robustpath", fmt("%s end=%s width=%g", pls[p].name, en.name, w),
                               [=](Builder& b, Cell* a) { b.rpath(a, pts, w, en.t, en.ext, T(2, 9)); }, [red](Info& i) { i.reduced = red; });
                }
    }
    // ---- family label
    {
        struct LB { const char* name; std::string text; Vec2 pos; Tag tag; };
        std::vector<LB> ls = {
            {"plain", "T", {0, 0}, T(0, 0)},
            {"space", "hello world", {-5, 3}, T(1, 2)},
            {"offgrid", "x", {0.00025, -0.00075}, T(1, 2)},
            {"bigtag", "tag", {1, 1}, T(0xffffffffu, 0xffffffffu)},
            {"long300", std::string(300, 'q'), {7, -7}, T(3, 0)},
            {"empty_text", "", {2, 2}, T(3, 0)},
            {"punct", "~!@#$%^&*()_+{}|:<>?", {2, 2}, T(65536, 65537)},
        };
        for (size_t k = 0; k < ls.size(); k++) {
            LB l = ls[k];
            add_single(E, "label", l.name, [l](Builder& b, Cell* a) { b.label(a, l.text.c_str(), l.pos, l.tag); }, [k](Info& i) { i.reduced = k == 1 || k == 3; });
        }
        // the fields OASIS cannot hold are set to non-default values: they must not disturb text/position
        add_single(E, "label", "anchor NE, rotation 0.3, magnification 2.5, reflected",
                   [](Builder& b, Cell* a) { Label* l = b.label(a, "transformed", Vec2{4, 5}, T(1, 1)); l->anchor = Anchor::NE; l->rotation = 0.3; l->magnification = 2.5; l->x_reflection = true; });
    }
    // ---- family reference: target kind x rotation x reflection x magnification
    {
        double rots[] = {0, 0.5 * M_PI, M_PI, 0.3, -0.5 * M_PI, 1.5 * M_PI};
        const char* rot_names[] = {"0", "pi/2", "pi", "0.3", "-pi/2", "3pi/2"};
        double mags[] = {1, 0.5, 2};
        const char* kinds[] = {"present_by_pointer", "absent_by_name", "not_added_by_pointer", "present_by_name"};
        for (int kind = 0; kind < 4; kind++)
            for (int r = 0; r < 6; r++)
                for (int refl = 0; refl < 2; refl++)
                    for (double mag : mags) {
                        double rot = rots[r];
                        bool red = (r == 3 && refl == 1 && mag == 0.5) || (r == 1 && refl == 0 && mag == 1) || (r == 0 && refl == 0 && mag == 1);
                        add_single(E, "reference." + std::string(kinds[kind]), fmt("rotation=%s reflection=%d magnification=%g", rot_names[r], refl, mag),
                                   [=](Builder& b, Cell* a) {
                                       Vec2 org = {-3, 4};
                                       if (kind == 0) { Cell* c = b.cell("B"); b.poly(c, tri, T(1, 0)); b.ref(a, c, org, rot, mag, refl); }
                                       else if (kind == 1) b.ref_name(a, "MISSING", org, rot, mag, refl);
                                       else if (kind == 3) { Cell* c = b.cell("B"); b.poly(c, tri, T(1, 0)); b.ref_name(a, "B", org, rot, mag, refl); }
                                       else { Cell* c = b.cell("NOTADD", false); b.poly(c, tri, T(1, 0)); b.ref(a, c, org, rot, mag, refl); }
                                   },
                                   [=](Info& i) { i.dangling_ref = kind == 1 || kind == 2; i.reduced = red && kind != 3; });
                    }
        add_single(E, "reference.present_by_pointer", "offgrid origin, child listed before parent",
                   [=](Builder& b, Cell* a) { Cell* c = b.cell("B"); b.poly(c, tri, T(1, 0)); b.ref(a, c, Vec2{0.00025, -1.00075}); b.lib->cell_array[0] = c; b.lib->cell_array[1] = a; });
        add_single(E, "reference.not_added_by_pointer", "not-added cell with a long name (40 chars)",
                   [=](Builder& b, Cell* a) { Cell* c = b.cell("NOT_ADDED_CELL_WITH_A_LONG_NAME_40_CHARS", false); b.poly(c, tri, T(1, 0)); b.ref(a, c, Vec2{1, 1}); }, [](Info& i) { i.dangling_ref = true; });
        add_single(E, "reference.chain", "A->B->C three levels, two references to the same cell",
                   [=](Builder& b, Cell* a) { Cell* bb = b.cell("B"); Cell* c = b.cell("C"); b.poly(c, tri, T(1, 0)); b.ref(bb, c, Vec2{1, 0}); b.ref(a, bb, Vec2{0, 1}, M_PI); b.ref(a, bb, Vec2{5, 1}, 0, 2); b.ref(a, c, Vec2{5, 5}, 0.3, 0.5, true); },
                   reduced);
    }
    // ---- family history.*: paths with a transformation HISTORY before saving.  Base paths x 10 histories x
    //      scale_width {true,false}.  The expectation is computed here with plain affine arithmetic on the
    //      construction parameters: points -> A(p); width x |m| iff scale_width; end extensions x |m|.
    {
        struct Aff { double a, b, c, d, tx, ty, m; };  // p -> (a x + b y + tx, c x + d y + ty), |m| = length scale
        auto apply = [](const Aff& A, Vec2 p) { return Vec2{A.a * p.x + A.b * p.y + A.tx, A.c * p.x + A.d * p.y + A.ty}; };
        struct Hist { const char* name; Aff A; bool axis_preserving; std::function<void(FlexPath&)> f; std::function<void(RobustPath&)> r; };
        auto scale_aff = [](double m, Vec2 c) { return Aff{m, 0, 0, m, c.x * (1 - m), c.y * (1 - m), fabs(m)}; };
        auto rot_aff = [](double ang, Vec2 c) { double co = cos(ang), si = sin(ang); return Aff{co, -si, si, co, c.x - co * c.x + si * c.y, c.y - si * c.x - co * c.y, 1}; };
        auto trans_aff = [](double m, bool refl, double ang, Vec2 o) { double co = cos(ang), si = sin(ang), sy = refl ? -1 : 1; return Aff{m * co, -sy * m * si, m * si, sy * m * co, o.x, o.y, fabs(m)}; };
        std::vector<Hist> hs;
        hs.push_back({"scale(2,about(1,1))", scale_aff(2, Vec2{1, 1}), true, [](FlexPath& f) { f.scale(2, Vec2{1, 1}); }, [](RobustPath& r) { r.scale(2, Vec2{1, 1}); }});
        hs.push_back({"scale(0.5,about(0,0))", scale_aff(0.5, Vec2{0, 0}), true, [](FlexPath& f) { f.scale(0.5, Vec2{0, 0}); }, [](RobustPath& r) { r.scale(0.5, Vec2{0, 0}); }});
        hs.push_back({"scale(3,about(-4,2))", scale_aff(3, Vec2{-4, 2}), true, [](FlexPath& f) { f.scale(3, Vec2{-4, 2}); }, [](RobustPath& r) { r.scale(3, Vec2{-4, 2}); }});
        hs.push_back({"scale(2)_then_scale(0.25)", Aff{0.5, 0, 0, 0.5, 0, 0, 0.5}, true, [](FlexPath& f) { f.scale(2, Vec2{0, 0}); f.scale(0.25, Vec2{0, 0}); },
                      [](RobustPath& r) { r.scale(2, Vec2{0, 0}); r.scale(0.25, Vec2{0, 0}); }});
        hs.push_back({"mirror(x_axis)", Aff{1, 0, 0, -1, 0, 0, 1}, true, [](FlexPath& f) { f.mirror(Vec2{0, 0}, Vec2{1, 0}); }, [](RobustPath& r) { r.mirror(Vec2{0, 0}, Vec2{1, 0}); }});
        hs.push_back({"mirror(line_x=3)", Aff{-1, 0, 0, 1, 6, 0, 1}, true, [](FlexPath& f) { f.mirror(Vec2{3, 0}, Vec2{3, 5}); }, [](RobustPath& r) { r.mirror(Vec2{3, 0}, Vec2{3, 5}); }});
        hs.push_back({"rotate(pi/2,about(1,2))", rot_aff(0.5 * M_PI, Vec2{1, 2}), true, [](FlexPath& f) { f.rotate(0.5 * M_PI, Vec2{1, 2}); }, [](RobustPath& r) { r.rotate(0.5 * M_PI, Vec2{1, 2}); }});
        hs.push_back({"rotate(0.3,about(0,0))", rot_aff(0.3, Vec2{0, 0}), false, [](FlexPath& f) { f.rotate(0.3, Vec2{0, 0}); }, nullptr});  // flexpath only: a rotated robust path is sampled at off-grid quarter points
        hs.push_back({"transform(mag2,reflect,pi/2,(3,-1))", trans_aff(2, true, 0.5 * M_PI, Vec2{3, -1}), true, [](FlexPath& f) { f.transform(2, true, 0.5 * M_PI, Vec2{3, -1}); },
                      [](RobustPath& r) { r.transform(2, true, 0.5 * M_PI, Vec2{3, -1}); }});
        hs.push_back({"transform(mag0.5,no_reflection,pi,(0,4))", trans_aff(0.5, false, M_PI, Vec2{0, 4}), true, [](FlexPath& f) { f.transform(0.5, false, M_PI, Vec2{0, 4}); },
                      [](RobustPath& r) { r.transform(0.5, false, M_PI, Vec2{0, 4}); }});
        struct Base { const char* name; bool robust, simple; std::vector<Vec2> pts; double width; int end; Vec2 ext; };
        std::vector<Base> bases = {
            {"flexpath_simple_L3_extended(2,3)", false, true, {{0, 0}, {8, 0}, {8, 4}}, 1, 2, {2, 3}},
            {"flexpath_simple_L3_halfwidth", false, true, {{0, 0}, {8, 0}, {8, 4}}, 1, 1, {0, 0}},
            {"flexpath_simple_2pt_flush", false, true, {{-4, 4}, {4, 4}}, 2, 0, {0, 0}},
            {"robustpath_simple_L3_extended(1,3)", true, true, {{0, 0}, {8, 0}, {8, -4}}, 2, 2, {1, 3}},
            {"robustpath_simple_L3_halfwidth", true, true, {{0, 0}, {8, 0}, {8, -4}}, 2, 1, {0, 0}},
            {"robustpath_simple_2pt_flush", true, true, {{-4, 4}, {4, 4}}, 1, 0, {0, 0}},
            {"flexpath_nonsimple_2pt_flush", false, false, {{0, 4}, {8, 4}}, 2, 0, {0, 0}},
            {"robustpath_nonsimple_2pt_flush", true, false, {{0, 4}, {8, 4}}, 2, 0, {0, 0}},
        };
        for (auto& bs : bases)
            for (auto& h : hs)
                for (int sw = 1; sw >= 0; sw--) {
                    if (bs.robust && !h.r) continue;
                    if (!bs.simple && !h.axis_preserving) continue;
                    Base b0 = bs;
                    Hist h0 = h;
                    Entry e;
                    e.info.family = std::string("single.history.") + (bs.robust ? "robustpath" : "flexpath") + (bs.simple ? "" : "_nonsimple");
                    e.info.desc = fmt("%s after %s, scale_width=%d", bs.name, h.name, sw);
                    e.info.single = true;
                    e.info.reduced = sw == 1 && (std::string(h.name) == "scale(2,about(1,1))" || std::string(h.name) == "transform(mag2,reflect,pi/2,(3,-1))") && bs.end != 1;
                    e.make = [b0, h0, sw](Builder& b) {
                        b.start();
                        Cell* a = b.cell("A");
                        EndType et = b0.end == 0 ? EndType::Flush : b0.end == 1 ? EndType::HalfWidth : EndType::Extended;
                        if (b0.robust) {
                            RobustPath* r = b.rpath(a, b0.pts, b0.width, et, b0.ext, T(2, 9));
                            r->simple_path = b0.simple;
                            r->scale_width = sw;
                            h0.r(*r);
                        } else {
                            FlexPath* f = b.fpath(a, b0.pts, b0.width, et, b0.ext, T(2, 9));
                            f->simple_path = b0.simple;
                            f->scale_width = sw;
                            h0.f(*f);
                        }
                    };
                    // ---- the expectation, by own arithmetic
                    e.expected.present = true;
                    e.expected.all_simple = bs.simple;
                    double wf = sw ? h.A.m : 1.0, hw = 0.5 * bs.width * wf;
                    std::vector<Vec2> centre;
                    for (auto& p : bs.pts) centre.push_back(apply(h.A, p));
                    if (bs.simple) {
                        e.expected.paths.push_back({T(2, 9), centre, hw, bs.end, Vec2{bs.ext.x * h.A.m, bs.ext.y * h.A.m}});
                    } else {
                        // flush straight path: the outline is the rectangle centre line +- half width
                        Vec2 d = centre[1] - centre[0];
                        double len = sqrt(d.x * d.x + d.y * d.y);
                        Vec2 n = {-d.y / len * hw, d.x / len * hw};
                        e.expected.polys.push_back({T(2, 9), {centre[0] - n, centre[1] - n, centre[1] + n, centre[0] + n}});
                    }
                    E.push_back(e);
                }
    }
    // ---- family cells: library-level shapes
    {
        Entry e;
        e.info.family = "single.cells"; e.info.desc = "library without cells"; e.info.reduced = true;
        e.make = [](Builder& b) { b.start(); };
        E.push_back(e);
        e.info.desc = "one empty cell";
        e.make = [](Builder& b) { b.start(); b.cell("EMPTY"); };
        E.push_back(e);
        e.info.desc = "cell names: long (200), punctuation, digits; one empty cell between two non-empty";
        e.info.reduced = true;
        e.make = [tri](Builder& b) {
            b.start();
            b.poly(b.cell(std::string(200, 'N').c_str()), tri, T(1, 0));
            b.cell("!#$%&'()*+,-./:;<=>?@[]^_`{|}~");
            b.poly(b.cell("0123456789"), tri, T(2, 0));
        };
        E.push_back(e);
    }
    // ---- family units: the same off-grid polygon/path/label/reference under several unit/precision pairs
    {
        struct UP { double unit, precision; };
        std::vector<UP> ups = {{1e-6, 1e-9}, {1e-6, 5e-10}, {1e-3, 1e-6}, {1, 1e-3}, {1, 1.0 / 1024}, {1e-6, 1e-6}, {1e-9, 1e-12}};
        for (auto up : ups) {
            double g = up.precision / up.unit;  // one grid step in user units
            add_single(E, "units", fmt("unit=%g precision=%g, coordinates at k+0.25, k+0.5, k+0.75 grid steps", up.unit, up.precision),
                       [g](Builder& b, Cell* a) {
                           b.poly(a, {{0.25 * g, 0.75 * g}, {1000.5 * g, -0.5 * g}, {999.75 * g, 1500.25 * g}, {-2.5 * g, 1499.5 * g}, {-1.5 * g, 2.5 * g}}, T(1, 0));
                           b.fpath(a, {{0.5 * g, 1.5 * g}, {2000.5 * g, 1.5 * g}}, 3 * g, EndType::Extended, Vec2{2.5 * g, -1.5 * g}, T(2, 0));
                           b.label(a, "half", Vec2{-0.5 * g, 3.5 * g}, T(3, 0));
                           Cell* c = b.cell("B"); b.poly(c, {{0, 0}, {10 * g, 0}, {0, 10 * g}}, T(1, 0));
                           set_rep(b.ref(a, c, Vec2{100.5 * g, -100.5 * g})->repetition, "rect_2x2_pos");
                       },
                       [](Info& i) { i.reduced = true; i.many_vertices = true; i.has_repetition = true; i.single = false; }, up.unit, up.precision);
        }
    }

    // =============================================================== representative libraries
    auto add_rep = [&](const std::string& name, const std::string& desc, std::function<void(Builder&)> mk, std::function<void(Info&)> mark) {
        Entry e;
        e.info.family = "rep." + name; e.info.desc = desc; e.info.single = false; e.info.reduced = true;
        mark(e.info);
        e.make = mk;
        E.push_back(e);
    };
    add_rep("empty_with_props", "no cells; library properties mixed5 + three_props_shared_string",
            [](Builder& b) { b.start(); add_props(b.lib->properties, "mixed5"); add_props(b.lib->properties, "three_props_shared_string"); },
            [](Info& i) { i.multi_value_props = true; });
    add_rep("detectable_shapes", "rectangle, square, plain trapezoids (h/v), compact trapezoids, triangles, near-misses, general polygon, circle; some with repetitions/properties",
            [=](Builder& b) {
                b.start();
                Cell* a = b.cell("SHAPES");
                b.poly(a, {{0, 0}, {4, 0}, {4, 2}, {0, 2}}, T(1, 0));                               // rectangle ccw
                b.poly(a, {{10, 2}, {10, 0}, {14, 0}, {14, 2}}, T(1, 0));                           // rectangle other start
                add_props(b.poly(a, {{0, 10}, {0, 13}, {3, 13}, {3, 10}}, T(1, 1))->properties, "mixed5");  // square cw
                set_rep(b.poly(a, {{20, 0}, {26, 0}, {24, 2}, {21, 2}}, T(2, 0))->repetition, "rect_2x2_pos");  // horizontal trapezoid, general deltas
                b.poly(a, {{30, 0}, {32, 1}, {32, 5}, {30, 7}}, T(2, 1));                           // vertical trapezoid
                b.poly(a, {{40, 0}, {45, 0}, {43, 2}, {40, 2}}, T(2, 2));                           // ctrapezoid type 0
                b.poly(a, {{50, 0}, {53, 0}, {55, 2}, {48, 2}}, T(2, 3));                           // ctrapezoid type 5/6 family
                b.poly(a, {{60, 0}, {62, 0}, {60, 2}}, T(3, 0));                                    // right isosceles triangle (16)
                set_rep(b.poly(a, {{70, 0}, {74, 0}, {72, 2}}, T(3, 1))->repetition, "explx_3_sorted_pos");  // type 20
                b.poly(a, {{80, 0}, {84, 0}, {80, 3}}, T(3, 2));                                    // right, not isosceles: near-miss
                b.poly(a, {{90, 0}, {94, 1}, {94, 3}, {90, 2}}, T(3, 3));                           // parallelogram with vertical sides
                b.poly(a, nine, T(4, 0));
                add_props(b.poly(a, ngon(Vec2{100, 0}, 0.5, 0.5, 64), T(5, 0))->properties, "r_half");
                b.poly(a, {{0, 20}, {6, 20}, {6, 22}, {2, 22}, {2, 25}, {0, 25}}, T(6, 0));
            },
            [](Info& i) { i.detectable = true; i.circle_candidate = true; i.many_vertices = true; i.has_repetition = true; i.multi_value_props = true; });
    add_rep("paths", "flexpaths with the three end styles, negative extension, width 0, two-element path, robustpaths of width 0 and 2",
            [=](Builder& b) {
                b.start();
                Cell* a = b.cell("PATHS");
                b.fpath(a, {{0, 0}, {8, 0}, {8, 4}}, 1, EndType::Flush, Vec2{0, 0}, T(1, 0));
                b.fpath(a, {{0, 10}, {8, 10}}, 2, EndType::HalfWidth, Vec2{0, 0}, T(1, 1));
                set_rep(b.fpath(a, {{0, 20}, {4, 24}, {9, 24}}, 0.5, EndType::Extended, Vec2{-0.1, 2}, T(1, 2))->repetition, "reg_2x2_skew");
                b.fpath(a, {{0, 30}, {8, 30}}, 0, EndType::Flush, Vec2{0, 0}, T(1, 3));
                add_props(b.rpath(a, {{0, 40}, {8, 40}}, 0, EndType::Flush, Vec2{0, 0}, T(2, 0))->properties, "mixed5");
                b.rpath(a, {{0, 50}, {8, 50}, {8, 58}}, 2, EndType::Extended, Vec2{1, 3}, T(2, 1));
                b.fpath(a, {{0, 60}, {8, 60}}, 2, EndType::Flush, Vec2{0, 0}, T(1, 1));  // same layer/width as an earlier one
            },
            [](Info& i) { i.has_repetition = true; i.multi_value_props = true; });
    add_rep("labels", "labels sharing a text string, distinct texts, repetition, properties, big tags",
            [](Builder& b) {
                b.start();
                Cell* a = b.cell("LABELS");
                b.label(a, "same", Vec2{0, 0}, T(1, 1));
                b.label(a, "other text", Vec2{5, 5}, T(1, 2));
                set_rep(b.label(a, "same", Vec2{-5, 5}, T(1, 1))->repetition, "expl_3_mixed");
                add_props(b.label(a, "third", Vec2{0.5, -0.5}, T(0xffffffffu, 0x80000000u))->properties, "mixed5");
                Cell* c = b.cell("LABELS2");
                b.label(c, "other text", Vec2{1, 1}, T(0, 0));
                b.label(c, "", Vec2{2, 2}, T(0, 0));
            },
            [](Info& i) { i.has_repetition = true; i.multi_value_props = true; i.multi_top = true; });
    add_rep("hierarchy", "TOP->MID->LEAF with every transform class and arrays; second top cell; cells listed children-last",
            [=](Builder& b) {
                b.start();
                Cell* top = b.cell("TOP");
                Cell* top2 = b.cell("TOP2");
                Cell* mid = b.cell("MID");
                Cell* leaf = b.cell("LEAF");
                b.poly(leaf, tri, T(1, 0));
                b.poly(leaf, {{0, 0}, {2, 0}, {2, 2}, {0, 2}}, T(1, 1));
                b.ref(mid, leaf, Vec2{0, 0});
                b.ref(mid, leaf, Vec2{10, 0}, 0.5 * M_PI);
                b.ref(mid, leaf, Vec2{20, 0}, M_PI, 1, true);
                b.ref(mid, leaf, Vec2{30, 0}, 0.3, 2, false);
                set_rep(b.ref(top, mid, Vec2{0, 0}, 0, 1, false)->repetition, "rect_3x2_pos");
                set_rep(b.ref(top, mid, Vec2{100, 100}, 1.5 * M_PI, 0.5, true)->repetition, "reg_2x2_skew");
                set_rep(b.ref(top, leaf, Vec2{-50, -50}, -0.5 * M_PI, 1, false)->repetition, "expl_3_mixed");
                b.ref(top2, leaf, Vec2{1, 2}, 0, 1, true);
                b.label(top, "top", Vec2{0, 0}, T(9, 9));
            },
            [](Info& i) { i.has_repetition = true; i.detectable = true; i.multi_top = true; });
    // libraries for the cycle dimension of the standard properties: 2 and 3 top-level cells, user properties that end up
    // after (fresh library) / before and between (loaded-then-edited library with stale S_* runs) the standard ones
    add_rep("two_top_cells_user_props", "top-level cells T1, T2 (T1 references CHILD); library properties mixed5, a",
            [=](Builder& b) {
                b.start();
                Cell* t1 = b.cell("T1"); Cell* t2 = b.cell("T2"); Cell* ch = b.cell("CHILD");
                b.poly(ch, tri, T(1, 0)); b.ref(t1, ch, Vec2{1, 1}); b.poly(t2, quad, T(2, 0));
                add_props(b.lib->properties, "mixed5"); add_props(b.lib->properties, "s_text");
                add_props(t1->properties, "u0");
            },
            [](Info& i) { i.multi_top = true; i.multi_value_props = true; });
    add_rep("three_top_cells", "top-level cells T1, T2, T3 sharing CHILD; no user properties on the library",
            [=](Builder& b) {
                b.start();
                Cell* t1 = b.cell("T1"); Cell* ch = b.cell("CHILD"); Cell* t2 = b.cell("T2"); Cell* t3 = b.cell("T3");
                b.poly(ch, tri, T(1, 0)); b.ref(t1, ch, Vec2{1, 1}); b.ref(t2, ch, Vec2{2, 2}, M_PI); b.label(t3, "t3", Vec2{0, 0}, T(1, 1)); b.poly(t3, {{0, 0}, {2, 0}, {2, 2}, {0, 2}}, T(1, 0));
            },
            [](Info& i) { i.multi_top = true; i.detectable = true; });
    add_rep("stale_standard_properties_at_head", "2 top-level cells; the library arrives with a run of stale S_TOP_CELL entries at the head of its property list followed by a user property (a loaded-then-edited library); a cell with two stale S_BOUNDING_BOX entries",
            [=](Builder& b) {
                b.start();
                Cell* t1 = b.cell("T1"); Cell* t2 = b.cell("T2");
                b.poly(t1, tri, T(1, 0)); b.poly(t2, quad, T(2, 0));
                append_prop(b.lib->properties, "S_TOP_CELL", {ps("OLD1")});
                append_prop(b.lib->properties, "S_TOP_CELL", {ps("OLD2")});
                append_prop(b.lib->properties, "S_TOP_CELL", {ps("OLD3")});
                add_props(b.lib->properties, "mixed5");
                append_prop(t1->properties, "S_BOUNDING_BOX", {pu(0), pi(1), pi(2), pu(3), pu(4)});
                append_prop(t1->properties, "S_BOUNDING_BOX", {pu(0), pi(5), pi(6), pu(7), pu(8)});
                add_props(t1->properties, "s_text");
            },
            [](Info& i) { i.multi_top = true; i.multi_value_props = true; });
    add_rep("stale_standard_properties_in_the_middle", "3 top-level cells; user property, stale S_TOP_CELL x2, stale S_MAX_STRING_LENGTH, S_BOUNDING_BOXES_AVAILABLE, user property",
            [=](Builder& b) {
                b.start();
                Cell* t1 = b.cell("T1"); Cell* t2 = b.cell("T2"); Cell* t3 = b.cell("T3");
                b.poly(t1, tri, T(1, 0)); b.poly(t2, quad, T(2, 0)); b.fpath(t3, {{0, 0}, {8, 0}}, 1, EndType::Flush, Vec2{0, 0}, T(3, 0));
                add_props(b.lib->properties, "u0");
                append_prop(b.lib->properties, "S_TOP_CELL", {ps("OLD1")});
                append_prop(b.lib->properties, "S_TOP_CELL", {ps("OLD2")});
                append_prop(b.lib->properties, "S_MAX_STRING_LENGTH", {pu(3)});
                append_prop(b.lib->properties, "S_BOUNDING_BOXES_AVAILABLE", {pu(2)});
                add_props(b.lib->properties, "s_space");
                add_props(t2->properties, "u0");
                append_prop(t2->properties, "S_CELL_OFFSET", {pu(12345)});
                append_prop(t2->properties, "S_CELL_OFFSET", {pu(1)});
            },
            [](Info& i) { i.multi_top = true; });
    add_rep("dangling", "references to an absent cell by name and to a cell not added to the library by pointer, next to a resolved one",
            [=](Builder& b) {
                b.start();
                Cell* a = b.cell("A");
                Cell* c = b.cell("B");
                Cell* n = b.cell("NOTADD", false);
                b.poly(c, tri, T(1, 0));
                b.poly(n, quad, T(1, 0));
                b.ref(a, c, Vec2{0, 0});
                b.ref_name(a, "MISSING", Vec2{5, 5}, 0.3, 2, true);
                b.ref_name(a, "MISSING", Vec2{6, 6});
                b.ref(a, n, Vec2{-5, -5}, M_PI);
            },
            [](Info& i) { i.dangling_ref = true; });
    add_rep("properties_everywhere", "properties on library, two cells and every element kind; names and strings shared across owners",
            [=](Builder& b) {
                b.start();
                add_props(b.lib->properties, "mixed5");
                add_props(b.lib->properties, "same_name_twice");
                Cell* a = b.cell("A");
                Cell* c = b.cell("B");
                add_props(a->properties, "three_props_shared_string");
                add_props(c->properties, "mixed_reals");
                add_props(b.poly(a, tri, T(1, 0))->properties, "sixteen_values");
                add_props(b.poly(a, {{0, 0}, {2, 0}, {2, 2}, {0, 2}}, T(1, 0))->properties, "three_props_shared_string");
                add_props(b.fpath(a, {{0, 0}, {8, 0}}, 1, EndType::Flush, Vec2{0, 0}, T(2, 0))->properties, "gds_property_two");
                add_props(b.rpath(a, {{0, 4}, {8, 4}}, 0, EndType::Flush, Vec2{0, 0}, T(2, 1))->properties, "r_various");
                add_props(b.label(a, "LBL", Vec2{1, -1}, T(5, 6))->properties, "mixed5");
                add_props(b.ref(a, c, Vec2{2, 3})->properties, "s_bin_nul");
                add_props(b.poly(c, quad, T(1, 0))->properties, "s_bin_high");
                b.poly(c, tri, T(1, 0));  // element without properties after one with
            },
            [](Info& i) { i.multi_value_props = true; i.detectable = true; });
    add_rep("binary_nul_values_across_owners", "equal-length binary property values that agree up to an embedded NUL, one on each owner: library, two cells, and every element kind in both cells; plus genuine duplicates",
            [=](Builder& b) {
                b.start();
                auto bin = [](int tail) { std::string s("\x01\x02\x00", 3); s.push_back((char)tail); s.push_back((char)(tail + 1)); return ps(s); };
                Cell* a = b.cell("A");
                Cell* c = b.cell("B");
                append_prop(b.lib->properties, "bin", {bin(0x10)});
                append_prop(a->properties, "bin", {bin(0x20)});
                append_prop(c->properties, "bin", {bin(0x30), bin(0x10)});                     // second value: genuine duplicate of the library's
                append_prop(b.poly(a, tri, T(1, 0))->properties, "bin", {bin(0x40)});
                append_prop(b.poly(a, quad, T(1, 1))->properties, "bin", {bin(0x50), bin(0x40)});
                append_prop(b.fpath(a, {{0, 0}, {8, 0}}, 1, EndType::Flush, Vec2{0, 0}, T(2, 0))->properties, "other_name", {bin(0x60)});
                append_prop(b.rpath(a, {{0, 4}, {8, 4}}, 0, EndType::Flush, Vec2{0, 0}, T(2, 1))->properties, "bin", {bin(0x70)});
                append_prop(b.label(a, "L", Vec2{1, 1}, T(3, 0))->properties, "bin", {bin(0x22), bin(0x20)});
                append_prop(b.ref(a, c, Vec2{5, 5})->properties, "bin", {bin(0x24)});
                append_prop(b.poly(c, tri, T(1, 0))->properties, "bin", {bin(0x26)});
                append_prop(b.label(c, "L", Vec2{2, 2}, T(3, 0))->properties, "bin", {ps(std::string("\0\0", 2)), ps(std::string("\0\x07", 2))});
            },
            [](Info& i) { i.multi_value_props = true; });
    add_rep("repetitions_all_kinds", "one polygon per repetition of the alphabet (non-negative explicit x/y only)",
            [=](Builder& b) {
                b.start();
                Cell* a = b.cell("REPS");
                auto& R = repetitions();
                for (size_t r = 0; r < R.size(); r++) {
                    std::string n = R[r].name;
                    if (n.find("expl") == 0 && n.find("neg") != std::string::npos && n[4] != '_') continue;  // explx_*neg*, exply_*neg*: separate library
                    set_rep(b.poly(a, {{(double)r * 100, 0}, {(double)r * 100 + 5, 1}, {(double)r * 100 + 2, 7}}, T(1, (uint32_t)r))->repetition, (int)r);
                }
            },
            [](Info& i) { i.has_repetition = true; });
    add_rep("repetitions_negative_explicit_xy", "polygons, a label and a reference with ExplicitX/ExplicitY repetitions whose smallest coordinate is negative",
            [=](Builder& b) {
                b.start();
                Cell* a = b.cell("REPS");
                Cell* c = b.cell("B");
                b.poly(c, tri, T(1, 0));
                set_rep(b.poly(a, tri, T(1, 0))->repetition, "explx_2_neg_pos");
                set_rep(b.poly(a, quad, T(1, 1))->repetition, "exply_1_neg");
                set_rep(b.label(a, "L", Vec2{0, 0}, T(2, 0))->repetition, "explx_1_neg");
                set_rep(b.ref(a, c, Vec2{0, 0})->repetition, "exply_2_neg_pos");
            },
            [](Info& i) { i.has_repetition = true; });
    add_rep("many_cells", "24 small cells named so that they collide in the name hash tables, each referencing the next",
            [=](Builder& b) {
                b.start();
                const char* names[] = {"h", "x", "aa", "p", "e", "u", "m", "c0", "c1", "c2", "c3", "c4", "c5", "c6", "c7", "c8", "c9", "c10", "c11", "c12", "c13", "c14", "c15", "c16"};
                std::vector<Cell*> cs;
                for (const char* n : names) cs.push_back(b.cell(n));
                for (size_t k = 0; k < cs.size(); k++) {
                    b.poly(cs[k], {{0, 0}, {(double)k + 1, 0}, {(double)k + 1, 1}, {0, 1}}, T((uint32_t)k, 0));
                    b.label(cs[k], names[k], Vec2{(double)k, 0}, T(1, 1));
                    if (k + 1 < cs.size()) b.ref(cs[k], cs[k + 1], Vec2{(double)k, (double)k});
                }
            },
            [](Info& i) { i.detectable = true; });
    add_rep("kitchen_sink_clean", "every element kind, repetitions, properties, detection candidates, hierarchy, dangling by-name reference - but none of the constructs of the suspected defects D5-D8",
            [=](Builder& b) {
                b.start();
                add_props(b.lib->properties, "mixed5");
                Cell* top = b.cell("TOP");
                Cell* sub = b.cell("SUB");
                add_props(top->properties, "s_text");
                add_props(b.poly(top, {{0, 0}, {4, 0}, {4, 2}, {0, 2}}, T(1, 0))->properties, "u0");
                set_rep(b.poly(top, {{10, 0}, {16, 0}, {14, 2}, {11, 2}}, T(2, 0))->repetition, "rect_2x3_negx");
                set_rep(b.poly(top, {{20, 0}, {22, 0}, {20, 2}}, T(3, 0))->repetition, "explx_2_unsorted_pos");
                b.poly(top, nine, T(4, 0xffffffffu));
                b.poly(top, ngon(Vec2{30, 0}, 0.5, 0.5, 64), T(5, 0));
                set_rep(b.fpath(top, {{0, 10}, {8, 10}, {8, 14}}, 1, EndType::Extended, Vec2{2, 3}, T(6, 0))->repetition, "expl_3_mixed");
                b.fpath(top, {{0, 20}, {8, 20}}, 2, EndType::HalfWidth, Vec2{0, 0}, T(6, 1));
                b.rpath(top, {{0, 30}, {8, 30}}, 0, EndType::Flush, Vec2{0, 0}, T(7, 0));
                add_props(b.label(top, "label one", Vec2{1, 1}, T(8, 0))->properties, "mixed5");
                set_rep(b.label(top, "label one", Vec2{2, 2}, T(8, 1))->repetition, "reg_3x1_diag");
                b.poly(sub, tri, T(1, 0));
                set_rep(b.ref(top, sub, Vec2{40, 40}, 0.5 * M_PI, 1, true)->repetition, "rect_3x2_pos");
                add_props(b.ref(top, sub, Vec2{50, 50}, 0.3, 2, false)->properties, "three_props_shared_string");
                b.ref_name(top, "MISSING", Vec2{60, 60});
            },
            [](Info& i) { i.detectable = true; i.circle_candidate = true; i.many_vertices = true; i.has_repetition = true; i.multi_value_props = true; i.dangling_ref = true; });
    add_rep("big_tags_mm_units", "unit 1e-3 precision 1e-6, 32-bit tags on every element kind, off-grid coordinates",
            [=](Builder& b) {
                b.start(1e-3, 1e-6);
                Cell* a = b.cell("A");
                Cell* c = b.cell("B");
                b.poly(c, tri, T(0xffffffffu, 0));
                b.poly(a, {{0.00025, 0.00075}, {3.00025, 0.00075}, {3.00025, 2.00049}, {0.00025, 2.00049}}, T(0xffffffffu, 0xffffffffu));
                b.fpath(a, {{0.00049, 0}, {8.00051, 0}}, 1.0005, EndType::HalfWidth, Vec2{0, 0}, T(0x80000000u, 1));
                b.label(a, "L", Vec2{-0.00049, 0.00051}, T(70000, 0xfffffffeu));
                b.ref(a, c, Vec2{1.00049, -1.00051}, 0.3, 1, true);
            },
            [](Info& i) { i.detectable = true; });
    {
        Entry e;
        e.info.family = "rep.heavy_cell"; e.info.desc = "one cell with 30000 nine-vertex polygons (uncompressed cell body > 1 MiB: exercises buffer growth of the CBLOCK path)";
        e.info.single = false; e.info.reduced = false; e.info.heavy = true; e.info.many_vertices = true;
        e.make = [=](Builder& b) {
            b.start();
            Cell* a = b.cell("HEAVY");
            for (int k = 0; k < 30000; k++) {
                std::vector<Vec2> pts;
                double ox = (k % 200) * 20.0 + 0.001 * (k % 7), oy = (k / 200) * 20.0 - 0.003 * (k % 5);
                for (auto& v : nine) pts.push_back(Vec2{v.x + ox + 0.137 * (k % 3), v.y * (1 + 0.01 * (k % 11)) + oy});
                b.poly(a, pts, T((uint32_t)(k % 5), (uint32_t)(k % 3)));
            }
        };
        E.push_back(e);
    }
    return E;
}

inline const std::vector<Entry>& entries() {
    static std::vector<Entry> e = make_entries();
    return e;
}
inline std::map<Library*, std::vector<Cell*>>& extra_cells() {
    static std::map<Library*, std::vector<Cell*>> m;
    return m;
}

inline int64_t count() { return (int64_t)entries().size(); }
inline const Info& info(int64_t i) { return entries()[i].info; }
inline const Expected& expected(int64_t i) { return entries()[i].expected; }
inline std::string describe(int64_t i) {
    const Info& f = entries()[i].info;
    return jobj({{"library", jint(i)}, {"family", jstr(f.family)}, {"member", jstr(f.desc)}});
}
// stable identifier of a member (does not change when other members are added to the corpus)
inline std::string key(int64_t i) {
    const Info& f = entries()[i].info;
    return vf::hash128(f.family + "|" + f.desc).substr(0, 16);
}
inline int64_t find_key(const std::string& k) {
    for (int64_t i = 0; i < count(); i++) if (key(i) == k) return i;
    return -1;
}
inline Library* build(int64_t i) {
    Builder b;
    entries()[i].make(b);
    if (!b.extra.empty()) extra_cells()[b.lib] = b.extra;
    return b.lib;
}
inline void destroy(Library* lib) {
    auto it = extra_cells().find(lib);
    if (it != extra_cells().end()) {
        for (Cell* c : it->second) { c->free_all(); free_allocation(c); }
        extra_cells().erase(it);
    }
    lib->free_all();
    free_allocation(lib);
}
}  // namespace oas_corpus
