// c15_geom.hpp — independent analytic oracle for C15: exact piecewise curves (Bezier of any degree,
// elliptical arcs, analytic parametric functions), ordered nearest-parameter search and deviation
// measurement.  All arithmetic in long double, none of it uses gdstk code.
#pragma once
#include <math.h>

#include <string>
#include <vector>

namespace c15 {

typedef long double LD;
static const LD PI_L = 3.141592653589793238462643383279502884L;

struct P2 {
    LD x, y;
};
static inline P2 operator+(P2 a, P2 b) { return {a.x + b.x, a.y + b.y}; }
static inline P2 operator-(P2 a, P2 b) { return {a.x - b.x, a.y - b.y}; }
static inline P2 operator*(LD s, P2 a) { return {s * a.x, s * a.y}; }
static inline LD dot(P2 a, P2 b) { return a.x * b.x + a.y * b.y; }
static inline LD cross(P2 a, P2 b) { return a.x * b.y - a.y * b.x; }
static inline LD norm(P2 a) { return hypotl(a.x, a.y); }
static inline LD dist(P2 a, P2 b) { return hypotl(a.x - b.x, a.y - b.y); }
static inline bool finite2(P2 a) { return std::isfinite((double)a.x) && std::isfinite((double)a.y); }

static inline LD dist_seg(P2 p, P2 a, P2 b) {
    P2 ab = b - a;
    LD l2 = dot(ab, ab);
    if (l2 <= 0) return dist(p, a);
    LD t = dot(p - a, ab) / l2;
    if (t < 0) t = 0;
    if (t > 1) t = 1;
    return dist(p, a + t * ab);
}

typedef P2 (*LFn)(LD u, const void* data);

struct Piece {
    enum Type { BEZ, ARC, FUNC } type = BEZ;
    std::vector<P2> ctrl;                          // BEZ: control polygon (degree = size-1)
    LD cx = 0, cy = 0, rx = 1, ry = 1, rot = 0;    // ARC: centre, radii, axis rotation
    LD th0 = 0, th1 = 0;                           //      elliptical parameter range
    LFn fn = nullptr;                              // FUNC
    const void* data = nullptr;
    P2 ref = {0, 0};
    bool dev = false;      // deviation bound (oracle item 5) is demanded on this piece
    std::string what;      // for reports

    P2 eval(LD u) const {
        if (type == BEZ) {
            P2 w[12];
            int n = (int)ctrl.size();
            for (int i = 0; i < n; i++) w[i] = ctrl[i];
            LD r = 1 - u;
            for (int j = n - 1; j > 0; j--)
                for (int i = 0; i < j; i++) w[i] = {r * w[i].x + u * w[i + 1].x, r * w[i].y + u * w[i + 1].y};
            return w[0];
        } else if (type == ARC) {
            LD th = th0 + u * (th1 - th0);
            LD x = rx * cosl(th), y = ry * sinl(th);
            LD c = cosl(rot), s = sinl(rot);
            return {cx + x * c - y * s, cy + x * s + y * c};
        }
        return fn(u, data) + ref;
    }
    // first and second derivative w.r.t. u (BEZ only; used for the curvature*tolerance tag)
    void deriv(LD u, P2& d1, P2& d2) const {
        int n = (int)ctrl.size();
        d1 = {0, 0};
        d2 = {0, 0};
        if (type != BEZ || n < 2) return;
        std::vector<P2> a(n - 1);
        for (int i = 0; i + 1 < n; i++) a[i] = (LD)(n - 1) * (ctrl[i + 1] - ctrl[i]);
        Piece p1;
        p1.ctrl = a;
        d1 = p1.eval(u);
        if (n >= 3) {
            std::vector<P2> b(n - 2);
            for (int i = 0; i + 2 < n; i++) b[i] = (LD)(n - 2) * (a[i + 1] - a[i]);
            Piece p2;
            p2.ctrl = b;
            d2 = p2.eval(u);
        }
    }
};

static inline Piece bez(std::vector<P2> c, bool dev, const std::string& what) {
    Piece p;
    p.type = Piece::BEZ;
    p.ctrl = std::move(c);
    p.dev = dev;
    p.what = what;
    return p;
}
static inline Piece line(P2 a, P2 b, const std::string& what = "line") { return bez({a, b}, true, what); }

// Elliptical parameter of the point seen from the centre under geometric angle phi (measured in the
// ellipse's own axes): tan(theta) = (rx/ry) tan(phi), same quadrant, same number of turns.
static inline LD ellparam(LD phi, LD rx, LD ry) {
    if (rx == ry) return phi;
    LD d = atan2l(rx * sinl(phi), ry * cosl(phi)) - atan2l(sinl(phi), cosl(phi));
    while (d > PI_L) d -= 2 * PI_L;
    while (d <= -PI_L) d += 2 * PI_L;
    return phi + d;
}
// arc whose point at parameter th0 is `start`
static inline Piece arc_from(P2 start, LD rx, LD ry, LD a0, LD a1, LD rot, const std::string& what) {
    Piece p;
    p.type = Piece::ARC;
    p.rx = rx; p.ry = ry; p.rot = rot;
    p.th0 = ellparam(a0 - rot, rx, ry);
    p.th1 = ellparam(a1 - rot, rx, ry);
    p.cx = 0; p.cy = 0;
    P2 s = p.eval(0);
    p.cx = start.x - s.x;
    p.cy = start.y - s.y;
    p.dev = true;
    p.what = what;
    return p;
}
static inline Piece arc_centered(P2 c, LD rx, LD ry, LD a0, LD a1, const std::string& what) {
    Piece p;
    p.type = Piece::ARC;
    p.rx = rx; p.ry = ry; p.rot = 0;
    p.th0 = ellparam(a0, rx, ry);
    p.th1 = ellparam(a1, rx, ry);
    p.cx = c.x; p.cy = c.y;
    p.dev = true;
    p.what = what;
    return p;
}

// Control-polygon predicate of the property: the directions of the non-degenerate control-polygon
// edges span strictly less than a quarter turn  <=>  every pair has a positive inner product.
static inline bool span_lt_quarter(const std::vector<P2>& c) {
    std::vector<P2> e;
    for (size_t i = 0; i + 1 < c.size(); i++) {
        P2 d = c[i + 1] - c[i];
        if (d.x != 0 || d.y != 0) e.push_back(d);
    }
    for (size_t i = 0; i < e.size(); i++)
        for (size_t j = i + 1; j < e.size(); j++)
            if (!(dot(e[i], e[j]) > 1e-12L * norm(e[i]) * norm(e[j]))) return false;
    return true;
}
// cusp / looping / doubling back: a degenerate edge, or two edges more than a quarter turn apart
static inline bool cusp_or_loop(const std::vector<P2>& c) {
    std::vector<P2> e;
    bool zero = false;
    for (size_t i = 0; i + 1 < c.size(); i++) {
        P2 d = c[i + 1] - c[i];
        if (d.x != 0 || d.y != 0) e.push_back(d); else zero = true;
    }
    if (zero) return true;
    for (size_t i = 0; i < e.size(); i++)
        for (size_t j = i + 1; j < e.size(); j++)
            if (dot(e[i], e[j]) < 0) return true;
    return false;
}

struct Exact {
    std::vector<Piece> pieces;
    int mper = 0;                 // table entries per piece
    std::vector<P2> tab;          // tab[j] = eval(j / mper), j = 0 .. n*mper
    LD total() const { return (LD)pieces.size(); }
    P2 eval(LD g) const {
        int n = (int)pieces.size();
        int i = (int)floorl(g);
        if (i < 0) i = 0;
        if (i >= n) i = n - 1;
        return pieces[i].eval(g - i);
    }
    const Piece& piece_at(LD g) const {
        int n = (int)pieces.size();
        int i = (int)floorl(g);
        if (i < 0) i = 0;
        if (i >= n) i = n - 1;
        return pieces[i];
    }
    void build() {
        int n = (int)pieces.size();
        mper = 2048 / (n ? n : 1);
        if (mper < 256) mper = 256;
        tab.resize((size_t)n * mper + 1);
        for (int i = 0; i < n; i++)
            for (int j = 0; j < mper; j++) tab[(size_t)i * mper + j] = pieces[i].eval((LD)j / mper);
        if (n) tab[(size_t)n * mper] = pieces[n - 1].eval(1);
    }
    LD scale(LD floor = 1) const {
        LD s = floor;
        for (auto& p : tab) {
            if (fabsl(p.x) > s) s = fabsl(p.x);
            if (fabsl(p.y) > s) s = fabsl(p.y);
        }
        return s;
    }
    // golden-section minimisation of |C(t) - v| on [lo, hi] within one piece (local parameters)
    static void refine(const Piece& pc, P2 v, LD lo, LD hi, LD& tbest, LD& dbest) {
        const LD g = 0.6180339887498948482L;
        LD a = lo, b = hi;
        tbest = lo;
        dbest = dist(pc.eval(lo), v);
        LD dh = dist(pc.eval(hi), v);
        if (dh < dbest) { dbest = dh; tbest = hi; }
        if (b - a <= 0) return;
        LD x1 = b - g * (b - a), x2 = a + g * (b - a);
        LD f1 = dist(pc.eval(x1), v), f2 = dist(pc.eval(x2), v);
        for (int it = 0; it < 48; it++) {
            if (f1 <= f2) { b = x2; x2 = x1; f2 = f1; x1 = b - g * (b - a); f1 = dist(pc.eval(x1), v); }
            else { a = x1; x1 = x2; f1 = f2; x2 = a + g * (b - a); f2 = dist(pc.eval(x2), v); }
        }
        if (f1 < dbest) { dbest = f1; tbest = x1; }
        if (f2 < dbest) { dbest = f2; tbest = x2; }
    }
    // Smallest global parameter t >= tp with |C(t) - v| <= eps: per piece (junctions are hard
    // breaks), dense scan for local minima of the distance + golden-section refinement.
    // Returns false if none; dmin_seen/tout then describe the closest approach met.
    // fine > 1: careful mode, the scan step is `fine` times smaller and evaluated on the fly (needed
    // next to cusps, where a vertex at t*-d has a mirror near-minimum at t*+d closer than one
    // table step).
    bool find_from(P2 v, LD tp, LD eps, LD& tout, LD& dmin_seen, int fine = 1) const {
        const LD INF = 1e300L;
        const int mper = this->mper * fine;
        int n = (int)pieces.size();
        dmin_seen = INF;
        tout = tp;
        int i0 = (int)floorl(tp);
        if (i0 > n - 1) i0 = n - 1;
        if (i0 < 0) i0 = 0;
        for (int i = i0; i < n; i++) {
            const Piece& pc = pieces[i];
            LD lo = i == i0 ? tp - i : 0;
            if (lo > 1) lo = 1;
            if (lo < 0) lo = 0;
            LD sa = lo, da = dist(pc.eval(lo), v);
            LD sprev = lo, dprev = INF;
            int j = (int)floorl(lo * mper) + 1;
            for (;;) {
                bool has_next = j <= mper;
                LD sn = sa, dn = INF;
                if (has_next) { sn = (LD)j / mper; dn = dist(j == mper ? pc.eval(1) : fine == 1 ? tab[(size_t)i * mper + j] : pc.eval(sn), v); }
                if (da <= dprev && da <= dn) {
                    LD t, d;
                    refine(pc, v, dprev == INF ? sa : sprev, has_next ? sn : sa, t, d);
                    if (d < dmin_seen) { dmin_seen = d; tout = i + t; }
                    if (d <= eps) { tout = i + t; return true; }
                }
                if (!has_next) break;
                sprev = sa; dprev = da; sa = sn; da = dn; j++;
            }
        }
        return false;
    }
};

}  // namespace c15
