// C18 — a truncated GDSII file is never read as complete and never crashes a reader; the
// light-weight OASIS queries return normally on any truncated OASIS file.
// E2 over crash points: for every corpus file and EVERY prefix length 0..n-1, every reader is
// called 3 times in the same (forked) worker; ASan, a watchdog and /proc/self/fd are the oracles
// besides the return values.   DESIGN.md section 2/C18.
#include <dirent.h>
#include <gdstk/gdstk.hpp>

#include "vf.hpp"

using namespace gdstk;
using namespace vf;

static Run* R;
static tm FIXED_TM;

static bool is_error(gdstk::ErrorCode e) { return (int)e >= (int)gdstk::ErrorCode::ChecksumError; }
struct CorpusFile {
    std::string name, kind;  // kind: "gds" | "oas"
    std::string bytes;
    bool signed_oas = false;
    std::vector<size_t> record_starts;  // gds only
    double unit = 0, precision = 0;     // complete-file answers
    tm stamp = {};
};
static std::vector<CorpusFile> CORPUS;

static std::string slurp(const std::string& p) {
    std::string s;
    FILE* f = fopen(p.c_str(), "rb");
    if (!f) return s;
    char buf[65536];
    size_t r;
    while ((r = fread(buf, 1, sizeof buf, f)) > 0) s.append(buf, r);
    fclose(f);
    return s;
}
static void spit(const std::string& p, const char* data, size_t n) {
    FILE* f = fopen(p.c_str(), "wb");
    if (!f) { perror("scratch write"); exit(2); }
    if (n) fwrite(data, 1, n, f);
    fclose(f);
}
static int fd_count() {
    int n = 0;
    DIR* d = opendir("/proc/self/fd");
    if (!d) return -1;
    while (readdir(d)) n++;
    closedir(d);
    return n;
}

// ------------------------------------------------------------------ corpus (built with gdstk itself)
static Polygon* mkpoly(std::vector<Vec2> pts, Tag tag) {
    Polygon* p = (Polygon*)allocate_clear(sizeof(Polygon));
    p->tag = tag;
    for (auto& v : pts) p->point_array.append(v);
    return p;
}
static FlexPath* mkpath(EndType end, bool with_ext) {
    FlexPath* fp = (FlexPath*)allocate_clear(sizeof(FlexPath));
    fp->init(Vec2{0, 0}, 1, 0.5, 0, 0.01, make_tag(2, 1));
    fp->simple_path = true;
    fp->scale_width = true;
    fp->elements[0].end_type = end;
    if (with_ext) fp->elements[0].end_extensions = Vec2{0.25, 0.75};
    fp->segment(Vec2{5, 0}, NULL, NULL, false);
    fp->segment(Vec2{5, 3}, NULL, NULL, false);
    return fp;
}
static Label* mklabel(const char* text, double rot, double mag, bool refl) {
    Label* l = (Label*)allocate_clear(sizeof(Label));
    l->init(text);
    l->tag = make_tag(3, 2);
    l->origin = Vec2{1, 2};
    l->anchor = Anchor::SW;
    l->rotation = rot;
    l->magnification = mag;
    l->x_reflection = refl;
    return l;
}
// which: 0 polygon, 1 path, 2 label, 3 sref, 4 aref, 5 by-name ref, 6 box-like + property, 7 mixed, 8 big polygon (thorough),
// 9 many cells, 10 every path kind (thorough), 11 labels (thorough), 12 repetitions (thorough), 13 long strings
static Library build_library(int which) {
    Library lib = {};
    lib.init(which % 2 ? "LIB" : "LIBX", 1e-6, 1e-9);
    Cell* leaf = (Cell*)allocate_clear(sizeof(Cell));
    leaf->init("LEAF");
    Cell* top = (Cell*)allocate_clear(sizeof(Cell));
    top->init(which % 2 ? "TOP" : "TOPP");
    leaf->polygon_array.append(mkpoly({{0, 0}, {1, 0}, {1, 1}, {0, 1}}, make_tag(1, 0)));
    auto ref = [&](int kind) {
        Reference* r = (Reference*)allocate_clear(sizeof(Reference));
        if (kind == 2) r->init("ABSENT_CELL");
        else r->init(leaf);
        r->origin = Vec2{10, 5};
        if (kind == 1) {
            r->repetition.type = RepetitionType::Rectangular;
            r->repetition.columns = 2; r->repetition.rows = 3; r->repetition.spacing = Vec2{4, 4};
            r->rotation = M_PI / 2;
        } else {
            r->rotation = 0.3; r->magnification = 2; r->x_reflection = true;
        }
        return r;
    };
    bool all = which == 7;
    if (which == 0 || all) {
        Polygon* p = mkpoly({{0, 0}, {4, 0}, {4, 1}, {3, 1}, {3, 2}, {2, 2}, {2, 1}, {1, 1}, {1, 3}, {0, 3}}, make_tag(5, 6));
        set_gds_property(p->properties, 1, "prop");
        top->polygon_array.append(p);
    }
    if (which == 1 || all) { top->flexpath_array.append(mkpath(EndType::Extended, true)); top->flexpath_array.append(mkpath(EndType::Round, false)); }
    if (which == 2 || all) { top->label_array.append(mklabel("hello", 0.5, 2.5, true)); top->label_array.append(mklabel("odd", 0, 1, false)); }
    if (which == 3 || all) { Reference* r = ref(0); set_gds_property(r->properties, 7, "rp"); top->reference_array.append(r); }
    if (which == 4 || all) top->reference_array.append(ref(1));
    if (which == 5 || all) { top->reference_array.append(ref(2)); top->reference_array.append(ref(0)); }
    if (which == 6 || all) {
        Polygon* p = mkpoly({{0, 0}, {2, 0}, {2, 1}, {0, 1}}, make_tag(7, 8));
        set_gds_property(p->properties, 2, "ab");
        set_gds_property(p->properties, 3, "abc");
        p->repetition.type = RepetitionType::Rectangular;
        p->repetition.columns = 2; p->repetition.rows = 1; p->repetition.spacing = Vec2{5, 5};
        top->polygon_array.append(p);
    }
    if (which == 8) {
        std::vector<Vec2> pts;
        int n = 8200;
        for (int i = 0; i < n; i++) { double a = 2 * M_PI * i / n; pts.push_back(Vec2{1000 * cos(a), 1000 * sin(a)}); }
        top->polygon_array.append(mkpoly(pts, make_tag(1, 1)));
    }
    if (which == 9) {  // many cells: the name maps of read_gds / read_rawcells / gds_info grow several times; chain + fan-out dependencies
        lib.cell_array.append(leaf);
        Cell* prev = leaf;
        for (int i = 0; i < 22; i++) {
            Cell* c = (Cell*)allocate_clear(sizeof(Cell));
            c->init(fmt("CELL_%02d%s", i, i % 3 == 0 ? "_LONGER_NAME" : "").c_str());
            c->polygon_array.append(mkpoly({{0, 0}, {1.0 + i, 0}, {0, 1}}, make_tag(i % 7, i % 3)));
            Reference* r = (Reference*)allocate_clear(sizeof(Reference));
            r->init(prev);
            r->origin = Vec2{(double)i, 1};
            c->reference_array.append(r);
            if (i % 4 == 1) { Reference* r2 = (Reference*)allocate_clear(sizeof(Reference)); r2->init(leaf); r2->magnification = 0.5; c->reference_array.append(r2); }
            lib.cell_array.append(c);
            prev = c;
        }
        Reference* r = (Reference*)allocate_clear(sizeof(Reference));
        r->init(prev);
        top->reference_array.append(r);
        lib.cell_array.append(top);
        return lib;
    }
    if (which == 10) {  // every end type, a path written as polygons (not simple), absolute width, a RobustPath
        for (EndType e : {EndType::Flush, EndType::Round, EndType::HalfWidth, EndType::Extended, EndType::Smooth}) top->flexpath_array.append(mkpath(e, e == EndType::Extended));
        FlexPath* ns = mkpath(EndType::Flush, false);
        ns->simple_path = false;
        top->flexpath_array.append(ns);
        FlexPath* aw = mkpath(EndType::Flush, false);
        aw->scale_width = false;
        top->flexpath_array.append(aw);
        RobustPath* rp = (RobustPath*)allocate_clear(sizeof(RobustPath));
        rp->init(Vec2{0, 0}, 1, 0.4, 0, 0.01, 1000, make_tag(4, 4));
        rp->simple_path = true;
        rp->scale_width = true;
        rp->segment(Vec2{6, 0}, NULL, NULL, false);
        rp->segment(Vec2{6, 2}, NULL, NULL, false);
        top->robustpath_array.append(rp);
    }
    if (which == 11) {  // labels: every anchor, properties, odd and even text lengths
        const Anchor an[] = {Anchor::NW, Anchor::N, Anchor::NE, Anchor::W, Anchor::O, Anchor::E, Anchor::SW, Anchor::S, Anchor::SE};
        for (int i = 0; i < 9; i++) {
            Label* l = mklabel(i % 2 ? "even" : "odd", 0.25 * i, i % 3 ? 1 : 1.5, i % 2);
            l->anchor = an[i];
            if (i % 4 == 0) set_gds_property(l->properties, 10 + i, "label property");
            top->label_array.append(l);
        }
    }
    if (which == 12) {  // references with explicit / regular (oblique) repetitions, polygons with every repetition kind
        Reference* r = ref(0);
        r->repetition.type = RepetitionType::Explicit;
        r->repetition.offsets.append(Vec2{3, 1}); r->repetition.offsets.append(Vec2{-2, 5}); r->repetition.offsets.append(Vec2{7, 7});
        top->reference_array.append(r);
        Reference* r2 = ref(0);
        r2->repetition.type = RepetitionType::Regular;
        r2->repetition.columns = 3; r2->repetition.rows = 2; r2->repetition.v1 = Vec2{4, 1}; r2->repetition.v2 = Vec2{-1, 5};
        top->reference_array.append(r2);
        Polygon* p = mkpoly({{0, 0}, {2, 0}, {2, 1}}, make_tag(9, 9));
        p->repetition.type = RepetitionType::ExplicitX;
        p->repetition.coords.append(3); p->repetition.coords.append(-4);
        top->polygon_array.append(p);
        Polygon* q = mkpoly({{0, 0}, {1, 0}, {1, 2}, {0, 2}}, make_tag(9, 10));
        q->repetition.type = RepetitionType::Regular;
        q->repetition.columns = 2; q->repetition.rows = 2; q->repetition.v1 = Vec2{3, 0.5}; q->repetition.v2 = Vec2{0.5, 3};
        top->polygon_array.append(q);
    }
    if (which == 13) {  // long strings: 32-character cell name, 126-byte property value, several properties per element
        Cell* c = (Cell*)allocate_clear(sizeof(Cell));
        c->init("A_CELL_NAME_OF_EXACTLY_32_CHARS_");
        Polygon* p = mkpoly({{0, 0}, {2, 0}, {2, 1}, {0, 1}}, make_tag(11, 12));
        std::string longv(125, 'v');
        set_gds_property(p->properties, 1, longv.c_str());
        set_gds_property(p->properties, 2, "x");
        set_gds_property(p->properties, 3, "");
        c->polygon_array.append(p);
        Reference* r = (Reference*)allocate_clear(sizeof(Reference));
        r->init(c);
        top->reference_array.append(r);
        lib.cell_array.append(c);
    }
    lib.cell_array.append(leaf);
    lib.cell_array.append(top);
    return lib;
}
static void parse_records(CorpusFile& f) {
    size_t p = 0;
    while (p + 4 <= f.bytes.size()) {
        f.record_starts.push_back(p);
        size_t len = ((unsigned char)f.bytes[p] << 8) | (unsigned char)f.bytes[p + 1];
        if (len < 4) break;
        p += len;
    }
}
static void build_corpus(bool thorough) {
    std::string tmp = R->scratch + "/corpus.tmp";
    for (int which = 0; which <= 13; which++) {
        if (!thorough && (which == 8 || which == 10 || which == 11 || which == 12)) continue;   // quick: the seven basic kinds, the mix, many cells, long strings
        for (uint64_t maxp : {(uint64_t)199, (uint64_t)5}) {
            if (maxp == 5 && which != 0 && which != 7) continue;
            Library lib = build_library(which);
            tm t = FIXED_TM;
            ErrorCode e = lib.write_gds(tmp.c_str(), maxp, &t);
            if (e != ErrorCode::NoError) R->internal_error("corpus write_gds failed");
            CorpusFile f;
            f.name = fmt("gds.lib%d.maxpoints%llu", which, (unsigned long long)maxp);
            f.kind = "gds";
            f.bytes = slurp(tmp);
            parse_records(f);
            ErrorCode ec = gds_units(tmp.c_str(), f.unit, f.precision);
            ErrorCode tc = ErrorCode::NoError;
            f.stamp = gds_timestamp(tmp.c_str(), NULL, &tc);
            if (ec != ErrorCode::NoError || tc != ErrorCode::NoError) R->internal_error("complete corpus file not readable: " + f.name);
            CORPUS.push_back(f);
            (void)lib;  // corpus libraries are deliberately not released in the coordinating process: a defect in the release code must show up in the workers (readers on truncated files), not abort the corpus build
        }
    }
    struct OC { uint16_t flags; uint8_t level; };
    std::vector<OC> ocs = {{0, 0}, {OASIS_CONFIG_INCLUDE_CRC32, 0}, {OASIS_CONFIG_INCLUDE_CHECKSUM32, 0}, {OASIS_CONFIG_STANDARD_PROPERTIES | OASIS_CONFIG_INCLUDE_CRC32, 0},
                           {0, 6}, {OASIS_CONFIG_INCLUDE_CRC32, 6}, {OASIS_CONFIG_INCLUDE_CHECKSUM32, 6}, {OASIS_CONFIG_STANDARD_PROPERTIES | OASIS_CONFIG_DETECT_ALL | OASIS_CONFIG_INCLUDE_CHECKSUM32, 6}};
    for (size_t k = 0; k < ocs.size(); k++) {
        for (int which : {7, 0, 9, 10, 12, 13}) {
            if (which == 0 && !thorough && k % 2) continue;
            if (which >= 9 && (!thorough || (k != 0 && k != 3 && k != 5 && k != 7))) continue;
            Library lib = build_library(which);
            ErrorCode e = lib.write_oas(tmp.c_str(), 1e-3, ocs[k].level, ocs[k].flags);
            if (e != ErrorCode::NoError) R->internal_error("corpus write_oas failed");
            CorpusFile f;
            f.name = fmt("oas.lib%d.flags%02x.level%d", which, ocs[k].flags, ocs[k].level);
            f.kind = "oas";
            f.signed_oas = ocs[k].flags & (OASIS_CONFIG_INCLUDE_CRC32 | OASIS_CONFIG_INCLUDE_CHECKSUM32);
            f.bytes = slurp(tmp);
            // control: the complete file validates (and with a matching signature iff signed)
            ErrorCode vc = ErrorCode::NoError;
            uint32_t sig = 0;
            bool ok = oas_validate(tmp.c_str(), &sig, &vc);
            if (!ok || (f.signed_oas && vc == ErrorCode::ChecksumError) || (!f.signed_oas && vc != ErrorCode::ChecksumError))
                R->violation("control.oas_validate", "complete-file", {{"file", jstr(f.name)}}, jobj({{"file", jstr(f.name)}}), "complete gdstk-written OASIS file does not validate as expected", "sub=control");
            CORPUS.push_back(f);
            (void)lib;  // corpus libraries are deliberately not released in the coordinating process: a defect in the release code must show up in the workers (readers on truncated files), not abort the corpus build
        }
    }
    unlink(tmp.c_str());
    // ---- independently encoded files (specification-derived codecs, no gdstk): codec/c18_files.py
    {
        const char* vd = getenv("VERIF_DIR");
        std::string dir = R->scratch + "/indep";
        std::string cmd = std::string("python3 '") + (vd ? vd : "/verif") + "/codec/c18_files.py' '" + dir + "' >/dev/null 2>&1";
        if (system(cmd.c_str()) != 0) { R->internal_error("independent file generator failed: " + cmd); return; }
        FILE* idx = fopen((dir + "/index.txt").c_str(), "r");
        if (!idx) { R->internal_error("no index of independently encoded files"); return; }
        char name[256], kind[16];
        int sgn;
        while (fscanf(idx, "%255s %15s %d", name, kind, &sgn) == 3) {
            CorpusFile f;
            f.name = name;
            f.kind = kind;
            f.signed_oas = sgn != 0;
            std::string path = dir + "/" + name;
            f.bytes = slurp(path);
            if (f.bytes.empty()) { R->internal_error(std::string("empty independent file ") + name); continue; }
            if (f.kind == "gds") {
                parse_records(f);
                ErrorCode ec = gds_units(path.c_str(), f.unit, f.precision);
                ErrorCode tc = ErrorCode::NoError;
                f.stamp = gds_timestamp(path.c_str(), NULL, &tc);
                ErrorCode le = ErrorCode::NoError;
                Library lib = read_gds(path.c_str(), 0, 1e-2, NULL, &le);
                bool loads = !is_error(le);
                (void)lib;  // corpus libraries are deliberately not released in the coordinating process: a defect in the release code must show up in the workers (readers on truncated files), not abort the corpus build
                if (ec != ErrorCode::NoError || tc != ErrorCode::NoError || !loads)
                    R->violation("control.gds", "complete-file", {{"file", jstr(f.name)}}, jobj({{"file", jstr(f.name)}}), "complete independently encoded GDSII file is not readable", "sub=control");
            } else {
                ErrorCode vc = ErrorCode::NoError;
                uint32_t sig = 0;
                bool ok = oas_validate(path.c_str(), &sig, &vc);
                if (!ok || (f.signed_oas && vc == ErrorCode::ChecksumError) || (!f.signed_oas && vc != ErrorCode::ChecksumError))
                    R->violation("control.oas_validate", "complete-file", {{"file", jstr(f.name)}}, jobj({{"file", jstr(f.name)}}), "complete independently encoded OASIS file does not validate as expected", "sub=control");
            }
            CORPUS.push_back(f);
        }
        fclose(idx);
    }
}

// ------------------------------------------------------------------ one crash point
static std::string WPATH;  // per-worker scratch file
static void viol(const CorpusFile& f, size_t cut, const std::string& reader, const std::string& cls, const std::string& detail, int fidx) {
    bool inside = true;
    if (f.kind == "gds") for (size_t s : f.record_starts) if (s == cut) inside = false;
    R->violation("trunc." + reader, cls, {{"reader", jstr(reader)}, {"format", jstr(f.kind)}, {"cut_inside_record", jbool(inside)}},
                 jobj({{"file", jstr(f.name)}, {"file_size", jint((int64_t)f.bytes.size())}, {"prefix_length", jint((int64_t)cut)}, {"reader", jstr(reader)}}), detail,
                 fmt("file=%d cut=%zu", fidx, cut));
}
static bool same_tm(const tm& a, const tm& b) {
    return a.tm_year == b.tm_year && a.tm_mon == b.tm_mon && a.tm_mday == b.tm_mday && a.tm_hour == b.tm_hour && a.tm_min == b.tm_min && a.tm_sec == b.tm_sec;
}

static FILE* g_devnull = NULL;
static void run_cut(int fidx, size_t cut) {
    const CorpusFile& f = CORPUS[fidx];
    if (WPATH.empty()) WPATH = R->scratch + fmt("/cut.%d", (int)getpid());
    spit(WPATH, f.bytes.data(), cut);
    const char* path = WPATH.c_str();
    int fd0 = fd_count();
    bool inside = true;
    if (f.kind == "gds") for (size_t s : f.record_starts) if (s == cut) inside = false;
    auto fdcheck = [&](const std::string& reader, int rep) {
        int fd1 = fd_count();
        if (fd1 != fd0) { viol(f, cut, reader, "fd-leak", fmt("open descriptors %d -> %d after call %d", fd0, fd1, rep + 1), fidx); fd0 = fd1; }
    };
    if (f.kind == "gds") {
        for (int rep = 0; rep < 3; rep++) {
            error_logger = rep == 1 ? g_devnull : NULL;   // the second of the three calls runs with logging enabled (to /dev/null)
            {   // full load, three parameterisations
                for (int mode = 0; mode < 4; mode++) {   // mode 3: the caller passes no error pointer - the empty result is then the only failure signal
                    ErrorCode ec = ErrorCode::NoError;
                    Set<Tag> filter = {};
                    filter.add(make_tag(1, 0));
                    Library lib = read_gds(path, mode == 2 ? 1e-9 : 0, 1e-2, mode == 1 ? &filter : NULL, mode == 3 ? NULL : &ec);
                    filter.clear();
                    if (mode != 3 && !is_error(ec)) viol(f, cut, "read_gds", "no-error", fmt("error code %d is not an error for a truncated file (mode %d)", (int)ec, mode), fidx);
                    if (lib.cell_array.count || lib.rawcell_array.count || lib.name) viol(f, cut, "read_gds", "shortened-layout", fmt("returned %llu cells for a truncated file", (unsigned long long)lib.cell_array.count), fidx);
                    lib.free_all();
                    fdcheck("read_gds", rep);
                }
            }
            {
                ErrorCode ec = ErrorCode::NoError;
                Map<RawCell*> m = read_rawcells(path, &ec);
                if (!is_error(ec)) viol(f, cut, "read_rawcells", "no-error", fmt("error code %d", (int)ec), fidx);
                if (m.count) viol(f, cut, "read_rawcells", "shortened-layout", fmt("returned %llu raw cells for a truncated file", (unsigned long long)m.count), fidx);
                for (MapItem<RawCell*>* it = m.next(NULL); it; it = m.next(it)) { it->value->clear(); free_allocation(it->value); }
                m.clear();
                fdcheck("read_rawcells", rep);
                // without an error pointer
                Map<RawCell*> m2 = read_rawcells(path, NULL);
                if (m2.count) viol(f, cut, "read_rawcells", "shortened-layout", fmt("returned %llu raw cells for a truncated file (no error pointer)", (unsigned long long)m2.count), fidx);
                for (MapItem<RawCell*>* it = m2.next(NULL); it; it = m2.next(it)) { it->value->clear(); free_allocation(it->value); }
                m2.clear();
                fdcheck("read_rawcells", rep);
            }
            {
                LibraryInfo info = {};
                ErrorCode ec = gds_info(path, info);
                if (!is_error(ec)) viol(f, cut, "gds_info", "no-error", fmt("error code %d", (int)ec), fidx);
                info.clear();
                fdcheck("gds_info", rep);
                // the same summary object reused across calls (and across cases of this worker), cleared in between
                static LibraryInfo reused = {};
                ErrorCode ec2 = gds_info(path, reused);
                if (!is_error(ec2)) viol(f, cut, "gds_info", "no-error", fmt("error code %d (reused summary object)", (int)ec2), fidx);
                reused.clear();
                fdcheck("gds_info", rep);
            }
            {
                double u = -1, p = -1;
                ErrorCode ec = gds_units(path, u, p);
                if (!is_error(ec) && (u != f.unit || p != f.precision)) viol(f, cut, "gds_units", "wrong-value", fmt("returned %g/%g, complete file has %g/%g", u, p, f.unit, f.precision), fidx);
                fdcheck("gds_units", rep);
            }
            {
                ErrorCode ec = ErrorCode::NoError;
                gds_timestamp(path, NULL, NULL);      // no error pointer: must still return normally and release the file
                tm t = gds_timestamp(path, NULL, &ec);
                if (!is_error(ec) && !same_tm(t, f.stamp)) viol(f, cut, "gds_timestamp", "wrong-value", "returned a timestamp that is not the complete file's", fidx);
                fdcheck("gds_timestamp", rep);
            }
        }
        {   // rewriting timestamps of a truncated file must not grow it (and still returns normally)
            tm nt = FIXED_TM;
            nt.tm_year = 138; nt.tm_mon = 0; nt.tm_mday = 19;
            for (int rep = 0; rep < 2; rep++) {
                error_logger = rep == 1 ? g_devnull : NULL;
                ErrorCode ec = ErrorCode::NoError;
                gds_timestamp(path, &nt, &ec);
                std::string after = slurp(WPATH);
                if (after.size() != cut) viol(f, cut, "gds_timestamp_set", "file-grew", fmt("truncated file of %zu bytes has %zu bytes after rewriting timestamps", cut, after.size()), fidx);
                else {
                    // only bytes inside 24-byte timestamp fields of BGNLIB/BGNSTR records may differ
                    for (size_t i = 0; i < cut; i++) {
                        if (after[i] == f.bytes[i]) continue;
                        bool ok = false;
                        for (size_t s : f.record_starts)
                            if (s + 4 <= i && i < s + 28 && ((unsigned char)f.bytes[s + 2] == 0x01 || (unsigned char)f.bytes[s + 2] == 0x05)) ok = true;
                        if (!ok) { viol(f, cut, "gds_timestamp_set", "foreign-bytes", fmt("byte %zu outside a timestamp field was modified", i), fidx); break; }
                    }
                }
                fdcheck("gds_timestamp_set", rep);
            }
        }
    } else {
        for (int rep = 0; rep < 3; rep++) {
            error_logger = rep == 1 ? g_devnull : NULL;   // the second of the three calls runs with logging enabled (to /dev/null)
            {
                double p = 0;
                oas_precision(path, p);
                fdcheck("oas_precision", rep);
            }
            {
                ErrorCode ec = ErrorCode::NoError;
                uint32_t sig = 0;
                bool ok = oas_validate(path, &sig, &ec);
                if (f.signed_oas && ok && ec != ErrorCode::ChecksumError)
                    viol(f, cut, "oas_validate", "matching-signature", "reported a matching signature for a truncated signed file", fidx);
                fdcheck("oas_validate", rep);
                oas_validate(path, NULL, NULL);   // no signature / error pointers: must still return normally and release the file
                fdcheck("oas_validate", rep);
            }
        }
    }
    error_logger = NULL;
    R->count("cases");
    if (inside && cut > 0) R->count("nontrivial");
    R->outcome("trunc." + f.kind, fmt("%s %s", f.name.c_str(), inside ? "inside" : "boundary"));
}

int main(int argc, char** argv) {
    Run run("C18", argc, argv);
    R = &run;
    error_logger = NULL;
    g_devnull = fopen("/dev/null", "w");
    if (!g_devnull) run.internal_error("cannot open /dev/null");
    memset(&FIXED_TM, 0, sizeof FIXED_TM);
    FIXED_TM.tm_year = 101; FIXED_TM.tm_mon = 1; FIXED_TM.tm_mday = 3; FIXED_TM.tm_hour = 4; FIXED_TM.tm_min = 5; FIXED_TM.tm_sec = 6;
    build_corpus(run.thorough());
    if (run.replaying()) {
        if (run.rarg("sub") == "control") return run.finish();
        int fidx = atoi(run.rarg("file").c_str());
        size_t cut = (size_t)atoll(run.rarg("cut").c_str());
        fprintf(stderr, "replaying %s prefix %zu of %zu\n", CORPUS[fidx].name.c_str(), cut, CORPUS[fidx].bytes.size());
        run_cut(fidx, cut);
        return run.finish();
    }
    // index space: (file, cut); the 65 kB file is cut at every byte only in thorough (it is only built there)
    std::vector<std::pair<int, size_t>> idx;
    for (size_t fi = 0; fi < CORPUS.size(); fi++)
        for (size_t cut = 0; cut < CORPUS[fi].bytes.size(); cut++) idx.push_back({(int)fi, cut});
    int64_t chunk = 8, nchunks = ((int64_t)idx.size() + chunk - 1) / chunk;
    // one index = one crash point so that a crash is attributed exactly; cheap enough (~20k forks avoided: workers loop)
    auto body = [&](int64_t i) { run_cut(idx[i].first, idx[i].second); };
    auto describe = [&](int64_t i) {
        return jobj({{"file", jstr(CORPUS[idx[i].first].name)}, {"file_size", jint((int64_t)CORPUS[idx[i].first].bytes.size())}, {"prefix_length", jint((int64_t)idx[i].second)}});
    };
    auto replay_of = [&](int64_t i) { return fmt("file=%d cut=%zu", idx[i].first, idx[i].second); };
    (void)chunk; (void)nchunks;
    PFOptions opt;
    opt.sub = "trunc.crash";
    opt.case_timeout_s = 4;
    bool ok = parallel_for(run, (int64_t)idx.size(), body, describe, replay_of, opt);
    std::vector<std::string> names;
    for (auto& f : CORPUS) names.push_back(jstr(fmt("%s (%zu bytes)", f.name.c_str(), f.bytes.size())));
    run.note("corpus: " + jarr(names));
    run.sample("trunc", jobj({{"file", jstr(CORPUS[0].name)}, {"prefix_length", jint(37)}, {"readers", jstr("read_gds x3 modes, read_rawcells, gds_info, gds_units, gds_timestamp (get, set), each 3 times (error logger: off, on, off)")}}));
    run.sample("trunc", jobj({{"file", jstr(CORPUS.back().name)}, {"prefix_length", jint(15)}, {"readers", jstr("oas_precision, oas_validate, each 3 times (error logger: off, on, off)")}}));
    run.bound("trunc", fmt("every prefix length 0..n-1 of %zu corpus files", CORPUS.size()), ok, (int64_t)idx.size());
    return run.finish();
}
