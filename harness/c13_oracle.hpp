// c13_oracle.hpp — independent distance oracle for C13 (offset).  No gdstk code is used here.
//
// Input: a group of lattice polygons (small integer coordinates; a key-holed polygon may contain a
// zero-width slit, i.e. two coincident edges of opposite direction).
//   * region            = union of the polygons (non-zero winding of any member)
//   * boundary pieces   = the parts of polygon edges that have the region on exactly one side
//   * internal pieces   = the parts of polygon edges that have the region on both sides (slits of a
//                         key-holed polygon, shared edges of touching polygons, edges inside another
//                         polygon) — these are NOT boundary of the region
// For every sample point q = ((i+1/3)/r, (j+1/7)/r) (never on an edge with |delta| < 7) the Field stores
//   inside   exact membership of q in the region (integer winding, __int128 predicates)
//   dOut     distance from q to the region (= min distance to any polygon edge) when outside
//   dIn      distance from q to the complement (= min distance to a boundary piece) when inside
//   vOut/vIn true iff that minimum is attained only at segment end points (the nearest point of the
//            region / of the complement is a corner, so an offset JOIN decides what happens at q),
//            false iff a perpendicular foot lies strictly inside an edge piece
//   dInt     distance to the nearest internal piece (infinity if none)
// Distances are long double on small integers (error ~1e-17), membership is exact.
#pragma once
#include <math.h>
#include <stdint.h>

#include <algorithm>
#include <vector>

#include "exactgeom.hpp"

namespace c13 {
typedef long double ld;
struct Seg { ld ax, ay, bx, by; };

inline ld seg_dist(const Seg& s, ld qx, ld qy, bool& interior_foot) {
    ld dx = s.bx - s.ax, dy = s.by - s.ay, l2 = dx * dx + dy * dy;
    ld t = l2 > 0 ? ((qx - s.ax) * dx + (qy - s.ay) * dy) / l2 : 0;
    interior_foot = t > 1e-12L && t < 1 - 1e-12L;
    t = t < 0 ? 0 : t > 1 ? 1 : t;
    ld ex = s.ax + t * dx - qx, ey = s.ay + t * dy - qy;
    return sqrtl(ex * ex + ey * ey);
}
// min distance to a set of segments; vertex_only = no segment attains the minimum with an interior foot
inline ld segs_dist(const std::vector<Seg>& segs, ld qx, ld qy, bool& vertex_only) {
    ld best = INFINITY, best_int = INFINITY;
    for (auto& s : segs) {
        bool in;
        ld d = seg_dist(s, qx, qy, in);
        if (d < best) best = d;
        if (in && d < best_int) best_int = d;
    }
    vertex_only = !(best_int <= best + 1e-12L);
    return best;
}

struct Pieces {
    std::vector<Seg> all_edges;  // every polygon edge
    std::vector<Seg> boundary;   // region on exactly one side
    std::vector<Seg> internal;   // region on both sides
    bool overlapping = false;    // some point is interior to two members
    int anomalies = 0;           // pieces with the region on neither side (must stay 0)
};

// Exact-ish arrangement: every edge is split at its intersections with every other edge; for the
// midpoint m of each piece two probe points m +- eps*n (eps = 2^-20 lattice units, coordinates held
// as integers in units of 2^-40) are classified by exact winding against every member.
inline Pieces extract_pieces(const std::vector<eg::Poly>& polys) {
    Pieces out;
    const int64_t U = (int64_t)1 << 40;
    const ld EPS = (ld)((int64_t)1 << 20);
    std::vector<eg::Poly> PU;
    for (auto& p : polys) {
        eg::Poly q;
        for (auto& v : p) q.push_back({v.x * U, v.y * U});
        PU.push_back(q);
    }
    struct E { eg::P a, b; };
    std::vector<E> edges;
    for (auto& p : polys)
        for (size_t i = 0; i < p.size(); i++) {
            eg::P a = p[i], b = p[(i + 1) % p.size()];
            if (a == b) continue;
            edges.push_back({a, b});
            out.all_edges.push_back({(ld)a.x, (ld)a.y, (ld)b.x, (ld)b.y});
        }
    for (size_t e = 0; e < edges.size(); e++) {
        eg::P a = edges[e].a, b = edges[e].b;
        ld abx = b.x - a.x, aby = b.y - a.y, l2 = abx * abx + aby * aby;
        std::vector<ld> ts = {0, 1};
        for (size_t f = 0; f < edges.size(); f++) {
            if (f == e) continue;
            eg::P c = edges[f].a, d = edges[f].b;
            eg::i128 c1 = eg::cross(a, b, c), c2 = eg::cross(a, b, d);
            if (c1 == 0 && c2 == 0) {  // collinear: project the end points
                ld tc = ((c.x - a.x) * abx + (c.y - a.y) * aby) / l2, td = ((d.x - a.x) * abx + (d.y - a.y) * aby) / l2;
                if (tc > 0 && tc < 1) ts.push_back(tc);
                if (td > 0 && td < 1) ts.push_back(td);
                continue;
            }
            if (!eg::segments_touch(a, b, c, d)) continue;
            // a + t (b-a) on line cd:  t = cross(c-a, d-c) / cross(b-a, d-c)
            ld cdx = d.x - c.x, cdy = d.y - c.y;
            ld den = abx * cdy - aby * cdx;
            if (den == 0) continue;
            ld t = ((c.x - a.x) * cdy - (c.y - a.y) * cdx) / den;
            if (t > 0 && t < 1) ts.push_back(t);
        }
        std::sort(ts.begin(), ts.end());
        ld len = sqrtl(l2);
        ld nx = -aby / len, ny = abx / len;  // left normal
        for (size_t k = 0; k + 1 < ts.size(); k++) {
            ld t0 = ts[k], t1 = ts[k + 1];
            if (t1 - t0 < 1e-9L) continue;
            ld tm = (t0 + t1) / 2, mx = a.x + tm * abx, my = a.y + tm * aby;
            int cnt[2] = {0, 0};
            for (int side = 0; side < 2; side++) {
                ld sg = side ? -1 : 1;
                eg::P q = {(int64_t)llroundl(mx * (ld)U + sg * nx * EPS), (int64_t)llroundl(my * (ld)U + sg * ny * EPS)};
                for (auto& p : PU)
                    if (eg::winding(p, q) != 0) cnt[side]++;
            }
            Seg s = {a.x + t0 * abx, a.y + t0 * aby, a.x + t1 * abx, a.y + t1 * aby};
            if (cnt[0] >= 2 || cnt[1] >= 2) out.overlapping = true;
            if (cnt[0] > 0 && cnt[1] > 0) out.internal.push_back(s);
            else if (cnt[0] > 0 || cnt[1] > 0) out.boundary.push_back(s);
            else out.anomalies++;
        }
    }
    return out;
}

inline ld seg_seg_dist(eg::P a, eg::P b, eg::P c, eg::P d) {
    if (eg::segments_touch(a, b, c, d)) return 0;
    return std::min(std::min(eg::dist_seg(a, b, c), eg::dist_seg(a, b, d)), std::min(eg::dist_seg(c, d, a), eg::dist_seg(c, d, b)));
}
// min distance between the boundaries of two polygons (0 if they touch or cross)
inline ld poly_gap(const eg::Poly& p, const eg::Poly& q) {
    ld best = INFINITY;
    for (size_t i = 0; i < p.size(); i++)
        for (size_t j = 0; j < q.size(); j++)
            best = std::min(best, seg_seg_dist(p[i], p[(i + 1) % p.size()], q[j], q[(j + 1) % q.size()]));
    return best;
}

struct Field {
    int r = 1;
    int lox = 0, hix = 0, loy = 0, hiy = 0;  // lattice window [lo, hi); sample indices i in [lo*r, hi*r)
    int nx = 0, ny = 0;
    std::vector<uint8_t> inside, vOut, vIn;
    std::vector<double> dOut, dIn, dInt;
    int on_edge = 0;  // samples that lie on an input edge (must stay 0)
    size_t at(int i, int j) const { return (size_t)(j - loy * r) * nx + (size_t)(i - lox * r); }
    ld sx(int i) const { return ((ld)i + 1.0L / 3) / r; }
    ld sy(int j) const { return ((ld)j + 1.0L / 7) / r; }
};

inline Field make_field(const std::vector<eg::Poly>& polys, const Pieces& pc, int r, int margin) {
    Field F;
    F.r = r;
    int64_t minx = INT64_MAX, maxx = INT64_MIN, miny = INT64_MAX, maxy = INT64_MIN;
    for (auto& p : polys)
        for (auto& v : p) {
            minx = std::min(minx, v.x); maxx = std::max(maxx, v.x);
            miny = std::min(miny, v.y); maxy = std::max(maxy, v.y);
        }
    F.lox = (int)minx - margin; F.hix = (int)maxx + margin;
    F.loy = (int)miny - margin; F.hiy = (int)maxy + margin;
    F.nx = (F.hix - F.lox) * r; F.ny = (F.hiy - F.loy) * r;
    size_t n = (size_t)F.nx * F.ny;
    F.inside.assign(n, 0); F.vOut.assign(n, 0); F.vIn.assign(n, 0);
    F.dOut.assign(n, 0); F.dIn.assign(n, 0); F.dInt.assign(n, INFINITY);
    std::vector<eg::Poly> PS;  // units of 1/(21 r)
    for (auto& p : polys) {
        eg::Poly q;
        for (auto& v : p) q.push_back({v.x * 21 * r, v.y * 21 * r});
        PS.push_back(q);
    }
    for (int j = F.loy * r; j < F.hiy * r; j++)
        for (int i = F.lox * r; i < F.hix * r; i++) {
            size_t k = F.at(i, j);
            eg::P q = {(int64_t)(3 * (int64_t)i + 1) * 7, (int64_t)(7 * (int64_t)j + 1) * 3};
            bool in = false;
            for (auto& p : PS) {
                if (eg::on_boundary(p, q)) F.on_edge++;
                if (eg::winding(p, q) != 0) in = true;
            }
            F.inside[k] = in;
            ld x = F.sx(i), y = F.sy(j);
            bool v;
            if (in) {
                F.dIn[k] = (double)segs_dist(pc.boundary, x, y, v);
                F.vIn[k] = v;
            } else {
                F.dOut[k] = (double)segs_dist(pc.all_edges, x, y, v);
                F.vOut[k] = v;
            }
            if (!pc.internal.empty()) F.dInt[k] = (double)segs_dist(pc.internal, x, y, v);
        }
    return F;
}

// 0 outside, 1 strictly inside (non-zero winding), 2 on the boundary (includes zero-width slits)
inline int locate(const eg::Poly& p, eg::P q) {
    int w = 0;
    size_t n = p.size();
    for (size_t i = 0; i < n; i++) {
        eg::P a = p[i], b = p[(i + 1) % n];
        if (a == q) return 2;
        if (a.y == q.y && b.y == q.y) {
            if (std::min(a.x, b.x) <= q.x && q.x <= std::max(a.x, b.x)) return 2;
            continue;
        }
        if (a.y <= q.y) {
            if (b.y > q.y) {
                eg::i128 c = eg::cross(a, b, q);
                if (c == 0) return 2;
                if (c > 0) w++;
            }
        } else if (b.y <= q.y) {
            eg::i128 c = eg::cross(a, b, q);
            if (c == 0) return 2;
            if (c < 0) w--;
        }
    }
    return w != 0 ? 1 : 0;
}

}  // namespace c13
