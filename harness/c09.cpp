// C09 — bounding boxes and convex hulls are exact for any hierarchy; same with a shared cache.
// E2: every three-level hierarchy of the stated product space; oracle = harness's own affine
// composition (hier.hpp) giving the exact point cloud Q of all geometry.   DESIGN.md 2/C09.
#include "hier.hpp"

using namespace gdstk;
using namespace vf;
using namespace hier;

static Run* R;

struct CaseId { int leaf; RefSpec s1, s2; bool mid_extra; };
static std::string case_json(const CaseId& c) {
    return jobj({{"leaf", jstr(leaf_name(c.leaf))}, {"ref_mid_to_leaf", jstr(c.s1.str())}, {"ref_top_to_mid", jstr(c.s2.str())}, {"mid_has_own_content", jbool(c.mid_extra)}});
}
static std::string case_replay(const CaseId& c) {
    return fmt("leaf=%d s1=%d,%d,%d,%d,%d s2=%d,%d,%d,%d,%d mid=%d", c.leaf, c.s1.rot, c.s1.refl, c.s1.mag, c.s1.org, c.s1.rep, c.s2.rot, c.s2.refl, c.s2.mag, c.s2.org, c.s2.rep, (int)c.mid_extra);
}
static RefSpec parse_spec(const std::string& s) {
    RefSpec r{};
    sscanf(s.c_str(), "%d,%d,%d,%d,%d", &r.rot, &r.refl, &r.mag, &r.org, &r.rep);
    return r;
}

static void denote_ref(const Reference* r, Denot& out) {
    for (auto& off : dump::own_offsets(r->repetition))
        denote(r->cell, -1, placement(r->magnification, r->x_reflection, r->rotation, add(r->origin, off)), false, 0, true, out);
}

// monotone-chain hull of the reported vertices (so that the containment test does not depend on their order)
static std::vector<Vec2> chain_hull(std::vector<Vec2> p) {
    std::sort(p.begin(), p.end(), [](const Vec2& a, const Vec2& b) { return a.x != b.x ? a.x < b.x : a.y < b.y; });
    size_t n = p.size(), k = 0;
    if (n < 3) return p;
    std::vector<Vec2> h(2 * n);
    auto cr = [](const Vec2& o, const Vec2& a, const Vec2& b) { return (a.x - o.x) * (b.y - o.y) - (a.y - o.y) * (b.x - o.x); };
    for (size_t i = 0; i < n; i++) { while (k >= 2 && cr(h[k - 2], h[k - 1], p[i]) <= 0) k--; h[k++] = p[i]; }
    for (size_t i = n - 1, t = k + 1; i > 0; i--) { while (k >= t && cr(h[k - 2], h[k - 1], p[i - 1]) <= 0) k--; h[k++] = p[i - 1]; }
    h.resize(k - 1);
    return h;
}
static double dist_seg(Vec2 a, Vec2 b, Vec2 q) {
    double dx = b.x - a.x, dy = b.y - a.y, l2 = dx * dx + dy * dy;
    double t = l2 > 0 ? ((q.x - a.x) * dx + (q.y - a.y) * dy) / l2 : 0;
    t = t < 0 ? 0 : t > 1 ? 1 : t;
    return hypot(a.x + t * dx - q.x, a.y + t * dy - q.y);
}
// distance by which q lies outside the convex polygon h (0 if inside/on)
static double outside_by(const std::vector<Vec2>& h, Vec2 q) {
    if (h.empty()) return INFINITY;
    if (h.size() == 1) return dist(h[0], q);
    if (h.size() == 2) return dist_seg(h[0], h[1], q);
    bool inside = true;
    double dmin = INFINITY;
    for (size_t i = 0; i < h.size(); i++) {
        Vec2 a = h[i], b = h[(i + 1) % h.size()];
        double c = (b.x - a.x) * (q.y - a.y) - (b.y - a.y) * (q.x - a.x);
        if (c < 0) inside = false;
        dmin = std::min(dmin, dist_seg(a, b, q));
    }
    return inside ? 0 : dmin;
}

struct Ctx { const CaseId* c; const char* object; std::string history; };
static void report(const Ctx& x, const char* query, const std::string& cls, const std::string& detail) {
    const CaseId& c = *x.c;
    auto rotcls = [](int r) { return (r < 4 || r == 6) ? "multiple_of_90" : r == 7 ? "near_multiple_of_90" : "oblique"; };
    R->violation(std::string("geom.") + query, cls,
                 {{"object", jstr(x.object)}, {"leaf", jstr(leaf_name(c.leaf))}, {"r1_rep", jstr(rep_name(c.s1.rep))}, {"r2_rep", jstr(rep_name(c.s2.rep))},
                  {"r1_rot", jstr(rotcls(c.s1.rot))}, {"r2_rot", jstr(rotcls(c.s2.rot))}, {"cached", jbool(!x.history.empty())}},
                 jobj({{"hierarchy", case_json(c)}, {"object", jstr(x.object)}, {"query", jstr(query)}, {"cache_history", jstr(x.history)}}), detail,
                 case_replay(c) + (x.history.empty() ? "" : " hist=" + x.history));
}
static bool check_bbox(const Ctx& x, Vec2 mn, Vec2 mx, const std::vector<Vec2>& Q) {
    if (Q.empty()) {
        if (!(mn.x > mx.x)) { report(x, "bbox", "empty-not-inverted", fmt("empty object reports box (%g,%g)-(%g,%g)", mn.x, mn.y, mx.x, mx.y)); return false; }
        return true;
    }
    Vec2 qmn = Q[0], qmx = Q[0];
    for (auto& p : Q) { qmn.x = std::min(qmn.x, p.x); qmn.y = std::min(qmn.y, p.y); qmx.x = std::max(qmx.x, p.x); qmx.y = std::max(qmx.y, p.y); }
    double tol = 1e-9 * extent_of(Q);
    if (!(fabs(mn.x - qmn.x) <= tol && fabs(mn.y - qmn.y) <= tol && fabs(mx.x - qmx.x) <= tol && fabs(mx.y - qmx.y) <= tol)) {
        report(x, "bbox", "bbox-mismatch", fmt("reported (%.12g,%.12g)-(%.12g,%.12g), geometry spans (%.12g,%.12g)-(%.12g,%.12g)", mn.x, mn.y, mx.x, mx.y, qmn.x, qmn.y, qmx.x, qmx.y));
        return false;
    }
    return true;
}
static bool check_hull(const Ctx& x, const Array<Vec2>& hull, const std::vector<Vec2>& Q) {
    double tol = 1e-9 * extent_of(Q);
    std::vector<Vec2> hv(hull.items, hull.items + hull.count);
    for (auto& v : hv) {
        if (!(v.x == v.x && v.y == v.y)) { report(x, "hull", "hull-nan", "hull vertex is NaN"); return false; }
        double d = INFINITY;
        for (auto& p : Q) d = std::min(d, dist(p, v));
        if (d > tol) { report(x, "hull", "hull-corner-not-geometry", fmt("hull corner (%.12g,%.12g) is %.3g away from every geometry point; hull=%s", v.x, v.y, d, pts_json(hv).c_str())); return false; }
    }
    std::vector<Vec2> ch = chain_hull(hv);
    for (auto& p : Q) {
        double o = outside_by(ch, p);
        if (o > tol) { report(x, "hull", "hull-misses-geometry", fmt("geometry point (%.12g,%.12g) lies %.3g outside the reported hull %s", p.x, p.y, o, pts_json(hv).c_str())); return false; }
    }
    return true;
}

static void free_cache(Map<GeometryInfo>& cache) {
    for (MapItem<GeometryInfo>* it = cache.next(NULL); it; it = cache.next(it)) it->value.clear();
    cache.clear();
}

static void run_case(const CaseId& c, bool with_cache_histories) {
    World w = build(c.leaf, c.s1, c.s2, c.mid_extra, true);
    Denot dl, dm, dt, d1, d2;
    denote(w.leaf, -1, Aff(), false, 0, true, dl);
    denote(w.mid, -1, Aff(), false, 0, true, dm);
    denote(w.top, -1, Aff(), false, 0, true, dt);
    denote_ref(w.r1, d1);
    denote_ref(w.r2, d2);
    std::vector<Vec2> Ql = dl.cloud(), Qm = dm.cloud(), Qt = dt.cloud(), Q1 = d1.cloud(), Q2 = d2.cloud();
    struct Obj { const char* name; Cell* cell; Reference* ref; const std::vector<Vec2>* Q; };
    Obj objs[5] = {{"TOP", w.top, NULL, &Qt}, {"MID", w.mid, NULL, &Qm}, {"LEAF", w.leaf, NULL, &Ql}, {"ref TOP->MID", NULL, w.r2, &Q2}, {"ref MID->LEAF", NULL, w.r1, &Q1}};
    bool ok = true;
    for (auto& o : objs) {
        Ctx x{&c, o.name, ""};
        Vec2 mn, mx;
        Array<Vec2> hull = {};
        if (o.cell) { o.cell->bounding_box(mn, mx); o.cell->convex_hull(hull); }
        else { o.ref->bounding_box(mn, mx); o.ref->convex_hull(hull); }
        ok &= check_bbox(x, mn, mx, *o.Q);
        ok &= check_hull(x, hull, *o.Q);
        hull.clear();
        // documented contract (cell.hpp / reference.hpp): the hull is APPENDED to result, which need not be empty
        Array<Vec2> pre = {};
        const Vec2 s0{-7777.25, 1234.5}, s1{4321.75, -9999.5};
        pre.append(s0); pre.append(s1);
        if (o.cell) o.cell->convex_hull(pre); else o.ref->convex_hull(pre);
        if (pre.count < 2 || !(pre[0] == s0) || !(pre[1] == s1)) {
            report(x, "hull", "hull-result-not-appended", fmt("result array held 2 points before the call; afterwards it has %llu and its first two are %s", (unsigned long long)pre.count, pre.count >= 2 && pre[0] == s0 && pre[1] == s1 ? "kept" : "gone"));
            ok = false;
        } else {
            Array<Vec2> tailv = {};
            for (uint64_t k = 2; k < pre.count; k++) tailv.append(pre[k]);
            ok &= check_hull(x, tailv, *o.Q);
            tailv.clear();
        }
        pre.clear();
        R->count("prefilled_result_queries");
    }
    // element-level boxes (polygon / label with repetition)
    for (uint64_t i = 0; i < w.leaf->polygon_array.count; i++) {
        Polygon* p = w.leaf->polygon_array[i];
        std::vector<Vec2> q;
        for (auto& off : dump::own_offsets(p->repetition)) for (uint64_t k = 0; k < p->point_array.count; k++) q.push_back(add(p->point_array[k], off));
        Vec2 mn, mx;
        p->bounding_box(mn, mx);
        Ctx x{&c, "polygon", ""};
        ok &= check_bbox(x, mn, mx, q);
    }
    for (uint64_t i = 0; i < w.leaf->label_array.count; i++) {
        Label* l = w.leaf->label_array[i];
        std::vector<Vec2> q;
        for (auto& off : dump::own_offsets(l->repetition)) q.push_back(add(l->origin, off));
        Vec2 mn, mx;
        l->bounding_box(mn, mx);
        Ctx x{&c, "label", ""};
        ok &= check_bbox(x, mn, mx, q);
    }
    R->count("cases");
    bool nontrivial = (c.s1.rot >= 4 || c.s2.rot >= 4) && (c.s1.rep != REP_NONE || c.s2.rep != REP_NONE || leaf_degenerate(c.leaf) || c.leaf >= L_POLY_RECT);
    if (nontrivial) R->count("nontrivial");
    R->outcome("geom", fmt("%s %d%d ok=%d", leaf_name(c.leaf), c.s1.rep, c.s2.rep, (int)ok));

    if (with_cache_histories && ok) {
        // every sequence of <= 3 queries out of 6 sharing one cache; each answer judged by the same oracle
        for (int len = 1; len <= 3; len++) {
            int total = 1;
            for (int i = 0; i < len; i++) total *= 6;
            for (int code = 0; code < total; code++) {
                Map<GeometryInfo> cache = {};
                std::string hist;
                int t = code;
                bool good = true;
                for (int step = 0; step < len && good; step++) {
                    int q = t % 6;
                    t /= 6;
                    hist += (step ? "," : "") + std::to_string(q);
                    Ctx x{&c, q < 2 ? "TOP" : q < 4 ? "MID" : "ref TOP->MID", hist};
                    Vec2 mn, mx;
                    Array<Vec2> hull = {};
                    switch (q) {
                        case 0: { GeometryInfo gi = w.top->bounding_box(cache); good &= gi.bounding_box_valid && check_bbox(x, gi.bounding_box_min, gi.bounding_box_max, Qt); } break;
                        case 1: { GeometryInfo gi = w.top->convex_hull(cache); good &= gi.convex_hull_valid && check_hull(x, gi.convex_hull, Qt); } break;
                        case 2: { GeometryInfo gi = w.mid->bounding_box(cache); good &= gi.bounding_box_valid && check_bbox(x, gi.bounding_box_min, gi.bounding_box_max, Qm); } break;
                        case 3: { GeometryInfo gi = w.mid->convex_hull(cache); good &= gi.convex_hull_valid && check_hull(x, gi.convex_hull, Qm); } break;
                        case 4: w.r2->bounding_box(mn, mx, cache); good &= check_bbox(x, mn, mx, Q2); break;
                        default: w.r2->convex_hull(hull, cache); good &= check_hull(x, hull, Q2); hull.clear();
                    }
                }
                if (good) {
                    // release the entries with GeometryInfo::clear() but keep the map, then ask for both boxes again through it:
                    // a cleared entry must be recomputed, not trusted
                    for (MapItem<GeometryInfo>* it = cache.next(NULL); it; it = cache.next(it)) it->value.clear();
                    Ctx x{&c, "TOP", hist + ",clear-entries,0"};
                    GeometryInfo gi = w.top->bounding_box(cache);
                    good &= gi.bounding_box_valid && check_bbox(x, gi.bounding_box_min, gi.bounding_box_max, Qt);
                    Ctx x2{&c, "ref TOP->MID", hist + ",clear-entries,0,5"};
                    Array<Vec2> hull = {};
                    w.r2->convex_hull(hull, cache);
                    good &= check_hull(x2, hull, Q2);
                    hull.clear();
                    R->count("cache_reuse_after_clear");
                }
                free_cache(cache);
                R->count("cache_histories");
                if (!good) R->count("cache_histories_failed");
            }
        }
    }
    w.destroy();
}

int main(int argc, char** argv) {
    Run run("C09", argc, argv);
    R = &run;
    error_logger = NULL;
    bool T = run.thorough();
    if (run.replaying()) {
        CaseId c{atoi(run.rarg("leaf").c_str()), parse_spec(run.rarg("s1")), parse_spec(run.rarg("s2")), run.rarg("mid") == "1"};
        fprintf(stderr, "replay %s\n", case_json(c).c_str());
        run_case(c, !run.rarg("hist").empty());
        return run.finish();
    }
    // ---- space: leaf x spec(mid->leaf) x spec(top->mid) x mid_extra
    std::vector<RefSpec> specs;
    for (int rot = 0; rot < NROT_EXT; rot++) for (int refl = 0; refl < 2; refl++) for (int mag = 0; mag < 2; mag++) for (int org = 0; org < 2; org++) for (int rep = 0; rep < NREP; rep++) {
        if (rot >= NROT && (mag || org)) continue;  // rotations -pi/2 and pi/2 + 8e-9: origin (0,0), magnification 1
        if (mag != (org ? 1 : 0)) continue;  // magnification tied to origin choice (both values still occur); the full product does not fit the thorough budget since the one-column/one-row lattices were added
        if (!T && (rot == 2 || rot == 3)) continue;   // quick: rotations {0, pi/2, 0.5, pi/4}
        if (!T && rep >= REP_REGULAR_1COL && rot != 0 && rot != 4) continue;  // quick: one-column / one-row lattices under rotations {0, 0.5}
        specs.push_back({rot, refl, mag, org, rep});
    }
    std::vector<CaseId> cases;
    for (int leaf = 0; leaf < NLEAF; leaf++)
        for (auto& s1 : specs) for (auto& s2 : specs) {
            if (!T && s1.org != 1) continue;  // quick: inner origin fixed to (3,-2), outer varies
            if (!T && s2.org != (s2.refl ? 1 : 0)) continue;
            for (int me = 0; me < 2; me++) {
                if (!T && me != (leaf_degenerate(leaf) ? 0 : 1)) continue;
                cases.push_back({leaf, s1, s2, (bool)me});
            }
        }
    int64_t chunk = 64, nchunks = ((int64_t)cases.size() + chunk - 1) / chunk;
    auto body = [&](int64_t ci) { for (int64_t i = ci * chunk; i < std::min<int64_t>(cases.size(), (ci + 1) * chunk); i++) run_case(cases[i], false); };
    auto describe = [&](int64_t ci) { return jobj({{"first_hierarchy_of_chunk", case_json(cases[ci * chunk])}}); };
    auto replay_of = [&](int64_t ci) { return case_replay(cases[ci * chunk]); };
    bool ok = parallel_for(run, nchunks, body, describe, replay_of, PFOptions{30, "geom.crash", true});
    run.sample("geom", case_json(cases[cases.size() / 3]));
    run.sample("geom", case_json(cases[cases.size() / 2 + 7]));
    run.bound("geom", fmt("%d leaf contents x %zu^2 reference placements%s x own-content variants: bbox+hull of TOP, MID, LEAF and both references, element boxes", NLEAF, specs.size(), T ? "" : " (quick: origins/magnifications tied)"), ok, (int64_t)cases.size());

    // ---- reductions: magnification 0.5 on one or both levels (the main space only magnifies by 1 and 2)
    std::vector<RefSpec> half, other;
    for (int rot : {0, 1, 4, 7}) for (int refl = 0; refl < 2; refl++) for (int rep : {REP_NONE, REP_RECT, REP_REGULAR, REP_EXPLICIT}) {
        if (!T && rot == 7 && rep != REP_NONE) continue;
        half.push_back({rot, refl, 2, 1, rep});
        other.push_back({rot, refl, rot == 7 ? 0 : 1, rot == 7 ? 0 : 1, rep});
    }
    std::vector<CaseId> rc;
    for (int leaf = 0; leaf < NLEAF; leaf++)
        for (size_t i = 0; i < half.size(); i++) for (size_t j = 0; j < half.size(); j++) {
            if (!T && half[i].refl != half[j].refl && half[i].rep != REP_NONE && half[j].rep != REP_NONE) continue;
            bool me = !leaf_degenerate(leaf);
            rc.push_back({leaf, half[i], half[j], me});
            rc.push_back({leaf, half[i], other[j], me});
            rc.push_back({leaf, other[i], half[j], me});
        }
    int64_t nch3 = ((int64_t)rc.size() + chunk - 1) / chunk;
    auto body3 = [&](int64_t ci) { for (int64_t i = ci * chunk; i < std::min<int64_t>(rc.size(), (ci + 1) * chunk); i++) run_case(rc[i], false); };
    bool ok3 = parallel_for(run, nch3, body3, [&](int64_t ci) { return jobj({{"first_hierarchy_of_chunk", case_json(rc[ci * chunk])}}); }, [&](int64_t ci) { return case_replay(rc[ci * chunk]); }, PFOptions{30, "geom.reduce.crash", true});
    run.sample("geom.reduce", case_json(rc[rc.size() / 2 + 1]));
    run.bound("geom.reduce", fmt("%d leaf contents x %zu^2 placement pairs x {0.5/0.5, 0.5/2, 2/0.5} magnifications: same oracles as geom", NLEAF, half.size()), ok3, (int64_t)rc.size());

    // ---- cache histories on a reduced set: rot in {0, 0.5}, both reflections, rep in {none, explicit, rect}
    std::vector<CaseId> hc;
    for (int leaf = 0; leaf < NLEAF; leaf++)
        for (int r1 : {0, 4}) for (int r2 : {1, 4}) for (int rep1 : {REP_NONE, REP_EXPLICIT}) for (int rep2 : {REP_NONE, REP_RECT, REP_EXPLICIT}) for (int refl = 0; refl < 2; refl++) {
            if (!T && rep2 == REP_RECT) continue;
            hc.push_back({leaf, {r1, refl, 1, 1, rep1}, {r2, !refl, 0, 0, rep2}, !leaf_degenerate(leaf)});
        }
    auto body2 = [&](int64_t i) { run_case(hc[i], true); };
    bool ok2 = parallel_for(run, (int64_t)hc.size(), body2, [&](int64_t i) { return case_json(hc[i]); }, [&](int64_t i) { return case_replay(hc[i]) + " hist=all"; }, PFOptions{60, "geom.cache.crash", true});
    run.sample("geom.cache", jobj({{"hierarchy", case_json(hc[5])}, {"queries", jstr("all sequences of <=3 out of {bbox TOP, hull TOP, bbox MID, hull MID, bbox ref, hull ref} sharing one cache")}}));
    run.bound("geom.cache", fmt("%zu hierarchies x 258 query sequences (length <= 3) sharing one cache", hc.size()), ok2, (int64_t)hc.size() * 258);
    return run.finish();
}
