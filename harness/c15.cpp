// C15 — curves and shape primitives stay within tolerance of the exact geometry.
// Engine E2 (vf::parallel_for): bounded exhaustive enumeration on the real gdstk code of
//   (A) single sections over the parameter lattices of DESIGN.md 2/C15,
//   (B) every ordered pair (thorough: triple) of section kinds (construction histories; the model
//       carries the continuation state that smooth sections and turn read),
//   (C) command strings equivalent to the direct calls (exact comparison),
//   (D) shape primitives against their analytic boundary / documented vertices.
// Oracle: c15_geom.hpp / c15_core.hpp (own long double evaluation; no gdstk code except that the
// Hobby control points are obtained from hobby_interpolation and then verified against Hobby's
// defining equations).
#include "c15_core.hpp"

// ------------------------------------------------------------------ alphabets
static std::vector<double> TOLS;
static std::vector<std::string> TOL_S;
static const Vec2 STARTS[2] = {{0, 0}, {-2, -2}};
static std::vector<Vec2> L25, L9, L4, L5;
static void init_alphabets(bool thorough) {
    TOLS = {1, 1e-1, 1e-2, 1e-3};
    TOL_S = {"1", "1e-1", "1e-2", "1e-3"};
    if (thorough) { TOLS.push_back(1e-6); TOL_S.push_back("1e-6"); }
    for (int j = -2; j <= 2; j++)
        for (int i = -2; i <= 2; i++) L25.push_back(Vec2{(double)i, (double)j});
    for (int j = -2; j <= 2; j += 2)
        for (int i = -2; i <= 2; i += 2) L9.push_back(Vec2{(double)i, (double)j});
    L4 = {Vec2{-2, -2}, Vec2{2, -1}, Vec2{0, 1}, Vec2{1, 2}};
    L5 = {Vec2{-2, -2}, Vec2{2, -2}, Vec2{0, 0}, Vec2{-2, 2}, Vec2{1, 0}};
}

struct Sub {
    std::string name, desc;
    int64_t n = 0;
    int chunk = 64;
    std::function<void(int64_t, bool)> run;   // (case index, verbose)
};
static std::vector<Sub> SUBS;

// ------------------------------------------------------------------ one section on a real curve
struct SingleCase {
    Vec2 start;
    int toli = 0;
    bool has_prefix = false;
    Vec2 prefix_from = {0, 0};
    Spec spec;
    double tol_abs = 0;        // > 0: absolute tolerance = feature scale x relative tolerance (scaled sub-search)
    std::string tol_label;
    double feature_scale = 1;
    double tol() const { return tol_abs > 0 ? tol_abs : TOLS[toli]; }
};
static std::string single_json(const SingleCase& sc) {
    JFields f = {{"start", "[" + jnum(sc.start.x) + "," + jnum(sc.start.y) + "]"}, {"tolerance", jnum(sc.tol())}};
    if (sc.feature_scale != 1) f.push_back({"feature_scale", jnum(sc.feature_scale)});
    if (sc.has_prefix) f.push_back({"preceding_segment_from", "[" + jnum(sc.prefix_from.x) + "," + jnum(sc.prefix_from.y) + "]"});
    f.push_back({"section", sc.spec.json()});
    return jobj(f);
}
static bool bits_equal(const Curve& a, const Curve& b) {
    return a.point_array.count == b.point_array.count &&
           memcmp(a.point_array.items, b.point_array.items, sizeof(Vec2) * a.point_array.count) == 0 &&
           memcmp(&a.last_ctrl, &b.last_ctrl, sizeof(Vec2)) == 0;
}
static JFields section_tags(const Spec& s, const Model& m, const std::string& prev) {
    JFields t = {{"kind", jstr(KIND_NAME[s.kind])}, {"relative", jbool(s.rel)}, {"prev", jstr(prev)}};
    if (s.kind == ARC || s.kind == TURN) {
        t.push_back({"axis_ratio", jnum((double)m.axis_ratio)});
        t.push_back({"span", jnum((double)m.span)});
        t.push_back({"param_span_over_span", jnum((double)(m.span > 0 ? m.param_span / m.span : 1))});
        auto odd_pi = [&](double a) { double q = a / M_PI; double rq = round(q); return fabs(q - rq) < 1e-9 && ((long long)fabs(rq)) % 2 == 1 && a != M_PI; };
        if (s.kind == ARC) t.push_back({"angle_at_odd_multiple_of_pi", jbool(s.rx != s.ry && (odd_pi(s.a0 - s.rot) || odd_pi(s.a1 - s.rot)))});
    }
    if (s.kind == BEZ) t.push_back({"ctrl", jint((int64_t)s.pts.size())});
    return t;
}
// Applies one section to the real curve and judges it; updates the model state.  Returns false if
// the section is not enabled (smooth/turn without a defined previous direction).
static bool do_section(const CaseCtx& cx, Curve& c, MState& st, const Spec& s, const std::string& prev, SecOut& out, Model& m) {
    Vec2 end_d = c.point_array[c.point_array.count - 1];
    st.end = toP(end_d);
    build_model(st, end_d, s, m);
    if (!m.enabled) return false;
    std::vector<Vec2> before(c.point_array.items, c.point_array.items + c.point_array.count);
    // diagnosis only: a smooth continuation / turn that fails while gdstk's last_ctrl differs from the
    // model's continuation state is classed "continuation:<class>" (the verdict itself comes from
    // the vertices)
    bool lc_differs = m.smooth && st.lc_ok && !(dist(toP(c.last_ctrl), st.lc) <= 1e-9L * (cx.scale_floor + norm(st.lc)));
    apply_direct(c, s);
    std::string sub = std::string("section.") + KIND_NAME[s.kind];
    JFields tags = section_tags(s, m, prev);
    if (cx.verbose) {
        fprintf(stderr, "section %s prev=%s: %llu -> %llu vertices, gdstk last_ctrl %s\n", s.json().c_str(), prev.c_str(),
                (unsigned long long)before.size(), (unsigned long long)c.point_array.count, vstr(c.last_ctrl).c_str());
        for (auto& p : m.ex.pieces) {
            if (p.type == Piece::BEZ) { fprintf(stderr, "  exact %s bezier:", p.what.c_str()); for (auto& q : p.ctrl) fprintf(stderr, " (%.12Lg,%.12Lg)", q.x, q.y); fprintf(stderr, " deviation-demanded=%d\n", p.dev); }
            else if (p.type == Piece::ARC) fprintf(stderr, "  exact %s arc: centre (%.12Lg,%.12Lg) rx %.6Lg ry %.6Lg rot %.6Lg param %.12Lg -> %.12Lg\n", p.what.c_str(), p.cx, p.cy, p.rx, p.ry, p.rot, p.th0, p.th1);
            else fprintf(stderr, "  exact parametric function piece\n");
        }
    }
    if (!m.hobby_error.empty()) {
        R->violation(sub, "hobby-equations", tags, cx.case_json, "control points returned by hobby_interpolation violate Hobby's defining equations: " + m.hobby_error, cx.replay);
        if (cx.verbose) fprintf(stderr, "  ** VIOLATION hobby-equations: %s\n", m.hobby_error.c_str());
        out.bad = true;
        return true;
    }
    if (lc_differs) tags.push_back({"last_ctrl_differs_from_model", jbool(true)});
    out = check_vertices(cx, sub, tags, m.ex, m.exp_end, before, c.point_array.items, c.point_array.count, kind_slot(s.kind), lc_differs ? "continuation:" : "");
    // continuation state for the next section
    uint64_t n = c.point_array.count;
    st.end = toP(c.point_array[n - 1]);
    if (m.lc_mode == Model::LC_SET) { st.lc = m.new_lc; st.lc_ok = true; st.lc_stale = false; }
    else if (m.lc_mode == Model::LC_POLYLINE) {
        // gdstk semantics (Appendix B): after an arc the direction is that of the last polyline edge
        P2 v = toP(c.point_array[n - 2]) - st.end;
        LD l = norm(v);
        if (n >= 2 && l > 0 && std::isfinite((double)l)) { st.lc = st.end + (m.lc_len / l) * v; st.lc_ok = true; st.lc_stale = false; }
        else st.lc_ok = false;
    } else st.lc_stale = true;
    return true;
}
static bool is_nontrivial(const Spec& s, const Model& m, double tol) {
    return tol >= (double)m.feature || m.cusp || m.smooth || m.span > 2 * PI_L + 1e-9L || m.axis_ratio >= 20;
}
static void run_single(const SingleCase& sc, const std::string& subname, int64_t idx, bool verbose) {
    CaseCtx cx;
    cx.tol = sc.tol();
    cx.tol_s = sc.tol_abs > 0 ? sc.tol_label : TOL_S[sc.toli];
    cx.scale_floor = sc.feature_scale < 1 ? sc.feature_scale : 1;
    cx.verbose = verbose;
    cx.case_json = single_json(sc);
    cx.replay = "sub=" + subname + " idx=" + std::to_string(idx);
    auto fresh = [&](Curve& c) {
        c = Curve{};
        if (sc.has_prefix) { c.init(sc.prefix_from, cx.tol); c.segment(sc.start, false); }
        else c.init(sc.start, cx.tol);
    };
    Curve c;
    fresh(c);
    MState st;
    if (sc.has_prefix) { st.lc = toP(sc.prefix_from); st.lc_ok = true; }
    SecOut out;
    Model m;
    bool en = do_section(cx, c, st, sc.spec, sc.has_prefix ? "segment" : "none", out, m);
    if (!en) { c.clear(); R->count("not_enabled"); return; }
    R->count("cases");
    R->count(std::string("cases:") + KIND_NAME[sc.spec.kind]);
    if (is_nontrivial(sc.spec, m, cx.tol)) R->count("nontrivial");
    if (out.dev_checked) R->count("deviation_checked");
    R->outcome(std::string("section.") + KIND_NAME[sc.spec.kind], fmt("%s n=%d bad=%d dev=%d r=%.1f", cx.tol_s.c_str(), out.nnew, out.bad, out.dev_checked, out.ratio));
    // (6) command string == direct call, exactly
    std::vector<CurveInstruction> prog;
    if (to_commands(sc.spec, prog)) {
        Curve c2;
        fresh(c2);
        uint64_t r = c2.commands(prog.data(), prog.size());
        R->count("commands_compared");
        if (r != prog.size() || !bits_equal(c, c2)) {
            R->violation("commands", "differs-from-direct-call", {{"kind", jstr(KIND_NAME[sc.spec.kind])}, {"relative", jbool(sc.spec.rel)}}, cx.case_json,
                         fmt("commands() returned %llu of %zu items; direct call gives %llu vertices / last_ctrl %s, commands gives %llu vertices / last_ctrl %s",
                             (unsigned long long)r, prog.size(), (unsigned long long)c.point_array.count, vstr(c.last_ctrl).c_str(),
                             (unsigned long long)c2.point_array.count, vstr(c2.last_ctrl).c_str()), cx.replay);
            if (verbose) fprintf(stderr, "  ** VIOLATION commands differ\n");
        }
        c2.clear();
    }
    if (!out.bad && R->samples_emitted["section"] < 2 && idx % 97 == 5) R->sample("section", cx.case_json);
    c.clear();
}

// generic registration of a product space of single-section cases
static void add_single_sub(const std::string& name, const std::string& desc, const std::vector<int64_t>& dims, int chunk,
                           std::function<bool(const std::vector<int>&, SingleCase&)> make) {
    Radix rx;
    rx.dims = dims;
    Sub s;
    s.name = name;
    s.desc = desc;
    s.n = rx.total();
    s.chunk = chunk;
    s.run = [=](int64_t idx, bool verbose) {
        SingleCase sc;
        std::vector<int> d = rx.decode(idx);
        if (!make(d, sc)) return;
        run_single(sc, name, idx, verbose);
    };
    SUBS.push_back(s);
}
static Vec2 relto(const Vec2& p, const Vec2& start, bool rel) { return rel ? p - start : p; }
static const Vec2 PREFIX_D[2] = {{-1, 0}, {-1, -2}};

static void register_sections(bool thorough) {
    const int64_t NT = (int64_t)TOLS.size();
    // dims: [tol, start, rel, ...]
    add_single_sub("lines", "segment/horizontal/vertical, scalar and array overloads, end points on the 5x5 lattice", {NT, 2, 2, 6, 25}, 200,
                   [](const std::vector<int>& d, SingleCase& sc) {
                       sc.toli = d[0]; sc.start = STARTS[d[1]];
                       Spec& s = sc.spec;
                       s.rel = d[2];
                       Vec2 p = L25[d[4]], q = L25[(d[4] * 7 + 3) % 25];
                       switch (d[3]) {
                           case 0: s.kind = SEG; s.variant = 0; s.pts = {relto(p, sc.start, s.rel)}; break;
                           case 1: s.kind = SEG; s.variant = 1; s.pts = {relto(q, sc.start, s.rel), relto(p, sc.start, s.rel)}; break;
                           case 2: s.kind = HOR; s.variant = 0; s.vals = {s.rel ? p.x - sc.start.x : p.x}; break;
                           case 3: s.kind = HOR; s.variant = 1; s.vals = {s.rel ? q.x - sc.start.x : q.x, s.rel ? p.x - sc.start.x : p.x}; break;
                           case 4: s.kind = VER; s.variant = 0; s.vals = {s.rel ? p.y - sc.start.y : p.y}; break;
                           default: s.kind = VER; s.variant = 1; s.vals = {s.rel ? q.y - sc.start.y : q.y, s.rel ? p.y - sc.start.y : p.y}; break;
                       }
                       return true;
                   });
    add_single_sub("quadratic", "quadratic: all 25^2 (control, end) pairs of the 5x5 lattice x start x relative x tolerance", {NT, 2, 2, 25, 25}, 100,
                   [](const std::vector<int>& d, SingleCase& sc) {
                       sc.toli = d[0]; sc.start = STARTS[d[1]];
                       sc.spec.kind = QUAD; sc.spec.rel = d[2];
                       sc.spec.pts = {relto(L25[d[3]], sc.start, d[2]), relto(L25[d[4]], sc.start, d[2])};
                       return true;
                   });
    {
        const std::vector<Vec2>* L = thorough ? &L25 : &L9;
        int64_t n = (int64_t)L->size();
        add_single_sub("cubic", thorough ? "cubic: all 25^3 control triples of the 5x5 lattice x start x relative x tolerance" : "cubic: all 9^3 control triples of the {-2,0,2}^2 sub-lattice x start x relative x tolerance",
                       {NT, 2, 2, n, n, n}, 100, [L](const std::vector<int>& d, SingleCase& sc) {
                           sc.toli = d[0]; sc.start = STARTS[d[1]];
                           sc.spec.kind = CUB; sc.spec.rel = d[2];
                           sc.spec.pts = {relto((*L)[d[3]], sc.start, d[2]), relto((*L)[d[4]], sc.start, d[2]), relto((*L)[d[5]], sc.start, d[2])};
                           return true;
                       });
        add_single_sub("quadratic_smooth", "quadratic_smooth after a segment (2 directions): 25 end points x overload x start x relative x tolerance", {NT, 2, 2, 2, 2, 25}, 100,
                       [](const std::vector<int>& d, SingleCase& sc) {
                           sc.toli = d[0]; sc.start = STARTS[d[1]];
                           sc.has_prefix = true; sc.prefix_from = sc.start + PREFIX_D[d[3]];
                           sc.spec.kind = QSM; sc.spec.rel = d[2]; sc.spec.variant = d[4];
                           sc.spec.pts = {relto(L25[d[5]], sc.start, d[2])};
                           return true;
                       });
        add_single_sub("cubic_smooth", thorough ? "cubic_smooth after a segment (2 directions): 25^2 (control, end) pairs x start x relative x tolerance" : "cubic_smooth after a segment (2 directions): 9^2 (control, end) pairs x start x relative x tolerance",
                       {NT, 2, 2, 2, n, n}, 100, [L](const std::vector<int>& d, SingleCase& sc) {
                           sc.toli = d[0]; sc.start = STARTS[d[1]];
                           sc.has_prefix = true; sc.prefix_from = sc.start + PREFIX_D[d[3]];
                           sc.spec.kind = CSM; sc.spec.rel = d[2];
                           sc.spec.pts = {relto((*L)[d[4]], sc.start, d[2]), relto((*L)[d[5]], sc.start, d[2])};
                           return true;
                       });
    }
    add_single_sub("multi", "two sections in one call (quadratic 4 pts, cubic 6 pts, quadratic_smooth 2 pts, cubic_smooth 4 pts): 25 x 25 lattice points for the two end points", {NT, 2, 2, 4, 25, 25}, 100,
                   [](const std::vector<int>& d, SingleCase& sc) {
                       sc.toli = d[0]; sc.start = STARTS[d[1]];
                       Spec& s = sc.spec;
                       s.rel = d[2];
                       s.variant = 1;
                       Vec2 e1 = L25[d[4]], e2 = L25[d[5]], ca = L25[(d[4] * 3 + d[5] + 1) % 25], cb = L25[(d[5] * 11 + 7) % 25];
                       auto r = [&](const Vec2& p) { return relto(p, sc.start, s.rel); };
                       switch (d[3]) {
                           case 0: s.kind = QUAD; s.pts = {r(ca), r(e1), r(cb), r(e2)}; break;
                           case 1: s.kind = CUB; s.pts = {r(ca), r(cb), r(e1), r(cb), r(ca), r(e2)}; break;
                           case 2: s.kind = QSM; sc.has_prefix = true; sc.prefix_from = sc.start + PREFIX_D[0]; s.pts = {r(e1), r(e2)}; break;
                           default: s.kind = CSM; sc.has_prefix = true; sc.prefix_from = sc.start + PREFIX_D[1]; s.pts = {r(ca), r(e1), r(cb), r(e2)}; break;
                       }
                       return true;
                   });
    add_single_sub("bezier3", "bezier with 3 control points after the start: 9^3 triples of the {-2,0,2}^2 sub-lattice", {NT, 2, 2, 9, 9, 9}, 100,
                   [](const std::vector<int>& d, SingleCase& sc) {
                       sc.toli = d[0]; sc.start = STARTS[d[1]];
                       sc.spec.kind = BEZ; sc.spec.rel = d[2];
                       sc.spec.pts = {relto(L9[d[3]], sc.start, d[2]), relto(L9[d[4]], sc.start, d[2]), relto(L9[d[5]], sc.start, d[2])};
                       return true;
                   });
    {
        const std::vector<Vec2>* L = thorough ? &L5 : &L4;
        int64_t n = (int64_t)L->size();
        add_single_sub("bezier5", thorough ? "bezier with 5 control points after the start: 5^5 tuples of the sub-lattice {(-2,-2),(2,-2),(0,0),(-2,2),(1,0)}" : "bezier with 5 control points after the start: 4^5 tuples of a 4-point sub-lattice",
                       {NT, 2, 2, n, n, n, n, n}, 100, [L](const std::vector<int>& d, SingleCase& sc) {
                           sc.toli = d[0]; sc.start = STARTS[d[1]];
                           sc.spec.kind = BEZ; sc.spec.rel = d[2];
                           for (int i = 3; i < 8; i++) sc.spec.pts.push_back(relto((*L)[d[i]], sc.start, d[2]));
                           return true;
                       });
    }
    add_single_sub("arc", "arc: rx{1,3} x ry/rx{1,1/2,1/20} x span{0.2,pi/2,pi,2pi,3pi} x sign x initial{0,2.5} x rotation{0,0.7}", {NT, 2, 2, 3, 5, 2, 2, 2}, 20,
                   [](const std::vector<int>& d, SingleCase& sc) {
                       static const double RX[2] = {1, 3}, RAT[3] = {1, 0.5, 0.05}, SPAN[5] = {0.2, M_PI / 2, M_PI, 2 * M_PI, 3 * M_PI}, A0[2] = {0, 2.5}, ROT[2] = {0, 0.7};
                       sc.toli = d[0]; sc.start = STARTS[d[1]];
                       Spec& s = sc.spec;
                       s.kind = ARC;
                       s.rx = RX[d[2]]; s.ry = RX[d[2]] * RAT[d[3]];
                       s.a0 = A0[d[6]]; s.a1 = s.a0 + (d[5] ? -SPAN[d[4]] : SPAN[d[4]]);
                       s.rot = ROT[d[7]];
                       return true;
                   });
    add_single_sub("turn", "turn after a segment (8 headings incl. west-bound ones on both sides of the atan2 branch cut): r{1/2,2} x +-{0.3,pi/2,3}", {NT, 2, 8, 2, 6}, 20,
                   [](const std::vector<int>& d, SingleCase& sc) {
                       static const double RR[2] = {0.5, 2}, AN[6] = {0.3, M_PI / 2, 3, -0.3, -M_PI / 2, -3};
                       static const Vec2 PD8[8] = {{-1, 0}, {-1, -2}, {0, -1}, {1, -1}, {2, 0}, {2, 0.2}, {2, -0.2}, {0, 1}};
                       sc.toli = d[0]; sc.start = STARTS[d[1]];
                       sc.has_prefix = true; sc.prefix_from = sc.start + PD8[d[2]];
                       sc.spec.kind = TURN; sc.spec.rx = RR[d[3]]; sc.spec.a0 = AN[d[4]];
                       return true;
                   });
    add_single_sub("parametric", "parametric: parabola, full circle, straight line x relative", {NT, 2, 2, 3}, 4,
                   [](const std::vector<int>& d, SingleCase& sc) {
                       sc.toli = d[0]; sc.start = STARTS[d[1]];
                       sc.spec.kind = PAR; sc.spec.rel = d[2]; sc.spec.fn = d[3];
                       return true;
                   });
    // interpolation: knot sets (after the start), constraint patterns, cycle, relative
    add_single_sub("interpolation", "interpolation: 6 knot sets (1-2 points after the start) x 4 constraint patterns x cycle x relative", {NT, 2, 2, 2, 6, 4}, 8,
                   [](const std::vector<int>& d, SingleCase& sc) {
                       static const std::vector<std::vector<Vec2>> KN = {{{2, 1}}, {{1, 2}}, {{2, 0}, {2, 2}}, {{1, 1}, {2, -1}}, {{0, 2}, {2, 2}}, {{2, 1}, {-1, 2}}};
                       static const double ANG[3] = {0.5, -0.8, 2.0};
                       sc.toli = d[0]; sc.start = STARTS[d[1]];
                       Spec& s = sc.spec;
                       s.kind = INT; s.rel = d[2]; s.cycle = d[3];
                       for (auto& p : KN[d[4]]) {
                           if (p.x == sc.start.x && p.y == sc.start.y) return false;
                           s.pts.push_back(relto(p, sc.start, s.rel));
                       }
                       size_t nk = s.pts.size() + 1;
                       for (size_t i = 0; i < nk; i++) {
                           bool c = d[5] == 1 ? i == 0 : d[5] == 2 ? true : d[5] == 3 ? i == nk - 1 : false;
                           s.cons.push_back(c);
                           s.angles.push_back(ANG[i]);
                       }
                       return true;
                   });
}

// ------------------------------------------------------------------ (A+) interpolation in every orientation
// Every way-point set in 16 orientations (rotations by multiples of 45 degrees about the start, and
// their mirror images; angle constraints transformed alongside), open and cyclic, with and without
// angle constraints.  Oracle: the usual section oracle (Hobby equations + on-curve + deviation) and
// the covariance of the construction: the polyline of the transformed way-points must be the
// transformed polyline of the untransformed ones within K x tolerance (both directions).
static std::vector<Vec2> polyline_of(const Vec2& start, double tol, const Spec& sp) {
    Curve c = {};
    c.init(start, tol);
    apply_direct(c, sp);
    std::vector<Vec2> v(c.point_array.items, c.point_array.items + c.point_array.count);
    c.clear();
    return v;
}
static void run_interp_oriented(int64_t idx, const std::vector<int>& d, bool verbose) {
    // d: tol, start, rel, cycle, set, constraint pattern, orientation
    static const std::vector<std::vector<Vec2>> KN = {{{2, 1}}, {{2, 0}, {2, 2}}, {{1, 1}, {2, -1}}, {{2, 0.2}, {4, -0.2}}, {{1, 0.1}, {2, -0.1}, {3, 0.2}},
                                                     {{2, 1}, {-1, 2}}, {{0, 2}, {2, 2}}, {{1.5, 0.5}, {3, 0.4}, {4, -1}}};
    static const double ANG[4] = {0.5, -0.8, 2.0, -0.3};
    const Vec2 start = STARTS[d[1]];
    auto make = [&](int o, SingleCase& sc) {
        int k = o % 8;
        bool mir = o >= 8;
        double rot = k * M_PI / 4, cr = cos(rot), sr = sin(rot);
        if (k % 2 == 0) { static const double C4[4] = {1, 0, -1, 0}, S4[4] = {0, 1, 0, -1}; cr = C4[k / 2]; sr = S4[k / 2]; }   // exact quarter turns
        sc.toli = d[0];
        sc.start = start;
        Spec& s = sc.spec;
        s.kind = INT; s.rel = d[2]; s.cycle = d[3];
        for (auto& q0 : KN[d[4]]) {
            Vec2 q = q0;
            if (mir) q.y = -q.y;
            Vec2 t = {q.x * cr - q.y * sr, q.x * sr + q.y * cr};
            s.pts.push_back(s.rel ? t : start + t);
        }
        size_t nk = s.pts.size() + 1;
        for (size_t i = 0; i < nk; i++) {
            bool c = d[5] == 1 ? i == 0 : d[5] == 2 ? true : d[5] == 3 ? i == nk - 1 : false;
            s.cons.push_back(c);
            double a = rot + (mir ? -ANG[i] : ANG[i]);
            while (a > M_PI) a -= 2 * M_PI;
            while (a <= -M_PI) a += 2 * M_PI;
            s.angles.push_back(a);
        }
    };
    SingleCase sc;
    make(d[6], sc);
    run_single(sc, "interpolation_oriented", idx, verbose);
    if (d[6] == 0) return;
    // A closed path through only two way-points turns by exactly pi at each of them: left and right
    // loop are equally valid, so the mirror image is not determined.  Not judged for covariance.
    if (d[3] && KN[d[4]].size() == 1) { R->count("covariance_skipped_two_knot_cycle"); return; }
    // covariance with orientation 0
    SingleCase base;
    make(0, base);
    // Does a constrained knot have |angle - chord direction| > pi in either construction?  (METAFONT
    // reduces that difference to (-pi, pi]; a solver that does not gives a different spline.)
    auto unreduced = [&](const Spec& sp) {
        std::vector<Vec2> K = {start};
        for (auto& q : sp.pts) K.push_back(sp.rel ? start + q : q);
        int nk = (int)K.size();
        for (int j = 0; j < nk; j++) {
            if (!sp.cons[j]) continue;
            if (sp.cycle || j + 1 < nk) { Vec2 v = K[(j + 1) % nk] - K[j]; if (fabs(sp.angles[j] - atan2(v.y, v.x)) > M_PI) return true; }
            if (sp.cycle || j > 0) { Vec2 v = K[j] - K[(j + nk - 1) % nk]; if (fabs(atan2(v.y, v.x) - sp.angles[j]) > M_PI) return true; }
        }
        return false;
    };
    const bool unred = unreduced(sc.spec) || unreduced(base.spec);
    double tol = TOLS[d[0]];
    std::vector<Vec2> A = polyline_of(start, tol, sc.spec), B = polyline_of(start, tol, base.spec);
    int k = d[6] % 8;
    bool mir = d[6] >= 8;
    double rot = k * M_PI / 4;
    LD cr = cosl((LD)k * PI_L / 4), sr = sinl((LD)k * PI_L / 4);
    std::vector<P2> PA, PB;
    bool finite = true;
    for (auto& v : A) { PA.push_back(toP(v)); finite &= std::isfinite(v.x) && std::isfinite(v.y); }
    for (auto& v : B) {
        finite &= std::isfinite(v.x) && std::isfinite(v.y);
        P2 q = toP(v) - toP(start);
        if (mir) q.y = -q.y;
        PB.push_back(toP(start) + P2{q.x * cr - q.y * sr, q.x * sr + q.y * cr});
    }
    R->count("covariance_checked");
    if (!finite || PA.size() < 2 || PB.size() < 2) return;
    auto hd = [](const std::vector<P2>& X, const std::vector<P2>& Y, P2& where) {
        LD worst = 0;
        for (auto& x : X) {
            LD dd = 1e300L;
            for (size_t i = 0; i + 1 < Y.size(); i++) dd = std::min(dd, dist_seg(x, Y[i], Y[i + 1]));
            if (dd > worst) { worst = dd; where = x; }
        }
        return worst;
    };
    P2 w1 = {0, 0}, w2 = {0, 0};
    LD h1 = hd(PA, PB, w1), h2 = hd(PB, PA, w2);
    LD h = std::max(h1, h2);
    P2 w = h1 >= h2 ? w1 : w2;
    if (h > K_DEV * tol) {
        R->count(fmt("covariance_violations:constraints=%d,cycle=%d,unreduced=%d", d[5], d[3], (int)unred));
        R->violation("section.interpolation", unred ? "covariance:unreduced-constraint-angle" : "covariance", {{"rotation_deg", jint(45 * k)}, {"mirrored", jbool(mir)}, {"cycle", jbool(sc.spec.cycle)}, {"constraints", jint(d[5])}, {"unreduced_constraint_angle", jbool(unred)}, {"tol", jstr(TOL_S[d[0]])}, {"ratio", jnum((double)(h / tol))}},
                     jobj({{"start", "[" + jnum(start.x) + "," + jnum(start.y) + "]"}, {"tolerance", jnum(tol)}, {"section", sc.spec.json()}, {"untransformed_section", base.spec.json()}}),
                     fmt("polyline of the way-points rotated by %d deg%s (%zu vertices) is %.6Lg = %.2Lf x tolerance away from the equally transformed polyline of the original way-points (%zu vertices), at (%.9Lg, %.9Lg)", 45 * k, mir ? " and mirrored" : "", A.size(), h, h / tol, B.size(), w.x, w.y),
                     "sub=interpolation_oriented idx=" + std::to_string(idx));
        if (verbose) fprintf(stderr, "  ** VIOLATION covariance: %.6Lg\n", h);
    }
    (void)rot;
}
static void register_interp_oriented() {
    Radix rx;
    rx.dims = {2, 2, 2, 2, 8, 4, 16};   // tolerances 1e-1 and 1e-3 (lattice indices 1 and 3)
    Sub s;
    s.name = "interpolation_oriented";
    s.desc = "interpolation: 8 way-point sets (1-3 points, incl. gentle zigzags) x 16 orientations (8 rotations by 45 deg x mirror) x 4 constraint patterns x cycle x relative x start x tolerance {1e-1,1e-3}; section oracle + covariance with orientation 0 (two-way-point cycles excluded from covariance: turning angle exactly pi)";
    s.n = rx.total();
    s.chunk = 64;
    s.run = [rx](int64_t idx, bool verbose) { std::vector<int> d = rx.decode(idx); d[0] = 1 + 2 * d[0]; run_interp_oriented(idx, d, verbose); };
    SUBS.push_back(s);
}

// ------------------------------------------------------------------ (M) magnitude family for arcs and turns
// The arc and turn lattices with every length (start point, radii, tolerance) multiplied by 1e-9 and
// by 1e+9: the absolute magnitude of a layout must not matter.
static void register_magnitude_sections() {
    static const double MAGS[2] = {1e-9, 1e9};
    static const char* MAGN[2] = {"1e-9", "1e9"};
    const int64_t NT = (int64_t)TOLS.size();
    add_single_sub("arc_magnitude", "magnitude family: the arc lattice (rx{1,3} x ry/rx{1,1/2,1/20} x span x sign x initial x rotation) with start, radii and tolerance x 1e-9 and x 1e+9", {2, NT, 2, 2, 3, 5, 2, 2, 2}, 40,
                   [](const std::vector<int>& d, SingleCase& sc) {
                       static const double RX[2] = {1, 3}, RAT[3] = {1, 0.5, 0.05}, SPAN[5] = {0.2, M_PI / 2, M_PI, 2 * M_PI, 3 * M_PI}, A0[2] = {0, 2.5}, ROT[2] = {0, 0.7};
                       double m = MAGS[d[0]];
                       sc.toli = d[1]; sc.start = STARTS[d[2]] * m;
                       sc.feature_scale = m; sc.tol_abs = TOLS[d[1]] * m; sc.tol_label = TOL_S[d[1]] + "*" + MAGN[d[0]];
                       Spec& s = sc.spec;
                       s.kind = ARC;
                       s.rx = RX[d[3]] * m; s.ry = RX[d[3]] * RAT[d[4]] * m;
                       s.a0 = A0[d[7]]; s.a1 = s.a0 + (d[6] ? -SPAN[d[5]] : SPAN[d[5]]);
                       s.rot = ROT[d[8]];
                       return true;
                   });
    add_single_sub("turn_magnitude", "magnitude family: turn after a segment (8 headings) r{1/2,2} x +-{0.3,pi/2,3} with all lengths x 1e-9 and x 1e+9", {2, NT, 2, 8, 2, 6}, 40,
                   [](const std::vector<int>& d, SingleCase& sc) {
                       static const double RR[2] = {0.5, 2}, AN[6] = {0.3, M_PI / 2, 3, -0.3, -M_PI / 2, -3};
                       static const Vec2 PD8[8] = {{-1, 0}, {-1, -2}, {0, -1}, {1, -1}, {2, 0}, {2, 0.2}, {2, -0.2}, {0, 1}};
                       double m = MAGS[d[0]];
                       sc.toli = d[1]; sc.start = STARTS[d[2]] * m;
                       sc.feature_scale = m; sc.tol_abs = TOLS[d[1]] * m; sc.tol_label = TOL_S[d[1]] + "*" + MAGN[d[0]];
                       sc.has_prefix = true; sc.prefix_from = (STARTS[d[2]] + PD8[d[3]]) * m;
                       sc.spec.kind = TURN; sc.spec.rx = RR[d[4]] * m; sc.spec.a0 = AN[d[5]];
                       return true;
                   });
}

// ------------------------------------------------------------------ (A') absolute scale of the feature
// The property does not fix the absolute size of a section: selected control polygons (every
// non-doubling-back one with coincident control points, a thin selection of the ordinary and of
// the cusp/looping ones, all quadratics, parametric, interpolation) are re-run at feature scales
// {1e-2, 1, 1e2} (thorough: 1e-3 too) with the tolerance relative to the feature.
struct ScaledBase { Vec2 start; Spec spec; bool special = false; bool has_prefix = false; Vec2 prefix_from = {0, 0}; };
static std::vector<ScaledBase> SBASE;
static void init_scaled_bases() {
    auto P = [](const Vec2& v) { return P2{(LD)v.x, (LD)v.y}; };
    int64_t ord = 0, loopc = 0;
    for (int si = 0; si < 2; si++) {
        Vec2 st = STARTS[si];
        // quadratics: all 25^2
        for (auto& a : L25)
            for (auto& b : L25) {
                ScaledBase sb; sb.start = st; sb.spec.kind = QUAD; sb.spec.pts = {a, b};
                std::vector<P2> c = {P(st), P(a), P(b)};
                bool coincident = (a == st) != (b == a) || (a == st && !(b == a));
                if (span_lt_quarter(c) || coincident || (loopc++ % 7 == 0)) SBASE.push_back(sb);
            }
        // cubics
        for (auto& a : L25)
            for (auto& b : L25)
                for (auto& c3 : L25) {
                    std::vector<P2> c = {P(st), P(a), P(b), P(c3)};
                    bool zero_edge = a == st || b == a || c3 == b;
                    bool all_same = a == st && b == a && c3 == b;
                    bool elig = span_lt_quarter(c) && !all_same;
                    bool take = false;
                    if (elig && zero_edge) take = true;                       // coincident control points, deviation demanded
                    else if (elig) take = (ord++ % 8 == 0);                    // ordinary: thin
                    else take = (loopc++ % 197 == 0);                          // cusp / looping: thin
                    if (!take) continue;
                    ScaledBase sb; sb.start = st; sb.spec.kind = CUB; sb.spec.pts = {a, b, c3};
                    SBASE.push_back(sb);
                }
        // the seeded-change demo shapes and relatives (not on the lattice)
        for (int k = 0; k < 4; k++) {
            ScaledBase sb; sb.start = st; sb.spec.kind = CUB;
            Vec2 o = st;
            if (k == 0) sb.spec.pts = {o, o + Vec2{1, 0}, o + Vec2{1.2, 1}};
            if (k == 1) sb.spec.pts = {o + Vec2{1, 0}, o + Vec2{1, 0}, o + Vec2{1.2, 1}};
            if (k == 2) sb.spec.pts = {o + Vec2{1, 0}, o + Vec2{1.2, 1}, o + Vec2{1.2, 1}};
            if (k == 3) sb.spec.pts = {o, o + Vec2{1, 0.5}, o + Vec2{1, 0.5}};
            SBASE.push_back(sb);
        }
        // bezier with 5 control points: coincident runs
        for (int k = 0; k < 3; k++) {
            ScaledBase sb; sb.start = st; sb.spec.kind = BEZ;
            Vec2 o = st;
            if (k == 0) sb.spec.pts = {o, o + Vec2{1, 0}, o + Vec2{2, 1}, o + Vec2{3, 1}, o + Vec2{4, 2}};
            if (k == 1) sb.spec.pts = {o + Vec2{1, 0}, o + Vec2{2, 0}, o + Vec2{2, 0}, o + Vec2{3, 1}, o + Vec2{3, 1}};
            if (k == 2) sb.spec.pts = {o + Vec2{1, 1}, o + Vec2{1, 1}, o + Vec2{1, 1}, o + Vec2{2, 1}, o + Vec2{3, 2}};
            SBASE.push_back(sb);
        }
        for (int fn = 0; fn < 3; fn++) { ScaledBase sb; sb.start = st; sb.spec.kind = PAR; sb.spec.fn = fn; sb.spec.rel = fn != 1; SBASE.push_back(sb); }
        static const std::vector<std::vector<Vec2>> KN = {{{2, 1}}, {{2, 0}, {2, 2}}, {{1, 1}, {2, -1}}};
        for (auto& kn : KN)
            for (int cp = 0; cp < 3; cp++) {
                ScaledBase sb; sb.start = st; sb.spec.kind = INT;
                for (auto& q : kn) sb.spec.pts.push_back(st + q + Vec2{2, 2});
                size_t nk = kn.size() + 1;
                static const double ANG[3] = {0.5, -0.8, 2.0};
                for (size_t i = 0; i < nk; i++) { sb.spec.cons.push_back(cp == 1 ? i == 0 : cp == 2); sb.spec.angles.push_back(ANG[i]); }
                SBASE.push_back(sb);
            }
    }
}
static void register_scaled(bool thorough) {
    init_scaled_bases();
    static std::vector<double> SC = {1e-2, 1, 1e2};
    static std::vector<int> SCI = {1, 0, 2};            // index into PAR_SCALES
    static std::vector<std::string> SCS = {"1e-2", "1", "1e2"};
    static std::vector<double> REL = {1e-1, 1e-2, 1e-4, 1e-6};
    static std::vector<std::string> RELS = {"1e-1", "1e-2", "1e-4", "1e-6"};
    if (thorough) { SC.push_back(1e-3); SCI.push_back(3); SCS.push_back("1e-3"); REL = {1e-1, 1e-2, 1e-3, 1e-4, 1e-6}; RELS = {"1e-1", "1e-2", "1e-3", "1e-4", "1e-6"}; }
    add_single_sub("scaled", fmt("feature scale {1e-2,1,1e2%s} x tolerance = scale x {%s} x %zu selected sections (quick: at relative tolerance 1e-6 every 3rd lattice member; all non-doubling-back lattice cubics with coincident control points, every 8th ordinary and every 197th cusp/looping cubic, quadratics, off-lattice coincident-control cubics, bezier with coincident runs, parametric, interpolation; both starts)",
                                 thorough ? ",1e-3" : "", thorough ? "1e-1,1e-2,1e-3,1e-4,1e-6" : "1e-1,1e-2,1e-4,1e-6", SBASE.size()),
                   {(int64_t)REL.size(), (int64_t)SC.size(), (int64_t)SBASE.size()}, 40,
                   [thorough](const std::vector<int>& d, SingleCase& sc) {
                       const ScaledBase& b = SBASE[d[2]];
                       double f = SC[d[1]];
                       // quick tier: at the finest relative tolerance only every 3rd quadratic / lattice cubic
                       if (!thorough && REL[d[0]] < 1e-5 && (b.spec.kind == QUAD || b.spec.kind == CUB) && d[2] % 3 != 0 &&
                           b.spec.pts.back().x == floor(b.spec.pts.back().x) && b.spec.pts.back().y == floor(b.spec.pts.back().y)) return false;
                       sc.start = b.start * f;
                       sc.spec = b.spec;
                       for (auto& q : sc.spec.pts) q = q * f;
                       sc.spec.pscale = SCI[d[1]];
                       sc.feature_scale = f;
                       sc.tol_abs = f * REL[d[0]];
                       sc.tol_label = SCS[d[1]] + "*" + RELS[d[0]];
                       return true;
                   });
}

// ------------------------------------------------------------------ (A'') general Bezier: S-bends and gentle starts
// Degree 4, 5 and 6 control polygons (Curve::bezier's general sampler): the first half is placed on
// a small lattice with the leading control points exactly or nearly collinear (offsets 0, 1e-6,
// 1e-3, 1e-2, 1e-1 from the line), the second half is its point reflection about the centre
// (S-bend) or a 0.7x shrunk reflection (uneven ends); coarse and fine tolerances.
static void register_sbends() {
    static const double AA[3] = {0.5, 0.7, 1.0}, DD[2] = {0.5, 0.7}, EPS[5] = {0, 1e-6, 1e-3, 1e-2, 1e-1}, SH[2] = {1, 0.7};
    static const Vec2 WH[3] = {{3, 1}, {2.5, 2}, {4, 1}};
    static const Vec2 ORG[2] = {{0, 0}, {10, -5}};
    static const double TL[5] = {1e-1, 1e-2, 5e-3, 1e-3, 1e-4};
    static const char* TLS[5] = {"1e-1", "1e-2", "5e-3", "1e-3", "1e-4"};
    add_single_sub("bezier_sbend", "bezier of degree 4,5,6: first half a{0.5,0.7,1} x step{0.5,0.7} with offsets {0,1e-6,1e-3,1e-2,1e-1} from the start tangent, second half = point reflection (S-bend) or 0.7x reflection, end (3,1),(2.5,2),(4,1); origin {(0,0),(10,-5)} x relative x tolerance {1e-1,1e-2,5e-3,1e-3,1e-4}",
                   {5, 2, 2, 3, 3, 2, 5, 3, 2}, 60,
                   [](const std::vector<int>& d, SingleCase& sc) {
                       // d: tol, origin, rel, degree, a, step, eps, WH, shrink
                       int deg = 4 + d[3];
                       double a = AA[d[4]], st = DD[d[5]], e = EPS[d[6]], sh = SH[d[8]];
                       Vec2 E = WH[d[7]];
                       std::vector<Vec2> h = {Vec2{0, 0}, Vec2{a, e / 2}, Vec2{a + st, e}};   // first half, relative to P0
                       std::vector<Vec2> c(deg + 1);
                       int half = deg / 2;          // deg 4: P0,P1 | P2 centre | P3,P4 ; deg 5: P0..P2 | P3..P5 ; deg 6: P0..P2 | P3 centre | P4..P6
                       int nh = deg == 4 ? 2 : 3;   // points taken from h (including P0)
                       if (deg == 4) h[1] = Vec2{a, e};
                       for (int i = 0; i < nh; i++) { c[i] = h[i]; c[deg - i] = E - h[i] * sh; }
                       if (deg % 2 == 0) c[half] = (c[half - 1] + c[half + 1]) * 0.5;
                       Vec2 o = ORG[d[1]];
                       sc.start = o;
                       sc.spec.kind = BEZ;
                       sc.spec.rel = d[2];
                       for (int i = 1; i <= deg; i++) sc.spec.pts.push_back(sc.spec.rel ? c[i] : c[i] + o);
                       sc.tol_abs = TL[d[0]];
                       sc.tol_label = TLS[d[0]];
                       return true;
                   });
}

// ------------------------------------------------------------------ (M') magnitude family for polynomial sections
// The selection of the `scaled` sub-search plus S-shaped cubics with a (nearly) centred inflection,
// directly and as cubic_smooth / quadratic_smooth continuations, with every length multiplied by
// 1e-9 and by 1e+9, absolute and relative, tolerance = magnitude x {1e-1,1e-2,1e-4,1e-6}.
static std::vector<ScaledBase> MBASE;
static void register_poly_magnitude(bool thorough) {
    init_scaled_bases();
    if (MBASE.empty()) {
        static const std::vector<std::vector<Vec2>> SC3 = {{{1, 0}, {2, 0.05}, {3, -0.65}}, {{1, 0}, {2, 1}, {3, 1}}, {{1, 0}, {2, 0.5}, {3, 0.5}}, {{1, 0.1}, {2, -0.1}, {3, 0}},
                                                          {{1, 0}, {3, 1}, {4, 1}}, {{1, 0.05}, {2, 0}, {3, -0.6}}, {{1, 0}, {2, -0.05}, {3, 0.65}}, {{0, 1}, {1, 2}, {1, 3}},
                                                          {{1, 1}, {2, 1.05}, {3, 2.5}}, {{2, 0}, {3, 0.2}, {5, 0.2}}};
        for (int si = 0; si < 2; si++) {
            Vec2 st = STARTS[si];
            for (auto& c : SC3) {
                ScaledBase a; a.start = st; a.special = true; a.spec.kind = CUB; a.spec.pts = {st + c[0], st + c[1], st + c[2]};
                MBASE.push_back(a);
                ScaledBase b; b.start = st; b.special = true; b.has_prefix = true; b.prefix_from = st - c[0];   // reflected control = st + c[0]
                b.spec.kind = CSM; b.spec.variant = 1; b.spec.pts = {st + c[1], st + c[2]};
                MBASE.push_back(b);
                ScaledBase q; q.start = st; q.special = true; q.has_prefix = true; q.prefix_from = st - c[0];
                q.spec.kind = QSM; q.spec.variant = 0; q.spec.pts = {st + c[1]};
                MBASE.push_back(q);
            }
        }
        for (auto& b : SBASE) MBASE.push_back(b);
    }
    static const double MAGS[2] = {1e-9, 1e9};
    static const int MAGI[2] = {4, 5};   // index into PAR_SCALES
    static const char* MAGN[2] = {"1e-9", "1e9"};
    static std::vector<double> REL = {1e-1, 1e-2, 1e-4, 1e-6};
    static std::vector<std::string> RELS = {"1e-1", "1e-2", "1e-4", "1e-6"};
    add_single_sub("poly_magnitude", fmt("magnitude family: %zu polynomial sections (S-shaped cubics with centred inflection directly and as cubic_smooth/quadratic_smooth, plus the `scaled` selection; quick: every 2nd (absolute) / 4th (relative) lattice member, every 3rd of those at 1e-6) with all lengths x {1e-9, 1e+9}, absolute and relative, tolerance = magnitude x {1e-1,1e-2,1e-4,1e-6}", MBASE.size()),
                   {(int64_t)REL.size(), 2, 2, (int64_t)MBASE.size()}, 40,
                   [thorough](const std::vector<int>& d, SingleCase& sc) {
                       // d: relative tolerance, magnitude, relative coordinates, base
                       const ScaledBase& b = MBASE[d[3]];
                       if (!b.special && !thorough) {
                           int step = d[2] ? 4 : 2;
                           if (REL[d[0]] < 1e-5) step *= 3;
                           if (d[3] % step != 0) return false;
                       }
                       if (d[2] && (b.spec.kind == PAR)) return false;   // parametric: its own relative flag, run once
                       double f = MAGS[d[1]];
                       sc.start = b.start * f;
                       sc.spec = b.spec;
                       if (b.spec.kind != PAR) sc.spec.rel = d[2];
                       for (auto& q : sc.spec.pts) q = (sc.spec.rel && b.spec.kind != PAR ? q - b.start : q) * f;
                       sc.spec.pscale = MAGI[d[1]];
                       sc.has_prefix = b.has_prefix;
                       sc.prefix_from = b.prefix_from * f;
                       sc.feature_scale = f;
                       sc.tol_abs = f * REL[d[0]];
                       sc.tol_label = std::string(MAGN[d[1]]) + "*" + RELS[d[0]];
                       return true;
                   });
}

// ------------------------------------------------------------------ (B) histories
static std::vector<Spec> OPS;
static void init_ops() {
    auto add = [&](const char* name, Kind k, bool rel, std::vector<Vec2> pts, int variant = 0) {
        Spec s; s.name = name; s.kind = k; s.rel = rel; s.pts = pts; s.variant = variant; OPS.push_back(s);
    };
    add("segment_abs", SEG, false, {{2, 1}});
    add("segment_rel", SEG, true, {{1, 1}});
    { Spec s; s.name = "horizontal_rel"; s.kind = HOR; s.rel = true; s.vals = {1.5}; OPS.push_back(s); }
    { Spec s; s.name = "vertical_abs"; s.kind = VER; s.rel = false; s.vals = {-1}; OPS.push_back(s); }
    add("quadratic_rel", QUAD, true, {{1, 0}, {2, 1}}, 1);
    add("quadratic_abs", QUAD, false, {{1, 2}, {2, 0}}, 1);
    add("quadratic_smooth_rel", QSM, true, {{2, 1}}, 0);
    add("quadratic_smooth_abs", QSM, false, {{1, -1}}, 1);
    add("cubic_rel", CUB, true, {{1, 0}, {2, 0}, {3, 1}}, 1);
    add("cubic_abs", CUB, false, {{-1, 1}, {0, 2}, {2, 2}}, 1);
    add("cubic_smooth_rel", CSM, true, {{2, 1}, {3, 1}}, 1);
    add("cubic_smooth_abs", CSM, false, {{1, 1}, {2, -1}}, 1);
    add("bezier3_rel", BEZ, true, {{1, 0}, {2, 1}, {3, 1}}, 1);
    add("bezier3_abs", BEZ, false, {{0, 1}, {1, 2}, {2, 2}}, 1);
    add("bezier5_rel", BEZ, true, {{1, 0}, {2, 0}, {2, 1}, {3, 2}, {4, 2}}, 1);
    { Spec s; s.name = "arc_circular"; s.kind = ARC; s.rx = s.ry = 1; s.a0 = 0.3; s.a1 = 2; OPS.push_back(s); }
    { Spec s; s.name = "arc_elliptical_rotated"; s.kind = ARC; s.rx = 2; s.ry = 1; s.a0 = 2.5; s.a1 = 2.5 - M_PI; s.rot = 0.7; OPS.push_back(s); }
    { Spec s; s.name = "turn_ccw"; s.kind = TURN; s.rx = 0.5; s.a0 = M_PI / 2; OPS.push_back(s); }
    { Spec s; s.name = "turn_cw"; s.kind = TURN; s.rx = 2; s.a0 = -0.3; OPS.push_back(s); }
    { Spec s; s.name = "parametric_rel_parabola"; s.kind = PAR; s.rel = true; s.fn = 0; OPS.push_back(s); }
    { Spec s; s.name = "parametric_abs_line"; s.kind = PAR; s.rel = false; s.fn = 2; OPS.push_back(s); }
    { Spec s; s.name = "interpolation_rel_free"; s.kind = INT; s.rel = true; s.pts = {{1, 1}, {2, 0}}; s.cons = {0, 0, 0}; s.angles = {0, 0, 0}; OPS.push_back(s); }
    { Spec s; s.name = "interpolation_rel_constrained_cycle"; s.kind = INT; s.rel = true; s.pts = {{2, 1}}; s.cons = {1, 0}; s.angles = {0.5, 0}; s.cycle = true; OPS.push_back(s); }
}
static void run_history(const std::string& subname, int64_t idx, int toli, int starti, const std::vector<int>& ops, bool verbose) {
    CaseCtx cx;
    cx.tol = TOLS[toli];
    cx.tol_s = TOL_S[toli];
    cx.verbose = verbose;
    std::vector<std::string> names;
    for (int o : ops) names.push_back(OPS[o].json());
    cx.case_json = jobj({{"start", "[" + jnum(STARTS[starti].x) + "," + jnum(STARTS[starti].y) + "]"}, {"tolerance", jnum(cx.tol)}, {"sections", jarr(names)}});
    cx.replay = "sub=" + subname + " idx=" + std::to_string(idx);
    Curve c = {};
    c.init(STARTS[starti], cx.tol);
    MState st;
    std::string prev = "none";
    bool bad = false, nontriv = false, all_cmd = true;
    std::vector<CurveInstruction> prog;
    size_t done = 0;
    for (int o : ops) {
        SecOut out;
        Model m;
        bool stale = st.lc_stale;
        if (!do_section(cx, c, st, OPS[o], prev, out, m)) break;
        done++;
        if (m.smooth) { nontriv = true; if (stale) R->count("continuation_after_parametric(stale last_ctrl)"); }
        if (!to_commands(OPS[o], prog)) all_cmd = false;
        R->outcome("history", fmt("%s>%s %s n=%d bad=%d", prev.c_str(), OPS[o].name.c_str(), cx.tol_s.c_str(), out.nnew, out.bad));
        prev = OPS[o].name;
        if (out.bad) { bad = true; break; }
    }
    if (done < ops.size() && !bad) { c.clear(); R->count("not_enabled"); return; }
    R->count("cases");
    R->count("histories");
    if (nontriv) R->count("nontrivial");
    if (!bad && all_cmd) {
        Curve c2 = {};
        c2.init(STARTS[starti], cx.tol);
        uint64_t r = c2.commands(prog.data(), prog.size());
        R->count("commands_compared");
        if (r != prog.size() || !bits_equal(c, c2))
            R->violation("commands", "differs-from-direct-call", {{"kind", jstr("history")}}, cx.case_json,
                         fmt("one commands() call with the whole program returned %llu of %zu; %llu vs %llu vertices", (unsigned long long)r, prog.size(),
                             (unsigned long long)c.point_array.count, (unsigned long long)c2.point_array.count), cx.replay);
        c2.clear();
    }
    if (!bad && idx % 131 == 7) R->sample("history", cx.case_json);
    c.clear();
}
static void register_histories(bool thorough) {
    int depth = thorough ? 3 : 2;
    for (int dp = 2; dp <= depth; dp++) {
        Radix rx;
        rx.dims = {(int64_t)TOLS.size(), 2};
        for (int i = 0; i < dp; i++) rx.dims.push_back((int64_t)OPS.size());
        Sub s;
        s.name = fmt("history%d", dp);
        s.desc = fmt("every ordered %s of the %zu representative sections x start x tolerance (model carries the continuation state)", dp == 2 ? "pair" : "triple", OPS.size());
        s.n = rx.total();
        s.chunk = 20;
        std::string name = s.name;
        s.run = [=](int64_t idx, bool verbose) {
            std::vector<int> d = rx.decode(idx);
            std::vector<int> ops(d.begin() + 2, d.end());
            run_history(name, idx, d[0], d[1], ops, verbose);
        };
        SUBS.push_back(s);
    }
}

// ------------------------------------------------------------------ (B') array overloads as predecessors
// horizontal(array) / vertical(array) / segment(array) with 1, 2 and 3 coordinates (monotone and
// doubling back), relative and absolute, each followed by every continuation section; the
// continuation is also issued through its command letter (t/T, s/S, a) after the same predecessor.
// The model derives the continuation control point / direction from the true last polyline segment.
static void run_array_pair(int64_t idx, const std::vector<int>& d, bool verbose) {
    // d: tol, start, kind(3), set(8), rel(2), continuation(6)
    static const std::vector<std::vector<double>> OFFS = {{2}, {-1.5}, {3, 1}, {1, 3}, {-2, 1}, {1, 3, 2}, {3, -1, 1}, {1, 2, 3}};
    static const std::vector<std::vector<Vec2>> POFFS = {{{2, 1}}, {{-1, 2}}, {{3, 3}, {1, 1}}, {{2, 0}, {2, 2}}, {{-2, 1}, {1, -1}},
                                                        {{1, 2}, {3, 2}, {2, 2}}, {{2, 0}, {2, 2}, {0, 2}}, {{1, 1}, {2, 1}, {3, 2}}};
    const Vec2 start = STARTS[d[1]];
    Spec a;
    a.variant = 1;
    a.rel = d[4];
    if (d[2] == 0) { a.kind = HOR; for (double o : OFFS[d[3]]) a.vals.push_back(a.rel ? o : start.x + o); }
    else if (d[2] == 1) { a.kind = VER; for (double o : OFFS[d[3]]) a.vals.push_back(a.rel ? o : start.y + o); }
    else { a.kind = SEG; for (auto& o : POFFS[d[3]]) a.pts.push_back(a.rel ? o : start + o); }
    a.name = fmt("%s_array%zu_%s", KIND_NAME[a.kind], a.kind == SEG ? a.pts.size() : a.vals.size(), a.rel ? "rel" : "abs");
    Spec b;
    switch (d[5]) {
        case 0: b.kind = QSM; b.rel = true; b.variant = 0; b.pts = {{2, 1}}; break;
        case 1: b.kind = QSM; b.rel = false; b.variant = 1; b.pts = {{1, -1}}; break;
        case 2: b.kind = CSM; b.rel = true; b.variant = 1; b.pts = {{2, 1}, {3, 1}}; break;
        case 3: b.kind = CSM; b.rel = false; b.variant = 1; b.pts = {{1, 1}, {2, -1}}; break;
        case 4: b.kind = TURN; b.rx = 0.5; b.a0 = M_PI / 2; break;
        default: b.kind = TURN; b.rx = 2; b.a0 = -0.3; break;
    }
    CaseCtx cx;
    cx.tol = TOLS[d[0]];
    cx.tol_s = TOL_S[d[0]];
    cx.verbose = verbose;
    cx.case_json = jobj({{"start", "[" + jnum(start.x) + "," + jnum(start.y) + "]"}, {"tolerance", jnum(cx.tol)}, {"sections", jarr({a.json(), b.json()})}});
    cx.replay = "sub=array_then_continuation idx=" + std::to_string(idx);
    Curve c = {};
    c.init(start, cx.tol);
    MState st;
    SecOut o1, o2;
    Model m1, m2;
    do_section(cx, c, st, a, "none", o1, m1);
    bool en = !o1.bad && do_section(cx, c, st, b, a.name, o2, m2);
    if (!o1.bad && !en) { c.clear(); R->count("not_enabled"); return; }
    R->count("cases");
    R->count("array_predecessor_cases");
    R->count("nontrivial");
    R->outcome("history", fmt("%s>%s %s n=%d bad=%d", a.name.c_str(), KIND_NAME[b.kind], cx.tol_s.c_str(), o2.nnew, o1.bad || o2.bad));
    if (!o1.bad && !o2.bad) {
        // the same continuation through its command letter
        std::vector<CurveInstruction> prog;
        if (to_commands(b, prog)) {
            Curve c2 = {};
            c2.init(start, cx.tol);
            apply_direct(c2, a);
            uint64_t r = c2.commands(prog.data(), prog.size());
            R->count("commands_compared");
            if (r != prog.size() || !bits_equal(c, c2))
                R->violation("commands", "differs-from-direct-call", {{"kind", jstr(KIND_NAME[b.kind])}, {"prev", jstr(a.name)}}, cx.case_json,
                             fmt("commands() returned %llu of %zu; %llu vs %llu vertices", (unsigned long long)r, prog.size(), (unsigned long long)c.point_array.count, (unsigned long long)c2.point_array.count), cx.replay);
            c2.clear();
        }
        if (idx % 211 == 3) R->sample("history", cx.case_json);
    }
    c.clear();
}
static void register_array_pairs() {
    Radix rx;
    rx.dims = {(int64_t)TOLS.size(), 2, 3, 8, 2, 6};
    Sub s;
    s.name = "array_then_continuation";
    s.desc = "horizontal/vertical/segment array overloads with 1,2,3 coordinates (8 sets incl. doubling back) x relative x start, each followed by quadratic_smooth (scalar rel, array abs), cubic_smooth (rel, abs), turn (ccw, cw), directly and through the command letter; x tolerance";
    s.n = rx.total();
    s.chunk = 48;
    s.run = [rx](int64_t idx, bool verbose) { run_array_pair(idx, rx.decode(idx), verbose); };
    SUBS.push_back(s);
}

// ------------------------------------------------------------------ (C) malformed / partial command strings
static void register_commands() {
    Sub s;
    s.name = "commands_parse";
    s.desc = "command programs cut after every item and with an unknown instruction: return value = index of the instruction that could not be parsed, sections before it as by direct calls";
    static const char* INS = "LlHhVvCcSsQqTtaAE";
    s.n = (int64_t)strlen(INS) + 1;
    s.chunk = 1;
    s.run = [](int64_t idx, bool verbose) {
        int nargs[256] = {0};
        nargs['L'] = nargs['l'] = 2; nargs['H'] = nargs['h'] = nargs['V'] = nargs['v'] = 1; nargs['C'] = nargs['c'] = 6;
        nargs['S'] = nargs['s'] = nargs['Q'] = nargs['q'] = 4; nargs['T'] = nargs['t'] = 2; nargs['a'] = 2; nargs['A'] = 3; nargs['E'] = 5;
        char ch = idx < (int64_t)strlen(INS) ? INS[idx] : 'x';
        static const double ARGS[6] = {1, 2, 0.5, 1.5, 0.25, 2.5};
        for (int cut = 0; cut <= nargs[(unsigned char)ch]; cut++) {
            // program: L 1 1, then instruction ch with `cut` of its arguments
            std::vector<CurveInstruction> prog(3 + 1 + cut);
            memset(prog.data(), 0, sizeof(CurveInstruction) * prog.size());
            prog[0].command = 'L'; prog[1].number = 1; prog[2].number = 1;
            prog[3].command = ch;
            for (int k = 0; k < cut; k++) prog[4 + k].number = ARGS[k];
            Curve c = {}, d = {};
            c.init(Vec2{0, 0}, 0.01);
            d.init(Vec2{0, 0}, 0.01);
            uint64_t r = c.commands(prog.data(), prog.size());
            d.segment(Vec2{1, 1}, false);
            bool complete = ch != 'x' && cut == nargs[(unsigned char)ch];
            uint64_t want = complete ? prog.size() : 3;
            R->count("cases");
            R->count("commands_parse_cases");
            if (!complete) R->count("nontrivial");
            bool ok = r == want;
            if (!complete) ok = ok && bits_equal(c, d);
            else ok = ok && c.point_array.count > 2;
            if (verbose) fprintf(stderr, "instruction '%c' with %d of %d arguments: returned %llu (expected %llu), %llu vertices\n", ch, cut, nargs[(unsigned char)ch], (unsigned long long)r, (unsigned long long)want, (unsigned long long)c.point_array.count);
            if (!ok)
                R->violation("commands", "parse-return", {{"instruction", jstr(std::string(1, ch))}}, jobj({{"program", jstr(fmt("L 1 1 %c + %d of %d arguments", ch, cut, nargs[(unsigned char)ch]))}}),
                             fmt("commands() returned %llu, expected %llu; vertices %llu", (unsigned long long)r, (unsigned long long)want, (unsigned long long)c.point_array.count), fmt("sub=commands_parse idx=%lld", (long long)idx));
            c.clear();
            d.clear();
        }
    };
    SUBS.push_back(s);
}

#include "c15_prim.hpp"

// ------------------------------------------------------------------ main
int main(int argc, char** argv) {
    Run run("C15", argc, argv);
    R = &run;
    error_logger = NULL;
    mx_init();
    init_alphabets(run.thorough());
    init_ops();
    register_sections(run.thorough());
    // order: cheap and small first
    std::stable_sort(SUBS.begin(), SUBS.end(), [](const Sub& a, const Sub& b) { return a.n < b.n; });
    register_commands();
    register_primitives(run.thorough());
    register_histories(run.thorough());
    register_array_pairs();
    register_scaled(run.thorough());
    register_sbends();
    register_interp_oriented();
    register_magnitude_sections();
    register_poly_magnitude(run.thorough());
    std::stable_sort(SUBS.begin(), SUBS.end(), [](const Sub& a, const Sub& b) { return a.n < b.n; });

    if (run.replaying()) {
        std::string sub = run.rarg("sub");
        int64_t idx = atoll(run.rarg("idx").c_str());
        int64_t cnt = run.rarg("count").empty() ? 1 : atoll(run.rarg("count").c_str());
        for (auto& s : SUBS)
            if (s.name == sub)
                for (int64_t i = idx; i < idx + cnt && i < s.n; i++) { fprintf(stderr, "--- %s case %lld\n", sub.c_str(), (long long)i); s.run(i, true); }
        return run.finish();
    }
    for (auto& s : SUBS) {
        if (run.out_of_time()) { run.bound(s.name, s.desc + " (not started: deadline)", false, 0); continue; }
        int64_t nch = (s.n + s.chunk - 1) / s.chunk;
        const Sub* sp = &s;
        bool ok = parallel_for(run, nch,
            [sp](int64_t c) { for (int64_t i = c * sp->chunk; i < std::min(sp->n, (c + 1) * (int64_t)sp->chunk); i++) sp->run(i, false); },
            [sp](int64_t c) { return jobj({{"sub", jstr(sp->name)}, {"first_case_index", jint(c * sp->chunk)}, {"cases_in_chunk", jint(sp->chunk)}}); },
            [sp](int64_t c) { return fmt("sub=%s idx=%lld count=%d", sp->name.c_str(), (long long)(c * sp->chunk), sp->chunk); },
            PFOptions{30, s.name, true});
        run.bound(s.name, s.desc, ok, s.n);
        run.note(fmt("%s finished at %.1f s", s.name.c_str(), run.elapsed()));
    }
    std::string mr = "largest observed deviation/tolerance per kind (all cases | cases within K=2): ";
    for (int i = 0; i < MX_N; i++) {
        mr += fmt("%s %.3f | %.3f; ", MX_NAME[i], mx_get(i), mx_get(MX_N + i));
        run.count(std::string("max_ratio_x1000:") + MX_NAME[i], (int64_t)llround(mx_get(i) * 1000));
        run.count(std::string("max_passing_ratio_x1000:") + MX_NAME[i], (int64_t)llround(mx_get(MX_N + i) * 1000));
    }
    run.note(mr);
    return run.finish();
}
