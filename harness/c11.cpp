// C11 — repetitions enumerate exactly their offsets and expand into exactly those copies.
// DESIGN.md section 2/C11.  Engine E2 (vf::parallel_for): every repetition of a finite alphabet is
// executed on the real gdstk code; the oracle is the harness's own enumeration of the denoted
// multiset of displacement vectors (own_set below).
//
//  sub-check "set"        get_count / get_offsets (appended, zero vector first) / get_extrema (members
//                         of the set whose bounding box equals the set's bounding box; none for the
//                         empty set)
//  sub-check "transform"  Repetition::transform(m, refl, rot), m in {1,2,-1}, refl in {F,T},
//                         rot in {0, pi/2, 0.6}: the denoted multiset (read from the struct fields of
//                         the transformed repetition) is the image under the linear map, 1e-12 relative
//  "copied first"         all three sub-checks are also run on repetitions that went through a copy before being
//                         enumerated / transformed / applied: Repetition::copy_from, a copy of a copy, each element
//                         kind's copy_from (source cleared or destroyed before the copy is used, so that shared
//                         storage is an ASan report), and the source is compared before / after.
//  sub-check "via_reference"  the element's repetition carried through Reference::get_polygons / get_flexpaths /
//                         get_robustpaths / get_labels(apply_repetitions=false): every instance (reference with 2, 3, 4
//                         own offsets x 4 linear parts) must denote the set mapped ONCE by the linear part.
//  sub-check "apply"      apply_repetition on polygon, 2-element flexpath (varying widths/offsets, raith
//                         base-cell name), 2-element robustpath (segment + cubic, linear interpolations),
//                         label, reference by cell pointer, reference by name - each carrying one GDSII
//                         attribute and one multi-value property; result array empty or already holding
//                         the element itself (as Cell::get_* does).  Every element kind is used fresh and after
//                         a transform history (polygon: rotate, mirror; flexpath: mirror, scale(2.5) with
//                         scale_width=false, transform(2,true,0.3,(1,1)); robustpath: the same plus scale(0.5)
//                         with scale_width=true; label / references: transform with reflection), so that fields
//                         which only leave their initial value under transforms (offset_scale, width_scale,
//                         trafo, negated offsets) are part of what a copy has to reproduce.  Exactly one copy per non-first
//                         vector, each equal to the original translated by that vector in every field of
//                         a deep canonical dump, no heap block shared, copies unaffected by scribbling over
//                         the original afterwards, original left with RepetitionType::None and otherwise
//                         unchanged; path copies additionally produce the translated polygons.
//                         Zero-count lattices (columns or rows = 0) denote the empty set: no copies.  These
//                         cases run in their own forked child so that a crash is reported with exact tags.
#include <gdstk/gdstk.hpp>

#include <setjmp.h>

#include <map>
#include <set>

#include "dump.hpp"
#include "vf.hpp"

using namespace gdstk;
using namespace vf;

static Run* R;
static bool VERBOSE = false;

// ------------------------------------------------------------------------------------------ alphabet
struct RepSpec {
    int kind = 0;  // 0 none, 1 rectangular, 2 regular, 3 explicit, 4 explicit_x, 5 explicit_y
    uint64_t cols = 0, rows = 0;
    Vec2 sp{0, 0}, v1{0, 0}, v2{0, 0};
    std::vector<Vec2> offs;
    std::vector<double> coords;
};
static const char* KIND[] = {"none", "rectangular", "regular", "explicit", "explicit_x", "explicit_y"};
static std::vector<RepSpec> ALPHA;

static std::string spec_json(const RepSpec& s) {
    JFields f = {{"kind", jstr(KIND[s.kind])}};
    if (s.kind == 1 || s.kind == 2) { f.push_back({"columns", juint(s.cols)}); f.push_back({"rows", juint(s.rows)}); }
    if (s.kind == 1) f.push_back({"spacing", dump::vec(s.sp)});
    if (s.kind == 2) { f.push_back({"v1", dump::vec(s.v1)}); f.push_back({"v2", dump::vec(s.v2)}); }
    if (s.kind == 3) { std::vector<std::string> o; for (auto& v : s.offs) o.push_back(dump::vec(v)); f.push_back({"offsets", jarr(o)}); }
    if (s.kind >= 4) f.push_back({"coords", jnums(s.coords)});
    return jobj(f);
}
static void build_alphabet(bool thorough) {
    ALPHA.clear();
    ALPHA.push_back(RepSpec());  // None
    std::vector<uint64_t> counts = {0, 1, 2, 3, 5};
    if (thorough) counts = {0, 1, 2, 3, 4, 5, 7};
    std::vector<double> comps = {-2, 0, 1.5};
    if (thorough) comps = {-2, -0.5, 0, 1.5, 3};
    for (auto c : counts) for (auto r : counts) for (auto sx : comps) for (auto sy : comps) {
        RepSpec s; s.kind = 1; s.cols = c; s.rows = r; s.sp = Vec2{sx, sy};
        ALPHA.push_back(s);
    }
    std::vector<Vec2> lv = {{1, 0}, {1, 1}, {-2, 1}, {0, -1.5}, {0, 0}};
    if (thorough) { lv.push_back(Vec2{-1, -1}); lv.push_back(Vec2{2.5, -0.5}); }
    for (auto c : counts) for (auto r : counts) for (auto& a : lv) for (auto& b : lv) {
        RepSpec s; s.kind = 2; s.cols = c; s.rows = r; s.v1 = a; s.v2 = b;
        ALPHA.push_back(s);
    }
    std::vector<Vec2> ev;
    for (double x : {-1.0, 0.0, 2.0}) for (double y : {-1.0, 0.0, 2.0}) ev.push_back(Vec2{x, y});
    int emax = thorough ? 4 : 3;
    for (int len = 0; len <= emax; len++) {
        int64_t total = 1;
        for (int i = 0; i < len; i++) total *= (int64_t)ev.size();
        for (int64_t idx = 0; idx < total; idx++) {
            RepSpec s; s.kind = 3;
            int64_t t = idx;
            for (int i = 0; i < len; i++) { s.offs.push_back(ev[t % ev.size()]); t /= ev.size(); }
            ALPHA.push_back(s);
        }
    }
    {   // explicit lists of 4, 5 and 6 vectors (negative, zero and duplicate entries): a fixed family instead of 9^n lists
        std::vector<Vec2> seq = {{-1, 2}, {2, 2}, {0, 0}, {2, -1}, {-1, 2}, {-1, -1}};
        std::vector<Vec2> distinct = {{-1, -1}, {-1, 0}, {0, 2}, {2, -1}, {2, 0}, {2, 2}};
        for (int len = 4; len <= 6; len++) {
            RepSpec a; a.kind = 3; a.offs.assign(seq.begin(), seq.begin() + len); ALPHA.push_back(a);
            RepSpec b; b.kind = 3; b.offs.assign(seq.rbegin(), seq.rbegin() + len); ALPHA.push_back(b);
            RepSpec c; c.kind = 3; c.offs.assign(distinct.begin(), distinct.begin() + len); ALPHA.push_back(c);
        }
    }
    std::vector<double> ec = {-2, 0, 1, 1.5};
    int cmax = thorough ? 5 : 3;
    for (int kind = 4; kind <= 5; kind++)
        for (int len = 0; len <= cmax; len++) {
            int64_t total = 1;
            for (int i = 0; i < len; i++) total *= (int64_t)ec.size();
            for (int64_t idx = 0; idx < total; idx++) {
                RepSpec s; s.kind = kind;
                int64_t t = idx;
                for (int i = 0; i < len; i++) { s.coords.push_back(ec[t % ec.size()]); t /= ec.size(); }
                ALPHA.push_back(s);
            }
        }
}
static std::string alphabet_desc(bool thorough) {
    return thorough ? "None; rectangular columns,rows in {0,1,2,3,4,5,7} x spacing components in {-2,-0.5,0,1.5,3}; regular same counts x v1,v2 in {(1,0),(1,1),(-2,1),(0,-1.5),(0,0),(-1,-1),(2.5,-0.5)}; explicit: every list of <= 4 offsets from {-1,0,2}^2 plus 9 fixed lists of 4, 5 and 6 offsets; "
                      "explicit_x / explicit_y: every list of <= 5 coordinates from {-2,0,1,1.5}"
                    : "None; rectangular columns,rows in {0,1,2,3,5} x spacing components in {-2,0,1.5}; regular same counts x v1,v2 in {(1,0),(1,1),(-2,1),(0,-1.5),(0,0)}; explicit: every list of <= 3 offsets from {-1,0,2}^2 (duplicates, (0,0) "
                      "and the empty list included) plus 9 fixed lists of 4, 5 and 6 offsets; explicit_x / explicit_y: every list of <= 3 coordinates from {-2,0,1,1.5}";
}

// the harness's own enumeration of the denoted multiset, zero vector first (None: no set; handled apart)
static std::vector<Vec2> own_set(const RepSpec& s) {
    std::vector<Vec2> o;
    if (s.kind == 1) for (uint64_t i = 0; i < s.cols; i++) for (uint64_t j = 0; j < s.rows; j++) o.push_back(Vec2{i * s.sp.x, j * s.sp.y});
    if (s.kind == 2) for (uint64_t i = 0; i < s.cols; i++) for (uint64_t j = 0; j < s.rows; j++) o.push_back(Vec2{i * s.v1.x + j * s.v2.x, i * s.v1.y + j * s.v2.y});
    if (s.kind >= 3) o.push_back(Vec2{0, 0});
    if (s.kind == 3) for (auto& v : s.offs) o.push_back(v);
    if (s.kind == 4) for (auto c : s.coords) o.push_back(Vec2{c, 0});
    if (s.kind == 5) for (auto c : s.coords) o.push_back(Vec2{0, c});
    return o;
}
// fill a zeroed Repetition through its public fields
static void make_rep(const RepSpec& s, Repetition& r) {
    memset(&r, 0, sizeof r);
    r.type = (RepetitionType)s.kind;
    if (s.kind == 1) { r.columns = s.cols; r.rows = s.rows; r.spacing = s.sp; }
    if (s.kind == 2) { r.columns = s.cols; r.rows = s.rows; r.v1 = s.v1; r.v2 = s.v2; }
    if (s.kind == 3) for (auto& v : s.offs) r.offsets.append(v);
    if (s.kind >= 4) for (auto c : s.coords) r.coords.append(c);
}
struct SpecInfo {
    bool zero_count, cols_zero, rows_zero, empty_list, duplicates, negative;
    size_t card;
};
static SpecInfo info_of(const RepSpec& s) {
    SpecInfo i{};
    std::vector<Vec2> o = own_set(s);
    i.card = o.size();
    i.cols_zero = (s.kind == 1 || s.kind == 2) && s.cols == 0;
    i.rows_zero = (s.kind == 1 || s.kind == 2) && s.rows == 0;
    i.zero_count = i.cols_zero || i.rows_zero;
    i.empty_list = (s.kind == 3 && s.offs.empty()) || (s.kind >= 4 && s.coords.empty());
    for (size_t a = 0; a < o.size(); a++) {
        if (o[a].x < 0 || o[a].y < 0) i.negative = true;
        for (size_t b = 0; b < a; b++) if (o[a] == o[b]) i.duplicates = true;
    }
    return i;
}
static JFields base_tags(const RepSpec& s, const SpecInfo& i) {
    return {{"kind", jstr(KIND[s.kind])}, {"zero_count", jbool(i.zero_count)}, {"columns_zero", jbool(i.cols_zero)}, {"rows_zero", jbool(i.rows_zero)}, {"empty_list", jbool(i.empty_list)}, {"denoted_vectors", jint((int64_t)i.card)}};
}
static std::string vecs_json(const std::vector<Vec2>& v) {
    std::vector<std::string> o;
    for (auto& x : v) o.push_back(dump::vec(x));
    return jarr(o);
}
static std::string vecs_json(const Array<Vec2>& a, uint64_t from = 0) {
    std::vector<std::string> o;
    for (uint64_t i = from; i < a.count && i < from + 64; i++) o.push_back(dump::vec(a[i]));
    return jarr(o);
}
static bool vless(const Vec2& a, const Vec2& b) { return a.x != b.x ? a.x < b.x : a.y < b.y; }
static bool same_multiset_exact(std::vector<Vec2> a, std::vector<Vec2> b) {
    if (a.size() != b.size()) return false;
    std::sort(a.begin(), a.end(), vless);
    std::sort(b.begin(), b.end(), vless);
    for (size_t i = 0; i < a.size(); i++) if (!(a[i] == b[i])) return false;
    return true;
}
static bool same_multiset_tol(const std::vector<Vec2>& want, const std::vector<Vec2>& got, double tol) {
    if (want.size() != got.size()) return false;
    std::vector<char> used(got.size(), 0);
    for (auto& w : want) {
        bool found = false;
        for (size_t k = 0; k < got.size(); k++)
            if (!used[k] && fabs(got[k].x - w.x) <= tol && fabs(got[k].y - w.y) <= tol) { used[k] = 1; found = true; break; }
        if (!found) return false;
    }
    return true;
}
static void bbox(const std::vector<Vec2>& v, Vec2& lo, Vec2& hi) {
    lo = Vec2{INFINITY, INFINITY};
    hi = Vec2{-INFINITY, -INFINITY};
    for (auto& p : v) { lo.x = std::min(lo.x, p.x); lo.y = std::min(lo.y, p.y); hi.x = std::max(hi.x, p.x); hi.y = std::max(hi.y, p.y); }
}

// Before a COPIED repetition is read, its list must at least be addressable over count x item size: a copy
// whose block is too small would otherwise end the worker with a sanitizer abort carrying no case tags.
#if defined(__SANITIZE_ADDRESS__)
#include <sanitizer/asan_interface.h>
static bool readable(const void* p, size_t n) { return n == 0 || (p && !__asan_region_is_poisoned((void*)p, n)); }
#else
static bool readable(const void* p, size_t n) { return n == 0 || p; }
#endif
static bool storage_ok(const Repetition& r) {
    if (r.type == RepetitionType::Explicit) return readable(r.offsets.items, r.offsets.count * sizeof(Vec2));
    if (r.type == RepetitionType::ExplicitX || r.type == RepetitionType::ExplicitY) return readable(r.coords.items, r.coords.count * sizeof(double));
    return true;
}
static void storage_violation(const char* sub, int ri, const std::string& via, const Repetition& r, const std::string& rp) {
    JFields tags = base_tags(ALPHA[ri], info_of(ALPHA[ri]));
    tags.push_back({"via", jstr(via)});
    uint64_t n = r.type == RepetitionType::Explicit ? r.offsets.count : r.coords.count;
    R->violation(sub, "copy-storage-too-small", tags, jobj({{"repetition", spec_json(ALPHA[ri])}, {"obtained", jstr(via)}}),
                 fmt("the copied repetition reports %llu stored entries but its list is not addressable over %llu x item size bytes: enumerating or applying it reads beyond the copied block", (unsigned long long)n, (unsigned long long)n), rp);
}

// ------------------------------------------------------------------------------------------ "set"
static const Vec2 SENTINEL = {12345.5, -54321.25};
// via: how the repetition under test was obtained ("direct" = the struct the list was set on)
static void check_set_on(int ri, const Repetition& r, const std::string& via) {
    const RepSpec& s = ALPHA[ri];
    SpecInfo inf = info_of(s);
    std::vector<Vec2> own = own_set(s);
    JFields tags = base_tags(s, inf);
    tags.push_back({"via", jstr(via)});
    std::string cs = jobj({{"repetition", spec_json(s)}, {"obtained", jstr(via)}, {"denoted_set", vecs_json(own)}});
    std::string rp = fmt("sub=set rep=%d", ri);
    R->count("cases");
    R->count("set_cases");
    if (via != "direct") R->count("set_cases_on_copies");
    if (inf.card != 1) R->count("nontrivial");
    uint64_t cnt = r.get_count();
    if (VERBOSE) fprintf(stderr, "repetition %s obtained: %s\n  denoted set %s\n  get_count = %llu\n", spec_json(s).c_str(), via.c_str(), vecs_json(own).c_str(), (unsigned long long)cnt);
    if (s.kind == 0) {
        R->outcome("set", fmt("None: get_count=%llu", (unsigned long long)cnt));
    } else if (cnt != own.size()) {
        R->violation("set", "get_count", tags, cs, fmt("get_count() = %llu, the denoted multiset has %zu vectors", (unsigned long long)cnt, own.size()), rp);
    }
    for (int prefill = 0; prefill < 2; prefill++) {
        Array<Vec2> res = {};
        if (prefill) res.append(SENTINEL);
        r.get_offsets(res);
        std::vector<Vec2> got;
        for (uint64_t i = prefill; i < res.count; i++) got.push_back(res[i]);
        if (VERBOSE) fprintf(stderr, "  get_offsets (result pre-filled with %d entries) appended %s\n", prefill, vecs_json(got).c_str());
        bool prefix_ok = !prefill || (res.count >= 1 && res[0] == SENTINEL);
        JFields t2 = tags;
        t2.push_back({"prefilled", jbool(prefill)});
        if (s.kind == 0) {
            bool ok = got.empty() || (got.size() == 1 && got[0] == Vec2{0, 0});
            if (!ok || !prefix_ok) R->violation("set", "get_offsets-none", t2, cs, "get_offsets of RepetitionType::None appended " + vecs_json(got), rp);
        } else {
            if (!prefix_ok) R->violation("set", "get_offsets-prefix", t2, cs, "get_offsets overwrote entries already in the result array", rp);
            else if (!same_multiset_exact(own, got)) R->violation("set", "get_offsets-multiset", t2, cs, "get_offsets appended " + vecs_json(got) + " which is not the denoted multiset", rp);
            else if (!got.empty() && !(got[0] == Vec2{0, 0})) R->violation("set", "get_offsets-zero-first", t2, cs, "first appended offset is " + dump::vec(got[0]) + ", not the zero vector", rp);
        }
        res.clear();
        // extrema
        Array<Vec2> ex = {};
        if (prefill) ex.append(SENTINEL);
        r.get_extrema(ex);
        std::vector<Vec2> gx;
        for (uint64_t i = prefill; i < ex.count; i++) gx.push_back(ex[i]);
        if (VERBOSE) fprintf(stderr, "  get_extrema (result pre-filled with %d entries) appended %s\n", prefill, vecs_json(gx).c_str());
        prefix_ok = !prefill || (ex.count >= 1 && ex[0] == SENTINEL);
        if (!prefix_ok) R->violation("set", "get_extrema-prefix", t2, cs, "get_extrema overwrote entries already in the result array", rp);
        else if (s.kind == 0) {
            bool ok = gx.empty() || (gx.size() == 1 && gx[0] == Vec2{0, 0});
            if (!ok) R->violation("set", "get_extrema-none", t2, cs, "get_extrema of RepetitionType::None appended " + vecs_json(gx), rp);
        } else {
            bool members = true;
            for (auto& e : gx) {
                bool m = false;
                for (auto& o : own) if (o == e) m = true;
                members = members && m;
            }
            if (!members) R->violation("set", "get_extrema-not-member", t2, cs, "get_extrema appended " + vecs_json(gx) + ": not all are members of the denoted set", rp);
            else if (own.empty()) {
                if (!gx.empty()) R->violation("set", "get_extrema-of-empty-set", t2, cs, "the denoted set is empty but get_extrema appended " + vecs_json(gx), rp);
            } else if (gx.empty()) {
                R->violation("set", "get_extrema-empty", t2, cs, fmt("the denoted set has %zu member(s) (bounding box spans at least the zero vector) but get_extrema appended nothing", own.size()), rp);
            } else {
                Vec2 lo, hi, glo, ghi;
                bbox(own, lo, hi);
                bbox(gx, glo, ghi);
                if (!(lo == glo && hi == ghi))
                    R->violation("set", "get_extrema-bbox", t2, cs, fmt("bounding box of the extrema %s is [(%g,%g),(%g,%g)], of the set [(%g,%g),(%g,%g)]", vecs_json(gx).c_str(), glo.x, glo.y, ghi.x, ghi.y, lo.x, lo.y, hi.x, hi.y), rp);
            }
        }
        ex.clear();
    }
}

// ------------------------------------------------------------------------------------------ "transform"
static const double MAGS[] = {1, 2, -1};
static const double ROTS[] = {0, M_PI / 2, 0.6};
// copied: transform a Repetition::copy_from copy whose source has been cleared (kinds with a list only:
// for the others the copy is a plain field copy already judged by the set checks)
static void check_transform(int ri, int only_t, bool copied = false) {
    const RepSpec& s = ALPHA[ri];
    SpecInfo inf = info_of(s);
    std::vector<Vec2> own = own_set(s);
    for (int t = 0; t < 18; t++) {
        if (only_t >= 0 && t != only_t) continue;
        double m = MAGS[t / 6];
        bool refl = (t / 3) % 2;
        double rot = ROTS[t % 3];
        Repetition r;
        make_rep(s, r);
        if (copied) {
            Repetition c;
            memset(&c, 0, sizeof c);
            c.copy_from(r);
            r.clear();
            r = c;
            R->count("transform_cases_on_copies");
            if (!storage_ok(r)) {
                R->count("cases");
                storage_violation("transform", ri, "Repetition::copy_from (source cleared)", r, fmt("sub=transform rep=%d t=%d cp=1", ri, t));
                r.clear();
                continue;
            }
        }
        r.transform(m, refl, rot);
        std::vector<Vec2> got = dump::own_offsets(r);  // field walk of the transformed struct
        if (r.type == RepetitionType::None) got.clear();
        uint64_t cnt = r.get_count();
        std::vector<Vec2> want;
        long double c = cosl((long double)rot), sn = sinl((long double)rot), sg = refl ? -1 : 1;
        double scale = 1;
        for (auto& v : own) {
            long double x = m * v.x, y = sg * m * v.y;
            Vec2 w = {(double)(x * c - y * sn), (double)(x * sn + y * c)};
            want.push_back(w);
            scale = std::max(scale, std::max(fabs(w.x), fabs(w.y)));
        }
        R->count("cases");
        R->count("transform_cases");
        if (inf.card >= 2 && (m != 1 || refl || rot != 0)) R->count("nontrivial");
        bool ok = same_multiset_tol(want, got, 1e-12 * scale);
        if (VERBOSE) fprintf(stderr, "transform(m=%g, refl=%d, rot=%g) of %s\n  -> %s\n  denotes %s\n  expected %s\n", m, refl, rot, spec_json(s).c_str(), dump::repetition(r).c_str(), vecs_json(got).c_str(), vecs_json(want).c_str());
        JFields tags = base_tags(s, inf);
        tags.push_back({"magnification", jnum(m)});
        tags.push_back({"x_reflection", jbool(refl)});
        tags.push_back({"rotation", jnum(rot)});
        tags.push_back({"via", jstr(copied ? "Repetition::copy_from (source cleared)" : "direct")});
        std::string cs = jobj({{"repetition", spec_json(s)}, {"obtained", jstr(copied ? "Repetition::copy_from (source cleared)" : "direct")}, {"magnification", jnum(m)}, {"x_reflection", jbool(refl)}, {"rotation", jnum(rot)}, {"after", dump::repetition(r)}});
        std::string rp = fmt("sub=transform rep=%d t=%d cp=%d", ri, t, (int)copied);
        if (!ok) R->violation("transform", "multiset", tags, cs, "transformed repetition denotes " + vecs_json(got) + ", image of the original set under the linear map is " + vecs_json(want), rp);
        else if (s.kind != 0 && cnt != own.size()) R->violation("transform", "count", tags, cs, fmt("get_count() after transform = %llu, before %zu", (unsigned long long)cnt, own.size()), rp);
        else if (!got.empty() && !(fabs(got[0].x) <= 1e-12 && fabs(got[0].y) <= 1e-12)) R->violation("transform", "zero-first", tags, cs, "first vector after transform is not the zero vector", rp);
        r.clear();
    }
}

// ------------------------------------------------------------------------------------------ elements
static Property* make_props() {
    Property* p = NULL;
    set_gds_property(p, 5, "attr");
    set_property(p, "multi", (uint64_t)7, true);
    set_property(p, "multi", 2.5, false);
    set_property(p, "multi", "str", false);
    return p;
}
static void props_heap(const Property* p, std::vector<const void*>& h) {
    for (; p; p = p->next) {
        h.push_back(p);
        h.push_back(p->name);
        for (PropertyValue* v = p->value; v; v = v->next) {
            h.push_back(v);
            if (v->type == PropertyType::String && v->bytes) h.push_back(v->bytes);
        }
    }
}
static void props_mutate(Property* p) {
    for (; p; p = p->next) {
        if (p->name && p->name[0]) p->name[0] = 'Z';
        for (PropertyValue* v = p->value; v; v = v->next) {
            switch (v->type) {
                case PropertyType::UnsignedInteger: v->unsigned_integer += 1000; break;
                case PropertyType::Integer: v->integer -= 1000; break;
                case PropertyType::Real: v->real = -99.5; break;
                case PropertyType::String: if (v->count) v->bytes[0] ^= 0x5a; break;
            }
        }
    }
}
struct GeoPoly { Tag tag; std::vector<Vec2> pts; };
static void take_polys(Array<Polygon*>& a, std::vector<GeoPoly>& out) {
    for (uint64_t i = 0; i < a.count; i++) {
        GeoPoly g;
        g.tag = a[i]->tag;
        for (uint64_t k = 0; k < a[i]->point_array.count; k++) g.pts.push_back(a[i]->point_array[k]);
        out.push_back(g);
        a[i]->clear();
        free_allocation(a[i]);
    }
    a.clear();
}
static Cell CHILD;  // target of by-pointer references (shared by design)

struct PolyOps {
    typedef Polygon T;
    static const char* name() { return "polygon"; }
    static T* build(int variant = 0) {
        T* e = (T*)allocate_clear(sizeof(T));
        e->tag = make_tag(2, 3);
        for (Vec2 v : {Vec2{0, 0}, Vec2{4, 0}, Vec2{4, 2}, Vec2{1, 3.5}}) e->point_array.append(v);
        e->properties = make_props();
        if (variant == 1) e->rotate(0.3, Vec2{1, 1});
        if (variant == 2) e->mirror(Vec2{0, 1}, Vec2{2, 2});
        return e;
    }
    static int nvariants() { return 3; }
    static const char* variant_name(int v) { static const char* n[] = {"fresh", "rotate(0.3,(1,1))", "mirror((0,1),(2,2))"}; return n[v]; }
    static Repetition& rep(T& e) { return e.repetition; }
    static std::string dumps(const T& e) { return dump::polygon(e); }
    static void shift(T& e, Vec2 v) { for (uint64_t i = 0; i < e.point_array.count; i++) { e.point_array[i].x += v.x; e.point_array[i].y += v.y; } }
    static void heap(const T& e, std::vector<const void*>& h) { h.push_back(&e); h.push_back(e.point_array.items); props_heap(e.properties, h); }
    static void mutate(T& e) { e.tag = make_tag(9, 9); for (uint64_t i = 0; i < e.point_array.count; i++) e.point_array[i] = Vec2{777, -777}; props_mutate(e.properties); }
    static void destroy(T* e) { e->clear(); free_allocation(e); }
    static bool geometry(T&, std::vector<GeoPoly>&) { return false; }
};
struct FlexOps {
    typedef FlexPath T;
    static const char* name() { return "flexpath"; }
    static T* build(int variant = 0) {
        T* e = (T*)allocate_clear(sizeof(T));
        const double w[2] = {0.5, 0.25}, o[2] = {-0.5, 0.75};
        const Tag tg[2] = {make_tag(1, 0), make_tag(2, 7)};
        e->init(Vec2{0, 0}, 2, w, o, 0.01, tg);
        e->scale_width = true;
        e->elements[1].end_type = EndType::Extended;
        e->elements[1].end_extensions = Vec2{0.25, 0.5};
        e->elements[0].join_type = JoinType::Bevel;
        e->segment(Vec2{4, 0}, NULL, NULL, false);
        const double w2[2] = {1.0, 0.5}, o2[2] = {-1.0, 1.5};
        e->segment(Vec2{4, 3}, w2, o2, false);
        e->raith_data.base_cell_name = copy_string("base", NULL);
        e->raith_data.pitch_scale = 1.5;
        e->raith_data.periods = 3;
        e->properties = make_props();
        if (variant == 1) e->mirror(Vec2{0, 1}, Vec2{2, 2});
        if (variant == 2) { e->scale_width = false; e->scale(2.5, Vec2{1, 0}); }
        if (variant == 3) e->transform(2, true, 0.3, Vec2{1, 1});
        return e;
    }
    static int nvariants() { return 4; }
    static const char* variant_name(int v) { static const char* n[] = {"fresh", "mirror((0,1),(2,2))", "scale_width=false; scale(2.5,(1,0))", "transform(2,true,0.3,(1,1))"}; return n[v]; }
    static Repetition& rep(T& e) { return e.repetition; }
    static std::string dumps(const T& e) {
        return jobj({{"path", dump::flexpath(e)}, {"last_ctrl_unchecked", jstr("-")},
                     {"raith", jobj({{"base_cell_name", jstr(e.raith_data.base_cell_name ? e.raith_data.base_cell_name : "<null>")}, {"pitch_parallel", jnum(e.raith_data.pitch_parallel_to_path)}, {"pitch_perpendicular", jnum(e.raith_data.pitch_perpendicular_to_path)},
                                     {"pitch_scale", jnum(e.raith_data.pitch_scale)}, {"periods", jint(e.raith_data.periods)}, {"grating_type", jint(e.raith_data.grating_type)}, {"dots_per_cycle", jint(e.raith_data.dots_per_cycle)},
                                     {"dwelltime_selection", jint(e.raith_data.dwelltime_selection)}})}});
    }
    static void shift(T& e, Vec2 v) { for (uint64_t i = 0; i < e.spine.point_array.count; i++) { e.spine.point_array[i].x += v.x; e.spine.point_array[i].y += v.y; } }
    static void heap(const T& e, std::vector<const void*>& h) {
        h.push_back(&e);
        h.push_back(e.spine.point_array.items);
        h.push_back(e.elements);
        for (uint64_t i = 0; i < e.num_elements; i++) h.push_back(e.elements[i].half_width_and_offset.items);
        h.push_back(e.raith_data.base_cell_name);
        props_heap(e.properties, h);
    }
    static void mutate(T& e) {
        for (uint64_t i = 0; i < e.spine.point_array.count; i++) e.spine.point_array[i] = Vec2{777, -777};
        for (uint64_t k = 0; k < e.num_elements; k++) {
            e.elements[k].tag = make_tag(9, 9);
            for (uint64_t i = 0; i < e.elements[k].half_width_and_offset.count; i++) e.elements[k].half_width_and_offset[i] = Vec2{33, 44};
        }
        if (e.raith_data.base_cell_name) e.raith_data.base_cell_name[0] = 'Z';
        props_mutate(e.properties);
    }
    static void destroy(T* e) { e->clear(); free_allocation(e); }
    static bool geometry(T& e, std::vector<GeoPoly>& out) {
        Array<Polygon*> a = {};
        e.to_polygons(false, 0, a);
        take_polys(a, out);
        return true;
    }
};
struct RobustOps {
    typedef RobustPath T;
    static const char* name() { return "robustpath"; }
    static T* build(int variant = 0) {
        T* e = (T*)allocate_clear(sizeof(T));
        const double w[2] = {0.5, 0.25}, o[2] = {-0.5, 0.75};
        const Tag tg[2] = {make_tag(1, 0), make_tag(2, 7)};
        e->init(Vec2{0, 0}, 2, w, o, 0.01, 1000, tg);
        e->scale_width = true;
        e->elements[1].end_type = EndType::Extended;
        e->elements[1].end_extensions = Vec2{0.25, 0.5};
        e->segment(Vec2{4, 0}, NULL, NULL, false);
        Interpolation wi[2], oi[2];
        memset(wi, 0, sizeof wi);
        memset(oi, 0, sizeof oi);
        for (int k = 0; k < 2; k++) {
            wi[k].type = InterpolationType::Linear; wi[k].initial_value = w[k]; wi[k].final_value = 2 * w[k];
            oi[k].type = InterpolationType::Linear; oi[k].initial_value = o[k]; oi[k].final_value = 2 * o[k];
        }
        e->cubic(Vec2{6, 0}, Vec2{8, 2}, Vec2{8, 4}, wi, oi, false);
        e->properties = make_props();
        if (variant == 1) e->mirror(Vec2{0, 1}, Vec2{2, 2});
        if (variant == 2) { e->scale_width = false; e->scale(2.5, Vec2{1, 0}); }
        if (variant == 3) e->scale(0.5, Vec2{1, 0});
        if (variant == 4) e->transform(2, true, 0.3, Vec2{1, 1});
        return e;
    }
    static int nvariants() { return 5; }
    static const char* variant_name(int v) { static const char* n[] = {"fresh", "mirror((0,1),(2,2))", "scale_width=false; scale(2.5,(1,0))", "scale_width=true; scale(0.5,(1,0))", "transform(2,true,0.3,(1,1))"}; return n[v]; }
    static Repetition& rep(T& e) { return e.repetition; }
    static std::string interp(const Interpolation& i) {
        switch (i.type) {
            case InterpolationType::Constant: return jobj({{"t", jstr("const")}, {"v", jnum(i.value)}});
            case InterpolationType::Linear: return jobj({{"t", jstr("linear")}, {"i", jnum(i.initial_value)}, {"f", jnum(i.final_value)}});
            case InterpolationType::Smooth: return jobj({{"t", jstr("smooth")}, {"i", jnum(i.initial_value)}, {"f", jnum(i.final_value)}});
            default: return jobj({{"t", jstr("parametric")}});
        }
    }
    static std::string dumps(const T& e) {
        std::vector<std::string> subs, els;
        for (uint64_t i = 0; i < e.subpath_array.count; i++) {
            const SubPath& sp = e.subpath_array[i];
            switch (sp.type) {
                case SubPathType::Segment: subs.push_back(jobj({{"t", jstr("segment")}, {"begin", dump::vec(sp.begin)}, {"end", dump::vec(sp.end)}})); break;
                case SubPathType::Bezier2:
                case SubPathType::Bezier3: subs.push_back(jobj({{"t", jstr(sp.type == SubPathType::Bezier2 ? "bezier2" : "bezier3")}, {"p0", dump::vec(sp.p0)}, {"p1", dump::vec(sp.p1)}, {"p2", dump::vec(sp.p2)}, {"p3", dump::vec(sp.p3)}})); break;
                case SubPathType::Bezier: subs.push_back(jobj({{"t", jstr("bezier")}, {"ctrl", dump::points(sp.ctrl)}})); break;
                case SubPathType::Arc: subs.push_back(jobj({{"t", jstr("arc")}, {"center", dump::vec(sp.center)}, {"rx", jnum(sp.radius_x)}, {"ry", jnum(sp.radius_y)}, {"ai", jnum(sp.angle_i)}, {"af", jnum(sp.angle_f)}, {"c", jnum(sp.cos_rot)}, {"s", jnum(sp.sin_rot)}})); break;
                default: subs.push_back(jobj({{"t", jstr("parametric")}}));
            }
        }
        for (uint64_t k = 0; k < e.num_elements; k++) {
            std::vector<std::string> wa, oa;
            for (uint64_t i = 0; i < e.elements[k].width_array.count; i++) wa.push_back(interp(e.elements[k].width_array[i]));
            for (uint64_t i = 0; i < e.elements[k].offset_array.count; i++) oa.push_back(interp(e.elements[k].offset_array[i]));
            els.push_back(jobj({{"width_array", jarr(wa)}, {"offset_array", jarr(oa)}}));
        }
        return jobj({{"path", dump::robustpath(e)}, {"subpaths", jarr(subs)}, {"interpolations", jarr(els)}});
    }
    static void shift(T& e, Vec2 v) { e.trafo[2] += v.x; e.trafo[5] += v.y; }  // the struct's documented transformation matrix
    static void heap(const T& e, std::vector<const void*>& h) {
        h.push_back(&e);
        h.push_back(e.subpath_array.items);
        h.push_back(e.elements);
        for (uint64_t i = 0; i < e.num_elements; i++) { h.push_back(e.elements[i].width_array.items); h.push_back(e.elements[i].offset_array.items); }
        props_heap(e.properties, h);
    }
    static void mutate(T& e) {
        for (int i = 0; i < 6; i++) e.trafo[i] = 7 + i;
        e.end_point = Vec2{777, -777};
        for (uint64_t i = 0; i < e.subpath_array.count; i++) { e.subpath_array[i].begin = Vec2{55, 66}; e.subpath_array[i].end = Vec2{77, 88}; }
        for (uint64_t k = 0; k < e.num_elements; k++) {
            e.elements[k].tag = make_tag(9, 9);
            e.elements[k].end_width = 99;
            for (uint64_t i = 0; i < e.elements[k].width_array.count; i++) e.elements[k].width_array[i].initial_value = 41;
            for (uint64_t i = 0; i < e.elements[k].offset_array.count; i++) e.elements[k].offset_array[i].initial_value = 42;
        }
        props_mutate(e.properties);
    }
    static void destroy(T* e) { e->clear(); free_allocation(e); }
    static bool geometry(T& e, std::vector<GeoPoly>& out) {
        Array<Polygon*> a = {};
        e.to_polygons(false, 0, a);
        take_polys(a, out);
        return true;
    }
};
struct LabelOps {
    typedef Label T;
    static const char* name() { return "label"; }
    static T* build(int variant = 0) {
        T* e = (T*)allocate_clear(sizeof(T));
        e->init("lbl");
        e->tag = make_tag(4, 1);
        e->origin = Vec2{1, -2};
        e->anchor = Anchor::SE;
        e->rotation = 0.5;
        e->magnification = 2;
        e->x_reflection = true;
        e->properties = make_props();
        if (variant == 1) e->transform(2, true, 0.3, Vec2{1, 1});
        return e;
    }
    static int nvariants() { return 2; }
    static const char* variant_name(int v) { return v ? "transform(2,true,0.3,(1,1))" : "fresh"; }
    static Repetition& rep(T& e) { return e.repetition; }
    static std::string dumps(const T& e) { return dump::label(e); }
    static void shift(T& e, Vec2 v) { e.origin.x += v.x; e.origin.y += v.y; }
    static void heap(const T& e, std::vector<const void*>& h) { h.push_back(&e); h.push_back(e.text); props_heap(e.properties, h); }
    static void mutate(T& e) { e.text[0] = 'Z'; e.origin = Vec2{777, -777}; e.rotation = 9; e.tag = make_tag(9, 9); props_mutate(e.properties); }
    static void destroy(T* e) { e->clear(); free_allocation(e); }
    static bool geometry(T&, std::vector<GeoPoly>&) { return false; }
};
template <bool BY_NAME>
struct RefOps {
    typedef Reference T;
    static const char* name() { return BY_NAME ? "reference_by_name" : "reference"; }
    static T* build(int variant = 0) {
        T* e = (T*)allocate_clear(sizeof(T));
        if (BY_NAME) e->init("ghost"); else e->init(&CHILD);
        e->origin = Vec2{1, 1};
        e->rotation = 0.25;
        e->magnification = 1.5;
        e->x_reflection = true;
        e->properties = make_props();
        if (variant == 1) e->transform(2, true, 0.3, Vec2{1, 1});
        return e;
    }
    static int nvariants() { return 2; }
    static const char* variant_name(int v) { return v ? "transform(2,true,0.3,(1,1))" : "fresh"; }
    static Repetition& rep(T& e) { return e.repetition; }
    static std::string dumps(const T& e) { return dump::reference(e); }
    static void shift(T& e, Vec2 v) { e.origin.x += v.x; e.origin.y += v.y; }
    static void heap(const T& e, std::vector<const void*>& h) { h.push_back(&e); if (e.type == ReferenceType::Name) h.push_back(e.name); props_heap(e.properties, h); }
    static void mutate(T& e) { if (e.type == ReferenceType::Name) e.name[0] = 'Z'; e.origin = Vec2{777, -777}; e.rotation = 9; e.magnification = 3; props_mutate(e.properties); }
    static void destroy(T* e) { e->clear(); free_allocation(e); }
    static bool geometry(T&, std::vector<GeoPoly>&) { return false; }
};

// "copied first": the repetition is judged on the struct the list was set on, on a Repetition::copy_from
// copy, on a copy of a copy (intermediate copy cleared), on the source after its copies were cleared, and
// on the repetition of an element copied with each element kind's copy_from (source element destroyed
// first).  Storage shared between a copy and its source shows up as an ASan report here.
template <class Ops>
static void check_set_via_element(int ri) {
    typedef typename Ops::T T;
    T* e = Ops::build(0);
    make_rep(ALPHA[ri], Ops::rep(*e));
    std::string before = dump::repetition(Ops::rep(*e));
    T* c = (T*)allocate_clear(sizeof(T));
    c->copy_from(*e);
    std::string via = std::string(Ops::name()) + "::copy_from (source element destroyed)";
    if (!storage_ok(Ops::rep(*c))) {
        R->count("cases");
        storage_violation("set", ri, via, Ops::rep(*c), fmt("sub=set rep=%d", ri));
        Ops::destroy(e);
        Ops::destroy(c);
        return;
    }
    if (dump::repetition(Ops::rep(*e)) != before) {
        JFields tags = base_tags(ALPHA[ri], info_of(ALPHA[ri]));
        tags.push_back({"via", jstr(std::string(Ops::name()) + "::copy_from")});
        R->violation("set", "copy-changed-source", tags, jobj({{"repetition", spec_json(ALPHA[ri])}}), "the source element's repetition changed when the element was copied: " + dump::repetition(Ops::rep(*e)), fmt("sub=set rep=%d", ri));
    }
    Ops::destroy(e);
    check_set_on(ri, Ops::rep(*c), via);
    Ops::destroy(c);
}
static void check_set(int ri) {
    const RepSpec& s = ALPHA[ri];
    Repetition r;
    make_rep(s, r);
    check_set_on(ri, r, "direct");
    std::string before = dump::repetition(r);
    auto src_check = [&](const char* cls, const char* when) {
        if (dump::repetition(r) == before) return;
        JFields tags = base_tags(s, info_of(s));
        tags.push_back({"via", jstr("Repetition::copy_from")});
        R->violation("set", cls, tags, jobj({{"repetition", spec_json(s)}}), std::string("the source repetition changed ") + when + ": " + dump::repetition(r), fmt("sub=set rep=%d", ri));
    };
    Repetition c, cc;
    memset(&c, 0, sizeof c);
    memset(&cc, 0, sizeof cc);
    c.copy_from(r);
    src_check("copy-changed-source", "when it was copied");
    if (!storage_ok(c)) {
        R->count("cases");
        storage_violation("set", ri, "Repetition::copy_from", c, fmt("sub=set rep=%d", ri));
        c.clear();
    } else {
        check_set_on(ri, c, "Repetition::copy_from");
        cc.copy_from(c);
        c.clear();
        src_check("clearing-copy-disturbed-source", "when its copy was cleared");
        if (!storage_ok(cc)) { R->count("cases"); storage_violation("set", ri, "copy of a copy (intermediate copy cleared)", cc, fmt("sub=set rep=%d", ri)); }
        else check_set_on(ri, cc, "copy of a copy (intermediate copy cleared)");
        cc.clear();
    }
    check_set_on(ri, r, "source after its copies were cleared");
    r.clear();
    check_set_via_element<PolyOps>(ri);
    check_set_via_element<FlexOps>(ri);
    check_set_via_element<RobustOps>(ri);
    check_set_via_element<LabelOps>(ri);
    check_set_via_element<RefOps<false>>(ri);
}

// ------------------------------------------------------------------------------------------ "via_reference"
// A repetition carried by an element through Reference::get_polygons / get_flexpaths / get_robustpaths /
// get_labels with apply_repetitions == false is transformed by the reference: every instance the reference
// yields (one per offset of the reference's OWN repetition) must carry a repetition that denotes the image of
// the original set under the linear part of the reference transform, applied exactly once.
struct LinPart { double m; bool refl; double rot; const char* name; };
static const LinPart LIN[] = {{1, false, 0.6, "rotation 0.6"}, {2, false, 0, "magnification 2"}, {1, true, 0, "x_reflection"}, {0.5, true, M_PI / 2, "magnification 0.5, x_reflection, rotation pi/2"}};
static RepSpec ref_rep_spec(int k) {
    RepSpec r;
    if (k == 0) { r.kind = 3; r.offs.push_back(Vec2{10, 0}); }                                  // 2 offsets
    if (k == 1) { r.kind = 2; r.cols = 3; r.rows = 1; r.v1 = Vec2{10, 5}; r.v2 = Vec2{0, 7}; }  // 3 offsets
    if (k == 2) { r.kind = 1; r.cols = 2; r.rows = 2; r.sp = Vec2{10, 20}; }                    // 4 offsets
    return r;
}
template <class Ops> struct Via;
template <> struct Via<PolyOps> { static Array<Polygon*>& arr(Cell& c) { return c.polygon_array; } static void get(const Reference& r, Array<Polygon*>& o) { r.get_polygons(false, false, -1, false, 0, o); } static const char* fn() { return "Reference::get_polygons"; } };
template <> struct Via<FlexOps> { static Array<FlexPath*>& arr(Cell& c) { return c.flexpath_array; } static void get(const Reference& r, Array<FlexPath*>& o) { r.get_flexpaths(false, -1, false, 0, o); } static const char* fn() { return "Reference::get_flexpaths"; } };
template <> struct Via<RobustOps> { static Array<RobustPath*>& arr(Cell& c) { return c.robustpath_array; } static void get(const Reference& r, Array<RobustPath*>& o) { r.get_robustpaths(false, -1, false, 0, o); } static const char* fn() { return "Reference::get_robustpaths"; } };
template <> struct Via<LabelOps> { static Array<Label*>& arr(Cell& c) { return c.label_array; } static void get(const Reference& r, Array<Label*>& o) { r.get_labels(false, -1, false, 0, o); } static const char* fn() { return "Reference::get_labels"; } };
template <class Ops>
static void via_reference_kind(int ri, int only_k, int only_l) {
    typedef typename Ops::T T;
    const RepSpec& s = ALPHA[ri];
    SpecInfo inf = info_of(s);
    std::vector<Vec2> own = own_set(s);
    for (int k = 0; k < 3; k++)
        for (int l = 0; l < 4; l++) {
            if ((only_k >= 0 && k != only_k) || (only_l >= 0 && l != only_l)) continue;
            const LinPart& L = LIN[l];
            Cell cell;
            memset(&cell, 0, sizeof cell);
            cell.name = (char*)"c11cell";
            T* el = Ops::build(0);
            make_rep(s, Ops::rep(*el));
            std::string el_before = dump::repetition(Ops::rep(*el));
            Via<Ops>::arr(cell).append(el);
            Reference ref;
            memset(&ref, 0, sizeof ref);
            ref.init(&cell);
            ref.origin = Vec2{3, -2};
            ref.magnification = L.m;
            ref.x_reflection = L.refl;
            ref.rotation = L.rot;
            RepSpec rs = ref_rep_spec(k);
            make_rep(rs, ref.repetition);
            size_t nref = own_set(rs).size();
            Array<T*> out = {};
            Via<Ops>::get(ref, out);
            R->count("cases");
            R->count("via_reference_cases");
            if (inf.card >= 2) R->count("nontrivial");
            JFields tags = base_tags(s, inf);
            tags.push_back({"element", jstr(Ops::name())});
            tags.push_back({"reference_offsets", jint((int64_t)nref)});
            tags.push_back({"linear_part", jstr(L.name)});
            std::string cs = jobj({{"route", jstr(std::string(Via<Ops>::fn()) + "(apply_repetitions=false)")}, {"element", jstr(Ops::name())}, {"element_repetition", spec_json(s)}, {"denoted_set", vecs_json(own)},
                                   {"reference", jobj({{"origin", jstr("(3,-2)")}, {"linear_part", jstr(L.name)}, {"repetition", spec_json(rs)}})}});
            std::string rp = fmt("sub=via_reference rep=%d el=%s k=%d l=%d", ri, Ops::name(), k, l);
            std::vector<Vec2> want;
            long double c = cosl((long double)L.rot), sn = sinl((long double)L.rot), sg = L.refl ? -1 : 1;
            double scale = 1;
            for (auto& v : own) {
                long double x = L.m * v.x, y = sg * L.m * v.y;
                Vec2 w = {(double)(x * c - y * sn), (double)(x * sn + y * c)};
                want.push_back(w);
                scale = std::max(scale, std::max(fabs(w.x), fabs(w.y)));
            }
            if (VERBOSE) fprintf(stderr, "%s on %s with %s under a reference (%s, %zu offsets): %llu instances\n  expected set per instance %s\n", Via<Ops>::fn(), Ops::name(), spec_json(s).c_str(), L.name, nref, (unsigned long long)out.count, vecs_json(want).c_str());
            if (out.count != nref) R->violation("via_reference", "instance-count", tags, cs, fmt("%llu instances returned, the reference has %zu offsets", (unsigned long long)out.count, nref), rp);
            for (uint64_t i = 0; i < out.count; i++) {
                Repetition& r = Ops::rep(*out[i]);
                JFields t2 = tags;
                t2.push_back({"instance", jint((int64_t)i)});
                if (!storage_ok(r)) { storage_violation("via_reference", ri, Via<Ops>::fn(), r, rp); continue; }
                std::vector<Vec2> got = dump::own_offsets(r);
                if (r.type == RepetitionType::None) got.clear();
                if (VERBOSE) fprintf(stderr, "  instance %llu carries %s\n", (unsigned long long)i, dump::repetition(r).c_str());
                if (!same_multiset_tol(want, got, 1e-12 * scale))
                    R->violation("via_reference", "instance-repetition", t2, cs, fmt("instance %llu of %llu carries a repetition denoting ", (unsigned long long)i, (unsigned long long)out.count) + vecs_json(got) + "; the element's set mapped once by the linear part of the reference is " + vecs_json(want), rp);
                else if (s.kind != 0 && r.get_count() != own.size())
                    R->violation("via_reference", "instance-count-of-repetition", t2, cs, fmt("get_count() of the instance's repetition = %llu, the element's repetition denotes %zu vectors", (unsigned long long)r.get_count(), own.size()), rp);
            }
            if (dump::repetition(Ops::rep(*el)) != el_before) R->violation("via_reference", "source-element-changed", tags, cs, "the repetition of the element inside the referenced cell changed: " + dump::repetition(Ops::rep(*el)), rp);
            for (uint64_t i = 0; i < out.count; i++) Ops::destroy(out[i]);
            out.clear();
            ref.repetition.clear();
            Via<Ops>::arr(cell).clear();
            Ops::destroy(el);
        }
}
static void check_via_reference(int ri, const std::string& only_el = "", int only_k = -1, int only_l = -1) {
    auto want = [&](const char* n) { return only_el.empty() || only_el == n; };
    if (want(PolyOps::name())) via_reference_kind<PolyOps>(ri, only_k, only_l);
    if (want(FlexOps::name())) via_reference_kind<FlexOps>(ri, only_k, only_l);
    if (want(RobustOps::name())) via_reference_kind<RobustOps>(ri, only_k, only_l);
    if (want(LabelOps::name())) via_reference_kind<LabelOps>(ri, only_k, only_l);
}

// ------------------------------------------------------------------------------------------ "via_query"
// The element's repetition carried through the hierarchy queries with every combination of the filter and
// apply_repetitions flags: Cell::get_polygons / get_flexpaths / get_robustpaths / get_labels and the same
// through a Reference (2 own offsets, magnification 0.5 + x_reflection + rotation pi/2).
//   filter: off | on with the element's own tag | on with a tag nothing carries (nothing may be returned)
//   apply_repetitions == false: every returned element carries a repetition denoting the element's set
//       (mapped once by the linear part on the Reference route);
//   apply_repetitions == true: the returned elements carry no repetition and their anchor points are the
//       original's anchor translated by the zero vector and by every non-first vector of the set (then mapped by
//       the reference transform for each reference offset) - the copies apply_repetition has to produce.
template <class Ops> struct Qry;
template <> struct Qry<PolyOps> {
    static void cell_get(const Cell& c, bool ap, bool f, Tag t, Array<Polygon*>& o) { c.get_polygons(ap, false, -1, f, t, o); }
    static void ref_get(const Reference& r, bool ap, bool f, Tag t, Array<Polygon*>& o) { r.get_polygons(ap, false, -1, f, t, o); }
    static Tag tag() { return make_tag(2, 3); }
    static Vec2 anchor(const Polygon& e) { return e.point_array.count ? e.point_array[0] : Vec2{NAN, NAN}; }
    static const char* fn() { return "get_polygons"; }
};
template <> struct Qry<FlexOps> {
    static void cell_get(const Cell& c, bool ap, bool f, Tag t, Array<FlexPath*>& o) { c.get_flexpaths(ap, -1, f, t, o); }
    static void ref_get(const Reference& r, bool ap, bool f, Tag t, Array<FlexPath*>& o) { r.get_flexpaths(ap, -1, f, t, o); }
    static Tag tag() { return make_tag(1, 0); }  // tag of the first of the two path elements
    static Vec2 anchor(const FlexPath& e) { return e.spine.point_array.count ? e.spine.point_array[0] : Vec2{NAN, NAN}; }
    static const char* fn() { return "get_flexpaths"; }
};
template <> struct Qry<RobustOps> {
    static void cell_get(const Cell& c, bool ap, bool f, Tag t, Array<RobustPath*>& o) { c.get_robustpaths(ap, -1, f, t, o); }
    static void ref_get(const Reference& r, bool ap, bool f, Tag t, Array<RobustPath*>& o) { r.get_robustpaths(ap, -1, f, t, o); }
    static Tag tag() { return make_tag(1, 0); }
    static Vec2 anchor(const RobustPath& e) { return Vec2{e.trafo[2], e.trafo[5]}; }  // image of the path's start point (0,0)
    static const char* fn() { return "get_robustpaths"; }
};
template <> struct Qry<LabelOps> {
    static void cell_get(const Cell& c, bool ap, bool f, Tag t, Array<Label*>& o) { c.get_labels(ap, -1, f, t, o); }
    static void ref_get(const Reference& r, bool ap, bool f, Tag t, Array<Label*>& o) { r.get_labels(ap, -1, f, t, o); }
    static Tag tag() { return make_tag(4, 1); }
    static Vec2 anchor(const Label& e) { return e.origin; }
    static const char* fn() { return "get_labels"; }
};
template <class Ops>
static void via_query_kind(int ri, int only_c) {
    typedef typename Ops::T T;
    const RepSpec& s = ALPHA[ri];
    SpecInfo inf = info_of(s);
    std::vector<Vec2> own = own_set(s);
    const LinPart& L = LIN[3];
    RepSpec rs = ref_rep_spec(0);
    std::vector<Vec2> refoffs = own_set(rs);
    static const char* FILT[] = {"off", "own tag", "tag nothing carries"};
    // combos: route(2) x filter(3) x apply(2)
    for (int c = 0; c < 12; c++) {
        if (only_c >= 0 && c != only_c) continue;
        int route = c / 6, filt = (c / 2) % 3, ap = c % 2;
        Cell cell;
        memset(&cell, 0, sizeof cell);
        cell.name = (char*)"c11cell";
        T* el = Ops::build(0);
        make_rep(s, Ops::rep(*el));
        std::string el_before = dump::repetition(Ops::rep(*el));
        Vec2 a0 = Qry<Ops>::anchor(*el);
        Via<Ops>::arr(cell).append(el);
        Reference ref;
        memset(&ref, 0, sizeof ref);
        ref.init(&cell);
        ref.origin = Vec2{3, -2};
        ref.magnification = L.m;
        ref.x_reflection = L.refl;
        ref.rotation = L.rot;
        make_rep(rs, ref.repetition);
        Tag tg = filt == 2 ? make_tag(77, 77) : Qry<Ops>::tag();
        Array<T*> out = {};
        if (route == 0) Qry<Ops>::cell_get(cell, ap, filt != 0, tg, out);
        else Qry<Ops>::ref_get(ref, ap, filt != 0, tg, out);
        R->count("cases");
        R->count("via_query_cases");
        if (inf.card != 1 && filt != 2) R->count("nontrivial");
        JFields tags = base_tags(s, inf);
        tags.push_back({"element", jstr(Ops::name())});
        tags.push_back({"route", jstr(route ? "Reference" : "Cell")});
        tags.push_back({"filter", jstr(FILT[filt])});
        tags.push_back({"apply_repetitions", jbool(ap)});
        std::string fname = std::string(route ? "Reference::" : "Cell::") + Qry<Ops>::fn();
        std::string cs = jobj({{"call", jstr(fname + fmt("(apply_repetitions=%s, filter=%s)", ap ? "true" : "false", FILT[filt]))}, {"element", jstr(Ops::name())}, {"element_repetition", spec_json(s)}, {"denoted_set", vecs_json(own)},
                               {"reference", route ? jobj({{"origin", jstr("(3,-2)")}, {"linear_part", jstr(L.name)}, {"repetition", spec_json(rs)}}) : std::string("null")}});
        std::string rp = fmt("sub=via_query rep=%d el=%s c=%d", ri, Ops::name(), c);
        auto lin = [&](Vec2 v) {
            long double co = cosl((long double)L.rot), sn = sinl((long double)L.rot), sg = L.refl ? -1 : 1;
            long double x = L.m * v.x, y = sg * L.m * v.y;
            return Vec2{(double)(x * co - y * sn), (double)(x * sn + y * co)};
        };
        // the vectors the expansion has to realise: the original plus one copy per non-first vector
        std::vector<Vec2> expand = {Vec2{0, 0}};
        for (size_t k = 1; k < own.size(); k++) expand.push_back(own[k]);
        size_t ninst = route ? refoffs.size() : 1;
        size_t expect = filt == 2 ? 0 : ninst * (ap ? expand.size() : 1);
        if (VERBOSE) fprintf(stderr, "%s(apply=%d, filter=%s) on %s with %s: %llu returned (%zu expected)\n", fname.c_str(), ap, FILT[filt], Ops::name(), spec_json(s).c_str(), (unsigned long long)out.count, expect);
        bool ok = true;
        if (out.count != expect) { R->violation("via_query", "returned-count", tags, cs, fmt("%llu elements returned, expected %zu", (unsigned long long)out.count, expect), rp); ok = false; }
        if (filt == 2) ok = false;  // nothing to inspect: only the count (0) is judged
        if (ok && !ap) {
            std::vector<Vec2> want;
            double scale = 1;
            for (auto& v : own) { Vec2 w = route ? lin(v) : v; want.push_back(w); scale = std::max(scale, std::max(fabs(w.x), fabs(w.y))); }
            for (uint64_t i = 0; i < out.count; i++) {
                Repetition& r = Ops::rep(*out[i]);
                if (!storage_ok(r)) { storage_violation("via_query", ri, fname, r, rp); continue; }
                std::vector<Vec2> got = dump::own_offsets(r);
                if (r.type == RepetitionType::None) got.clear();
                if (VERBOSE) fprintf(stderr, "  returned element %llu carries %s\n", (unsigned long long)i, dump::repetition(r).c_str());
                if (!same_multiset_tol(want, got, 1e-12 * scale))
                    R->violation("via_query", "returned-repetition", tags, cs, fmt("returned element %llu carries a repetition denoting ", (unsigned long long)i) + vecs_json(got) + "; expected " + vecs_json(want), rp);
                else if (s.kind != 0 && r.get_count() != own.size())
                    R->violation("via_query", "returned-repetition-count", tags, cs, fmt("get_count() of the returned repetition = %llu, the element's repetition denotes %zu vectors", (unsigned long long)r.get_count(), own.size()), rp);
            }
        }
        if (ok && ap) {
            std::vector<Vec2> want, got;
            double scale = 1;
            for (size_t q = 0; q < ninst; q++)
                for (auto& v : expand) {
                    Vec2 pt = Vec2{a0.x + v.x, a0.y + v.y};
                    if (route) { pt = lin(pt); pt.x += 3 + refoffs[q].x; pt.y += -2 + refoffs[q].y; }
                    want.push_back(pt);
                    scale = std::max(scale, std::max(fabs(pt.x), fabs(pt.y)));
                }
            bool reps = false;
            for (uint64_t i = 0; i < out.count; i++) { got.push_back(Qry<Ops>::anchor(*out[i])); if (Ops::rep(*out[i]).type != RepetitionType::None) reps = true; }
            if (reps) R->violation("via_query", "expanded-keeps-repetition", tags, cs, "an element returned with apply_repetitions=true still carries a repetition", rp);
            if (!same_multiset_tol(want, got, 1e-9 * scale))
                R->violation("via_query", "expanded-positions", tags, cs, "anchor points of the returned elements " + vecs_json(got) + " are not the original's anchor translated by the zero vector and every non-first vector of the set: " + vecs_json(want), rp);
        }
        if (dump::repetition(Ops::rep(*el)) != el_before) R->violation("via_query", "source-element-changed", tags, cs, "the repetition of the element inside the cell changed: " + dump::repetition(Ops::rep(*el)), rp);
        for (uint64_t i = 0; i < out.count && i < 100000; i++) Ops::destroy(out[i]);
        out.clear();
        ref.repetition.clear();
        Via<Ops>::arr(cell).clear();
        Ops::destroy(el);
    }
}
// zero-count lattices go through apply_repetition inside the queries: isolated like the apply cases
static void check_via_query(int ri, const std::string& only_el = "", int only_c = -1);

static const char* COPIED_NAME[] = {"direct", "copy_from (source destroyed)", "copy of a copy (intermediate destroyed, source kept)"};
// run f in a forked child; "" if it returned normally, else what happened (+ its stderr in err)
static std::string isolated(const std::function<void()>& f, std::string& err) {
    std::string efile = R->scratch + fmt("/iso.%d.err", (int)getpid());
    R->flush_counters();
    fflush(NULL);
    pid_t p = fork();
    if (p < 0) return "fork failed";
    if (p == 0) {
        int efd = open(efile.c_str(), O_WRONLY | O_CREAT | O_TRUNC, 0644);
        if (efd >= 0) { dup2(efd, 2); close(efd); }
        R->counters.clear();
        alarm(60);
        f();
        R->flush_counters();
        fflush(NULL);
        _exit(0);
    }
    int status = 0;
    while (waitpid(p, &status, 0) < 0 && errno == EINTR) {}
    FILE* fp = fopen(efile.c_str(), "r");
    err.clear();
    if (fp) {
        char buf[4096];
        size_t n;
        while ((n = fread(buf, 1, sizeof buf, fp)) > 0 && err.size() < 100000) err.append(buf, n);
        fclose(fp);
    }
    unlink(efile.c_str());
    if (VERBOSE && !err.empty()) fprintf(stderr, "%s", err.c_str());
    size_t q = err.find("ERROR: AddressSanitizer");
    if (q != std::string::npos) err = err.substr(q);
    if (err.size() > 1200) err.resize(1200);
    if (WIFEXITED(status) && WEXITSTATUS(status) == 0) return "";
    if (WIFSIGNALED(status)) return WTERMSIG(status) == SIGALRM ? "hang (no return within 60 s)" : fmt("killed by signal %d", WTERMSIG(status));
    size_t a = err.find("AddressSanitizer: ");
    if (a != std::string::npos) { size_t e = err.find_first_of(" \n", a + 18); return "AddressSanitizer " + err.substr(a + 18, e - (a + 18)); }
    return fmt("exit status %d", WEXITSTATUS(status));
}

static void check_via_query(int ri, const std::string& only_el, int only_c) {
    auto want = [&](const char* n) { return only_el.empty() || only_el == n; };
    auto all = [&] {
        if (want(PolyOps::name())) via_query_kind<PolyOps>(ri, only_c);
        if (want(FlexOps::name())) via_query_kind<FlexOps>(ri, only_c);
        if (want(RobustOps::name())) via_query_kind<RobustOps>(ri, only_c);
        if (want(LabelOps::name())) via_query_kind<LabelOps>(ri, only_c);
    };
    if (!info_of(ALPHA[ri]).zero_count) { all(); return; }
    std::string err;
    std::string what = isolated(all, err);
    if (!what.empty()) {
        JFields tags = base_tags(ALPHA[ri], info_of(ALPHA[ri]));
        R->violation("via_query", "crash", tags, jobj({{"repetition", spec_json(ALPHA[ri])}, {"calls", jstr("Cell::get_* / Reference::get_* on an element with a zero-count lattice")}}), "the queries ended abnormally: " + what + "\n" + err, fmt("sub=via_query rep=%d", ri));
    }
}
// copied: 0 = apply on the element the repetition was set on; 1 = on an Ops::T::copy_from copy of it, the source
// destroyed first; 2 = on a copy of a copy, the intermediate copy destroyed, the source kept and compared
template <class Ops>
static void apply_body(int ri, int prefill, int variant, int copied) {
    typedef typename Ops::T T;
    const RepSpec& s = ALPHA[ri];
    SpecInfo inf = info_of(s);
    std::vector<Vec2> own = own_set(s);
    JFields tags = base_tags(s, inf);
    tags.push_back({"element", jstr(Ops::name())});
    tags.push_back({"prefilled", jbool(prefill)});
    tags.push_back({"history", jstr(Ops::variant_name(variant))});
    tags.push_back({"copied", jstr(COPIED_NAME[copied])});
    std::string rp = fmt("sub=apply rep=%d el=%s prefill=%d var=%d cp=%d", ri, Ops::name(), prefill, variant, copied);
    T* e0 = Ops::build(variant);  // pristine twin (same construction and transform history) without repetition
    T* e = Ops::build(variant);
    make_rep(s, Ops::rep(*e));
    T* src = NULL;  // copied == 2: the element the repetition was set on, kept alive next to the copy of its copy
    std::string src_dump;
    if (copied) {
        src_dump = Ops::dumps(*e);
        T* c1 = (T*)allocate_clear(sizeof(T));
        c1->copy_from(*e);
        if (!storage_ok(Ops::rep(*c1))) {
            R->count("cases");
            JFields t2 = tags;
            R->violation("apply", "copy-storage-too-small", t2, jobj({{"element", jstr(Ops::name())}, {"repetition", spec_json(s)}, {"element_obtained", jstr(COPIED_NAME[copied])}}),
                         std::string(Ops::name()) + "::copy_from produced a repetition whose list is not addressable over count x item size bytes; applying it would read beyond the copied block", rp);
            Ops::destroy(c1);
            Ops::destroy(e);
            Ops::destroy(e0);
            return;
        }
        bool src_same = Ops::dumps(*e) == src_dump;
        if (copied == 1) {
            Ops::destroy(e);
            e = c1;
        } else {
            T* c2 = (T*)allocate_clear(sizeof(T));
            c2->copy_from(*c1);
            Ops::destroy(c1);
            src_same = src_same && Ops::dumps(*e) == src_dump;
            src = e;
            e = c2;
        }
        if (!src_same)
            R->violation("apply", "copy-changed-source", tags, jobj({{"element", jstr(Ops::name())}, {"repetition", spec_json(s)}}), "copy_from (or destroying the copy) changed the source element", rp);
        R->count("apply_cases_on_copied_element");
    }
    std::string cs = jobj({{"element", jstr(Ops::name())}, {"history_before_apply", jstr(Ops::variant_name(variant))}, {"element_obtained", jstr(COPIED_NAME[copied])}, {"repetition", spec_json(s)}, {"denoted_set", vecs_json(own)}, {"result_array_prefilled_with_the_element_itself", jbool(prefill)}, {"original", Ops::dumps(*e)}});
    auto fail = [&](const std::string& cls, const std::string& detail) { R->violation("apply", cls, tags, cs, detail, rp); };
    Array<T*> result = {};
    if (prefill) result.append(e);
    std::string dump0 = Ops::dumps(*e0);
    // expected dumps, one per non-first vector (for None: nothing)
    std::vector<std::string> want;
    std::map<std::string, Vec2> vec_of;
    for (size_t k = 1; k < own.size(); k++) {
        // a fresh twin per vector, translated by the harness's own "coordinate += component" loops (after a
        // rotation the coordinates are no longer dyadic, so shifting one twin back and forth would not be exact)
        T* t = Ops::build(variant);
        Ops::shift(*t, own[k]);
        std::string d = Ops::dumps(*t);
        Ops::destroy(t);
        want.push_back(d);
        vec_of[d] = own[k];
    }
    e->apply_repetition(result);
    R->count("cases");
    R->count(std::string("apply_cases_") + Ops::name());
    if (variant) R->count("apply_cases_with_transform_history");
    if (inf.card != 1) R->count("nontrivial");
    if (inf.zero_count) R->count("apply_cases_zero_count");
    uint64_t expect_new = own.size() > 0 ? own.size() - 1 : 0;
    bool ok = true;
    if (VERBOSE) fprintf(stderr, "apply_repetition on %s with %s (prefill=%d): result holds %llu entries (%llu expected)\n", Ops::name(), spec_json(s).c_str(), prefill, (unsigned long long)result.count, (unsigned long long)(prefill + expect_new));
    if (result.count != prefill + expect_new) {
        fail("copy-count", fmt("result array holds %llu entries after the call, expected %d already there + %llu copies (one per non-first vector)", (unsigned long long)result.count, prefill, (unsigned long long)expect_new));
        ok = false;
    }
    if (ok && prefill && result[0] != e) { fail("prefix", "entry already in the result array was overwritten"); ok = false; }
    if (Ops::rep(*e).type != RepetitionType::None) { fail("original-keeps-repetition", "the original still carries a repetition: " + dump::repetition(Ops::rep(*e))); Ops::rep(*e).clear(); }
    if (Ops::dumps(*e) != dump0) fail("original-changed", "the original differs from its state before the call (apart from the repetition): " + Ops::dumps(*e));
    std::vector<T*> copies;
    if (ok) for (uint64_t i = prefill; i < result.count; i++) copies.push_back(result[i]);
    if (ok) {
        std::vector<std::string> got;
        for (T* c : copies) {
            if (Ops::rep(*c).type != RepetitionType::None) { fail("copy-keeps-repetition", "a copy carries a repetition: " + dump::repetition(Ops::rep(*c))); Ops::rep(*c).clear(); ok = false; }
            got.push_back(Ops::dumps(*c));
        }
        std::vector<std::string> gs = got, ws = want;
        std::sort(gs.begin(), gs.end());
        std::sort(ws.begin(), ws.end());
        if (ok && gs != ws) {
            std::string firstbad;
            for (auto& g : gs) if (!std::binary_search(ws.begin(), ws.end(), g)) { firstbad = g; break; }
            fail("copy-fields", "the copies are not the original translated by each non-first vector; " + (firstbad.empty() ? std::string("same dumps but different multiplicities") : "unexpected copy: " + firstbad.substr(0, 900)));
            ok = false;
        }
        // heap blocks: nothing shared between the original and the copies or among the copies
        std::vector<const void*> h;
        Ops::heap(*e, h);
        for (T* c : copies) Ops::heap(*c, h);
        h.erase(std::remove(h.begin(), h.end(), (const void*)NULL), h.end());
        std::sort(h.begin(), h.end());
        if (std::adjacent_find(h.begin(), h.end()) != h.end()) { fail("shared-heap-block", "a heap block is referenced by more than one of {original, copies}"); ok = false; }
        // scribble over the original: the copies must not change
        if (ok) {
            Ops::mutate(*e);
            for (size_t i = 0; i < copies.size(); i++)
                if (Ops::dumps(*copies[i]) != got[i]) { fail("copy-aliases-original", "a copy changed when the original was modified after the call"); ok = false; break; }
        }
        // geometry of path copies (result array empty variant only: same objects otherwise)
        // quick tier: outlines of the first and the last copy only, and not for the copied-first cases (the deep
        // dump, of which the outline is a deterministic function, is compared for every copy); thorough and
        // replay: every copy of every case
        bool full = R->thorough() || R->replaying();
        if (ok && !prefill && !copies.empty() && (full || copied == 0)) {
            std::vector<GeoPoly> base;
            if (Ops::geometry(*e0, base)) {
                R->count("apply_geometry_checks");
                for (size_t i = 0; i < copies.size() && ok; i++) {
                    if (!full && i != 0 && i + 1 != copies.size()) continue;
                    R->count("apply_copy_outlines_compared");
                    Vec2 v = vec_of[got[i]];
                    std::vector<GeoPoly> g;
                    Ops::geometry(*copies[i], g);
                    bool same = g.size() == base.size() && !base.empty();
                    for (size_t k = 0; same && k < g.size(); k++) {
                        same = g[k].tag == base[k].tag && g[k].pts.size() == base[k].pts.size();
                        for (size_t q = 0; same && q < g[k].pts.size(); q++) same = fabs(g[k].pts[q].x - base[k].pts[q].x - v.x) <= 1e-9 && fabs(g[k].pts[q].y - base[k].pts[q].y - v.y) <= 1e-9;
                    }
                    if (!same) { fail("copy-geometry", fmt("polygons of the copy for vector (%g,%g) are not the original's polygons translated by it", v.x, v.y)); ok = false; }
                }
            }
        }
    }
    // release everything (ASan: double free / use after free if anything is shared that the pointer walk
    // above does not know about); after a reported failure the objects are leaked instead, so that one
    // defect does not take the worker down with a secondary double free
    if (ok) {
        for (uint64_t i = prefill; i < result.count; i++) Ops::destroy(result[i]);
        result.clear();
        Ops::destroy(e);
    }
    Ops::destroy(e0);
    if (src) {
        if (Ops::dumps(*src) != src_dump) fail("apply-on-copy-changed-source", "the element the repetition was set on changed when the repetition of its copy's copy was applied");
        Ops::destroy(src);
    }
}

struct ApplyFn { const char* name; int variant; const char* history; int copied; void (*body)(int, int, int, int); };
static std::vector<ApplyFn> APPLY;
template <class Ops>
static void add_apply() {
    for (int v = 0; v < Ops::nvariants(); v++) APPLY.push_back({Ops::name(), v, Ops::variant_name(v), 0, apply_body<Ops>});
    for (int cp = 1; cp <= 2; cp++) APPLY.push_back({Ops::name(), 0, Ops::variant_name(0), cp, apply_body<Ops>});  // copied first (fresh elements)
}
static void build_apply_table() {
    add_apply<PolyOps>(); add_apply<FlexOps>(); add_apply<RobustOps>(); add_apply<LabelOps>(); add_apply<RefOps<false>>(); add_apply<RefOps<true>>();
}
static void report_crash(int ri, int k, int prefill, const std::string& what, const std::string& err, bool emit = true) {
    const char* el = APPLY[k].name;
    const RepSpec& s = ALPHA[ri];
    SpecInfo inf = info_of(s);
    R->count("cases");
    R->count("nontrivial");
    R->count("apply_cases_zero_count");
    R->count("apply_crashes_zero_count");
    JFields tags = base_tags(s, inf);
    tags.push_back({"element", jstr(el)});
    tags.push_back({"prefilled", jbool(prefill)});
    tags.push_back({"history", jstr(APPLY[k].history)});
    tags.push_back({"copied", jstr(COPIED_NAME[APPLY[k].copied])});
    if (!emit) {  // same tag values already reported from this worker: count only
        R->count("violations_total");
        R->count(std::string("viol:apply/crash-") + el);
        return;
    }
    R->violation("apply", std::string("crash-") + el, tags, jobj({{"element", jstr(el)}, {"history_before_apply", jstr(APPLY[k].history)}, {"repetition", spec_json(s)}, {"denoted_set", jstr("empty (zero count)")}, {"result_array_prefilled_with_the_element_itself", jbool(prefill)}}),
                 std::string(el) + "::apply_repetition did not return: " + what + (err.empty() ? "" : "\n" + err), fmt("sub=apply rep=%d el=%s prefill=%d var=%d cp=%d", ri, el, prefill, APPLY[k].variant, APPLY[k].copied));
}
// Zero-count lattices are suspected to crash (DESIGN.md 0.1 D15).  So that every (element, repetition,
// prefill) case is attributed exactly, they never run in the worker itself:
//  * the first crash of each element kind in a worker (and every replay) runs alone in a forked child
//    under the sanitizer's own reporter, which gives the symbolised stack (~0.3 s);
//  * the others of one repetition share one forked child in which SIGSEGV/SIGBUS is caught and left
//    by siglongjmp, the crash is recorded with its tags and the next case runs (the child is thrown
//    away afterwards; an ASan abort or a hang of the child is reported as class "crash-group").
static sigjmp_buf JB;
static volatile sig_atomic_t JB_ARMED = 0;
static void segv_jump(int sig) {
    if (JB_ARMED) siglongjmp(JB, sig);
    _exit(100 + sig);
}
static void grouped_child(int ri, const std::vector<std::pair<int, int>>& cases, const std::vector<char>& emit_ok) {
    signal(SIGSEGV, segv_jump);
    signal(SIGBUS, segv_jump);
    volatile bool any = false;
    for (volatile size_t i = 0; i < cases.size(); i++) {
        JB_ARMED = 1;
        int sig = sigsetjmp(JB, 1);
        if (sig == 0) {
            APPLY[cases[i].first].body(ri, cases[i].second, APPLY[cases[i].first].variant, APPLY[cases[i].first].copied);
            JB_ARMED = 0;
        } else {
            JB_ARMED = 0;
            any = true;
            report_crash(ri, cases[i].first, cases[i].second,
                         fmt("invalid memory access (signal %d) inside apply_repetition (caught and left by siglongjmp so that the remaining cases still run; replay this case for the sanitizer report)", sig), "", emit_ok[i]);
        }
    }
    if (any) { R->flush_counters(); fflush(NULL); _exit(3); }
}
// result array pre-filled with the element itself: fresh elements only (the transform history does not
// interact with the result array)
static void apply_all(int ri, const std::string& only_el, int only_prefill, int only_var = -1, int only_cp = -1) {
    SpecInfo inf = info_of(ALPHA[ri]);
    std::vector<std::pair<int, int>> cases, grouped;
    for (int prefill = 0; prefill < 2; prefill++)
        for (int k = 0; k < (int)APPLY.size(); k++)
            if ((only_prefill < 0 || prefill == only_prefill) && (only_el.empty() || only_el == APPLY[k].name) && (only_var < 0 || only_var == APPLY[k].variant) && (only_cp < 0 || only_cp == APPLY[k].copied) && !(prefill && (APPLY[k].variant || APPLY[k].copied))) cases.push_back({k, prefill});
    if (!inf.zero_count) {
        for (auto& c : cases) APPLY[c.first].body(ri, c.second, APPLY[c.first].variant, APPLY[c.first].copied);
        return;
    }
    // per worker process: element kinds whose first zero-count case has run alone under the sanitizer's
    // reporter, and tag combinations already reported from a grouped child
    static std::set<std::string> slow_done, tags_seen;
    for (auto& c : cases) {
        if (!R->replaying() && slow_done.count(APPLY[c.first].name)) { grouped.push_back(c); continue; }
        slow_done.insert(APPLY[c.first].name);
        std::string err;
        std::string what = isolated([&] { APPLY[c.first].body(ri, c.second, APPLY[c.first].variant, APPLY[c.first].copied); }, err);
        if (!what.empty()) report_crash(ri, c.first, c.second, what, err);
    }
    if (grouped.empty()) return;
    std::vector<char> emit_ok;
    for (auto& c : grouped) {
        std::string k = fmt("%d/%d/%d/%d/%d", ALPHA[ri].kind, (int)inf.cols_zero, (int)inf.rows_zero, c.first, c.second);
        emit_ok.push_back(tags_seen.insert(k).second);
    }
    std::string err;
    std::string what = isolated([&] { grouped_child(ri, grouped, emit_ok); }, err);
    if (!what.empty() && what != "exit status 3") {
        JFields tags = base_tags(ALPHA[ri], inf);
        tags.push_back({"element", jstr("several")});
        R->violation("apply", "crash-group", tags, jobj({{"repetition", spec_json(ALPHA[ri])}, {"cases", jstr("apply_repetition on the remaining element kinds of this repetition, run in one child")}}),
                     "the child running several zero-count apply_repetition cases ended abnormally: " + what + "\n" + err, fmt("sub=apply rep=%d", ri));
    }
}

// A general Bezier subpath keeps its control points in a heap array that RobustPath::copy_from copies
// by memcpy of the SubPath.  No gdstk function writes to or frees that array, so the sharing cannot be
// observed through the API; it is recorded as a note, not judged.
static void note_bezier_ctrl_sharing_body() {
    RobustPath* e = RobustOps::build();
    Array<Vec2> ctrl = {};
    for (Vec2 v : {Vec2{9, 5}, Vec2{10, 6}, Vec2{11, 5}, Vec2{12, 7}, Vec2{13, 5}}) ctrl.append(v);
    e->bezier(ctrl, NULL, NULL, false);
    ctrl.clear();
    RepSpec s; s.kind = 3; s.offs.push_back(Vec2{2, 0});
    make_rep(s, e->repetition);
    Array<RobustPath*> res = {};
    e->apply_repetition(res);
    bool shared = false;
    if (res.count == 1)
        for (uint64_t i = 0; i < e->subpath_array.count; i++)
            if (e->subpath_array[i].type == SubPathType::Bezier && e->subpath_array[i].ctrl.items == res[0]->subpath_array[i].ctrl.items) shared = true;
    R->note(fmt("informational: robustpath with a general Bezier subpath: control-point array of the copy %s the original's (never written or freed by gdstk; not judged)", shared ? "aliases" : "is distinct from"));
    for (uint64_t i = 0; i < res.count; i++) RobustOps::destroy(res[i]);
    res.clear();
    RobustOps::destroy(e);
}
static void note_bezier_ctrl_sharing() {  // in a child: a defect in copy_from must not take the orchestrating process down
    std::string err;
    std::string what = isolated(note_bezier_ctrl_sharing_body, err);
    if (!what.empty()) R->note("informational Bezier control-point probe ended abnormally (" + what + "); the same defect is judged by the 'apply' sub-check");
}

// ------------------------------------------------------------------------------------------ main
int main(int argc, char** argv) {
    Run run("C11", argc, argv);
    R = &run;
    memset(&CHILD, 0, sizeof CHILD);
    CHILD.name = copy_string("child", NULL);
    bool T = run.thorough();
    build_alphabet(T);
    build_apply_table();
    if (run.replaying()) {
        VERBOSE = true;
        std::string sub = run.rarg("sub");
        int ri = atoi(run.rarg("rep").c_str());
        if (ri < 0 || ri >= (int)ALPHA.size()) { run.internal_error("replay: repetition index out of range for this tier"); return run.finish(); }
        if (sub == "set") check_set(ri);
        else if (sub == "transform") check_transform(ri, run.rarg("t").empty() ? -1 : atoi(run.rarg("t").c_str()), run.rarg("cp") == "1");
        else if (sub == "apply") apply_all(ri, run.rarg("el"), run.rarg("prefill").empty() ? -1 : atoi(run.rarg("prefill").c_str()), run.rarg("var").empty() ? -1 : atoi(run.rarg("var").c_str()), run.rarg("cp").empty() ? -1 : atoi(run.rarg("cp").c_str()));
        else if (sub == "via_reference") check_via_reference(ri, run.rarg("el"), run.rarg("k").empty() ? -1 : atoi(run.rarg("k").c_str()), run.rarg("l").empty() ? -1 : atoi(run.rarg("l").c_str()));
        else if (sub == "via_query") check_via_query(ri, run.rarg("el"), run.rarg("c").empty() ? -1 : atoi(run.rarg("c").c_str()));
        else { check_set(ri); check_transform(ri, -1); check_transform(ri, -1, true); check_via_reference(ri); check_via_query(ri); apply_all(ri, "", -1); }
        return run.finish();
    }
    run.note("alphabet: " + alphabet_desc(T) + fmt(" (%zu repetitions)", ALPHA.size()));
    int64_t n = (int64_t)ALPHA.size();
    auto body = [&](int64_t i) {
        const RepSpec& s = ALPHA[i];
        SpecInfo inf = info_of(s);
        R->count(std::string("repetitions_") + KIND[s.kind]);
        if (inf.zero_count) R->count("repetitions_zero_count");
        if (inf.empty_list) R->count("repetitions_empty_explicit_list");
        if (inf.duplicates) R->count("repetitions_with_duplicate_vectors");
        if (inf.negative) R->count("repetitions_with_negative_components");
        check_set((int)i);
        check_transform((int)i, -1);
        check_transform((int)i, -1, true);
        check_via_reference((int)i);
        check_via_query((int)i);
        apply_all((int)i, "", -1);
    };
    bool ok = parallel_for(run, n, body, [&](int64_t i) { return jobj({{"repetition", spec_json(ALPHA[i])}}); }, [&](int64_t i) { return fmt("sub=all rep=%lld", (long long)i); }, PFOptions{120, "enum", true});
    run.sample("set", jobj({{"repetition", spec_json(ALPHA[ALPHA.size() / 7])}, {"denoted_set", vecs_json(own_set(ALPHA[ALPHA.size() / 7]))}}));
    run.sample("apply", jobj({{"repetition", spec_json(ALPHA[ALPHA.size() / 2])}, {"elements", jstr("polygon, flexpath, robustpath, label, reference, reference_by_name x {fresh, after each transform history} ; fresh ones x result array empty / holding the element")}}));
    run.sample("transform", jobj({{"repetition", spec_json(ALPHA[ALPHA.size() / 3])}, {"transforms", jstr("m in {1,2,-1} x refl in {F,T} x rot in {0,pi/2,0.6}")}}));
    note_bezier_ctrl_sharing();
    run.bound("enum", "every repetition of the alphabet {" + alphabet_desc(T) + "} x {get_count, get_offsets, get_extrema (result empty / pre-filled)} judged on 9 derivations of the repetition (direct; Repetition::copy_from copy; copy of a copy; source after its copies were cleared; "
              "repetition of a polygon / flexpath / robustpath / label / reference copied with copy_from, source destroyed) x 18 transforms (direct and on a copy whose source was cleared) x apply_repetition on 6 element kinds: fresh and after every transform history of its "
              "list (18 element states), fresh ones also with the result array already holding the element, and fresh ones copied first (copy_from with the source destroyed; copy of a copy with the source kept and compared); plus 'via_reference': the repetition of a polygon / flexpath / robustpath / label inside a cell, read back from every instance of Reference::get_polygons / get_flexpaths / get_robustpaths / get_labels(apply_repetitions=false) for references with 2, 3 and 4 own offsets x {rotation 0.6, magnification 2, x_reflection, all three}; plus 'via_query': Cell::get_* and Reference::get_* for the four element kinds x filter {off, own tag, tag nothing carries} x apply_repetitions {false: returned repetition denotes the set (mapped once on the Reference route); true: returned anchor points = original translated by the zero vector and every non-first vector}", ok,
              n * (9 + 36 + 48 + 48 + (int64_t)APPLY.size() + 6));
    return run.finish();
}
