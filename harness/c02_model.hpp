// c02_model.hpp — the abstract layout model of C02 and its comparison.
//
// The model is computed by walking the public struct fields of a gdstk Library (no gdstk function
// under test is called: no get_polygons, get_offsets, element_center, to_polygons, …).  Coordinates
// become integers on the precision grid with the writer's documented rule
// llround(coord * unit / precision).  What is part of the model (= what properties.jsonl C02 lists):
//   cells by name; per cell the multiset of
//     polygons    (32-bit tag, vertex cycle up to rotation/direction, repetition offsets, properties)
//     simple paths(32-bit tag, centre line, half width, end extensions, repetition, properties)
//     labels      (32-bit tag, text, position, repetition, properties)
//     references  (target name, position, rotation mod 2pi, magnification, reflection, repetition, properties)
//   user properties of library / cells / elements: name, value order, value kind, value (reals by bits)
//   — the S_* standard properties that write_oas itself manages are left out, S_GDS_PROPERTY is kept.
// Not part of the model: library name, unit, cell order, element order inside a cell, label
// anchor/rotation/magnification/reflection, whether a lattice is stored as Rectangular or Regular,
// the order of explicit offsets, collinear interior points of a path centre line.
#pragma once
#include <gdstk/gdstk.hpp>

#include <map>
#include <set>
#include <string>
#include <vector>

#include "dump.hpp"
#include "exactgeom.hpp"
#include "vf.hpp"

namespace c02 {
using namespace gdstk;
using vf::fmt;
using vf::JFields;
using vf::jbool;
using vf::jint;
using vf::jnum;
using vf::jobj;
using vf::jstr;

const int64_t BAD = INT64_MAX;  // coordinate that does not fit the grid (|v| >= 9e18 or NaN)
inline int64_t grid(double v) {
    if (!(fabs(v) < 9e18)) return BAD;
    return (int64_t)llround(v);
}
inline std::string istr(int64_t v) { return v == BAD ? std::string("OVERFLOW") : std::to_string(v); }

// ------------------------------------------------------------------ properties
struct PV { char t; std::string v; double r; };
struct Prop { std::string name; std::vector<PV> vals; };
typedef std::vector<Prop> Props;

inline bool is_managed_standard_property(const char* name) {
    static const char* managed[] = {"S_MAX_SIGNED_INTEGER_WIDTH", "S_MAX_UNSIGNED_INTEGER_WIDTH", "S_MAX_STRING_LENGTH", "S_POLYGON_MAX_VERTICES", "S_PATH_MAX_VERTICES",
                                    "S_TOP_CELL", "S_BOUNDING_BOXES_AVAILABLE", "S_BOUNDING_BOX", "S_CELL_OFFSET"};
    for (const char* m : managed) if (strcmp(name, m) == 0) return true;
    return false;
}
inline std::string hex(const uint8_t* b, uint64_t n) {
    std::string s;
    char t[4];
    for (uint64_t i = 0; i < n; i++) { snprintf(t, sizeof t, "%02x", b[i]); s += t; }
    return s;
}
inline Props walk_props(const Property* p, bool managed_standard_only = false) {
    Props out;
    for (; p; p = p->next) {
        if ((p->name && is_managed_standard_property(p->name)) != managed_standard_only) continue;
        Prop q;
        q.name = p->name ? p->name : "";
        for (PropertyValue* v = p->value; v; v = v->next) {
            switch (v->type) {
                case PropertyType::UnsignedInteger: q.vals.push_back({'u', std::to_string(v->unsigned_integer), 0}); break;
                case PropertyType::Integer: q.vals.push_back({'i', std::to_string(v->integer), 0}); break;
                case PropertyType::Real: {
                    uint64_t bits;
                    memcpy(&bits, &v->real, 8);
                    q.vals.push_back({'r', fmt("%.17g/0x%016llx", v->real, (unsigned long long)bits), v->real});
                } break;
                case PropertyType::String: q.vals.push_back({'s', hex(v->bytes, v->count), 0}); break;
            }
        }
        out.push_back(q);
    }
    return out;
}
inline std::string props_str(const Props& ps) {
    std::string s = "[";
    for (auto& p : ps) {
        s += "{" + p.name + ":";
        for (auto& v : p.vals) { s += v.t; s += "="; s += v.v; s += ","; }
        s += "}";
    }
    return s + "]";
}
// own test for "writing v as a reciprocal loses one ulp": fl(1/v) is an integer but 1/fl(1/v) != v
inline bool reciprocal_loses_ulp(double v) {
    if (v == 0 || v != v || trunc(v) == v) return false;
    volatile double inv = 1.0 / v;
    if (trunc(inv) != inv || !(fabs(inv) < 1.8e19)) return false;
    volatile double back = 1.0 / inv;
    return back != v;
}
struct PropDiff { std::string what; bool recip = false; std::string detail; };
inline PropDiff diff_props(const Props& a, const Props& b) {
    PropDiff d;
    if (a.size() != b.size()) { d.what = "property_count"; d.detail = fmt("%zu properties became %zu", a.size(), b.size()); return d; }
    for (size_t i = 0; i < a.size(); i++) {
        if (a[i].name != b[i].name) { d.what = "name"; d.detail = "property #" + std::to_string(i) + " name '" + a[i].name + "' became '" + b[i].name + "'"; return d; }
        if (a[i].vals.size() != b[i].vals.size()) { d.what = "value_count"; d.detail = fmt("property '%s': %zu values became %zu", a[i].name.c_str(), a[i].vals.size(), b[i].vals.size()); return d; }
        for (size_t k = 0; k < a[i].vals.size(); k++) {
            const PV &x = a[i].vals[k], &y = b[i].vals[k];
            if (x.t != y.t) { d.what = "value_kind"; d.detail = fmt("property '%s' value #%zu kind %c became %c (%s -> %s)", a[i].name.c_str(), k, x.t, y.t, x.v.c_str(), y.v.c_str()); return d; }
            if (x.v != y.v) {
                d.what = x.t == 'u' ? "uint_value" : x.t == 'i' ? "int_value" : x.t == 'r' ? "real_value" : "string_value";
                if (x.t == 'r') d.recip = reciprocal_loses_ulp(x.r);
                d.detail = fmt("property '%s' value #%zu: %s became %s", a[i].name.c_str(), k, x.v.c_str(), y.v.c_str());
                return d;
            }
        }
    }
    return d;
}

// ------------------------------------------------------------------ elements
struct Elem {
    std::string kind;                                        // polygon | path | label | reference
    std::vector<std::pair<std::string, std::string>> f;      // ordered (field, canonical value)
    Props props;
    std::vector<std::pair<long double, long double>> raw;    // polygon vertices in grid units, unrounded
    std::string forward_cycle;                               // polygon: canonical cycle keeping the direction
    std::vector<eg::P> gridpts;                              // polygon: vertices on the grid, in list order
    bool region_only = false;                                // polygon expected as the outline of a path: compare without collinear vertices
    JFields tags;                                            // description (used as violation tags)
    const std::string& get(const std::string& k) const {
        static std::string none;
        for (auto& kv : f) if (kv.first == k) return kv.second;
        return none;
    }
    std::string str() const {
        std::string s = kind + "{";
        for (auto& kv : f) s += kv.first + "=" + kv.second + ";";
        return s + "properties=" + props_str(props) + "}";
    }
    std::string tag(const std::string& k) const {
        for (auto& kv : tags) if (kv.first == k) return kv.second;
        return "";
    }
};
struct CellM {
    std::string name;
    Props props;
    Props std_props;  // the S_* standard properties write_oas manages (compared between consecutive cycles only)
    std::vector<Elem> elems;
};
struct Model {
    double precision = 0;
    Props lib_props;
    Props std_lib_props;  // managed S_* properties of the library, in list order
    std::map<std::string, CellM> cells;
    std::vector<std::string> problems;   // the library is outside what the model can represent
    bool dangling = false;               // some reference names a cell that is not in the library
    bool representation_changes_on_load = false;  // by-name reference to a present cell (re-loads by pointer) or pointer to a cell outside the library (re-loads by name)
    int skipped_nonsimple = 0;           // lenient walk: non-simple paths left out (their expectation comes from the corpus)
};

inline std::string tag_str(Tag t) { return fmt("%u/%u", get_layer(t), get_type(t)); }

inline std::string pts_str(const std::vector<eg::P>& p) {
    std::string s;
    for (auto& q : p) s += "(" + istr(q.x) + "," + istr(q.y) + ")";
    return s;
}
// lexicographically smallest rotation; both_directions: also over the reversed cycle
inline std::string canon_cycle(const std::vector<eg::P>& p, bool both_directions) {
    size_t n = p.size();
    if (n == 0) return "";
    std::vector<eg::P> best;
    for (int dir = 0; dir < (both_directions ? 2 : 1); dir++)
        for (size_t s = 0; s < n; s++) {
            std::vector<eg::P> c(n);
            for (size_t k = 0; k < n; k++) c[k] = p[dir ? (s + n - k) % n : (s + k) % n];
            if (best.empty() || std::lexicographical_compare(c.begin(), c.end(), best.begin(), best.end())) best = c;
        }
    return pts_str(best);
}
// repetition -> sorted multiset of offsets on the grid (zero vector included); own expansion
inline std::string rep_str(const Repetition& r, double scaling, bool& more_than_one) {
    std::vector<Vec2> o = dump::own_offsets(r);
    std::vector<eg::P> g;
    for (auto& v : o) g.push_back({grid(v.x * scaling), grid(v.y * scaling)});
    if (g.empty()) g.push_back({0, 0});  // zero-count lattices are outside the corpus; a None repetition denotes one copy
    std::sort(g.begin(), g.end());
    more_than_one = g.size() > 1;
    return pts_str(g);
}
inline void rep_tags(const Repetition& r, JFields& tags, std::string& kind, bool& neg) {
    static const char* names[] = {"none", "rectangular", "regular", "explicit", "explicit_x", "explicit_y"};
    kind = names[(int)r.type];
    neg = false;
    switch (r.type) {
        case RepetitionType::Rectangular: neg = r.spacing.x < 0 || r.spacing.y < 0; break;
        case RepetitionType::Regular: neg = r.v1.x < 0 || r.v1.y < 0 || r.v2.x < 0 || r.v2.y < 0; break;
        case RepetitionType::Explicit: for (uint64_t i = 0; i < r.offsets.count; i++) if (r.offsets[i].x < 0 || r.offsets[i].y < 0) neg = true; break;
        case RepetitionType::ExplicitX:
        case RepetitionType::ExplicitY: for (uint64_t i = 0; i < r.coords.count; i++) if (r.coords[i] < 0) neg = true; break;
        default: break;
    }
    tags.push_back({"rep_kind", jstr(kind)});
    tags.push_back({"rep_negative", jbool(neg)});
}
// open polyline: drop repeated points and interior points that are collinear and lie between neighbours
inline std::vector<eg::P> simplify_polyline(std::vector<eg::P> p) {
    std::vector<eg::P> q;
    for (auto& v : p) if (q.empty() || q.back() != v) q.push_back(v);
    bool changed = true;
    while (changed && q.size() > 2) {
        changed = false;
        for (size_t i = 1; i + 1 < q.size(); i++) {
            if (q[i - 1].x == BAD || q[i].x == BAD || q[i + 1].x == BAD) continue;
            if (eg::cross(q[i - 1], q[i], q[i + 1]) == 0 && eg::dot(q[i], q[i - 1], q[i + 1]) < 0) {
                q.erase(q.begin() + i);
                changed = true;
                break;
            }
        }
    }
    return q;
}
inline std::string ends_str(EndType t, Vec2 ext, int64_t hw, double scaling, bool& supported) {
    supported = true;
    int64_t a, b;
    switch (t) {
        case EndType::Flush: a = b = 0; break;
        case EndType::HalfWidth: a = b = hw; break;
        case EndType::Extended: a = grid(ext.u * scaling); b = grid(ext.v * scaling); break;
        default: supported = false; a = b = 0;
    }
    if (hw != 0 && a == hw && b == hw) return "half_width";
    return "ext(" + istr(a) + "," + istr(b) + ")";
}

// closed cycle without repeated and collinear vertices (region outline)
inline std::vector<eg::P> simplify_cycle(std::vector<eg::P> p) {
    bool changed = true;
    while (changed && p.size() > 3) {
        changed = false;
        size_t n = p.size();
        for (size_t i = 0; i < n; i++) {
            eg::P a = p[(i + n - 1) % n], b = p[i], c = p[(i + 1) % n];
            if (a.x == BAD || b.x == BAD || c.x == BAD) continue;
            if (b == c || (eg::cross(a, b, c) == 0 && eg::dot(b, a, c) <= 0)) { p.erase(p.begin() + i); changed = true; break; }
        }
    }
    return p;
}

struct Walker {
    const Library& lib;
    bool lenient = false;  // members with a corpus expectation: non-simple paths are skipped instead of being a problem
    double scaling;
    Model m;
    std::set<std::string> names;
    std::set<const Cell*> ptrs;
    Walker(const Library& l) : lib(l) {
        scaling = lib.unit / lib.precision;
        m.precision = lib.precision;
    }
    void add_rep(Elem& e, const Repetition& r) {
        bool many;
        e.f.push_back({"repetition", rep_str(r, scaling, many)});
        std::string kind; bool neg;
        rep_tags(r, e.tags, kind, neg);
    }
    void polygon(CellM& c, const Polygon& p) {
        Elem e;
        e.kind = "polygon";
        e.f.push_back({"tag", tag_str(p.tag)});
        std::vector<eg::P> g;
        for (uint64_t i = 0; i < p.point_array.count; i++) {
            long double x = (long double)p.point_array[i].x * scaling, y = (long double)p.point_array[i].y * scaling;
            e.raw.push_back({x, y});
            g.push_back({grid(p.point_array[i].x * scaling), grid(p.point_array[i].y * scaling)});
        }
        e.f.push_back({"points", canon_cycle(g, true)});
        e.forward_cycle = canon_cycle(g, false);
        e.gridpts = g;
        e.tags.push_back({"element", jstr("polygon")});
        add_rep(e, p.repetition);
        e.props = walk_props(p.properties);
        c.elems.push_back(e);
    }
    void path_elem(CellM& c, const char* path_kind, Tag tag, const std::vector<eg::P>& centre, int64_t hw, EndType et, Vec2 ext, const Repetition& rep, const Property* props) {
        Elem e;
        e.kind = "path";
        e.f.push_back({"tag", tag_str(tag)});
        e.f.push_back({"centre_line", pts_str(simplify_polyline(centre))});
        e.f.push_back({"half_width", istr(hw)});
        bool ok;
        e.f.push_back({"ends", ends_str(et, ext, hw, scaling, ok)});
        if (!ok) m.problems.push_back("path end type outside the quantifier (round/smooth/function)");
        e.tags.push_back({"element", jstr(path_kind)});
        e.tags.push_back({"end_type", jstr(end_type_name(et))});
        add_rep(e, rep);
        e.props = walk_props(props);
        c.elems.push_back(e);
    }
    void flexpath(CellM& c, const FlexPath& fp) {
        if (!fp.simple_path) { if (lenient) m.skipped_nonsimple++; else m.problems.push_back("non-simple flexpath"); return; }
        const Array<Vec2>& sp = fp.spine.point_array;
        for (uint64_t ne = 0; ne < fp.num_elements; ne++) {
            const FlexPathElement& el = fp.elements[ne];
            std::vector<eg::P> centre;
            bool zero_off = true, const_off = true;
            for (uint64_t i = 0; i < el.half_width_and_offset.count; i++) {
                if (el.half_width_and_offset[i].v != 0) zero_off = false;
                if (el.half_width_and_offset[i].v != el.half_width_and_offset[0].v) const_off = false;
                if (el.half_width_and_offset[i].u != el.half_width_and_offset[0].u) m.problems.push_back("flexpath width varies along the spine");
            }
            if (zero_off) {
                for (uint64_t i = 0; i < sp.count; i++) centre.push_back({grid(sp[i].x * scaling), grid(sp[i].y * scaling)});
            } else if (const_off && sp.count == 2) {
                // straight spine: the element runs parallel to it, 'offset' to the left of the direction of travel
                double dx = sp[1].x - sp[0].x, dy = sp[1].y - sp[0].y, len = sqrt(dx * dx + dy * dy), off = el.half_width_and_offset[0].v;
                double nx = -dy / len, ny = dx / len;
                for (uint64_t i = 0; i < 2; i++) centre.push_back({grid((sp[i].x + nx * off) * scaling), grid((sp[i].y + ny * off) * scaling)});
            } else {
                m.problems.push_back("flexpath offsets the model cannot follow");
            }
            int64_t hw = el.half_width_and_offset.count ? grid(el.half_width_and_offset[0].u * scaling) : 0;
            path_elem(c, "flexpath", el.tag, centre, hw, el.end_type, el.end_extensions, fp.repetition, fp.properties);
        }
    }
    void robustpath(CellM& c, const RobustPath& rp) {
        if (!rp.simple_path) { if (lenient) m.skipped_nonsimple++; else m.problems.push_back("non-simple robustpath"); return; }
        // section end points are stored untransformed; the path's 2x3 matrix maps them to their place
        const double* t = rp.trafo;
        auto place = [&](Vec2 p) { return eg::P{grid((p.x * t[0] + p.y * t[1] + t[2]) * scaling), grid((p.x * t[3] + p.y * t[4] + t[5]) * scaling)}; };
        std::vector<eg::P> centre;
        for (uint64_t i = 0; i < rp.subpath_array.count; i++) {
            const SubPath& s = rp.subpath_array[i];
            if (s.type != SubPathType::Segment) { m.problems.push_back("robustpath with curved sections"); continue; }
            if (i == 0) centre.push_back(place(s.begin));
            centre.push_back(place(s.end));
        }
        for (uint64_t ne = 0; ne < rp.num_elements; ne++) {
            const RobustPathElement& el = rp.elements[ne];
            double w = 0;
            for (uint64_t i = 0; i < el.width_array.count; i++) {
                if (el.width_array[i].type != InterpolationType::Constant || el.offset_array[i].type != InterpolationType::Constant || el.offset_array[i].value != 0 ||
                    el.width_array[i].value != el.width_array[0].value)
                    m.problems.push_back("robustpath with varying width or an offset");
            }
            if (el.width_array.count) w = el.width_array[0].value * rp.width_scale;
            path_elem(c, "robustpath", el.tag, centre, grid(0.5 * w * scaling), el.end_type, el.end_extensions, rp.repetition, rp.properties);
        }
    }
    void label(CellM& c, const Label& l) {
        Elem e;
        e.kind = "label";
        e.f.push_back({"tag", tag_str(l.tag)});
        e.f.push_back({"text", l.text ? hex((const uint8_t*)l.text, strlen(l.text)) : "NULL"});
        e.f.push_back({"position", "(" + istr(grid(l.origin.x * scaling)) + "," + istr(grid(l.origin.y * scaling)) + ")"});
        e.tags.push_back({"element", jstr("label")});
        add_rep(e, l.repetition);
        e.props = walk_props(l.properties);
        c.elems.push_back(e);
    }
    void reference(CellM& c, const Reference& r) {
        Elem e;
        e.kind = "reference";
        std::string target, tk;
        if (r.type == ReferenceType::Cell) {
            if (r.cell == NULL) { target = ""; tk = "null_pointer"; }
            else { target = r.cell->name ? r.cell->name : ""; tk = ptrs.count(r.cell) ? "pointer_in_library" : "pointer_not_in_library"; }
        } else if (r.type == ReferenceType::Name) {
            target = r.name ? r.name : "";
            tk = names.count(target) ? "name_present" : "name_absent";
        } else {
            m.problems.push_back("reference to a raw cell");
            tk = "rawcell";
        }
        if (!names.count(target)) m.dangling = true;
        if (tk == "name_present" || tk == "pointer_not_in_library") m.representation_changes_on_load = true;
        e.f.push_back({"target", hex((const uint8_t*)target.data(), target.size())});
        e.f.push_back({"position", "(" + istr(grid(r.origin.x * scaling)) + "," + istr(grid(r.origin.y * scaling)) + ")"});
        double a = fmod(r.rotation, 2 * M_PI);
        if (a < 0) a += 2 * M_PI;
        if (a > 2 * M_PI - 5e-10) a = 0;
        e.f.push_back({"rotation", fmt("%.9f", a)});
        e.f.push_back({"magnification", fmt("%.12g", r.magnification)});
        e.f.push_back({"reflection", r.x_reflection ? "1" : "0"});
        e.tags.push_back({"element", jstr("reference")});
        e.tags.push_back({"target_kind", jstr(tk)});
        add_rep(e, r.repetition);
        e.props = walk_props(r.properties);
        c.elems.push_back(e);
    }
    Model run() {
        for (uint64_t i = 0; i < lib.cell_array.count; i++) {
            const Cell* c = lib.cell_array[i];
            ptrs.insert(c);
            std::string n = c->name ? c->name : "";
            if (!names.insert(n).second) m.problems.push_back("duplicate cell name " + n);
        }
        if (lib.rawcell_array.count) m.problems.push_back("raw cells");
        m.lib_props = walk_props(lib.properties);
        m.std_lib_props = walk_props(lib.properties, true);
        for (uint64_t i = 0; i < lib.cell_array.count; i++) {
            const Cell& c = *lib.cell_array[i];
            CellM cm;
            cm.name = c.name ? c.name : "";
            cm.props = walk_props(c.properties);
            cm.std_props = walk_props(c.properties, true);
            for (uint64_t k = 0; k < c.polygon_array.count; k++) polygon(cm, *c.polygon_array[k]);
            for (uint64_t k = 0; k < c.flexpath_array.count; k++) flexpath(cm, *c.flexpath_array[k]);
            for (uint64_t k = 0; k < c.robustpath_array.count; k++) robustpath(cm, *c.robustpath_array[k]);
            for (uint64_t k = 0; k < c.label_array.count; k++) label(cm, *c.label_array[k]);
            for (uint64_t k = 0; k < c.reference_array.count; k++) reference(cm, *c.reference_array[k]);
            m.cells[cm.name] = cm;
        }
        return m;
    }
};
inline Model walk(const Library& lib, bool lenient = false) {
    Walker w(lib);
    w.lenient = lenient;
    return w.run();
}
// Model of a one-cell library from plain expectation data (tag, centre line / outline in user units, half
// width, end style) — same canonical forms as the walk.  E is oas_corpus::Expected (kept generic here).
template <class E>
inline Model model_from_expected(const E& ex, const Library& lib, const char* cell_name) {
    Model m;
    double scaling = lib.unit / lib.precision;
    m.precision = lib.precision;
    CellM c;
    c.name = cell_name;
    Repetition none = {};
    for (auto& p : ex.paths) {
        Elem e;
        e.kind = "path";
        std::vector<eg::P> centre;
        for (auto& v : p.centre) centre.push_back({grid(v.x * scaling), grid(v.y * scaling)});
        int64_t hw = grid(p.half_width * scaling);
        e.f.push_back({"tag", tag_str(p.tag)});
        e.f.push_back({"centre_line", pts_str(simplify_polyline(centre))});
        e.f.push_back({"half_width", istr(hw)});
        bool ok;
        e.f.push_back({"ends", ends_str(p.end == 0 ? EndType::Flush : p.end == 1 ? EndType::HalfWidth : EndType::Extended, p.ext, hw, scaling, ok)});
        bool many;
        e.f.push_back({"repetition", rep_str(none, scaling, many)});
        e.tags.push_back({"element", jstr("path_with_history")});
        e.tags.push_back({"rep_kind", jstr("none")});
        e.tags.push_back({"rep_negative", jbool(false)});
        c.elems.push_back(e);
    }
    for (auto& p : ex.polys) {
        Elem e;
        e.kind = "polygon";
        std::vector<eg::P> g;
        for (auto& v : p.pts) { g.push_back({grid(v.x * scaling), grid(v.y * scaling)}); e.raw.push_back({(long double)v.x * scaling, (long double)v.y * scaling}); }
        e.f.push_back({"tag", tag_str(p.tag)});
        e.f.push_back({"points", canon_cycle(g, true)});
        e.forward_cycle = canon_cycle(g, false);
        e.gridpts = g;
        e.region_only = true;
        bool many;
        e.f.push_back({"repetition", rep_str(none, scaling, many)});
        e.tags.push_back({"element", jstr("outline_of_nonsimple_path")});
        e.tags.push_back({"rep_kind", jstr("none")});
        e.tags.push_back({"rep_negative", jbool(false)});
        c.elems.push_back(e);
    }
    m.cells[c.name] = c;
    return m;
}

// raw (un-rounded) dump of everything the writer must not change in the SOURCE library: geometry,
// element properties, and the user (non S_*) properties of library and cells.  Uses dump.hpp only.
inline std::string user_props_dump(const Property* p) { return props_str(walk_props(p)); }
inline std::string source_fingerprint(const Library& lib) {
    std::string s = fmt("unit=%.17g precision=%.17g name=%s cells=%llu\n", lib.unit, lib.precision, lib.name ? lib.name : "", (unsigned long long)lib.cell_array.count);
    s += "libprops=" + user_props_dump(lib.properties) + "\n";
    for (uint64_t i = 0; i < lib.cell_array.count; i++) {
        const Cell& c = *lib.cell_array[i];
        s += std::string("cell ") + (c.name ? c.name : "") + " props=" + user_props_dump(c.properties) + "\n";
        for (uint64_t k = 0; k < c.polygon_array.count; k++) s += dump::polygon(*c.polygon_array[k]) + "\n";
        for (uint64_t k = 0; k < c.flexpath_array.count; k++) s += dump::flexpath(*c.flexpath_array[k]) + "\n";
        for (uint64_t k = 0; k < c.robustpath_array.count; k++) s += dump::robustpath(*c.robustpath_array[k]) + "\n";
        for (uint64_t k = 0; k < c.label_array.count; k++) s += dump::label(*c.label_array[k]) + "\n";
        for (uint64_t k = 0; k < c.reference_array.count; k++) s += dump::reference(*c.reference_array[k]) + "\n";
    }
    return s;
}

// ------------------------------------------------------------------ circle criterion
inline long double dist_pt_seg(long double px, long double py, long double ax, long double ay, long double bx, long double by) {
    long double dx = bx - ax, dy = by - ay, l2 = dx * dx + dy * dy;
    long double t = l2 > 0 ? ((px - ax) * dx + (py - ay) * dy) / l2 : 0;
    t = t < 0 ? 0 : t > 1 ? 1 : t;
    long double ex = ax + t * dx - px, ey = ay + t * dy - py;
    return sqrtl(ex * ex + ey * ey);
}
inline long double shoelace(const std::vector<std::pair<long double, long double>>& p) {
    long double s = 0;
    size_t n = p.size();
    for (size_t i = 0; i < n; i++) s += p[i].first * p[(i + 1) % n].second - p[(i + 1) % n].first * p[i].second;
    return 0.5L * s;
}
inline long double perimeter(const std::vector<std::pair<long double, long double>>& p) {
    long double s = 0;
    size_t n = p.size();
    for (size_t i = 0; i < n; i++) s += hypotl(p[(i + 1) % n].first - p[i].first, p[(i + 1) % n].second - p[i].second);
    return s;
}
inline long double max_vertex_to_boundary(const std::vector<std::pair<long double, long double>>& v, const std::vector<std::pair<long double, long double>>& poly) {
    long double worst = 0;
    size_t n = poly.size();
    if (n == 0) return INFINITY;
    for (auto& p : v) {
        long double best = INFINITY;
        for (size_t i = 0; i < n; i++) best = std::min(best, dist_pt_seg(p.first, p.second, poly[i].first, poly[i].second, poly[(i + 1) % n].first, poly[(i + 1) % n].second));
        worst = std::max(worst, best);
    }
    return worst;
}

// ------------------------------------------------------------------ comparison
struct Diff {
    std::string cls;     // failure class (fine-grained: aspect + discriminators)
    JFields tags;        // class-level predicates only (the engine caps output per class + tag values)
    std::string detail;
    JFields numbers;     // per-case measurements (go into the case description, not into the tags)
};
struct CompareCtx {
    double circle_tolerance_grid = 0;  // writer's circle tolerance in grid steps (0: detection off)
    double reader_tolerance_grid = 1;  // tolerance the reader polygonises circles with, in grid steps
    uint16_t flags = 0;
    int cycle = 1;
    // statistics
    int64_t circles_within_tolerance = 0, orientation_reversed = 0, elements_compared = 0, outlines_equal_modulo_collinear = 0;
    long double worst_circle_deviation = 0;
};
inline std::string detect_bits(const CompareCtx& c) {
    std::string s;
    if (c.flags & 0x10) s += "r";
    if (c.flags & 0x20) s += "t";
    if (c.circle_tolerance_grid > 0) s += "c";
    return s.empty() ? "none" : s;
}
inline void add_prop_diff(std::vector<Diff>& out, const std::string& owner, const JFields& base_tags, const Props& a, const Props& b, const std::string& where) {
    if (props_str(a) == props_str(b)) return;
    PropDiff pd = diff_props(a, b);
    Diff d;
    d.cls = "properties:" + pd.what + (pd.recip ? ":recip1ulp" : "");
    d.tags = base_tags;
    d.tags.push_back({"owner", jstr(owner)});
    d.tags.push_back({"prop_diff", jstr(pd.what)});
    d.tags.push_back({"reciprocal_loses_ulp", jbool(pd.recip)});
    d.detail = where + ": " + pd.detail + " | source " + props_str(a) + " | re-loaded " + props_str(b);
    out.push_back(d);
}
inline void compare_pair(std::vector<Diff>& out, const std::string& cell, const Elem& a, const Elem& b, CompareCtx& ctx) {
    for (size_t k = 0; k < a.f.size(); k++) {
        const std::string& field = a.f[k].first;
        const std::string& va = a.f[k].second;
        const std::string& vb = b.get(field);
        if (va == vb) continue;
        Diff d;
        d.tags = a.tags;
        d.tags.push_back({"field", jstr(field)});
        d.tags.push_back({"cycle", jint(ctx.cycle)});
        std::string el = a.tag("element");
        if (el.size() >= 2) el = el.substr(1, el.size() - 2);
        if (field == "points") {
            if (a.region_only && canon_cycle(simplify_cycle(a.gridpts), true) == canon_cycle(simplify_cycle(b.gridpts), true)) {
                ctx.outlines_equal_modulo_collinear++;
                continue;
            }
            if (ctx.cycle == 1 && ctx.circle_tolerance_grid > 0 && a.raw.size() > 4 && b.raw.size() > 4) {
                // circle criterion: vertex-to-boundary distance both ways within
                // 2*circle_tolerance (radial + chord error of the source) + reader tolerance + rounding (1.5 grid steps)
                long double bound = 2 * ctx.circle_tolerance_grid + ctx.reader_tolerance_grid + 1.5L;
                long double d1 = max_vertex_to_boundary(b.raw, a.raw), d2 = max_vertex_to_boundary(a.raw, b.raw);
                long double dev = std::max(d1, d2);
                // region check: the areas may differ by at most a band of width 'bound' along the longer boundary
                long double area_a = fabsl(shoelace(a.raw)), area_b = fabsl(shoelace(b.raw)), per = std::max(perimeter(a.raw), perimeter(b.raw));
                bool area_ok = fabsl(area_a - area_b) <= bound * per;
                if (dev <= bound && area_ok) {
                    ctx.circles_within_tolerance++;
                    ctx.worst_circle_deviation = std::max(ctx.worst_circle_deviation, dev);
                    continue;
                }
                // own roundness measure of the SOURCE polygon: spread of the vertex distances from the vertex centroid
                long double cx = 0, cy = 0, rmin = INFINITY, rmax = 0;
                for (auto& p : a.raw) { cx += p.first; cy += p.second; }
                cx /= a.raw.size(); cy /= a.raw.size();
                for (auto& p : a.raw) { long double r = hypotl(p.first - cx, p.second - cy); rmin = std::min(rmin, r); rmax = std::max(rmax, r); }
                bool source_round = (rmax - rmin) <= 2 * ctx.circle_tolerance_grid;
                d.cls = source_round ? "polygon.points:circle_reloaded_outside_tolerance" : "polygon.points:non_circle_written_as_circle";
                d.tags.push_back({"source_is_circle_within_tolerance", jbool(source_round)});
                d.numbers = {{"source_radial_spread_grid_steps", jnum((double)(rmax - rmin))}, {"source_mean_radius_grid_steps", jnum((double)(0.5 * (rmax + rmin)))},
                             {"deviation_grid_steps", jnum((double)dev)}, {"bound_grid_steps", jnum((double)bound)}};
                d.detail = fmt("cell %s: polygon with %zu vertices re-loaded with %zu vertices; largest vertex-to-boundary distance %.3Lf grid steps > bound %.3Lf (2*circle_tolerance + reader tolerance + 1.5); vertex distances from the centroid of the source polygon spread over %.3Lf grid steps around %.3Lf",
                               cell.c_str(), a.raw.size(), b.raw.size(), dev, bound, rmax - rmin, 0.5 * (rmax + rmin));
                d.detail += fmt("; area %.1Lf -> %.1Lf grid steps^2 (%s)", area_a, area_b, area_ok ? "within the band" : "outside the band");
                out.push_back(d);
                continue;
            }
            d.cls = "polygon.points:detect=" + detect_bits(ctx) + (a.raw.size() > 4 ? ":n>4" : ":n<=4");
            d.tags.push_back({"detect", jstr(detect_bits(ctx))});
        } else if (field == "repetition") {
            std::string rk = a.tag("rep_kind"), neg = a.tag("rep_negative");
            if (rk.size() >= 2) rk = rk.substr(1, rk.size() - 2);
            d.cls = el + ".repetition:" + rk + (neg == "true" ? ":neg" : ":nonneg");
        } else if (a.kind == "path") {
            d.cls = "path." + field + ":" + el;
        } else if (field == "target") {
            std::string tk = a.tag("target_kind");
            if (tk.size() >= 2) tk = tk.substr(1, tk.size() - 2);
            d.cls = "reference.target:" + tk;
        } else {
            d.cls = a.kind + "." + field;
        }
        d.detail = "cell " + cell + ": " + a.kind + " " + field + " " + va + " re-loaded as " + vb + " | source " + a.str() + " | re-loaded " + b.str();
        if (d.detail.size() > 3000) d.detail.resize(3000);
        out.push_back(d);
    }
    JFields t = a.tags;
    t.push_back({"cycle", jint(ctx.cycle)});
    std::string el = a.tag("element");
    if (el.size() >= 2) el = el.substr(1, el.size() - 2);
    add_prop_diff(out, el, t, a.props, b.props, "cell " + cell + " " + a.kind);
    if (a.kind == "polygon" && a.get("points") == b.get("points") && a.forward_cycle != b.forward_cycle) ctx.orientation_reversed++;
}
// The managed standard properties of two consecutive cycles, compared as multisets with multiplicities
// (per property name: the sorted list of its value lists).
// geometry_values = false: for the properties whose VALUES summarise geometry / file layout (S_BOUNDING_BOX, S_CELL_OFFSET,
// S_POLYGON_MAX_VERTICES, S_PATH_MAX_VERTICES) only the multiplicities are compared.  Used between the first and the second
// re-loaded library: the first file summarises the un-rounded source, the second the library rounded to the grid.
inline bool is_geometry_summary(const std::string& n) { return n == "S_BOUNDING_BOX" || n == "S_CELL_OFFSET" || n == "S_POLYGON_MAX_VERTICES" || n == "S_PATH_MAX_VERTICES"; }
inline void compare_std_one(std::vector<Diff>& out, const std::string& owner, const std::string& where, const Props& a, const Props& b, int cycle, const std::string& how, bool geometry_values = true) {
    std::map<std::string, std::vector<std::string>> ma, mb;
    for (auto& p : a) ma[p.name].push_back(props_str({p}));
    for (auto& p : b) mb[p.name].push_back(props_str({p}));
    std::set<std::string> names;
    for (auto& kv : ma) { std::sort(kv.second.begin(), kv.second.end()); names.insert(kv.first); }
    for (auto& kv : mb) { std::sort(kv.second.begin(), kv.second.end()); names.insert(kv.first); }
    for (auto& n : names) {
        if (ma[n] == mb[n]) continue;
        if (!geometry_values && is_geometry_summary(n) && ma[n].size() == mb[n].size()) continue;
        Diff d;
        bool count_changed = ma[n].size() != mb[n].size();
        d.cls = "standard_properties:" + how + ":" + owner + ":" + n + (count_changed ? ":count_changed" : ":values_changed");
        d.tags = {{"owner", jstr(owner)}, {"property", jstr(n)}, {"how", jstr(how)}, {"count_changed", jbool(count_changed)}, {"cycle", jint(cycle)}};
        d.detail = where + ": " + n + " occurs " + std::to_string(ma[n].size()) + " time(s) after one save/load and " + std::to_string(mb[n].size()) + " time(s) after the next (" + how + "); before " + props_str(a) + " | after " + props_str(b);
        if (d.detail.size() > 3000) d.detail.resize(3000);
        out.push_back(d);
    }
}
inline std::vector<Diff> compare_std(const Model& A, const Model& B, int cycle, const std::string& how, bool geometry_values = true) {
    std::vector<Diff> out;
    compare_std_one(out, "library", "library", A.std_lib_props, B.std_lib_props, cycle, how, geometry_values);
    for (auto& kv : A.cells) {
        auto it = B.cells.find(kv.first);
        if (it != B.cells.end()) compare_std_one(out, "cell", "cell " + kv.first, kv.second.std_props, it->second.std_props, cycle, how, geometry_values);
    }
    return out;
}
inline int equal_fields(const Elem& a, const Elem& b) {
    int n = 0;
    for (auto& kv : a.f) if (b.get(kv.first) == kv.second) n++;
    if (props_str(a.props) == props_str(b.props)) n++;
    return n;
}
inline std::vector<Diff> compare(const Model& A, const Model& B, CompareCtx& ctx) {
    std::vector<Diff> out;
    JFields cyc = {{"cycle", jint(ctx.cycle)}};
    if (!(fabs(A.precision - B.precision) <= 1e-12 * fabs(A.precision))) {
        out.push_back({"precision", cyc, fmt("precision %.17g re-loaded as %.17g", A.precision, B.precision)});
    }
    add_prop_diff(out, "library", cyc, A.lib_props, B.lib_props, "library");
    for (auto& kv : A.cells)
        if (!B.cells.count(kv.first)) out.push_back({"cells:missing", cyc, "cell '" + kv.first + "' is missing after re-loading"});
    for (auto& kv : B.cells)
        if (!A.cells.count(kv.first)) out.push_back({"cells:extra", cyc, "cell " + jstr(kv.first) + " appeared after re-loading"});
    if (A.cells.size() != B.cells.size() && out.empty()) out.push_back({"cells:count", cyc, fmt("%zu cells became %zu", A.cells.size(), B.cells.size())});
    for (auto& kv : A.cells) {
        auto it = B.cells.find(kv.first);
        if (it == B.cells.end()) continue;
        const CellM &ca = kv.second, &cb = it->second;
        add_prop_diff(out, "cell", cyc, ca.props, cb.props, "cell " + ca.name);
        for (const char* kind : {"polygon", "path", "label", "reference"}) {
            std::vector<const Elem*> ea, eb;
            for (auto& e : ca.elems) if (e.kind == kind) ea.push_back(&e);
            for (auto& e : cb.elems) if (e.kind == kind) eb.push_back(&e);
            ctx.elements_compared += (int64_t)ea.size();
            // exact matches first (multiset equality): sort by canonical string and merge
            std::vector<std::pair<std::string, const Elem*>> sa, sb;
            for (auto* e : ea) sa.push_back({e->str(), e});
            for (auto* e : eb) sb.push_back({e->str(), e});
            auto cmp = [](const std::pair<std::string, const Elem*>& x, const std::pair<std::string, const Elem*>& y) { return x.first < y.first; };
            std::stable_sort(sa.begin(), sa.end(), cmp);
            std::stable_sort(sb.begin(), sb.end(), cmp);
            std::vector<const Elem*> la, lb;
            size_t i = 0, j = 0;
            while (i < sa.size() && j < sb.size()) {
                if (sa[i].first == sb[j].first) {
                    if (sa[i].second->kind == "polygon" && sa[i].second->forward_cycle != sb[j].second->forward_cycle) ctx.orientation_reversed++;
                    i++; j++;
                } else if (sa[i].first < sb[j].first) la.push_back(sa[i++].second);
                else lb.push_back(sb[j++].second);
            }
            while (i < sa.size()) la.push_back(sa[i++].second);
            while (j < sb.size()) lb.push_back(sb[j++].second);
            if (ea.size() != eb.size()) {
                Diff d;
                d.cls = std::string(kind) + ".count";
                d.tags = cyc;
                d.detail = fmt("cell %s: %zu %s elements re-loaded as %zu", ca.name.c_str(), ea.size(), kind, eb.size());
                for (auto* e : la) d.detail += " | unmatched source " + e->str();
                for (auto* e : lb) d.detail += " | unmatched re-loaded " + e->str();
                if (d.detail.size() > 3000) d.detail.resize(3000);
                out.push_back(d);
            }
            // pair the leftovers: repeatedly take the pair with the most equal fields
            std::vector<bool> used(lb.size(), false);
            for (auto* a : la) {
                int best = -1, bestn = -1;
                for (size_t k = 0; k < lb.size(); k++) {
                    if (used[k]) continue;
                    int n = equal_fields(*a, *lb[k]);
                    if (n > bestn) { bestn = n; best = (int)k; }
                }
                if (best < 0) break;
                used[best] = true;
                compare_pair(out, ca.name, *a, *lb[best], ctx);
            }
        }
    }
    return out;
}

}  // namespace c02
