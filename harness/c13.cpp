// C13 — offsetting grows or shrinks polygons by the requested distance.   DESIGN.md section 2/C13.
// Engine E2 (vf::parallel_for): every group of a finite lattice alphabet x every configuration
// (distance, join, tolerance, use_union, scaling) is executed on the real gdstk::offset and judged by
// the independent signed-distance oracle of c13_oracle.hpp at every sample point of a lattice window.
//
// ---- what the oracle demands (and why) ------------------------------------------------------------
// A = input region (d>0) or its complement (d<0);  G = result region (d>0) or its complement (d<0);
// r = |d|;  rho(q) = exact distance from sample q to A;  g = 3/scaling (rounding grid guard).
//   (rho is signed: minus the depth for q inside A, so "q in A => q in G" is the first rule below whenever
//    depth + lower exceeds the guard — always, except at scalings 1 and 8 where g is as large as the features)
//   rho(q) < lower(q) - g         => q in G          "covers every point closer than d" / "nothing shallower"
//   rho(q) > R + g                => q not in G      "no point farther than the join style allows" / "keeps deeper"
//   otherwise                     => don't-care (counted as dontcare_band)
// R = r*limit (Miter, limit 2 or 3), r*sqrt(2) (Bevel), r (Round)       — the property's own figures.
// lower(q) = r for Miter and Bevel at every q: gdstk maps Bevel to Clipper's jtSquare, whose cut is
//   tangent to the r-circle about the corner, and Clipper squares off over-limit miters the same way, so
//   the full r-disc about every corner is covered; nothing weaker than the property text is needed.
// lower(q) = r for Round when the nearest point of A is interior to an edge (perpendicular foot strictly
//   inside an edge piece); lower(q) = r*cos(1.5*pi/N) when the nearest point of A is a corner, N = tolerance
//   = points per full circle.  Derivation: offset() sets ArcTolerance = d*scaling*(1-cos(pi/N)); ClipperOffset
//   turns ArcTolerance y into steps = pi/acos(1-y/|delta|) = N vertices per circle placed ON the r-circle;
//   DoRound then emits round(N*angle/2pi) chords of angular size 2pi/N plus one closing chord, which may
//   span up to 1.5 nominal steps.  The property gives no number for the must-cover side ("d for round joins
//   up to the arc resolution"), and the coordinator adjudicated that the library's arc resolution is this
//   1.5-step closing chord; demanding cos(pi/N) would demand more than the property says.  Anything coarser
//   than 1.5 steps still fails as must_cover.  Corner-nearest samples that are left uncovered between
//   r*cos(1.5pi/N) and r*cos(pi/N) are counted (round_gap:<join>:ratio_<rho/r to 2 decimals>), so the
//   observed worst ratio is in the evidence (theory: 0.83 for N=8, 0.989 for N=32).
//   For d<0 the expression is negative, Clipper falls back to its default 0.25 grid units, i.e. arcs are
//   finer than requested; the same lower bound is then merely loose.
// ErrorCode: the property speaks about the covered region only.  A non-NoError return whose result still
//   satisfies every must-cover / must-not-cover sample is NOT a violation of this property (coordinator
//   adjudication); it is counted as error_code_with_region_ok and noted.  Observed on the unchanged tree:
//   BooleanError for ring+rectangle pairs, d=-0.5 = half the wall, Bevel, use_union=true (Clipper nests a
//   result piece as a "hole" of another contour through zero-width bridges; link_holes cannot link it).
//   When region samples of the same case also fail, an additional violation of class error_code is emitted.
// Violation classes: must_cover, must_not_cover, overlap, error_code (only together with failing samples),
//   partition_disagree, partition_area, crash:*, hang.
// Internal edges (gdstk documentation: "the effects of internal polygon edges ... can be suppressed by
//   setting use_union to true"): with use_union=false and d<0 a zero-width slit of a key-holed polygon is
//   treated by gdstk as boundary, as documented.  Samples within R+g of an internal edge piece are
//   don't-care in that configuration only (counted as dontcare_slit).  For the same reason (DESIGN.md 0,
//   interpretation decision) touching/overlapping pairs are not in the alphabet for d<0 without union,
//   and disjoint pairs are judged under sub-check "offset.pairs" only when gap > 2|d| + grid; disjoint
//   pairs with a smaller gap are still executed and judged, under sub-check "offset.pairs_neargap".
// Overlap between result polygons (two result polygons with
//   non-zero winding at a sample) is a violation with use_union=true, a counter otherwise.
// Winding is an explicit input dimension: the region does not depend on the order in which a polygon's
//   vertices are listed, so every member of a group is also handed to gdstk in reversed order — single shapes
//   in both windings, pairs in all 4 assignments (sub-check offset.pairs_winding holds the 3 non-identity
//   ones), partition-family members with k <= 3 polygons in all 2^k assignments (thorough) — under the
//   unchanged distance oracle, use_union false and true, all relations, both signs, all joins.  Tags
//   winding ("+-" = first counter-clockwise, second clockwise) and mixed_winding identify the assignment.
// Scaling is an explicit input dimension beyond {1000, 2^20}: sub-check offset.scaling_large runs a reduced
//   alphabet with exactly mirrored slopes at corners (diamonds, isosceles triangles, chevrons, zigzag, octagon,
//   hexagon) next to rectangles, L shapes and a ring, singles and 16 pairs, in both/all windings, at scalings
//   {2^31, 1e9, 1e12} (Clipper's full-range 128-bit mode: scaling*coordinate > 2^30; everything stays below
//   3e13 << 2^62); offset.scaling_small runs the same alphabet at scalings {1, 8}.  The oracle is the same: exact
//   arithmetic on the unscaled lattice, guard 3/scaling.  For d<0 with Round joins Clipper's default arc
//   tolerance of 0.25 grid units yields (pi/2)/sqrt(0.5/(|d|*scaling)) vertices per quarter arc; cases above
//   5e4 (quick) / 3e5 (thorough) vertices on groups that can have a reflex corner are not executed (counter
//   skipped_arc_vertex_budget; all of them at 1e12).
// Nesting is an explicit input dimension: sub-check offset.nested runs closed frames (4 abutting bars, 4
//   overlapping bars, one key-holed ring) around 1 or 2 inner shapes (square, diamond, L, 2x2 square; inner
//   shapes in every winding assignment) and frame-in-frame around a centre square, so that the result PolyTree
//   has islands inside holes (depth 3 and 5); all distances (0.2 keeps the nesting, 0.5 closes the unit gap
//   exactly, >= 1 merges island and frame; -0.2 keeps, <= -0.5 makes unit features vanish), all joins, both
//   union settings; frames of bars are touching/overlapping members, so d<0 without union is judged only for
//   the key-holed frames.  Oracle unchanged.
// Key-holed inputs (kinds K and N) are built by the harness itself (keyholed_plate / link_hole_by_hand): plate minus
//   rectangular cut-outs as one vertex list with zero-width slits in the layout gdstk's hole linking produces.  No
//   library call takes part in the setup of any case, so a defect in the hole handling shared by boolean() and
//   offset() shows as an offset violation judged by the oracle, never as a broken check.
// Results with holes: offset.single.ring, offset.nested, offset.pinch and offset.multi_hole (several outers with
//   holes) run in the quick tier with all joins, both union settings, growing and shrinking.
// Overloads: every single-member case (rectangles, L, triangles, key-holed rings, plates with slits, self-
//   overlapping polygons, the scaling alphabets) is also run through the inline `offset(const Polygon&, ...)`
//   overload with the same arguments; it is judged by the same oracle (tag overload=polygon) and must cover the same
//   samples as the Array overload (class overload_disagree).
// Pinching holes: sub-check offset.pinch (see pinch_groups()) offsets plates by exactly half a neck width / half
//   a hole gap (and by the neighbouring distances), all joins, both union settings, scalings 1000 and 2^20.
// Union option: members of one partition family (same region, different polygons) are offset with
//   use_union=true and must agree at every sample farther than g from both results' boundaries, and in
//   area within (perimeter * 2g).
#include <gdstk/gdstk.hpp>

#include <array>
#include <functional>
#include <map>
#include <set>

#include "c13_oracle.hpp"
#include "vf.hpp"

using namespace gdstk;
using namespace vf;
using c13::ld;

static Run* R;
static bool VERBOSE = false;

// ------------------------------------------------------------------------------------------ shapes
struct Shape {
    char kind = 'P';      // 'P' literal lattice polygon, 'K' key-holed ring, 'N' key-holed plate with several cut-outs (both hand-built slit polygons)
    eg::Poly pts;         // P: vertices; K: {outer min, outer max, inner min, inner max}
    std::string cls;      // rect / L / tri / ring / poly
    bool rev = false;     // hand the vertex list to gdstk in reversed order (opposite winding); spec kind in lower case
};
static Shape rect(int x0, int y0, int x1, int y1) { return {'P', {{x0, y0}, {x1, y0}, {x1, y1}, {x0, y1}}, "rect"}; }
// L = bounding box minus a notch of size nw x nh at corner c (0: top-right, 1: top-left, 2: bottom-left, 3: bottom-right)
static Shape lshape(int x0, int y0, int w, int h, int c, int nw, int nh) {
    eg::Poly p = {{0, 0}, {w, 0}, {w, h - nh}, {w - nw, h - nh}, {w - nw, h}, {0, h}};  // notch top-right
    for (auto& v : p) {
        if (c == 1 || c == 2) v.x = w - v.x;
        if (c == 2 || c == 3) v.y = h - v.y;
        v.x += x0; v.y += y0;
    }
    if (c == 1 || c == 3) std::reverse(p.begin(), p.end());  // keep counter-clockwise
    return {'P', p, "L"};
}
static Shape tri(eg::P a, eg::P b, eg::P c) { return {'P', {a, b, c}, "tri"}; }
static Shape ring(int ox0, int oy0, int ox1, int oy1, int ix0, int iy0, int ix1, int iy1) {
    return {'K', {{ox0, oy0}, {ox1, oy1}, {ix0, iy0}, {ix1, iy1}}, "ring"};
}
static Shape translated(Shape s, int dx, int dy) {
    for (auto& v : s.pts) { v.x += dx; v.y += dy; }
    return s;
}
static void bbox(const Shape& s, int64_t& x0, int64_t& y0, int64_t& x1, int64_t& y1) {
    x0 = y0 = INT64_MAX; x1 = y1 = INT64_MIN;
    for (auto& v : s.pts) { x0 = std::min(x0, v.x); x1 = std::max(x1, v.x); y0 = std::min(y0, v.y); y1 = std::max(y1, v.y); }
}
static std::string spec_of(const Shape& s) {
    std::string o = std::string(1, s.rev ? (char)tolower(s.kind) : s.kind) + ":";
    for (size_t i = 0; i < s.pts.size(); i++) o += fmt("%s%lld,%lld", i ? ";" : "", (long long)s.pts[i].x, (long long)s.pts[i].y);
    return o;
}
static std::string spec_of(const std::vector<Shape>& g) {
    std::string o;
    for (size_t i = 0; i < g.size(); i++) o += (i ? "|" : "") + spec_of(g[i]);
    return o;
}
static std::vector<Shape> parse_spec(const std::string& spec) {
    std::vector<Shape> g;
    size_t p = 0;
    while (p < spec.size()) {
        size_t e = spec.find('|', p);
        if (e == std::string::npos) e = spec.size();
        std::string one = spec.substr(p, e - p);
        Shape s;
        s.rev = islower((unsigned char)one[0]) != 0;
        s.kind = (char)toupper((unsigned char)one[0]);
        s.cls = s.kind == 'K' ? "ring" : s.kind == 'N' ? "plate" : "poly";
        size_t q = 2;
        while (q < one.size()) {
            size_t f = one.find(';', q);
            if (f == std::string::npos) f = one.size();
            long long x, y;
            if (sscanf(one.substr(q, f - q).c_str(), "%lld,%lld", &x, &y) == 2) s.pts.push_back({x, y});
            q = f + 1;
        }
        g.push_back(s);
        p = e + 1;
    }
    return g;
}

// ------------------------------------------------------------------------------------------ groups
struct Group {
    std::vector<Shape> shapes;
    std::string kind, rel;          // e.g. "rect+tri"; single / disjoint / touching / overlapping
    std::vector<eg::Poly> lat;      // lattice vertex lists actually handed to gdstk
    std::vector<Polygon*> gp;
    c13::Pieces pc;
    ld gap = INFINITY;              // min distance between two members
    int comps = 1;                  // connected components of the region
    std::vector<std::array<int64_t, 2>> hole2;  // 2 x centre of every ring hole
    bool may_arc_neg = true;        // shrinking can create round joins (some reflex corner of the region is possible)
    std::string orient;             // winding of every member as handed to gdstk: '+' counter-clockwise, '-' clockwise
    bool mixed = false;             // members of both windings
    bool ok = true;
    void free_all() {
        for (auto* p : gp) { p->clear(); free_allocation(p); }
        gp.clear();
    }
};
// contour (counter-clockwise) with holes (clockwise loops) -> one key-holed vertex list: every hole, in order of its
// lexicographically smallest vertex m, is connected by a horizontal zero-width slit from m to the nearest contour
// edge on its left (contour = outer plus the holes linked so far):  ... prev, p_new, m, <hole>, m, p_new, next ...
static bool link_hole_by_hand(eg::Poly& contour, eg::Poly hole) {
    size_t im = 0;
    for (size_t i = 1; i < hole.size(); i++) if (hole[i] < hole[im]) im = i;
    std::rotate(hole.begin(), hole.begin() + im, hole.end());
    eg::P m = hole[0];
    size_t n = contour.size(), best = n;
    long double bx = 0;
    for (size_t i = 0; i < n; i++) {
        eg::P pp = contour[(i + n - 1) % n], pn = contour[i];
        if ((pn.y <= m.y && m.y < pp.y) || (pp.y < m.y && m.y <= pn.y)) {
            long double x = pn.x + (long double)(pp.x - pn.x) * (m.y - pn.y) / (pp.y - pn.y);
            if (x <= m.x && (best == n || x > bx)) { bx = x; best = i; }
        }
    }
    if (best == n) return false;
    int64_t xi = (int64_t)llroundl(bx);
    if ((long double)xi != bx) return false;  // the slit must end on a lattice point
    eg::P pnew = {xi, m.y};
    eg::Poly ins = {pnew};
    for (auto& v : hole) ins.push_back(v);
    ins.push_back(m);
    if (pnew != contour[best]) ins.push_back(pnew);
    contour.insert(contour.begin() + best, ins.begin(), ins.end());
    return true;
}
// plate (s.pts[0]..s.pts[1]) minus rectangular cut-outs (s.pts[2k]..s.pts[2k+1]) as a key-holed vertex list
static eg::Poly keyholed_plate(const Shape& s, std::string& err) {
    int64_t X0 = s.pts[0].x, Y0 = s.pts[0].y, X1 = s.pts[1].x, Y1 = s.pts[1].y;
    int W = (int)(X1 - X0), H = (int)(Y1 - Y0);
    std::vector<int> comp((size_t)W * H, -1);  // -1: plate material, -2: opening not yet labelled, >= 0: opening id
    for (size_t c = 2; c + 1 < s.pts.size(); c += 2) {
        if (s.pts[c].x <= X0 || s.pts[c].y <= Y0 || s.pts[c + 1].x >= X1 || s.pts[c + 1].y >= Y1) { err = "cut-out reaches the plate edge"; return {}; }
        for (int64_t x = s.pts[c].x; x < s.pts[c + 1].x; x++)
            for (int64_t y = s.pts[c].y; y < s.pts[c + 1].y; y++) comp[(size_t)(y - Y0) * W + (size_t)(x - X0)] = -2;
    }
    auto at = [&](int x, int y) { return (x < 0 || y < 0 || x >= W || y >= H) ? -1 : comp[(size_t)y * W + x]; };
    int ncomp = 0;
    for (int y = 0; y < H; y++)
        for (int x = 0; x < W; x++) {
            if (at(x, y) != -2) continue;
            std::vector<std::pair<int, int>> st = {{x, y}};
            comp[(size_t)y * W + x] = ncomp;
            while (!st.empty()) {
                auto c = st.back(); st.pop_back();
                const int dx[] = {1, -1, 0, 0}, dy[] = {0, 0, 1, -1};
                for (int k = 0; k < 4; k++) {
                    int u = c.first + dx[k], v = c.second + dy[k];
                    if (at(u, v) == -2) { comp[(size_t)v * W + u] = ncomp; st.push_back({u, v}); }
                }
            }
            ncomp++;
        }
    std::vector<eg::Poly> holes;
    for (int id = 0; id < ncomp; id++) {
        // unit boundary edges with the opening on the left (counter-clockwise about the opening)
        std::map<eg::P, eg::P> next;
        size_t nedges = 0;
        auto add = [&](int ax, int ay, int bx, int by) {
            eg::P a = {X0 + ax, Y0 + ay}, b = {X0 + bx, Y0 + by};
            if (next.count(a)) err = "opening pinches at a lattice point";
            next[a] = b;
            nedges++;
        };
        for (int y = 0; y < H; y++)
            for (int x = 0; x < W; x++) {
                if (at(x, y) != id) continue;
                if (at(x, y - 1) != id) add(x, y, x + 1, y);
                if (at(x + 1, y) != id) add(x + 1, y, x + 1, y + 1);
                if (at(x, y + 1) != id) add(x + 1, y + 1, x, y + 1);
                if (at(x - 1, y) != id) add(x, y + 1, x, y);
            }
        if (!err.empty()) return {};
        eg::Poly loop;
        eg::P start = next.begin()->first, cur = start;
        do { loop.push_back(cur); cur = next[cur]; } while (cur != start && loop.size() <= nedges);
        if (loop.size() != nedges) { err = "opening is not simply connected"; return {}; }
        eg::Poly corners;  // drop collinear points
        for (size_t i = 0; i < loop.size(); i++)
            if (eg::cross(loop[(i + loop.size() - 1) % loop.size()], loop[i], loop[(i + 1) % loop.size()]) != 0) corners.push_back(loop[i]);
        std::reverse(corners.begin(), corners.end());  // holes are clockwise
        holes.push_back(corners);
    }
    std::sort(holes.begin(), holes.end(), [](const eg::Poly& a, const eg::Poly& b) { return *std::min_element(a.begin(), a.end()) < *std::min_element(b.begin(), b.end()); });
    eg::Poly contour = {{X0, Y0}, {X1, Y0}, {X1, Y1}, {X0, Y1}};
    for (auto& h : holes)
        if (!link_hole_by_hand(contour, h)) { err = "no lattice link point for a hole"; return {}; }
    return contour;
}
static Polygon* make_polygon(const eg::Poly& p) {
    Polygon* g = (Polygon*)allocate_clear(sizeof(Polygon));
    for (auto& v : p) g->point_array.append(Vec2{(double)v.x, (double)v.y});
    return g;
}
static Group build_group(const std::vector<Shape>& shapes) {
    Group G;
    G.shapes = shapes;
    for (size_t i = 0; i < shapes.size(); i++) {
        const Shape& s = shapes[i];
        G.kind += (i ? "+" : "") + s.cls;
        if (s.kind == 'P') {
            eg::Poly p = s.pts;
            if (s.rev) std::reverse(p.begin(), p.end());
            G.lat.push_back(p);
            G.gp.push_back(make_polygon(p));
        } else {
            // key-holed polygon built BY HAND (no library call in the setup): plate minus its rectangular cut-outs
            // as one vertex list with zero-width slits, in the layout gdstk's own hole linking produces.
            // kind 'K': one cut-out; kind 'N' (plate): any number, overlapping (L/Z openings) or separate.
            std::string err;
            eg::Poly lp = keyholed_plate(s, err);
            if (!err.empty()) { R->internal_error("harness bug: " + err + ": " + spec_of(s)); G.ok = false; continue; }
            // own check: the vertex list covers exactly plate minus cut-outs (own winding, samples (i+1/3, j+1/7))
            {
                eg::Poly l21;
                for (auto& v : lp) l21.push_back({v.x * 21, v.y * 21});
                for (int64_t i = s.pts[0].x - 1; i <= s.pts[1].x; i++)
                    for (int64_t j = s.pts[0].y - 1; j <= s.pts[1].y; j++) {
                        eg::P q = {(3 * i + 1) * 7, (7 * j + 1) * 3};
                        bool in_o = i >= s.pts[0].x && i < s.pts[1].x && j >= s.pts[0].y && j < s.pts[1].y;
                        bool in_i = false;
                        for (size_t c = 2; c + 1 < s.pts.size(); c += 2)
                            if (i >= s.pts[c].x && i < s.pts[c + 1].x && j >= s.pts[c].y && j < s.pts[c + 1].y) in_i = true;
                        if ((eg::winding(l21, q) != 0) != (in_o && !in_i)) { R->internal_error("harness bug: key-holed vertex list does not cover plate minus cut-outs: " + spec_of(s)); G.ok = false; }
                    }
            }
            if (s.rev) std::reverse(lp.begin(), lp.end());
            G.lat.push_back(lp);
            G.gp.push_back(make_polygon(lp));
            if (s.kind == 'K') G.hole2.push_back({s.pts[2].x + s.pts[3].x, s.pts[2].y + s.pts[3].y});
        }
    }
    for (auto& p : G.lat) G.orient += eg::area2(p) > 0 ? '+' : '-';
    G.mixed = G.orient.find('+') != std::string::npos && G.orient.find('-') != std::string::npos;
    G.pc = c13::extract_pieces(G.lat);
    if (G.pc.anomalies) { R->internal_error("edge piece with the region on neither side: " + spec_of(shapes)); G.ok = false; }
    for (size_t i = 0; i < G.lat.size(); i++)
        for (size_t j = i + 1; j < G.lat.size(); j++) G.gap = std::min(G.gap, c13::poly_gap(G.lat[i], G.lat[j]));
    if (G.lat.size() == 1) G.rel = "single";
    else if (G.pc.overlapping) G.rel = "overlapping";
    else if (G.gap == 0) G.rel = "touching";
    else G.rel = "disjoint";
    // nested members (one strictly inside the other, boundaries apart) are caught by pc.overlapping;
    // a member inside a ring's hole is disjoint.
    {  // connected components of the region: members are connected when their boundaries meet or one has a
       // vertex strictly inside the other (an island in the hole of a key-holed ring is NOT connected to it)
        size_t n = G.lat.size();
        std::vector<size_t> root(n);
        for (size_t i = 0; i < n; i++) root[i] = i;
        std::function<size_t(size_t)> find = [&](size_t i) { return root[i] == i ? i : root[i] = find(root[i]); };
        for (size_t i = 0; i < n; i++)
            for (size_t j = i + 1; j < n; j++) {
                bool conn = c13::poly_gap(G.lat[i], G.lat[j]) == 0;
                for (auto& v : G.lat[i]) if (!conn && !eg::on_boundary(G.lat[j], v) && eg::winding(G.lat[j], v) != 0) conn = true;
                for (auto& v : G.lat[j]) if (!conn && !eg::on_boundary(G.lat[i], v) && eg::winding(G.lat[i], v) != 0) conn = true;
                if (conn) root[find(i)] = find(j);
            }
        G.comps = 0;
        for (size_t i = 0; i < n; i++) if (find(i) == i) G.comps++;
    }
    {  // every member convex and no two members in contact => the region has no reflex corner
        bool convex = true;
        for (auto& p : G.lat) {
            int sg = 0;
            for (size_t i = 0; i < p.size(); i++) {
                int c = eg::sgn(eg::cross(p[i], p[(i + 1) % p.size()], p[(i + 2) % p.size()]));
                if (c != 0 && sg != 0 && c != sg) convex = false;
                if (c != 0) sg = c;
            }
        }
        G.may_arc_neg = !(convex && (G.lat.size() == 1 || G.rel == "disjoint"));
    }
    return G;
}
static std::string group_json(const Group& G) {
    std::vector<std::string> ps;
    for (auto& p : G.lat) {
        std::vector<std::string> vs;
        for (auto& v : p) vs.push_back(fmt("[%lld,%lld]", (long long)v.x, (long long)v.y));
        ps.push_back(jarr(vs));
    }
    return jobj({{"spec", jstr(spec_of(G.shapes))}, {"kind", jstr(G.kind)}, {"relation", jstr(G.rel)}, {"winding", jstr(G.orient)}, {"polygons", jarr(ps)}});
}

// ------------------------------------------------------------------------------------------ configurations
static const double DIST[] = {0.2, 0.5, 1, 1.7, 3};
struct Join { const char* name; OffsetJoin j; double tol; double reach; };
static const Join JOINS[] = {
    {"miter2", OffsetJoin::Miter, 2, 2.0},
    {"miter3", OffsetJoin::Miter, 3, 3.0},
    {"bevel", OffsetJoin::Bevel, 2, 1.4142135623730951},
    {"round8", OffsetJoin::Round, 8, 1.0},
    {"round32", OffsetJoin::Round, 32, 1.0},
};
// index 0,1: the standard pair; 2..4: large scalings (Clipper's full-range mode: scaling*coordinate > 2^30;
// 1e12 * (5 + 3*3 + margin) ~ 2e13 stays far inside the 62-bit range); 5,6: smallest scalings (grid = 1 and 1/8
// lattice unit; lattice features of width >= 1 are not narrower than the grid)
static const double SCALINGS[] = {1000.0, 1048576.0, 2147483648.0, 1e9, 1e12, 1.0, 8.0};
static const char* SCALING_NAMES[] = {"1000", "2^20", "2^31", "1e9", "1e12", "1", "8"};
static const int NSCALINGS = 7;
struct Cfg { double d; int join; bool uni; int sc; };
// order: |d| ascending, sign +/-, join, union, scaling  (smallest first)
static std::vector<Cfg> all_cfgs(const std::vector<int>& scs = {0, 1}) {
    std::vector<Cfg> v;
    for (double a : DIST)
        for (int sg = 0; sg < 2; sg++)
            for (int j = 0; j < 5; j++)
                for (int u = 0; u < 2; u++)
                    for (int s : scs) v.push_back({sg ? -a : a, j, u != 0, s});
    return v;
}
static std::string cfg_str(const Cfg& c) { return fmt("d=%g join=%s uni=%d sc=%d", c.d, JOINS[c.join].name, c.uni ? 1 : 0, c.sc); }
static std::string cfg_json(const Cfg& c) {
    return jobj({{"distance", jnum(c.d)}, {"join", jstr(JOINS[c.join].name)}, {"tolerance", jnum(JOINS[c.join].tol)}, {"use_union", jbool(c.uni)}, {"scaling", jnum(SCALINGS[c.sc])}});
}

// ------------------------------------------------------------------------------------------ one case
static const int MARGIN = 11;   // field window = group bounding box +- 11 lattice units (max reach 9 + 1.5)
static const int64_t KM = 84;   // results and samples are compared in units of 1/(84*scaling) lattice units
struct Result {
    std::vector<eg::Poly> polys;
    std::vector<std::array<int64_t, 4>> bb;
    ErrorCode ec = ErrorCode::NoError;
    int64_t nverts = 0;
    eg::i128 area2 = 0;  // sum of |2*area| over result polygons (slits contribute nothing)
    ld perimeter = 0;
};
// polygon_overload: call the inline `offset(const Polygon&, ...)` overload (single-member groups only)
static Result call_offset(const Group& G, const Cfg& c, bool polygon_overload = false) {
    Result res;
    Array<Polygon*> in = {};
    for (auto* p : G.gp) in.append(p);
    Array<Polygon*> out = {};
    double sc = SCALINGS[c.sc];
    if (polygon_overload) res.ec = offset(*G.gp[0], c.d, JOINS[c.join].j, JOINS[c.join].tol, sc, c.uni, out);
    else res.ec = offset(in, c.d, JOINS[c.join].j, JOINS[c.join].tol, sc, c.uni, out);
    in.clear();
    for (uint64_t i = 0; i < out.count; i++) {
        Polygon* p = out[i];
        eg::Poly q;
        std::array<int64_t, 4> b = {INT64_MAX, INT64_MAX, INT64_MIN, INT64_MIN};
        for (uint64_t k = 0; k < p->point_array.count; k++) {
            Vec2 v = p->point_array[k];
            eg::P w = {(int64_t)llround(v.x * sc) * KM, (int64_t)llround(v.y * sc) * KM};
            q.push_back(w);
            b[0] = std::min(b[0], w.x); b[1] = std::min(b[1], w.y); b[2] = std::max(b[2], w.x); b[3] = std::max(b[3], w.y);
        }
        res.nverts += (int64_t)q.size();
        eg::i128 a = eg::area2(q);
        res.area2 += a < 0 ? -a : a;
        for (size_t k = 0; k < q.size(); k++) {
            eg::P u = q[k], w = q[(k + 1) % q.size()];
            res.perimeter += sqrtl((ld)(u.x - w.x) * (u.x - w.x) + (ld)(u.y - w.y) * (u.y - w.y));
        }
        res.polys.push_back(q);
        res.bb.push_back(b);
        p->clear();
        free_allocation(p);
    }
    out.clear();
    return res;
}
// number of result polygons strictly containing q (non-zero winding); on_b set if q is on some boundary
static int cover_count(const Result& res, eg::P q, bool& on_b) {
    int n = 0;
    on_b = false;
    for (size_t i = 0; i < res.polys.size(); i++) {
        auto& b = res.bb[i];
        if (q.x < b[0] || q.x > b[2] || q.y < b[1] || q.y > b[3]) continue;
        int l = c13::locate(res.polys[i], q);
        if (l == 1) n++;
        else if (l == 2) on_b = true;
    }
    return n;
}
static eg::P sample_pt(int i, int j, int r, int64_t S) { return {(3 * (int64_t)i + 1) * S * 28 / r, (7 * (int64_t)j + 1) * S * 12 / r}; }
static std::string result_json(const Result& res, double sc) {
    std::vector<std::string> ps;
    for (auto& p : res.polys) {
        std::vector<std::string> vs;
        for (size_t k = 0; k < p.size() && k < 80; k++) vs.push_back(fmt("[%.14g,%.14g]", (double)(p[k].x / KM) / sc, (double)(p[k].y / KM) / sc));
        if (p.size() > 80) vs.push_back(jstr(fmt("... %zu vertices", p.size())));
        ps.push_back(jarr(vs));
        if (ps.size() >= 6) break;
    }
    return jarr(ps);
}
struct Tally { int64_t must_cover = 0, must_not = 0, dc_band = 0, dc_slit = 0, overlap_nounion = 0; };

static void window(const c13::Field& F, double ext, int& i0, int& i1, int& j0, int& j1) {
    int bx0 = F.lox + MARGIN, bx1 = F.hix - MARGIN, by0 = F.loy + MARGIN, by1 = F.hiy - MARGIN;
    int lx = std::max(F.lox, (int)floor(bx0 - ext)), hx = std::min(F.hix, (int)ceil(bx1 + ext));
    int ly = std::max(F.loy, (int)floor(by0 - ext)), hy = std::min(F.hiy, (int)ceil(by1 + ext));
    i0 = lx * F.r; i1 = hx * F.r; j0 = ly * F.r; j1 = hy * F.r;
}

// judge one executed case; returns number of violating samples
static int64_t judge(const Group& G, const c13::Field& F, const Cfg& c, const Result& res, const std::string& sub, Tally& t, const char* overload = "array") {
    const Join& J = JOINS[c.join];
    const double sc = SCALINGS[c.sc];
    const int64_t S = (int64_t)sc;
    const double r = fabs(c.d), Rr = r * J.reach, g = 3.0 / sc + 1e-11;
    const bool grow = c.d > 0, round = J.j == OffsetJoin::Round;
    const double cNom = round ? cos(M_PI / J.tol) : 1.0, cN = round ? cos(1.5 * M_PI / J.tol) : 1.0;
    const bool slit_dc = !grow && !c.uni && !G.pc.internal.empty();
    std::string replay = "sub=" + sub + " spec=" + spec_of(G.shapes) + " " + cfg_str(c) + fmt(" r=%d", F.r);
    JFields tags = {{"sign", jstr(grow ? "pos" : "neg")}, {"join", jstr(J.name)}, {"use_union", jbool(c.uni)},
                    {"scaling", jnum(sc)}, {"relation", jstr(G.rel)}, {"group", jstr(G.kind)},
                    {"has_internal_edges", jbool(!G.pc.internal.empty())}, {"abs_distance", jnum(r)}, {"winding", jstr(G.orient)}, {"mixed_winding", jbool(G.mixed)}, {"overload", jstr(overload)}};
    std::string cj = jobj({{"group", group_json(G)}, {"config", cfg_json(c)}, {"refinement", jint(F.r)}, {"overload", jstr(overload)}});
    int i0, i1, j0, j1;
    window(F, grow ? Rr + 1.5 : 1.0, i0, i1, j0, j1);
    struct Bad { int64_t n = 0; std::string first; };
    std::map<std::string, Bad> bad;
    for (int j = j0; j < j1; j++)
        for (int i = i0; i < i1; i++) {
            size_t k = F.at(i, j);
            bool inside = F.inside[k];
            bool inA = grow ? inside : !inside;
            // signed distance to A: negative (minus the depth) inside A.  The ideal boundary of G is at signed
            // distance r, so a sample inside A is judged only if depth + r exceeds the rounding guard (this only
            // matters at the smallest scalings, where the guard is as large as the features).
            double rho = inA ? -(grow ? F.dIn[k] : F.dOut[k]) : (grow ? F.dOut[k] : F.dIn[k]);
            bool corner = inA ? false : (grow ? F.vOut[k] : F.vIn[k]);
            double lower = (round && corner) ? r * cN : r;
            int expG;  // 1: must be in G, 0: must not, -1: don't-care
            if (rho < lower - g) expG = 1;
            else if (rho > Rr + g) expG = 0;
            else expG = -1;
            if (expG >= 0 && slit_dc && F.dInt[k] <= Rr + g) { t.dc_slit++; expG = -2; }
            if (expG == -1) t.dc_band++;
            eg::P q = sample_pt(i, j, F.r, S);
            bool on_b;
            int cc = cover_count(res, q, on_b);
            if (expG == -1 && round && corner && rho < r * cNom - g) {
                // between the 1.5-step bound and the nominal N-points-per-circle bound: record what is left out
                bool inG = grow ? (cc > 0 || on_b) : !(cc > 0 || on_b);
                if (!inG) R->count(fmt("round_gap:%s:ratio_%.2f", J.name, floor(rho / r * 100) / 100));
            }
            if (cc >= 2) {
                if (c.uni) {
                    Bad& b = bad["overlap"];
                    if (!b.n++) b.first = fmt("sample (%.6Lf,%.6Lf) has non-zero winding in %d result polygons", F.sx(i), F.sy(j), cc);
                } else t.overlap_nounion++;
            }
            if (expG < 0) continue;
            bool covered = cc > 0 || on_b;
            bool expect_cov = grow ? (expG == 1) : (expG == 0);
            if (expect_cov) t.must_cover++; else t.must_not++;
            if (covered == expect_cov) continue;
            std::string cls = expect_cov ? "must_cover" : "must_not_cover";
            Bad& b = bad[cls];
            if (!b.n++)
                b.first = fmt("sample (%.6Lf,%.6Lf) %s region; distance to %s = %.9g (%s); |d|=%g lower=%.9g reach R=%.9g guard=%.3g; result %s it",
                              F.sx(i), F.sy(j), inside ? "inside" : "outside", grow ? "region" : "complement", rho,
                              inA ? "in A" : corner ? "nearest point is a corner" : "nearest point is interior to an edge", r, lower, Rr, g,
                              covered ? "covers" : "does not cover");
        }
    int64_t nbad = 0;
    for (auto& kv : bad) {
        nbad += kv.second.n;
        JFields tg = tags;
        tg.push_back({"kind", jstr(kv.first)});
        R->violation(sub, kv.first, tg, cj,
                     kv.second.first + fmt("; %lld sample(s) of this class in the case; result=", (long long)kv.second.n) + result_json(res, sc), replay);
    }
    if (res.ec != ErrorCode::NoError) {
        if (nbad == 0) {
            // region is fine at every judged sample: not a violation of this property, counted and noted
            R->count("error_code_with_region_ok");
            static int noted = 0;
            if (!noted++) R->note("offset returned ErrorCode " + std::to_string((int)res.ec) + " although every judged sample is satisfied (counter error_code_with_region_ok): " + spec_of(G.shapes) + " " + cfg_str(c));
        } else {
            JFields tg = tags;
            tg.push_back({"kind", jstr("error_code")});
            tg.push_back({"error_code", jint((int)res.ec)});
            R->violation(sub, "error_code", tg, cj, fmt("offset returned ErrorCode %d (1 = BooleanError: a hole of the result could not be linked to its outer contour) and %lld region sample(s) fail; result=", (int)res.ec, (long long)nbad) + result_json(res, sc), replay);
        }
        if (VERBOSE) fprintf(stderr, "ErrorCode %d\n", (int)res.ec);
    }
    if (VERBOSE) {
        fprintf(stderr, "case %s %s\n  result (%zu polygons): %s\n  violating samples: %lld\n", spec_of(G.shapes).c_str(), cfg_str(c).c_str(), res.polys.size(), result_json(res, sc).c_str(), (long long)nbad);
        for (auto& kv : bad) fprintf(stderr, "  %s x%lld: %s\n", kv.first.c_str(), (long long)kv.second.n, kv.second.first.c_str());
    }
    return nbad;
}

// is (d, union) x group inside the alphabet, and under which sub-check is it judged?
static const char* admit(const Group& G, const Cfg& c, const char* sub) {
    if (c.d > 0 || c.uni || G.lat.size() == 1) return sub;
    if (G.rel != "disjoint") return NULL;  // d<0 without union: touching/overlapping members are out of the alphabet
    if ((double)G.gap > 2 * fabs(c.d) + 1.0 / SCALINGS[c.sc]) return sub;
    return "offset.pairs_neargap";
}

static double ARC_BUDGET = 5e4;  // quick 5e4, thorough 3e5 vertices per quarter arc
static void run_case(const Group& G, const c13::Field& F, const Cfg& c, const char* sub0, Result* keep = NULL) {
    const char* sub = admit(G, c, sub0);
    if (!sub) { R->count("skipped_out_of_alphabet"); return; }
    if (c.d < 0 && JOINS[c.join].j == OffsetJoin::Round && G.may_arc_neg) {
        // for d<0 gdstk's ArcTolerance is negative, Clipper falls back to 0.25 grid units: a quarter arc has
        // (pi/2)/sqrt(0.5/(|d|*scaling)) vertices (2e4 at 1000*2^20... up to 1e6 at 1e12).  Cases above the tier's
        // vertex budget are not executed (cost only; counted, never reported as covered).
        double est = (M_PI / 2) / sqrt(0.5 / (fabs(c.d) * SCALINGS[c.sc]));
        if (est > ARC_BUDGET) { R->count("skipped_arc_vertex_budget"); return; }
    }
    double ta = now();
    Result res = call_offset(G, c);
    double tb = now();
    Tally t;
    judge(G, F, c, res, sub, t);
    R->count("cpu_us_offset_call", (int64_t)((tb - ta) * 1e6));
    R->count("cpu_us_oracle", (int64_t)((now() - tb) * 1e6));
    R->count("cases");
    R->count("samples_must_cover", t.must_cover);
    R->count("samples_must_not_cover", t.must_not);
    R->count("samples_dontcare_band", t.dc_band);
    R->count("samples_dontcare_slit", t.dc_slit);
    if (t.overlap_nounion) R->count("samples_overlap_nounion", t.overlap_nounion);
    if (G.gp.size() == 1) {
        // every single-member case also goes through the inline `offset(const Polygon&, ...)` overload: same oracle,
        // and both overloads must give the same covered region for the same arguments.  An identical vertex list has
        // the verdict already given; anything else is judged again and compared sample by sample.
        Result r2 = call_offset(G, c, true);
        R->count("cases");
        R->count("cases_polygon_overload");
        if (r2.ec == res.ec && r2.polys == res.polys) R->count("polygon_overload_identical_result");
        else {
            Tally t2;
            judge(G, F, c, r2, sub, t2, "polygon");
            R->count("samples_must_cover", t2.must_cover);
            R->count("samples_must_not_cover", t2.must_not);
            R->count("samples_dontcare_band", t2.dc_band);
            R->count("samples_dontcare_slit", t2.dc_slit);
            const double sc = SCALINGS[c.sc];
            const ld guard = 3.0L * KM;
            int i0, i1, j0, j1;
            window(F, c.d > 0 ? fabs(c.d) * JOINS[c.join].reach + 1.5 : 1.0, i0, i1, j0, j1);
            int64_t nd = 0;
            std::string first;
            for (int j = j0; j < j1; j++)
                for (int i = i0; i < i1; i++) {
                    eg::P q = sample_pt(i, j, F.r, (int64_t)sc);
                    bool oa, ob;
                    bool ca = cover_count(res, q, oa) > 0 || oa, cb = cover_count(r2, q, ob) > 0 || ob;
                    if (ca == cb) continue;
                    if (eg::dist_boundary(res.polys, q) <= guard || eg::dist_boundary(r2.polys, q) <= guard) continue;
                    if (!nd++) first = fmt("sample (%.6Lf,%.6Lf): Array overload %s, Polygon overload %s", F.sx(i), F.sy(j), ca ? "covers" : "does not cover", cb ? "covers" : "does not cover");
                }
            if (nd)
                R->violation(sub, "overload_disagree",
                             {{"sign", jstr(c.d > 0 ? "pos" : "neg")}, {"join", jstr(JOINS[c.join].name)}, {"use_union", jbool(c.uni)}, {"scaling", jnum(sc)}, {"group", jstr(G.kind)}, {"has_internal_edges", jbool(!G.pc.internal.empty())}, {"kind", jstr("overload_disagree")}},
                             jobj({{"group", group_json(G)}, {"config", cfg_json(c)}, {"refinement", jint(F.r)}}),
                             first + fmt("; %lld sample(s); array result=", (long long)nd) + result_json(res, sc) + " polygon result=" + result_json(r2, sc),
                             "sub=" + std::string(sub) + " spec=" + spec_of(G.shapes) + " " + cfg_str(c) + fmt(" r=%d", F.r));
        }
    }
    // non-trivial (measured on the result): component vanished/split, components merged, hole closed
    bool nt = false;
    int np = (int)res.polys.size();
    if (c.d < 0 && np < G.comps) { R->count("nt_vanished"); nt = true; }
    if (c.d < 0 && np > G.comps) { R->count("nt_split"); nt = true; }
    if (c.d > 0 && np < G.comps) { R->count("nt_merged"); nt = true; }
    if (c.d > 0)
        for (auto& h : G.hole2) {
            eg::P q = {h[0] * (int64_t)SCALINGS[c.sc] * KM / 2, h[1] * (int64_t)SCALINGS[c.sc] * KM / 2};
            bool ob;
            if (cover_count(res, q, ob) > 0 || ob) { R->count("nt_hole_closed"); nt = true; }
        }
    if (nt) R->count("nontrivial");
    if (G.mixed) R->count("cases_mixed_winding");
    else if (G.orient.find('-') != std::string::npos) R->count("cases_all_clockwise");
    R->outcome(sub, fmt("%s|%s|%s|np=%d|ec=%d", G.kind.c_str(), G.rel.c_str(), c.d > 0 ? "+" : "-", np, (int)res.ec));
    if (keep) *keep = std::move(res);
}

// ------------------------------------------------------------------------------------------ alphabets
static const int LAT = 5;  // lattice points 0..5 in both axes ("6x6 lattice", feature sizes 1..5)
static void canon_translate(std::vector<Shape>& g) {
    int64_t mx = INT64_MAX, my = INT64_MAX;
    for (auto& s : g) { int64_t a, b, c, d; bbox(s, a, b, c, d); mx = std::min(mx, a); my = std::min(my, b); }
    for (auto& s : g) s = translated(s, (int)-mx, (int)-my);
}
// single shapes; all_positions=false keeps one representative per translation class (bbox min at origin)
static std::vector<std::vector<Shape>> singles(const std::string& cls, bool all_positions, bool both_orient, int lat = LAT) {
    std::vector<std::vector<Shape>> out;
    std::vector<Shape> base;
    if (cls == "rect") {
        for (int w = 1; w <= LAT; w++) for (int h = 1; h <= LAT; h++) base.push_back(rect(0, 0, w, h));
    } else if (cls == "L") {
        for (int w = 2; w <= lat; w++) for (int h = 2; h <= lat; h++)
            for (int c = 0; c < 4; c++) for (int nw = 1; nw < w; nw++) for (int nh = 1; nh < h; nh++) base.push_back(lshape(0, 0, w, h, c, nw, nh));
    } else if (cls == "tri") {
        int n = (lat + 1) * (lat + 1);
        for (int a = 0; a < n; a++) for (int b = a + 1; b < n; b++) for (int c = b + 1; c < n; c++) {
            eg::P A = {a / (lat + 1), a % (lat + 1)}, B = {b / (lat + 1), b % (lat + 1)}, C = {c / (lat + 1), c % (lat + 1)};
            eg::i128 cr = eg::cross(A, B, C);
            if (cr == 0) continue;
            if (std::min({A.x, B.x, C.x}) != 0 || std::min({A.y, B.y, C.y}) != 0) continue;
            base.push_back(cr > 0 ? tri(A, B, C) : tri(A, C, B));
        }
    } else if (cls == "ring") {
        for (int W = 3; W <= LAT; W++) for (int H = 3; H <= LAT; H++)
            for (int x0 = 1; x0 < W - 1; x0++) for (int x1 = x0 + 1; x1 < W; x1++)
                for (int y0 = 1; y0 < H - 1; y0++) for (int y1 = y0 + 1; y1 < H; y1++) base.push_back(ring(0, 0, W, H, x0, y0, x1, y1));
    }
    // smallest first: by bounding-box area, then vertex count
    std::stable_sort(base.begin(), base.end(), [](const Shape& a, const Shape& b) {
        int64_t ax0, ay0, ax1, ay1, bx0, by0, bx1, by1;
        bbox(a, ax0, ay0, ax1, ay1); bbox(b, bx0, by0, bx1, by1);
        return (ax1 - ax0) * (ay1 - ay0) < (bx1 - bx0) * (by1 - by0);
    });
    for (auto& s : base) {
        int64_t x0, y0, x1, y1;
        bbox(s, x0, y0, x1, y1);
        for (int dx = 0; dx <= (all_positions ? LAT - (int)x1 : 0); dx++)
            for (int dy = 0; dy <= (all_positions ? LAT - (int)y1 : 0); dy++) {
                out.push_back({translated(s, dx, dy)});
                if (both_orient) {
                    Shape t = translated(s, dx, dy);
                    t.rev = true;
                    out.push_back({t});
                }
            }
    }
    return out;
}
// pair alphabet: base shapes (anchored at the origin) placed at every position of the lattice, unordered
// pairs, one representative per translation class of the pair
static std::vector<Shape> pair_bases(bool thorough) {
    std::vector<Shape> b;
    if (!thorough) {
        b = {rect(0, 0, 1, 1), rect(0, 0, 2, 1),
             lshape(0, 0, 2, 2, 0, 1, 1),
             tri({0, 0}, {2, 1}, {1, 3}),
             ring(0, 0, 3, 3, 1, 1, 2, 2)};
        return b;
    }
    for (int w = 1; w <= 3; w++) for (int h = 1; h <= 3; h++) b.push_back(rect(0, 0, w, h));
    b.push_back(rect(0, 0, 4, 1)); b.push_back(rect(0, 0, 1, 4)); b.push_back(rect(0, 0, 5, 1)); b.push_back(rect(0, 0, 1, 5));
    for (int c = 0; c < 4; c++) { b.push_back(lshape(0, 0, 2, 2, c, 1, 1)); b.push_back(lshape(0, 0, 3, 3, c, 2, 2)); }
    b.push_back(lshape(0, 0, 3, 2, 0, 2, 1)); b.push_back(lshape(0, 0, 2, 3, 2, 1, 2));
    b.push_back(tri({0, 0}, {2, 0}, {0, 2})); b.push_back(tri({0, 0}, {2, 0}, {2, 2})); b.push_back(tri({2, 0}, {2, 2}, {0, 2})); b.push_back(tri({0, 0}, {2, 2}, {0, 2}));
    b.push_back(tri({0, 0}, {2, 0}, {1, 2})); b.push_back(tri({0, 0}, {2, 1}, {0, 2})); b.push_back(tri({0, 0}, {2, 1}, {1, 3}));
    b.push_back(tri({0, 0}, {3, 0}, {0, 1})); b.push_back(tri({0, 0}, {3, 0}, {1, 1})); b.push_back(tri({0, 0}, {1, 0}, {3, 2})); b.push_back(tri({0, 1}, {3, 0}, {1, 3}));
    b.push_back(ring(0, 0, 3, 3, 1, 1, 2, 2)); b.push_back(ring(0, 0, 4, 4, 1, 1, 3, 3)); b.push_back(ring(0, 0, 4, 3, 1, 1, 3, 2)); b.push_back(ring(0, 0, 5, 5, 2, 2, 3, 3));
    return b;
}
static std::vector<std::vector<Shape>> pairs(bool thorough) {
    std::vector<Shape> placed;
    for (auto& s : pair_bases(thorough)) {
        int64_t x0, y0, x1, y1;
        bbox(s, x0, y0, x1, y1);
        for (int dx = 0; dx + x1 <= LAT; dx++) for (int dy = 0; dy + y1 <= LAT; dy++) placed.push_back(translated(s, dx, dy));
    }
    std::set<std::string> seen;
    std::vector<std::vector<Shape>> out;
    for (size_t i = 0; i < placed.size(); i++)
        for (size_t j = i; j < placed.size(); j++) {
            std::vector<Shape> g = {placed[i], placed[j]};
            canon_translate(g);
            std::string k1 = spec_of(g);
            std::swap(g[0], g[1]);
            std::string k2 = spec_of(g);
            if (seen.count(k1) || seen.count(k2)) continue;
            seen.insert(k2);
            out.push_back(g);
        }
    // smallest first: by bounding-box area of the pair
    std::stable_sort(out.begin(), out.end(), [](const std::vector<Shape>& a, const std::vector<Shape>& b) {
        auto area = [](const std::vector<Shape>& g) {
            int64_t X0 = INT64_MAX, Y0 = INT64_MAX, X1 = INT64_MIN, Y1 = INT64_MIN;
            for (auto& s : g) { int64_t x0, y0, x1, y1; bbox(s, x0, y0, x1, y1); X0 = std::min(X0, x0); Y0 = std::min(Y0, y0); X1 = std::max(X1, x1); Y1 = std::max(Y1, y1); }
            return (X1 - X0) * (Y1 - Y0);
        };
        return area(a) < area(b);
    });
    return out;
}
// every assignment of windings to the members of a group (2^k, k <= 3); identity (nothing reversed) optional
static std::vector<std::vector<Shape>> winding_variants(const std::vector<Shape>& g, bool with_identity) {
    std::vector<std::vector<Shape>> out;
    if (g.size() > 3) { if (with_identity) out.push_back(g); return out; }
    for (unsigned m = with_identity ? 0 : 1; m < (1u << g.size()); m++) {
        std::vector<Shape> v = g;
        for (size_t i = 0; i < g.size(); i++) v[i].rev = (m >> i) & 1;
        out.push_back(v);
    }
    return out;
}
// reduced alphabet for the large- and small-scaling dimension: shapes with exactly mirrored slopes at a corner
// (diamonds = squares on a corner, isosceles triangles in 4 directions, chevrons / zigzags, octagon, hexagon)
// next to rectangles, L shapes and a ring; singles in both windings; pairs disjoint / touching (corner, edge) /
// overlapping / nested.
static Shape poly(std::initializer_list<eg::P> pts, const char* cls) { return {'P', eg::Poly(pts), cls}; }
static std::vector<std::vector<Shape>> extreme_scaling_groups(bool thorough) {
    auto diamond = [](int cx, int cy, int h) { return poly({{cx, cy - h}, {cx + h, cy}, {cx, cy + h}, {cx - h, cy}}, "diamond"); };
    std::vector<Shape> S = {
        diamond(1, 1, 1), diamond(2, 2, 2),
        poly({{0, 0}, {2, 0}, {1, 2}}, "iso"), poly({{0, 2}, {1, 0}, {2, 2}}, "iso"), poly({{0, 0}, {2, 1}, {0, 2}}, "iso"), poly({{2, 0}, {2, 2}, {0, 1}}, "iso"),
        poly({{0, 0}, {4, 0}, {2, 1}}, "iso"), poly({{0, 0}, {2, 0}, {1, 3}}, "iso"),
        poly({{0, 0}, {1, 1}, {2, 0}, {2, 2}, {1, 3}, {0, 2}}, "chevron"), poly({{0, 0}, {2, 0}, {3, 1}, {2, 2}, {0, 2}, {1, 1}}, "chevron"),
        poly({{0, 0}, {1, 1}, {2, 0}, {3, 1}, {4, 0}, {4, 2}, {0, 2}}, "zigzag"),
        poly({{1, 0}, {2, 0}, {3, 1}, {3, 2}, {2, 3}, {1, 3}, {0, 2}, {0, 1}}, "octagon"), poly({{1, 0}, {3, 0}, {4, 1}, {3, 2}, {1, 2}, {0, 1}}, "hexagon"),
        rect(0, 0, 1, 1), rect(0, 0, 3, 1), rect(0, 0, 2, 5), lshape(0, 0, 2, 2, 0, 1, 1), lshape(0, 0, 4, 3, 2, 3, 1),
        ring(0, 0, 3, 3, 1, 1, 2, 2),
    };
    for (auto& s : S)
        if (s.kind == 'P' && !eg::is_simple(s.pts, true)) R->internal_error("non-simple shape in the scaling alphabet: " + spec_of(s));
    std::vector<std::vector<Shape>> out;
    for (auto& s : S) {
        out.push_back({s});
        Shape t = s;
        t.rev = true;
        if (thorough || s.cls == "diamond" || s.cls == "iso") out.push_back({t});
    }
    auto at = [](Shape s, int dx, int dy) { return translated(s, dx, dy); };
    Shape d1 = diamond(1, 1, 1), iso = poly({{0, 0}, {2, 0}, {1, 2}}, "iso"), isod = poly({{0, 2}, {1, 0}, {2, 2}}, "iso");
    std::vector<std::vector<Shape>> P = {
        {d1, at(d1, 2, 0)},            // touching at a corner
        {d1, at(d1, 1, 1)},            // sharing an edge
        {d1, at(d1, 1, 0)},            // overlapping
        {d1, at(d1, 3, 0)},            // disjoint, gap 1
        {d1, at(d1, 2, 2)},            // disjoint diagonal (gap sqrt2)
        {diamond(2, 2, 2), at(d1, 1, 1)},   // nested
        {d1, rect(2, 0, 3, 2)},        // diamond corner on a rectangle edge
        {d1, rect(0, 2, 2, 3)},        // diamond corner on a rectangle edge (top)
        {iso, at(isod, 0, 2)},         // apex to apex
        {iso, at(iso, 2, 0)},          // base corners touching
        {iso, at(isod, 1, 0)},         // sharing a slanted edge
        {iso, at(iso, 1, 0)},          // overlapping
        {iso, rect(0, -1, 2, 0)},      // triangle on a rectangle (house)
        {rect(0, 0, 2, 1), rect(0, 1, 1, 2)},   // L from two rectangles
        {rect(0, 0, 1, 1), rect(2, 0, 3, 1)},   // disjoint squares
        {ring(0, 0, 3, 3, 1, 1, 2, 2), at(d1, 3, 0)},  // ring with a diamond touching its side
    };
    for (auto& g : P) {
        out.push_back(g);
        if (thorough) for (auto& v : winding_variants(g, false)) out.push_back(v);
        else { auto v = g; v[1].rev = true; out.push_back(v); }
    }
    for (auto& g : out) canon_translate(g);
    return out;
}
// nested groups: closed frames (4 abutting bars / 4 overlapping bars / one key-holed ring) around 1 or 2 inner
// shapes (square, diamond, L; the inner shapes in both windings), and two levels of nesting (frame in frame
// around a centre square).  The result PolyTree then has islands inside holes (depth 3 and 5).
static std::vector<std::vector<Shape>> nested_groups() {
    auto frame = [](int kind, int x0, int y0, int x1, int y1) {
        std::vector<Shape> f;
        if (kind == 0) f = {rect(x0, y0, x1, y0 + 1), rect(x0, y1 - 1, x1, y1), rect(x0, y0 + 1, x0 + 1, y1 - 1), rect(x1 - 1, y0 + 1, x1, y1 - 1)};   // abutting bars
        else if (kind == 1) f = {rect(x0, y0, x1, y0 + 1), rect(x0, y1 - 1, x1, y1), rect(x0, y0, x0 + 1, y1), rect(x1 - 1, y0, x1, y1)};               // overlapping bars
        else f = {ring(x0, y0, x1, y1, x0 + 1, y0 + 1, x1 - 1, y1 - 1)};                                                                              // key-holed ring
        for (auto& s : f) if (s.cls == "rect") s.cls = "bar";
        return f;
    };
    auto diamond = [](int cx, int cy) { return poly({{cx, cy - 1}, {cx + 1, cy}, {cx, cy + 1}, {cx - 1, cy}}, "diamond"); };
    std::vector<std::vector<Shape>> out;
    auto add = [&](std::vector<Shape> g, std::vector<Shape> inner) {
        // every winding assignment of the inner shapes (frames stay as built)
        for (unsigned m = 0; m < (1u << inner.size()); m++) {
            std::vector<Shape> v = g;
            for (size_t i = 0; i < inner.size(); i++) { Shape t = inner[i]; t.rev = (m >> i) & 1; v.push_back(t); }
            out.push_back(v);
        }
    };
    for (int k = 0; k < 3; k++) {
        // one inner shape in a 3x3 / 4x4 hole, gap 1 all round
        add(frame(k, 0, 0, 5, 5), {rect(2, 2, 3, 3)});
        add(frame(k, 0, 0, 6, 6), {diamond(3, 3)});
        add(frame(k, 0, 0, 6, 6), {lshape(2, 2, 2, 2, 0, 1, 1)});
        add(frame(k, 0, 0, 6, 6), {rect(2, 2, 4, 4)});
        // two inner shapes in a 6x4 hole
        add(frame(k, 0, 0, 8, 6), {rect(2, 2, 3, 3), diamond(5, 3)});
        add(frame(k, 0, 0, 8, 6), {lshape(2, 2, 2, 2, 2, 1, 1), rect(5, 2, 6, 4)});
        // two levels: frame in frame around a centre square
        for (int k2 = 0; k2 < 3; k2 += 2) {
            std::vector<Shape> g = frame(k, 0, 0, 9, 9), in = frame(k2, 2, 2, 7, 7);
            g.insert(g.end(), in.begin(), in.end());
            add(g, {rect(4, 4, 5, 5)});
        }
    }
    return out;
}
// pinching holes: plates (hand-built slit polygons) whose opening has a neck of width w, so that growing
// by exactly w/2 with miter joins closes the neck to a single point / to a segment on exact grid coordinates
// (the result's hole contour then visits a point twice); and plates with two separate holes that touch at a
// corner / along an edge when shrinking by exactly half their gap.  The distance set brackets the exact values
// (w=1: 0.2 < 0.5 < 1; w=2: 0.5 < 1 < 1.7).  Cut-outs are wide enough (half-width > 3|d|) that a wrongly filled
// opening contains samples beyond every join's reach.
static std::vector<std::vector<Shape>> pinch_groups() {
    auto plate = [](int W, int H, std::initializer_list<std::array<int, 4>> cuts) {
        Shape s;
        s.kind = 'N'; s.cls = "plate";
        s.pts = {{0, 0}, {W, H}};
        for (auto& c : cuts) { s.pts.push_back({c[0], c[1]}); s.pts.push_back({c[2], c[3]}); }
        return s;
    };
    std::vector<Shape> S = {
        plate(12, 12, {{2, 2, 6, 7}, {5, 6, 10, 10}}),                 // neck 1x1: closes to a point at d=+0.5
        plate(12, 12, {{2, 2, 6, 8}, {5, 6, 10, 10}}),                 // neck 1 wide, 2 long: closes to a segment
        plate(12, 12, {{5, 2, 10, 6}, {2, 5, 6, 10}}),                 // the other diagonal
        plate(12, 12, {{2, 2, 6, 7}, {2, 7, 4, 10}, {5, 6, 10, 10}}),  // L-shaped cut-out joined to a rectangle
        plate(12, 12, {{2, 2, 6, 6}, {5, 5, 10, 7}, {9, 6, 10, 10}}),  // two necks (Z of three rectangles)
        plate(22, 22, {{3, 3, 11, 12}, {9, 10, 19, 19}}),              // neck 2x2: closes to a point at d=+1
        plate(9, 9, {{2, 2, 4, 4}, {5, 5, 7, 7}}),                     // two holes, diagonal gap 1: touch at a corner at d=-0.5
        plate(9, 6, {{2, 2, 4, 4}, {5, 2, 7, 4}}),                     // two holes side by side, gap 1: touch along an edge at d=-0.5
        plate(10, 10, {{2, 2, 4, 4}, {6, 6, 8, 8}}),                   // diagonal gap 2: touch at a corner at d=-1
        plate(10, 10, {{2, 2, 4, 5}, {2, 5, 3, 7}, {5, 6, 8, 8}}),     // L-shaped hole and a rectangle, diagonal gap 1
        plate(11, 11, {{2, 2, 4, 4}, {5, 5, 6, 6}, {7, 7, 9, 9}}),     // three holes on a diagonal: two pinches in a row
    };
    std::vector<std::vector<Shape>> out;
    for (size_t i = 0; i < S.size(); i++) {
        out.push_back({S[i]});
        if (i == 0 || i == 6) { Shape t = S[i]; t.rev = true; out.push_back({t}); }
    }
    return out;
}
// results with several outer contours that carry holes (the hole linking must attach every hole to its own outer,
// whatever vertex Clipper starts each contour at): two and three frames side by side / stacked / on a diagonal,
// frames beside plain shapes on either side, frames of different size, as key-holed polygons and as 4 bars, in
// both windings, and a diamond frame (slanted contour edges) given as two C-shaped halves.
static std::vector<std::vector<Shape>> multi_hole_groups() {
    auto bars = [](int x0, int y0, int x1, int y1) {
        return std::vector<Shape>{rect(x0, y0, x1, y0 + 1), rect(x0, y1 - 1, x1, y1), rect(x0, y0 + 1, x0 + 1, y1 - 1), rect(x1 - 1, y0 + 1, x1, y1 - 1)};
    };
    auto K = [](int x0, int y0, int x1, int y1) { return ring(x0, y0, x1, y1, x0 + 1, y0 + 1, x1 - 1, y1 - 1); };
    auto cat = [](std::vector<Shape> a, const std::vector<Shape>& b) { a.insert(a.end(), b.begin(), b.end()); return a; };
    std::vector<std::vector<Shape>> out = {
        {K(0, 0, 3, 3), K(4, 0, 7, 3)},                 // side by side, gap 1
        {K(0, 0, 3, 3), K(5, 0, 8, 3)},                 // gap 2
        {K(0, 0, 3, 3), K(0, 4, 3, 7)},                 // stacked
        {K(0, 0, 3, 3), K(4, 4, 7, 7)},                 // diagonal
        {K(0, 4, 3, 7), K(4, 0, 7, 3)},                 // anti-diagonal
        {K(0, 0, 3, 3), K(4, 0, 7, 3), K(8, 0, 11, 3)}, // three in a row
        {K(0, 0, 4, 4), K(5, 1, 8, 4)},                 // different sizes
        {K(0, 0, 5, 3), K(0, 4, 3, 9)},                 // oblong frames
        {rect(0, 0, 1, 3), K(2, 0, 5, 3)},              // plain shape on the left
        {K(0, 0, 3, 3), rect(4, 0, 5, 3)},              // plain shape on the right
        {rect(0, 4, 3, 5), K(0, 0, 3, 3)},              // plain shape above
        {K(0, 0, 3, 3), tri({4, 0}, {6, 0}, {5, 3})},   // triangle beside a frame
        cat(bars(0, 0, 3, 3), bars(4, 0, 7, 3)),        // frames of bars side by side
        cat(bars(0, 0, 3, 3), bars(4, 4, 7, 7)),        // diagonal
        cat(bars(0, 0, 4, 4), {K(5, 0, 8, 3)}),         // bars + key-holed
        {poly({{3, 0}, {0, 3}, {3, 6}, {3, 4}, {2, 3}, {3, 2}}, "chalf"), poly({{3, 0}, {3, 2}, {4, 3}, {3, 4}, {3, 6}, {6, 3}}, "chalf")},   // diamond frame as two halves
        {poly({{3, 0}, {0, 3}, {3, 6}, {3, 4}, {2, 3}, {3, 2}}, "chalf"), poly({{3, 0}, {3, 2}, {4, 3}, {3, 4}, {3, 6}, {6, 3}}, "chalf"), K(7, 1, 10, 4)},
    };
    size_t n0 = out.size();
    for (size_t i = 0; i < n0; i++)
        if (out[i].size() <= 3) { auto v = out[i]; for (auto& sh : v) sh.rev = true; out.push_back(v); auto w = out[i]; w.back().rev = true; out.push_back(w); }
    return out;
}
// partition families: every member of a family covers the same region
static std::vector<std::vector<std::vector<Shape>>> families() {
    std::vector<std::vector<std::vector<Shape>>> F;
    for (int w = 1; w <= 4; w++) for (int h = 1; h <= 4; h++) {
        if (w == 1 && h == 1) continue;
        std::vector<std::vector<Shape>> fam = {{rect(0, 0, w, h)}};
        for (int x = 1; x < w; x++) fam.push_back({rect(0, 0, x, h), rect(x, 0, w, h)});
        for (int y = 1; y < h; y++) fam.push_back({rect(0, 0, w, y), rect(0, y, w, h)});
        for (int b = 1; b < w; b++) for (int a = b + 1; a < w; a++) fam.push_back({rect(0, 0, a, h), rect(b, 0, w, h)});  // overlapping cover
        if (w >= 2 && h >= 2) fam.push_back({rect(0, 0, w, h), rect(0, 0, 1, 1)});                                        // nested duplicate
        if (w >= 3) fam.push_back({rect(0, 0, 1, h), rect(1, 0, w - 1, h), rect(w - 1, 0, w, h)});                         // three pieces
        F.push_back(fam);
    }
    for (int w = 2; w <= 4; w++) for (int h = 2; h <= 4; h++) for (int nw = 1; nw < w; nw++) for (int nh = 1; nh < h; nh++)
        for (int c = 0; c < 4; c++) {
            if (c > 0 && (w > 3 || h > 3)) continue;  // the other three notch corners only for small boxes
            // describe in the c=0 frame (notch top-right) and mirror each rectangle like lshape() does
            auto mr = [&](int x0, int y0, int x1, int y1) {
                if (c == 1 || c == 2) { int a = w - x1, b = w - x0; x0 = a; x1 = b; }
                if (c == 2 || c == 3) { int a = h - y1, b = h - y0; y0 = a; y1 = b; }
                return rect(x0, y0, x1, y1);
            };
            std::vector<std::vector<Shape>> fam = {{lshape(0, 0, w, h, c, nw, nh)}};
            fam.push_back({mr(0, 0, w, h - nh), mr(0, h - nh, w - nw, h)});        // horizontal cut
            fam.push_back({mr(0, 0, w - nw, h), mr(w - nw, 0, w, h - nh)});        // vertical cut
            fam.push_back({mr(0, 0, w, h - nh), mr(0, 0, w - nw, h)});             // two overlapping arms
            F.push_back(fam);
        }
    for (int a = 1; a <= 2; a++) {  // plus shapes: arm length a, bar width 1 and 5-2a
        int t = 1, n = 2 * a + t;
        Shape plus = {'P', {{a, 0}, {a + t, 0}, {a + t, a}, {n, a}, {n, a + t}, {a + t, a + t}, {a + t, n}, {a, n}, {a, a + t}, {0, a + t}, {0, a}, {a, a}}, "poly"};
        F.push_back({{plus}, {rect(0, a, n, a + t), rect(a, 0, a + t, n)}, {rect(a, 0, a + t, n), rect(0, a, a, a + t), rect(a + t, a, n, a + t)},
                     {rect(0, a, n, a + t), rect(a, 0, a + t, a), rect(a, a + t, a + t, n)}});
    }
    {  // T shape 3x2 and a 2x2 square covered by two triangles vs the square (diagonal internal edge)
        Shape T = {'P', {{1, 0}, {2, 0}, {2, 1}, {3, 1}, {3, 2}, {0, 2}, {0, 1}, {1, 1}}, "poly"};
        F.push_back({{T}, {rect(0, 1, 3, 2), rect(1, 0, 2, 1)}, {rect(0, 1, 3, 2), rect(1, 0, 2, 2)}});
        F.push_back({{rect(0, 0, 2, 2)}, {tri({0, 0}, {2, 0}, {2, 2}), tri({0, 0}, {2, 2}, {0, 2})}, {tri({0, 0}, {2, 0}, {0, 2}), tri({2, 0}, {2, 2}, {0, 2})}});
        // ring as a key-holed polygon vs four rectangles vs two L shapes
        F.push_back({{ring(0, 0, 3, 3, 1, 1, 2, 2)},
                     {rect(0, 0, 3, 1), rect(0, 2, 3, 3), rect(0, 1, 1, 2), rect(2, 1, 3, 2)},
                     {lshape(0, 0, 3, 3, 0, 2, 2), lshape(0, 0, 3, 3, 2, 2, 2)},
                     {rect(0, 0, 3, 1), rect(0, 2, 3, 3), rect(0, 0, 1, 3), rect(2, 0, 3, 3)}});
        F.push_back({{ring(0, 0, 4, 4, 1, 1, 3, 3)}, {lshape(0, 0, 4, 4, 0, 3, 3), lshape(0, 0, 4, 4, 2, 3, 3)},
                     {rect(0, 0, 4, 1), rect(0, 3, 4, 4), rect(0, 0, 1, 4), rect(3, 0, 4, 4)}});
    }
    return F;
}

// ------------------------------------------------------------------------------------------ sub-searches
static bool only(const std::string& sub) {  // debugging aid: C13_ONLY=<prefix> restricts the run to matching sub-checks
    const char* e = getenv("C13_ONLY");
    return !e || sub.compare(0, strlen(e), e) == 0;
}
static void run_groups(const std::string& sub, const std::string& desc, const std::vector<std::vector<Shape>>& groups, int r, const std::vector<int>& scs = {0, 1}) {
    if (!only(sub)) return;
    std::vector<Cfg> cfgs = all_cfgs(scs);
    std::string scnames, scidx;
    for (size_t i = 0; i < scs.size(); i++) { scnames += (i ? "," : "") + std::string(SCALING_NAMES[scs[i]]); scidx += (i ? "," : "") + std::to_string(scs[i]); }
    double t_start = now();
    auto body = [&](int64_t gi) {
        Group G = build_group(groups[gi]);
        if (G.ok) {
            double tf = now();
            c13::Field F = c13::make_field(G.lat, G.pc, r, MARGIN);
            R->count("cpu_us_field", (int64_t)((now() - tf) * 1e6));
            if (F.on_edge) R->internal_error("a sample lies on an input edge: " + spec_of(G.shapes));
            R->count("groups");
            R->count("groups_" + G.rel);
            for (auto& c : cfgs) run_case(G, F, c, sub.c_str());
            if (gi % 97 == 0) R->sample(sub, group_json(G));
        }
        G.free_all();
    };
    bool ok = parallel_for(*R, (int64_t)groups.size(), body,
                           [&](int64_t gi) { return jobj({{"spec", jstr(spec_of(groups[gi]))}, {"then", jstr("one of the configurations")}}); },
                           [&](int64_t gi) { return "sub=" + sub + " spec=" + spec_of(groups[gi]) + fmt(" r=%d all=1 scs=", r) + scidx; }, PFOptions{120, sub, true});
    R->bound(sub, desc + fmt(" x {+-}{0.2,0.5,1,1.7,3} x {miter2,miter3,bevel,round8,round32} x union{F,T} x scaling{%s}; samples ((i+1/3)/%d,(j+1/7)/%d)", scnames.c_str(), r, r), ok,
             (int64_t)groups.size() * (int64_t)cfgs.size(), {{"groups", jint((int64_t)groups.size())}, {"wall_s", jnum(floor((now() - t_start) * 10) / 10)}});
}

static void compare_members(const std::vector<Shape>& a, const std::vector<Shape>& b, const Group& GA, const c13::Field& F, const Cfg& c, const Result& ra, const Result& rb) {
    const std::string sub = "offset.union_partition";
    const double sc = SCALINGS[c.sc];
    const int64_t S = (int64_t)sc;
    const ld guard = 3.0L * KM;
    int i0, i1, j0, j1;
    window(F, c.d > 0 ? fabs(c.d) * JOINS[c.join].reach + 1.5 : 1.0, i0, i1, j0, j1);
    int64_t nbad = 0, ncmp = 0;
    std::string first;
    for (int j = j0; j < j1; j++)
        for (int i = i0; i < i1; i++) {
            eg::P q = sample_pt(i, j, F.r, S);
            bool oa, ob;
            bool ca = cover_count(ra, q, oa) > 0 || oa, cb = cover_count(rb, q, ob) > 0 || ob;
            ncmp++;
            if (ca == cb) continue;
            if (eg::dist_boundary(ra.polys, q) <= guard || eg::dist_boundary(rb.polys, q) <= guard) continue;
            if (!nbad++) first = fmt("sample (%.6Lf,%.6Lf): first partition %s, second %s", F.sx(i), F.sy(j), ca ? "covers" : "does not cover", cb ? "covers" : "does not cover");
        }
    R->count("partition_comparisons");
    R->count("partition_samples_compared", ncmp);
    // area: identical regions up to rounding of each vertex by < 1 grid unit: |dA| <= perimeter * 2 grid units
    ld da = fabsl((ld)ra.area2 - (ld)rb.area2) / 2, slack = (std::max(ra.perimeter, rb.perimeter) + 8 * KM) * 2 * KM;
    JFields tags = {{"sign", jstr(c.d > 0 ? "pos" : "neg")}, {"join", jstr(JOINS[c.join].name)}, {"scaling", jnum(sc)}, {"abs_distance", jnum(fabs(c.d))}};
    std::string cj = jobj({{"partition_1", jstr(spec_of(a))}, {"partition_2", jstr(spec_of(b))}, {"config", cfg_json(c)}});
    std::string replay = "sub=" + sub + " spec=" + spec_of(a) + " spec2=" + spec_of(b) + " " + cfg_str(c) + fmt(" r=%d", F.r);
    if (nbad) {
        tags.push_back({"kind", jstr("partition_disagree")});
        R->violation(sub, "partition_disagree", tags, cj, first + fmt("; %lld sample(s); result1=", (long long)nbad) + result_json(ra, sc) + " result2=" + result_json(rb, sc), replay);
    } else if (da > slack) {
        tags.push_back({"kind", jstr("partition_area")});
        R->violation(sub, "partition_area", tags, cj, fmt("areas differ by %.6Lg lattice^2 (slack %.3Lg)", da / ((ld)KM * sc * KM * sc), slack / ((ld)KM * sc * KM * sc)) + "; result1=" + result_json(ra, sc) + " result2=" + result_json(rb, sc), replay);
    }
    (void)GA;
}
static void run_families(int r, bool windings) {
    const std::string sub = "offset.union_partition";
    if (!only(sub)) return;
    auto fams = families();
    if (windings)  // every member (k <= 3 polygons) also in every other winding assignment: same region, must agree
        for (auto& f : fams) {
            size_t n0 = f.size();
            for (size_t m = 0; m < n0; m++)
                for (auto& v : winding_variants(f[m], false)) f.push_back(v);
        }
    std::vector<Cfg> cfgs = all_cfgs();
    int64_t members = 0;
    double t_start = now();
    for (auto& f : fams) members += (int64_t)f.size();
    auto body = [&](int64_t fi) {
        auto& fam = fams[fi];
        std::vector<Group> G;
        for (auto& m : fam) G.push_back(build_group(m));
        bool ok = true;
        for (auto& g : G) ok = ok && g.ok;
        if (ok) {
            // all members cover the same region: fields must agree on membership (oracle self-check)
            std::vector<c13::Field> F;
            for (auto& g : G) F.push_back(c13::make_field(g.lat, g.pc, r, MARGIN));
            for (size_t m = 1; m < G.size(); m++)
                if (F[m].inside != F[0].inside || F[m].lox != F[0].lox || F[m].loy != F[0].loy)
                    R->internal_error("partition family members do not cover the same region: " + spec_of(fam[0]) + " vs " + spec_of(fam[m]));
            for (auto& c : cfgs) {
                std::vector<Result> res(G.size());
                for (size_t m = 0; m < G.size(); m++) run_case(G[m], F[m], c, sub.c_str(), &res[m]);  // each member also judged by the distance oracle
                if (!c.uni) continue;
                for (size_t m = 1; m < G.size(); m++) compare_members(fam[0], fam[m], G[0], F[0], c, res[0], res[m]);
            }
            if (fi % 7 == 0) R->sample(sub, jobj({{"family", jarr({jstr(spec_of(fam[0])), jstr(spec_of(fam[1]))})}}));
        }
        for (auto& g : G) g.free_all();
    };
    bool ok = parallel_for(*R, (int64_t)fams.size(), body,
                           [&](int64_t fi) { return jobj({{"family_first_member", jstr(spec_of(fams[fi][0]))}}); },
                           [&](int64_t fi) { return "sub=" + sub + " spec=" + spec_of(fams[fi][0]) + fmt(" r=%d all=1", r); }, PFOptions{120, sub, true});
    R->bound(sub, fmt("%zu partition families (%lld members%s: rectangles split/covered 2-3 ways, L shapes cut either way or as overlapping arms, plus/T shapes, square as two triangles, ring as key-holed polygon / 4 rectangles / 2 L) x 200 configurations; members compared pairwise with use_union=true; samples refinement %d",
                      fams.size(), (long long)members, windings ? ", each member with <= 3 polygons in all 2^k winding assignments" : "", r), ok, members * (int64_t)cfgs.size(), {{"families", jint((int64_t)fams.size())}, {"wall_s", jnum(floor((now() - t_start) * 10) / 10)}});
}

// ------------------------------------------------------------------------------------------ main
static bool parse_cfg(Cfg& c) {
    if (R->rarg("d").empty()) return false;
    c.d = atof(R->rarg("d").c_str());
    c.join = 0;
    for (int j = 0; j < 5; j++) if (R->rarg("join") == JOINS[j].name) c.join = j;
    c.uni = R->rarg("uni") == "1";
    c.sc = atoi(R->rarg("sc").c_str());
    if (c.sc < 0 || c.sc >= NSCALINGS) c.sc = 0;
    return true;
}
int main(int argc, char** argv) {
    Run run("C13", argc, argv);
    R = &run;
    bool T = run.thorough();
    if (run.replaying()) {
        VERBOSE = true;
        std::string sub = run.rarg("sub");
        int r = atoi(run.rarg("r").c_str());
        if (r < 1) r = 2;
        Group G = build_group(parse_spec(run.rarg("spec")));
        c13::Field F = c13::make_field(G.lat, G.pc, r, MARGIN);
        std::vector<int> scs;
        for (int v : parse_hist(run.rarg("scs"))) if (v >= 0 && v < NSCALINGS) scs.push_back(v);
        if (scs.empty()) scs = {0, 1};
        std::vector<Cfg> cfgs = all_cfgs(scs);
        ARC_BUDGET = 1e9;
        Cfg one;
        if (parse_cfg(one)) cfgs = {one};
        const char* base = sub == "offset.pairs_neargap" ? "offset.pairs" : sub.c_str();
        if (!run.rarg("spec2").empty()) {
            Group G2 = build_group(parse_spec(run.rarg("spec2")));
            c13::Field F2 = c13::make_field(G2.lat, G2.pc, r, MARGIN);
            for (auto& c : cfgs) {
                Result a, b;
                run_case(G, F, c, base, &a);
                run_case(G2, F2, c, base, &b);
                compare_members(G.shapes, G2.shapes, G, F, c, a, b);
            }
            G2.free_all();
        } else
            for (auto& c : cfgs) run_case(G, F, c, base);
        G.free_all();
        return run.finish();
    }
    run.note("lower bound factor for round joins at corner-nearest samples: cos(1.5*pi/N) = 0.83147 (N=8), 0.98918 (N=32) - Clipper's closing chord spans up to 1.5 steps; nominal cos(pi/N) = 0.92388 / 0.99518; samples left uncovered in between are counted as round_gap:<join>:ratio_<rho/|d|>; guard g=3/scaling");
    run.note("a non-NoError return whose result satisfies every judged sample is counted as error_code_with_region_ok, not reported as a violation (the property speaks about the covered region only)");
    int r1 = T ? 4 : 2;
    // single shapes, smallest first
    run_groups("offset.single.rect", T ? "all 225 lattice rectangles on {0..5}^2, both orientations" : "25 rectangles w,h in 1..5 (one per translation class), both orientations", singles("rect", T, true), r1);
    run_groups("offset.single.ring", T ? "100 key-holed rings in both windings: outer" : "100 key-holed rings: outer [0,W]x[0,H], W,H in 3..5, every lattice hole with wall >= 1, hand-built key-holed polygons", singles("ring", false, T), r1);
    ARC_BUDGET = T ? 3e5 : 5e4;
    {
        auto X = extreme_scaling_groups(T);
        run_groups("offset.scaling_large", fmt("%zu groups of the mirrored-slope alphabet (diamonds, isosceles triangles, chevrons, zigzag, octagon, hexagon, rectangles, L, ring; singles and 16 pairs; windings) in Clipper's full-range mode", X.size()), X, 2, {2, 3, 4});
        run_groups("offset.scaling_small", fmt("%zu groups of the same alphabet at the smallest scalings (grid = 1 and 1/8 lattice unit)", X.size()), X, 2, {5, 6});
    }
    {
        auto N = nested_groups();
        run_groups("offset.nested", fmt("%zu nested groups: closed frames (abutting bars / overlapping bars / key-holed ring) around 1 or 2 inner shapes (square, diamond, L, 2x2 square) in both windings, and frame-in-frame around a centre square", N.size()), N, 2, T ? std::vector<int>{0, 1} : std::vector<int>{0});
    }
    {
        auto N = pinch_groups();
        run_groups("offset.pinch", fmt("%zu plates with pinching openings (necks of width 1 and 2 between rectangular / L-shaped cut-outs; separate holes at diagonal or edge gap 1 and 2), hand-built key-holed polygons", N.size()), N, 2);
    }
    {
        auto N = multi_hole_groups();
        run_groups("offset.multi_hole", fmt("%zu groups whose result has several outer contours with holes (2-3 frames side by side / stacked / diagonal, frames beside plain shapes, key-holed and as bars, windings, diamond frame as two halves)", N.size()), N, 2, T ? std::vector<int>{0, 1} : std::vector<int>{0});
    }
    {
        // single polygons that overlap themselves (a curl inside the outline: winding 2 there, never negative); their
        // region is the non-zero-winding set, the doubled edges are internal edges
        Shape a = poly({{0, 0}, {3, 0}, {3, 2}, {1, 2}, {1, 1}, {2, 1}, {2, 3}, {0, 3}}, "selfoverlap");
        Shape b = poly({{0, 0}, {5, 0}, {5, 3}, {2, 3}, {2, 1}, {4, 1}, {4, 4}, {0, 4}}, "selfoverlap");
        Shape c2 = poly({{0, 0}, {4, 0}, {4, 2}, {3, 3}, {1, 1}, {1, 3}, {3, 1}, {4, 2}, {4, 4}, {0, 4}}, "selfoverlap");
        std::vector<std::vector<Shape>> SO;
        for (Shape sh : {a, b}) { SO.push_back({sh}); sh.rev = true; SO.push_back({sh}); }
        (void)c2;
        run_groups("offset.single.selfoverlap", fmt("%zu self-overlapping single polygons (outline with an inner curl, both windings)", SO.size()), SO, r1);
    }
    run_families(r1, T);
    run_groups("offset.single.L", T ? "all 1600 L shapes (every position), both orientations" : "144 L shapes (bounding box 2..4, every notch, 4 corners; one per translation class)", singles("L", T, T, T ? LAT : 4), r1);
    if (T) run_groups("offset.single.tri_fine", "all non-degenerate lattice triangles on {0..5}^2, one per translation class, counter-clockwise, refinement 4", singles("tri", false, false), 4);
    run_groups("offset.single.tri", T ? "all non-degenerate lattice triangles on {0..5}^2 at every position, both orientations" : "all non-degenerate lattice triangles on {0..4}^2, one per translation class, counter-clockwise", singles("tri", T, T, T ? LAT : 4), 2);
    {
        auto P = pairs(T);
        // winding as an explicit dimension: every pair in the three other winding assignments (cw/ccw, ccw/cw,
        // cw/cw); the region, hence the oracle, does not depend on winding.  Scaling 1000 only (winding handling
        // does not depend on the scaling; the all-counter-clockwise assignment runs at both scalings below).
        std::vector<std::vector<Shape>> W;
        for (auto& g : P) for (auto& v : winding_variants(g, false)) W.push_back(v);
        if (!T) run_groups("offset.pairs_winding", fmt("%zu groups = %zu pairs x 3 non-identity winding assignments of the two members", W.size(), P.size()), W, 2, {0});
        run_groups("offset.pairs", fmt("%zu pairs (every placement of %zu base shapes on {0..5}^2, unordered, one per translation class: disjoint, touching, overlapping, nested), both counter-clockwise; d<0 without union only for disjoint pairs",
                                       P.size(), pair_bases(T).size()), P, 2);
        if (T) run_groups("offset.pairs_winding", fmt("%zu groups = %zu pairs x 3 non-identity winding assignments of the two members", W.size(), P.size()), W, 2, {0});
    }
    return run.finish();
}
