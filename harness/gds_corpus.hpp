// gds_corpus.hpp — the finite, structured corpus of gdstk libraries used by the GDSII checks
// (C01 round trip; reusable by C17/C18).  Everything is enumerated from small dimension tables —
// no randomness.  Interface:
//
//     int64_t  gds_corpus::count()            singles (light) + singles (heavy) + ordered pairs
//     Library* gds_corpus::build(index)       freshly allocated library for that index
//     string   gds_corpus::describe(index)    JSON description of the library (dimension values)
//     void     gds_corpus::destroy(Library*)  frees everything build() allocated
//   plus  spec_of(index) / build(const LibSpec&) / describe(const LibSpec&) for callers that want to
//   inspect the dimensions, and the index ranges  singles_light() / singles_heavy() / pairs().
//
// Index layout (smallest first): [0, n_light) single-element libraries over the alphabet SIGMA,
// [n_light, n_light+n_heavy) single polygons with 8189..8200 vertices (thorough tiers only),
// then every ordered pair (i, j) from the reduced alphabet SIGMA' (same cell, element i appended
// before element j).
//
// Coordinates.  One "milli" = 1/1000 user unit; with the four (unit, precision) pairs the database
// grid is 1 or 1/2 milli.  Coordinate families:
//   PLAIN   integers of millis (k/1000.0), some negative
//   HALF    exactly representable dyadic values: x = m/8 + 1/16, y = m/16 + 1/32 — x sits exactly on
//           a half grid step when unit/precision is 1000, y when it is 2000; lengths are m/32
//   EXTMIN  the element sits in the corner (-2^31, -2^31) database units and touches it exactly
//   EXTSPAN (polygons) spans from -2^31 to 2^31-1 database units in both axes (copies included)
#pragma once
#include <gdstk/gdstk.hpp>
#include <math.h>

#include <string>
#include <vector>

#include "vf.hpp"

namespace gds_corpus {
using namespace gdstk;

enum Kind { POLYGON = 0, FLEX_SIMPLE, FLEX_OUTLINE, ROBUST_SIMPLE, ROBUST_OUTLINE, LABEL, REFERENCE };
enum Coord { PLAIN = 0, HALF, EXTMIN, EXTSPAN };
static const char* const kind_names[] = {"polygon", "flexpath.simple", "flexpath.outline", "robustpath.simple", "robustpath.outline", "label", "reference"};
static const char* const coord_names[] = {"plain", "half_grid", "extreme_min", "extreme_span"};
static const char* const rep_names[] = {"none", "rectangular2x2", "regular2x2", "explicit", "explicit_x"};
static const char* const refrep_names[] = {"none", "rectangular2x3", "regular_aligned2x3", "regular_skew2x3", "explicit"};
// 4..14: general (named) properties mixed with GDSII properties, written in the order the setters are called
// (every setter prepends, so the list order is the reverse).  G1 = set_gds_property(1,"a"), G2 = (2,"ab");
// Nu/Ni/Nr/Ns/Nb = set_property(name, uint64 / int64 / double / C string / bytes).  Only the GDSII properties
// can be held by a GDSII file.
static const char* const props_names[] = {"none", "1:a", "2:ab", "1:a+2:ab",
                                          "Nu,G1", "G1,Nu", "Ni,G1,G2", "G1,Ni,G2", "G1,G2,Ns", "Nr,G1", "G1,Nr,Nb", "Nr,G2,Nb", "G2,Nb", "Ns,Ni,G1", "G1,N(u+s),G2"};
static const int props_count = 15;
inline int props_gds(int props) {  // which GDSII properties the list holds: bit 0 = 1:"a", bit 1 = 2:"ab"
    static const int g[] = {0, 1, 2, 3, 1, 1, 3, 3, 3, 1, 1, 2, 2, 1, 3};
    return g[props];
}
static const char* const end_names[] = {"flush", "half_width", "extended", "round"};
// rotations 4..8 are the doubles r for which r * (180.0 / M_PI) -- the ANGLE value gdstk stores -- is exactly a
// power of 16 in degrees (boundary of the base-16 exponent of the GDSII 8-byte real), see angle_for_degrees()
static const char* const rot_names[] = {"0", "pi/2", "pi", "0.3", "16deg", "256deg", "1/16deg", "1deg", "-16deg"};
static const double rot_degrees[] = {0, 90, 180, 0, 16, 256, 0.0625, 1, -16};
// magnifications 2..6 are exact powers of 16 (same boundary for the MAG record)
static const double mag_boundary[] = {16, 256, 1.0 / 16, 1.0 / 256, 4096};
// transformations applied to a path after construction and before saving (scale_width is set first)
static const char* const xf_names[] = {"none", "scale(3,(0.0054,0.0023)) scale_width=false", "scale(0.5,(0.0054,0.0023)) scale_width=true", "mirror((0,0),(1,0)) scale_width=true",
                                       "mirror((1,0),(3,1)) scale_width=false", "rotate(0.6,(0,0)) scale_width=true", "transform(2,x_reflection,0.3,(1,-2)) scale_width=true",
                                       "transform(2,x_reflection,0.3,(1,-2)) scale_width=false"};
static const bool xf_scale_width[] = {true, false, true, true, false, true, true, false};
static const int anchors[] = {0, 1, 2, 4, 5, 6, 8, 9, 10};
// 4..9: the UNITS record holds precision/unit and precision; these make one or both an exact power of 16
static const double lib_units[][2] = {{1e-6, 1e-9}, {1e-6, 5e-10}, {1e-3, 1e-6}, {1, 1e-3},
                                      {1e-6, 1e-6}, {1, 1}, {1e-6, 1e-6 / 16}, {1e-6, 1e-6 / 256}, {1, 1.0 / 16}, {1, 1.0 / 256}};
static const double lib_nominal_scaling[] = {1000, 2000, 1000, 1000, 1, 1, 16, 256, 16, 256};
static const int lib_count = 10;

struct Elem {
    int kind = POLYGON;
    int n = 3;         // polygon: vertices; paths: spine points (2 or 3)
    int rep = 0;       // index into rep_names (refrep_names for references)
    int props = 0;     // index into props_names
    int end = 0;       // index into end_names (simple paths)
    int sw = 1;        // scale_width (simple paths)
    int anchor = 0;    // index into anchors (labels)
    int rot = 0;       // index into rot_names (labels use 0, 1, 3)
    int mag = 0;       // 0: 1.0; 1: 2.5 (labels) / 0.5 (references); 2..6: mag_boundary[mag - 2]
    int refl = 0;      // x_reflection
    int textpar = 0;   // label text: 0 "A" (odd), 1 "AB" (even)
    int target = 0;    // reference: 0 cell of the library by pointer, 1 absent cell by name
    int coord = PLAIN;
    int tag = 0;       // 0: (0,0); 1: (32767,32767)
    int xf = 0;        // paths: index into xf_names, the transformation applied to the path object before it is saved
    int jog = 0;       // simple flexpaths: 1/2 = 4-point spine with an axis-parallel jog along / across the direction of travel
    int jogstep = 1;   // length of the jog relative to one grid step T: 0 the double just below T, 1 exactly T, 2 the double just above T
    int srctol = 0;    // spine tolerance of the path as built: 0 = 1e-5, 1 = exactly T (the jog is then below / at / above the tolerance)
    int off = 0;       // simple paths: offset of the single element from the spine: 0 none, 1: +10.3, 2: -10.3, 3: +7.7, 4: -7.7 millis
};
struct LibSpec {
    int libcfg = 0;   // index into lib_units
    int namepar = 0;  // 0: odd-length library/cell/target names, 1: even-length
    int readtol = 0;  // hint for round-trip checks: 0 = re-load with tolerance 1e-6, 1 = with read_gds' default (tolerance = precision/unit, one grid step)
    std::vector<Elem> elems;
};

// the double r closest to deg*pi/180 whose stored ANGLE value r * (180.0 / M_PI) is exactly deg (searched among
// the neighbouring doubles; falls back to the nearest double if none exists)
inline double angle_for_degrees(double deg) {
    const double r0 = deg * (M_PI / 180.0);
    double lo = r0, hi = r0;
    for (int k = 0; k < 16; k++) {
        if (lo * (180.0 / M_PI) == deg) return lo;
        if (hi * (180.0 / M_PI) == deg) return hi;
        lo = nextafter(lo, -INFINITY);
        hi = nextafter(hi, INFINITY);
    }
    return r0;
}
inline double rot_value(int r) { return r == 0 ? 0.0 : r == 1 ? 0.5 * M_PI : r == 2 ? M_PI : r == 3 ? 0.3 : angle_for_degrees(rot_degrees[r]); }
inline double mag_value(const Elem& e) { return e.mag == 0 ? 1.0 : e.mag >= 2 ? mag_boundary[e.mag - 2] : e.kind == LABEL ? 2.5 : 0.5; }
inline const char* lib_name(int namepar) { return namepar ? "LIBR" : "LIB"; }
inline const char* top_name(int namepar) { return namepar ? "TOPC" : "TOP"; }
inline const char* kid_name(int namepar) { return namepar ? "KIDS" : "KID"; }
inline const char* ghost_name(int namepar) { return namepar ? "GHOSTS" : "GHOST"; }

// ------------------------------------------------------------------ description
inline std::string describe(const Elem& e) {
    using namespace vf;
    JFields f = {{"kind", jstr(kind_names[e.kind])}};
    if (e.kind == POLYGON) f.push_back({"vertices", jint(e.n)});
    else if (e.kind <= ROBUST_OUTLINE) f.push_back({"spine_points", jint(e.n)});
    f.push_back({"repetition", jstr(e.kind == REFERENCE ? refrep_names[e.rep] : rep_names[e.rep])});
    f.push_back({"gds_properties", jstr(props_names[e.props])});
    if (e.kind == FLEX_SIMPLE || e.kind == ROBUST_SIMPLE) { f.push_back({"end", jstr(end_names[e.end])}); f.push_back({"scale_width", jbool(e.sw)}); }
    if (e.kind == LABEL) { f.push_back({"anchor", jint(anchors[e.anchor])}); f.push_back({"text", jstr(e.textpar ? "AB" : "A")}); }
    if (e.kind == LABEL || e.kind == REFERENCE) { f.push_back({"rotation", jstr(rot_names[e.rot])}); f.push_back({"magnification", jnum(mag_value(e))}); f.push_back({"x_reflection", jbool(e.refl)}); }
    if (e.kind == REFERENCE) f.push_back({"target", jstr(e.target ? "absent cell by name" : "cell of the library by pointer")});
    if (e.kind >= FLEX_SIMPLE && e.kind <= ROBUST_OUTLINE && e.xf) f.push_back({"transformed_by", jstr(xf_names[e.xf])});
    if (e.kind == FLEX_SIMPLE && e.jog) {
        f.push_back({"jog", jstr(std::string(e.jog == 1 ? "along" : "across") + " the direction of travel, length " + (e.jogstep == 0 ? "just below" : e.jogstep == 1 ? "exactly" : "just above") + " one grid step")});
        f.push_back({"spine_tolerance", jstr(e.srctol ? "exactly one grid step" : "1e-5")});
    }
    if ((e.kind == FLEX_SIMPLE || e.kind == ROBUST_SIMPLE) && e.off) f.push_back({"element_offset", jstr(e.off == 1 ? "+10.3 millis" : e.off == 2 ? "-10.3 millis" : e.off == 3 ? "+7.7 millis" : "-7.7 millis")});
    f.push_back({"coordinates", jstr(coord_names[e.coord])});
    if (e.kind != REFERENCE) f.push_back({"tag", jstr(e.tag ? "32767/32767" : "0/0")});
    return jobj(f);
}
inline std::string describe(const LibSpec& s) {
    using namespace vf;
    std::vector<std::string> el;
    for (auto& e : s.elems) el.push_back(describe(e));
    return jobj({{"unit", jnum(lib_units[s.libcfg][0])}, {"precision", jnum(lib_units[s.libcfg][1])}, {"names", jstr(s.namepar ? "even length" : "odd length")}, {"reload_tolerance", jstr(s.readtol ? "default (precision/unit)" : "1e-6")}, {"elements", jarr(el)}});
}

// ------------------------------------------------------------------ coordinates
struct Frame {
    int coord;
    double snom;                      // nominal unit/precision (1000 or 2000)
    Vec2 minoff{0, 0}, maxoff{0, 0};  // extreme repetition offsets of the element
    // k "millis": k/1000 user units for the libraries whose grid is 1 or 1/2 milli, otherwise k database units
    double mm(double k) const { return snom >= 1000 ? k / 1000.0 : k / snom; }
    double xmin() const { return -2147483648.0 / snom - minoff.x; }
    double ymin() const { return -2147483648.0 / snom - minoff.y; }
    double xmax() const { return 2147483647.0 / snom - maxoff.x; }
    double ymax() const { return 2147483647.0 / snom - maxoff.y; }
    Vec2 pt(int kx, int ky) const {
        switch (coord) {
            case HALF: return Vec2{(kx - 25) / 8.0 + 0.0625, (ky - 15) / 16.0 + 0.03125};
            case EXTMIN:
            case EXTSPAN: return Vec2{xmin() + mm(kx), ymin() + mm(ky)};
            default: return Vec2{mm(kx - 20), mm(ky - 10)};
        }
    }
    // a length of k millis (PLAIN/EXT*) or k/32 (HALF: k = 1 gives half a grid step as a full width 2k/32 at scaling 1000)
    double len(int k) const { return coord == HALF ? k / 32.0 : mm(k); }
};
// repetition offsets: millis, or for HALF multiples of 1/8 (so that a half-grid vertex stays half-grid in every copy).
// Offsets are chosen so that the copies of every polygon / path outline of the corpus are pairwise disjoint.
inline Vec2 off(int coord, int kx, int ky) { return coord == HALF ? Vec2{kx / 8.0, ky / 8.0} : Vec2{kx / 1000.0, ky / 1000.0}; }

inline void set_repetition(Repetition& r, int rep, int coord) {
    r = Repetition{};
    switch (rep) {
        case 1:
            r.type = RepetitionType::Rectangular; r.columns = 2; r.rows = 2;
            r.spacing = coord == HALF ? off(coord, 72, 32) : off(coord, 100, 70);
            break;
        case 2:
            r.type = RepetitionType::Regular; r.columns = 2; r.rows = 2;
            r.v1 = coord == HALF ? off(coord, 72, 4) : off(coord, 100, 10);
            r.v2 = coord == HALF ? off(coord, -8, 32) : off(coord, -20, 80);
            break;
        case 3:
            r.type = RepetitionType::Explicit;
            r.offsets.append(coord == HALF ? off(coord, 4, -40) : off(coord, 15, -75));
            r.offsets.append(coord == HALF ? off(coord, 80, 40) : off(coord, 90, 90));
            break;
        case 4:
            r.type = RepetitionType::ExplicitX;
            r.coords.append(coord == HALF ? 9.0 : 0.07);
            r.coords.append(coord == HALF ? 19.0 : 0.15);
            break;
        default: break;
    }
}
// lattices of references (columns 2, rows 3; pitches a, b along the rotated axes when aligned)
inline void set_ref_repetition(Repetition& r, int rep, int coord, double rotation, double snom = 1000) {
    r = Repetition{};
    const double a = coord == HALF ? 20 / 32.0 : snom >= 1000 ? 0.020 : 20 / snom, b = coord == HALF ? 1.0 : snom >= 1000 ? 0.030 : 30 / snom;
    switch (rep) {
        case 1:
            r.type = RepetitionType::Rectangular; r.columns = 2; r.rows = 3; r.spacing = Vec2{a, b};
            break;
        case 2: {
            r.type = RepetitionType::Regular; r.columns = 2; r.rows = 3;
            double c = cos(rotation), s = sin(rotation);
            r.v1 = Vec2{a * c, a * s};
            r.v2 = Vec2{-b * s, b * c};
        } break;
        case 3:
            r.type = RepetitionType::Regular; r.columns = 2; r.rows = 3;
            r.v1 = Vec2{a, a / 4};
            r.v2 = Vec2{-b / 8, b};
            break;
        case 4:
            r.type = RepetitionType::Explicit;
            r.offsets.append(Vec2{a / 2, 0});
            r.offsets.append(Vec2{-a / 4, b});
            r.offsets.append(Vec2{3 * a / 2, b});
            break;
        default: break;
    }
}
// extreme offsets of a repetition, by the corpus' own loops (not Repetition::get_extrema)
inline void offset_extent(const Repetition& r, Vec2& lo, Vec2& hi) {
    lo = hi = Vec2{0, 0};
    auto acc = [&](Vec2 v) { lo.x = v.x < lo.x ? v.x : lo.x; lo.y = v.y < lo.y ? v.y : lo.y; hi.x = v.x > hi.x ? v.x : hi.x; hi.y = v.y > hi.y ? v.y : hi.y; };
    switch (r.type) {
        case RepetitionType::Rectangular:
            for (uint64_t i = 0; i < r.columns; i++) for (uint64_t j = 0; j < r.rows; j++) acc(Vec2{i * r.spacing.x, j * r.spacing.y});
            break;
        case RepetitionType::Regular:
            for (uint64_t i = 0; i < r.columns; i++) for (uint64_t j = 0; j < r.rows; j++) acc(Vec2{i * r.v1.x + j * r.v2.x, i * r.v1.y + j * r.v2.y});
            break;
        case RepetitionType::Explicit: for (uint64_t i = 0; i < r.offsets.count; i++) acc(r.offsets[i]); break;
        case RepetitionType::ExplicitX: for (uint64_t i = 0; i < r.coords.count; i++) acc(Vec2{r.coords[i], 0}); break;
        case RepetitionType::ExplicitY: for (uint64_t i = 0; i < r.coords.count; i++) acc(Vec2{0, r.coords[i]}); break;
        default: break;
    }
}
inline void set_props(Property*& p, int props) {
    if (props <= 3) {
        if (props == 1 || props == 3) set_gds_property(p, 1, "a");
        if (props == 2 || props == 3) set_gds_property(p, 2, "ab");
        return;
    }
    static const uint8_t bytes[] = {0x00, 0x41, 0xff, 0x00};
    auto G1 = [&]() { set_gds_property(p, 1, "a"); };
    auto G2 = [&]() { set_gds_property(p, 2, "ab"); };
    auto Nu = [&]() { set_property(p, "NU", (uint64_t)7, true); };
    auto Ni = [&]() { set_property(p, "NI", (int64_t)-3, true); };
    auto Nr = [&]() { set_property(p, "NR", 2.5, true); };
    auto Ns = [&]() { set_property(p, "NS", "text", true); };
    auto Nb = [&]() { set_property(p, "NB", bytes, sizeof bytes, true); };
    switch (props) {
        case 4: Nu(); G1(); break;
        case 5: G1(); Nu(); break;
        case 6: Ni(); G1(); G2(); break;
        case 7: G1(); Ni(); G2(); break;
        case 8: G1(); G2(); Ns(); break;
        case 9: Nr(); G1(); break;
        case 10: G1(); Nr(); Nb(); break;
        case 11: Nr(); G2(); Nb(); break;
        case 12: G2(); Nb(); break;
        case 13: Ns(); Ni(); G1(); break;
        case 14: G1(); set_property(p, "NM", (uint64_t)9, true); set_property(p, "NM", "second value", false); G2(); break;
    }
}
inline Tag tag_of(const Elem& e) { return e.tag ? make_tag(32767, 32767) : make_tag(0, 0); }

// ------------------------------------------------------------------ shapes (millis)
static const int tri[][2] = {{0, 0}, {40, 0}, {10, 30}};
static const int quad[][2] = {{5, 0}, {55, 5}, {50, 30}, {0, 20}};
static const int nonagon[][2] = {{0, 0}, {60, 0}, {60, 20}, {45, 8}, {38, 35}, {30, 12}, {20, 40}, {10, 15}, {0, 30}};
inline std::vector<Vec2> polygon_points(const Elem& e, const Frame& f) {
    std::vector<Vec2> v;
    if (e.n >= 1000) {  // zigzag comb: bottom edge, then the teeth from right to left
        int m = e.n - 2;  // teeth vertices
        v.push_back(f.pt(0, 0));
        v.push_back(f.pt(4 * (m - 1), 0));
        for (int i = m - 1; i >= 0; i--) v.push_back(f.pt(4 * i, 40 + 8 * (i % 2)));
        return v;
    }
    if (e.coord == EXTSPAN) {
        Vec2 lo{f.xmin(), f.ymin()}, hi{f.xmax(), f.ymax()};
        if (e.n == 3) v = {lo, Vec2{hi.x, lo.y}, hi};
        else if (e.n == 4) v = {lo, Vec2{hi.x, lo.y}, hi, Vec2{lo.x, hi.y}};
        else v = {lo, Vec2{hi.x, lo.y}, hi, Vec2{lo.x + 0.05, hi.y}, Vec2{lo.x + 0.05, hi.y - 0.01}, Vec2{lo.x + 0.03, hi.y - 0.01}, Vec2{lo.x + 0.03, hi.y - 0.02}, Vec2{lo.x + 0.01, hi.y - 0.02}, Vec2{lo.x + 0.01, lo.y + 0.03}};
        return v;
    }
    const int(*s)[2] = e.n == 3 ? tri : e.n == 4 ? quad : nonagon;
    for (int i = 0; i < e.n; i++) v.push_back(f.pt(s[i][0], s[i][1]));
    return v;
}
static const int spine2[][2] = {{0, 0}, {30, 40}};
static const int spine3[][2] = {{0, 0}, {40, 0}, {40, 30}};

// spine point i of a path with n points: the 2- and 3-point spines above, or for n >= 1000 a straight zig-zag
// (4 millis per step in x, alternating 0 / 8 millis in y) long enough to need several XY records (> 8190 points)
inline Vec2 spine_point(const Frame& f, int n, int i) {
    if (n >= 1000) return f.pt(4 * i, 8 * (i % 2));
    // 5 points: Manhattan staircase with left and right turns; 6 points: oblique joints (acute and obtuse, both turn directions)
    static const int manhattan5[][2] = {{0, 0}, {40, 0}, {40, 30}, {80, 30}, {80, -10}};
    static const int oblique6[][2] = {{0, 0}, {30, 40}, {70, 45}, {90, 10}, {130, 30}, {150, 80}};
    if (n == 5) return f.pt(manhattan5[i][0], manhattan5[i][1]);
    if (n == 6) return f.pt(oblique6[i][0], oblique6[i][1]);
    const int(*sp)[2] = n == 2 ? spine2 : spine3;
    return f.pt(sp[i][0], sp[i][1]);
}
// one grid step in user units, as the literal a user would write (0.001, 0.0005) or the exact power of two
inline double grid_step(const Frame& f) { return f.snom >= 1000 ? (f.snom == 2000 ? 0.0005 : 0.001) : 1.0 / f.snom; }
// 4-point spine with an axis-parallel jog that starts at the origin, so that the difference of the two jog
// vertices is bit-exactly the step (and step*step == tolerance*tolerance when the step is the tolerance)
inline Vec2 jog_point(const Frame& f, const Elem& e, int i) {
    const double T = grid_step(f), step = e.jogstep == 0 ? nextafter(T, 0.0) : e.jogstep == 1 ? T : nextafter(T, INFINITY);
    if (e.jog == 1) { const Vec2 p[4] = {Vec2{-f.mm(30), 0}, Vec2{0, 0}, Vec2{step, 0}, Vec2{step, f.mm(40)}}; return p[i]; }
    const Vec2 p[4] = {Vec2{-f.mm(30), 0}, Vec2{0, 0}, Vec2{0, step}, Vec2{f.mm(40), step}};
    return p[i];
}
// ------------------------------------------------------------------ element builders
template <class Path>
inline void apply_xf(Path* p, int xf) {
    if (!xf) return;
    p->scale_width = xf_scale_width[xf];
    switch (xf) {
        case 1: p->scale(3, Vec2{0.0054, 0.0023}); break;
        case 2: p->scale(0.5, Vec2{0.0054, 0.0023}); break;
        case 3: p->mirror(Vec2{0, 0}, Vec2{1, 0}); break;
        case 4: p->mirror(Vec2{1, 0}, Vec2{3, 1}); break;
        case 5: p->rotate(0.6, Vec2{0, 0}); break;
        case 6:
        case 7: p->transform(2, true, 0.3, Vec2{1, -2}); break;
    }
}
inline void add_element(Cell* cell, Cell* kid, const Elem& e, const LibSpec& s) {
    Frame f{e.coord == EXTSPAN && e.kind != POLYGON ? EXTMIN : e.coord, lib_nominal_scaling[s.libcfg]};
    Repetition rep = {};
    if (e.kind == REFERENCE) set_ref_repetition(rep, e.rep, f.coord, rot_value(e.rot), f.snom);
    else set_repetition(rep, e.rep, f.coord);
    if (e.kind == POLYGON && e.n >= 1000 && rep.type == RepetitionType::Rectangular) rep.spacing.x = 40.0;  // the comb is 32.8 units wide
    offset_extent(rep, f.minoff, f.maxoff);
    if (e.kind == REFERENCE && (rep.type == RepetitionType::Rectangular || rep.type == RepetitionType::Regular)) {
        // an AREF stores the far corners origin + columns*v1 and origin + rows*v2: they must fit 32 bits too
        Vec2 v1 = rep.type == RepetitionType::Rectangular ? Vec2{rep.spacing.x, 0} : rep.v1, v2 = rep.type == RepetitionType::Rectangular ? Vec2{0, rep.spacing.y} : rep.v2;
        for (Vec2 c : {Vec2{rep.columns * v1.x, rep.columns * v1.y}, Vec2{rep.rows * v2.x, rep.rows * v2.y}}) {
            f.minoff.x = c.x < f.minoff.x ? c.x : f.minoff.x; f.minoff.y = c.y < f.minoff.y ? c.y : f.minoff.y;
            f.maxoff.x = c.x > f.maxoff.x ? c.x : f.maxoff.x; f.maxoff.y = c.y > f.maxoff.y ? c.y : f.maxoff.y;
        }
    }
    switch (e.kind) {
        case POLYGON: {
            Polygon* p = (Polygon*)allocate_clear(sizeof(Polygon));
            p->tag = tag_of(e);
            for (auto& v : polygon_points(e, f)) p->point_array.append(v);
            p->repetition = rep;
            set_props(p->properties, e.props);
            cell->polygon_array.append(p);
        } break;
        case FLEX_SIMPLE:
        case FLEX_OUTLINE: {
            FlexPath* fp = (FlexPath*)allocate_clear(sizeof(FlexPath));
            const double tol = e.jog && e.srctol ? grid_step(f) : 1e-5;
            auto spt = [&](int i) { return e.jog ? jog_point(f, e, i) : spine_point(f, e.n, i); };
            if (e.kind == FLEX_SIMPLE) {
                double w1 = f.coord == HALF ? f.len(2) : f.len(8), o1 = e.off ? (f.coord == HALF ? f.len(12) : e.off == 1 ? 0.0103 : e.off == 2 ? -0.0103 : e.off == 3 ? 0.0077 : -0.0077) : 0;  // 10.3 / 7.7 millis: derived centre-line coordinates stay away from half grid steps
                Tag t1 = tag_of(e);
                fp->init(spt(0), 1, &w1, &o1, tol, &t1);
                fp->simple_path = true;
                fp->scale_width = e.sw != 0;
                fp->elements[0].end_type = e.end == 0 ? EndType::Flush : e.end == 1 ? EndType::HalfWidth : e.end == 2 ? EndType::Extended : EndType::Round;
                if (e.end == 2) fp->elements[0].end_extensions = f.coord == HALF ? Vec2{f.len(2), f.len(3)} : Vec2{f.len(3), f.len(7)};
            } else {
                double w[2] = {f.coord == HALF ? f.len(8) : f.len(8), f.coord == HALF ? f.len(4) : f.len(4)};
                double o[2] = {f.coord == HALF ? -f.len(12) : -f.len(10), f.coord == HALF ? f.len(12) : f.len(10)};
                Tag t[2] = {tag_of(e), e.tag ? make_tag(32767, 0) : make_tag(2, 1)};
                fp->init(spine_point(f, e.n, 0), 2, w, o, tol, t);
                fp->simple_path = false;
                fp->scale_width = true;
            }
            for (int i = 1; i < e.n; i++) fp->segment(spt(i), NULL, NULL, false);
            apply_xf(fp, e.xf);
            fp->repetition = rep;
            set_props(fp->properties, e.props);
            cell->flexpath_array.append(fp);
        } break;
        case ROBUST_SIMPLE:
        case ROBUST_OUTLINE: {
            RobustPath* rp = (RobustPath*)allocate_clear(sizeof(RobustPath));
            const double tol = 1e-5;
            if (e.kind == ROBUST_SIMPLE) {
                double w1 = f.coord == HALF ? f.len(2) : f.len(8), o1 = e.off ? (f.coord == HALF ? f.len(12) : e.off == 1 ? 0.0103 : e.off == 2 ? -0.0103 : e.off == 3 ? 0.0077 : -0.0077) : 0;  // 10.3 / 7.7 millis: derived centre-line coordinates stay away from half grid steps
                Tag t1 = tag_of(e);
                rp->init(spine_point(f, e.n, 0), 1, &w1, &o1, tol, 1000, &t1);
                rp->simple_path = true;
                rp->scale_width = e.sw != 0;
                rp->elements[0].end_type = e.end == 0 ? EndType::Flush : e.end == 1 ? EndType::HalfWidth : e.end == 2 ? EndType::Extended : EndType::Round;
                if (e.end == 2) rp->elements[0].end_extensions = f.coord == HALF ? Vec2{f.len(2), f.len(3)} : Vec2{f.len(3), f.len(7)};
            } else {
                double w[2] = {f.len(8), f.len(4)};
                double o[2] = {f.coord == HALF ? -f.len(12) : -f.len(10), f.coord == HALF ? f.len(12) : f.len(10)};
                Tag t[2] = {tag_of(e), e.tag ? make_tag(32767, 0) : make_tag(2, 1)};
                rp->init(spine_point(f, e.n, 0), 2, w, o, tol, 1000, t);
                rp->simple_path = false;
                rp->scale_width = true;
            }
            for (int i = 1; i < e.n; i++) rp->segment(spine_point(f, e.n, i), NULL, NULL, false);
            apply_xf(rp, e.xf);
            rp->repetition = rep;
            set_props(rp->properties, e.props);
            cell->robustpath_array.append(rp);
        } break;
        case LABEL: {
            Label* l = (Label*)allocate_clear(sizeof(Label));
            l->init(e.textpar ? "AB" : "A");
            l->tag = tag_of(e);
            l->origin = f.coord == EXTMIN ? Vec2{f.xmin(), f.ymax()} : f.pt(27, 7);
            l->anchor = (Anchor)anchors[e.anchor];
            l->rotation = rot_value(e.rot);
            l->magnification = mag_value(e);
            l->x_reflection = e.refl != 0;
            l->repetition = rep;
            set_props(l->properties, e.props);
            cell->label_array.append(l);
        } break;
        case REFERENCE: {
            Reference* r = (Reference*)allocate_clear(sizeof(Reference));
            if (e.target == 0) r->init(kid);
            else r->init(ghost_name(s.namepar));
            r->origin = f.coord == EXTMIN ? Vec2{f.xmin(), f.ymax()} : f.pt(27, 7);
            r->rotation = rot_value(e.rot);
            r->magnification = mag_value(e);
            r->x_reflection = e.refl != 0;
            r->repetition = rep;
            set_props(r->properties, e.props);
            cell->reference_array.append(r);
        } break;
    }
}

inline Library* build(const LibSpec& s) {
    Library* lib = (Library*)allocate_clear(sizeof(Library));
    lib->init(lib_name(s.namepar), lib_units[s.libcfg][0], lib_units[s.libcfg][1]);
    Cell* top = (Cell*)allocate_clear(sizeof(Cell));
    top->name = copy_string(top_name(s.namepar), NULL);
    lib->cell_array.append(top);
    Cell* kid = NULL;
    for (auto& e : s.elems)
        if (e.kind == REFERENCE && e.target == 0 && !kid) {
            kid = (Cell*)allocate_clear(sizeof(Cell));
            kid->name = copy_string(kid_name(s.namepar), NULL);
            Polygon* p = (Polygon*)allocate_clear(sizeof(Polygon));
            p->tag = make_tag(1, 1);
            p->point_array.append(Vec2{0, 0});
            const double sn = lib_nominal_scaling[s.libcfg], kx = sn >= 1000 ? 0.004 : 4 / sn, ky = sn >= 1000 ? 0.003 : 3 / sn;
            p->point_array.append(Vec2{kx, 0});
            p->point_array.append(Vec2{kx, ky});
            p->point_array.append(Vec2{0, ky});
            kid->polygon_array.append(p);
            lib->cell_array.append(kid);
        }
    for (auto& e : s.elems) add_element(top, kid, e, s);
    return lib;
}
inline void destroy(Library* lib) {
    if (!lib) return;
    lib->free_all();
    free_allocation(lib);
}

// ------------------------------------------------------------------ enumeration
struct Family {
    const char* name;
    int kind;
    std::vector<const char*> dim_names;
    std::vector<int64_t> dims;
    int64_t total() const { int64_t t = 1; for (auto d : dims) t *= d; return t; }
};
// Library-level dimensions come first (most significant) so that the first block of every family
// is the default library with every element variation.
inline const std::vector<Family>& families() {
    static const std::vector<Family> F = {
        {"polygon", POLYGON, {"tag", "namepar", "libcfg", "coord", "props", "rep", "n"}, {2, 2, 4, 4, 4, 5, 3}},
        {"flexpath.simple", FLEX_SIMPLE, {"tag", "namepar", "libcfg", "coord", "props", "rep", "sw", "end", "n"}, {2, 2, 4, 3, 2, 5, 2, 4, 2}},
        {"flexpath.outline", FLEX_OUTLINE, {"tag", "namepar", "libcfg", "coord", "props", "rep", "n"}, {2, 2, 4, 2, 2, 3, 2}},
        {"robustpath.simple", ROBUST_SIMPLE, {"tag", "namepar", "libcfg", "coord", "props", "rep", "sw", "end", "n"}, {2, 2, 4, 2, 2, 2, 2, 4, 2}},
        {"robustpath.outline", ROBUST_OUTLINE, {"tag", "namepar", "libcfg", "coord", "props", "rep", "n"}, {2, 2, 4, 2, 2, 2, 2}},
        {"label", LABEL, {"tag", "namepar", "libcfg", "coord", "props", "textpar", "refl", "mag", "rot", "anchor"}, {2, 2, 4, 3, 2, 2, 2, 2, 3, 9}},
        {"label.repeated", LABEL, {"tag", "namepar", "libcfg", "coord", "props", "rep"}, {2, 2, 4, 3, 2, 4}},
        {"reference", REFERENCE, {"namepar", "libcfg", "coord", "props", "target", "rep", "mag", "refl", "rot"}, {2, 4, 3, 2, 2, 5, 2, 2, 4}},
        // paths that were transformed after construction (the scale members of the object diverge)
        {"flexpath.simple.transformed", FLEX_SIMPLE, {"libcfg", "end2", "off", "n", "xf"}, {4, 2, 2, 2, 7}},
        {"robustpath.simple.transformed", ROBUST_SIMPLE, {"libcfg", "end2", "off", "n", "xf"}, {4, 2, 2, 2, 7}},
        {"flexpath.outline.transformed", FLEX_OUTLINE, {"libcfg", "n", "xf"}, {4, 2, 7}},
        {"robustpath.outline.transformed", ROBUST_OUTLINE, {"libcfg", "n", "xf"}, {4, 2, 7}},
        // boundary values of the GDSII 8-byte real (exact powers of 16) in MAG, ANGLE and UNITS
        // simple paths whose centre line needs more than one XY record (8190 points per record): flexpaths with
        // 8191, 8195, 16390 spine points; robustpaths with 2048, 2049, 4098 straight sections (gdstk samples 4 points
        // per section: 8193, 8197, 16393 centre-line points)
        {"flexpath.simple.long", FLEX_SIMPLE, {"libcfg03", "nlong"}, {2, 3}},
        {"robustpath.simple.long", ROBUST_SIMPLE, {"libcfg03", "nlong"}, {2, 3}},
        {"reference.real8", REFERENCE, {"rep2", "refl", "mag7", "rot9"}, {2, 2, 7, 9}},
        {"label.real8", LABEL, {"refl", "mag7", "rot9"}, {2, 7, 9}},
        {"library.real8", POLYGON, {"libcfgx", "coord2", "elemvar"}, {6, 2, 7}},
        // general properties mixed with GDSII properties in every order of 2-3 entries, on every element kind
        {"properties.mixed", POLYGON, {"propsmix", "elemvar9"}, {11, 9}},
        // simple paths with a non-zero element offset (both signs, two magnitudes) over spines with several
        // non-collinear interior joints (Manhattan 5 points, oblique 6 points): the centre line that is saved is the
        // spine displaced by the offset with mitre joints
        // simple flexpaths with a one-grid-step jog against the path's own tolerance (as built) and against the
        // tolerance read_gds gives re-loaded paths by default: vertices exactly the tolerance apart are kept
        {"flexpath.simple.jog", FLEX_SIMPLE, {"libcfg10", "readtol", "srctol", "jog2", "jogstep"}, {10, 2, 2, 2, 3}},
        {"flexpath.simple.offset.joints", FLEX_SIMPLE, {"libcfg", "xf3", "end2", "n56", "off4"}, {4, 3, 2, 2, 4}},
        {"robustpath.simple.offset.joints", ROBUST_SIMPLE, {"libcfg", "xf3", "end2", "n56", "off4"}, {4, 3, 2, 2, 4}},
    };
    return F;
}
inline const Family& heavy_family() {
    static const Family H = {"polygon.heavy", POLYGON, {"tag", "libcfg", "props", "rep", "n"}, {2, 4, 2, 2, 4}};
    return H;
}
inline LibSpec decode(const Family& fam, int64_t idx, bool heavy) {
    LibSpec s;
    Elem e;
    e.kind = fam.kind;
    std::vector<int> v(fam.dims.size());
    for (size_t k = fam.dims.size(); k-- > 0;) { v[k] = (int)(idx % fam.dims[k]); idx /= fam.dims[k]; }
    bool repeated_label = std::string(fam.name) == "label.repeated";
    for (size_t k = 0; k < v.size(); k++) {
        std::string d = fam.dim_names[k];
        int x = v[k];
        if (d == "tag") e.tag = x;
        else if (d == "namepar") s.namepar = x;
        else if (d == "libcfg") s.libcfg = x;
        else if (d == "coord") e.coord = x;
        else if (d == "props") e.props = (fam.kind == POLYGON && !heavy) ? x : (x ? 3 : 0);
        else if (d == "rep") {
            if (heavy) e.rep = x;                                           // none, rectangular
            else if (fam.kind == FLEX_OUTLINE) e.rep = x == 2 ? 3 : x;      // none, rectangular, explicit
            else if (fam.kind == ROBUST_SIMPLE || fam.kind == ROBUST_OUTLINE) e.rep = x;  // none, rectangular
            else if (repeated_label) e.rep = x + 1;
            else e.rep = x;
        }
        else if (d == "n") e.n = heavy ? (x == 0 ? 8189 : x == 1 ? 8190 : x == 2 ? 8191 : 8200) : fam.kind == POLYGON ? (x == 0 ? 3 : x == 1 ? 4 : 9) : 2 + x;
        else if (d == "sw") e.sw = 1 - x;
        else if (d == "end") e.end = x;
        else if (d == "textpar") e.textpar = x;
        else if (d == "refl") e.refl = x;
        else if (d == "mag") e.mag = x;
        else if (d == "rot") e.rot = fam.kind == LABEL ? (x == 2 ? 3 : x) : x;
        else if (d == "anchor") e.anchor = x;
        else if (d == "target") e.target = x;
        else if (d == "libcfg03") s.libcfg = x ? 3 : 0;
        else if (d == "nlong") e.n = fam.kind == FLEX_SIMPLE ? (x == 0 ? 8191 : x == 1 ? 8195 : 16390) : (x == 0 ? 2049 : x == 1 ? 2050 : 4099);
        else if (d == "rep2") e.rep = x;  // none, rectangular 2x3
        else if (d == "mag7") e.mag = x;
        else if (d == "rot9") e.rot = x;
        else if (d == "propsmix") e.props = 4 + x;
        else if (d == "elemvar9") {
            static const int kinds[] = {POLYGON, POLYGON, POLYGON, FLEX_SIMPLE, ROBUST_SIMPLE, FLEX_OUTLINE, LABEL, REFERENCE, REFERENCE};
            e.kind = kinds[x];
            e.n = x == 0 ? 4 : x == 1 ? 9 : 3;       // 9 vertices: fractured when max_points = 8 (pieces copy the properties)
            if (x == 2 || x == 3) e.rep = 1;          // repeated polygon / path: one element per offset, each with the properties
            if (e.kind == FLEX_SIMPLE) e.end = 2;
            if (e.kind == LABEL) { e.anchor = 4; e.rot = 3; }
            if (x == 8) { e.rep = 1; e.rot = 1; }     // AREF
        }
        else if (d == "libcfgx") s.libcfg = 4 + x;
        else if (d == "coord2") e.coord = x ? EXTMIN : PLAIN;
        else if (d == "elemvar") {
            static const int kinds[] = {POLYGON, POLYGON, POLYGON, FLEX_SIMPLE, ROBUST_SIMPLE, LABEL, REFERENCE};
            e.kind = kinds[x];
            e.n = x == 0 ? 3 : x == 1 ? 4 : x == 2 ? 9 : 3;
            if (e.kind == FLEX_SIMPLE || e.kind == ROBUST_SIMPLE) e.end = 2;
            if (e.kind == LABEL) { e.anchor = 4; e.mag = 1; e.rot = 3; }
            if (e.kind == REFERENCE) { e.rep = 1; e.rot = 1; e.mag = 1; }
        }
        else if (d == "xf") { e.xf = x + 1; e.sw = xf_scale_width[e.xf]; }
        else if (d == "off") e.off = x;
        else if (d == "libcfg10") s.libcfg = x;
        else if (d == "readtol") s.readtol = x;
        else if (d == "srctol") e.srctol = x;
        else if (d == "jog2") { e.jog = 1 + x; e.n = 4; }
        else if (d == "jogstep") e.jogstep = x;
        else if (d == "off4") e.off = 1 + x;
        else if (d == "n56") e.n = 5 + x;
        else if (d == "xf3") { e.xf = x == 0 ? 0 : x == 1 ? 5 : 3; if (e.xf) e.sw = xf_scale_width[e.xf]; }  // as built, rotated by 0.6, mirrored
        else if (d == "end2") e.end = x ? 2 : 0;  // flush, extended
    }
    if (repeated_label) e.anchor = 4;
    s.elems.push_back(e);
    return s;
}

// reduced alphabet SIGMA': one representative per kind x state-bearing attribute
inline const std::vector<Elem>& reduced() {
    static std::vector<Elem> R;
    if (!R.empty()) return R;
    auto mk = [&](int kind, int n, int rep, int props) { Elem e; e.kind = kind; e.n = n; e.rep = rep; e.props = props; return e; };
    Elem e;
    R.push_back(mk(POLYGON, 3, 0, 0));
    R.push_back(mk(POLYGON, 4, 0, 1));
    R.push_back(mk(POLYGON, 9, 0, 3));
    R.push_back(mk(POLYGON, 3, 1, 0));
    R.push_back(mk(POLYGON, 9, 3, 2));
    e = mk(POLYGON, 4, 0, 0); e.tag = 1; R.push_back(e);
    e = mk(POLYGON, 3, 0, 0); e.coord = HALF; R.push_back(e);
    e = mk(FLEX_SIMPLE, 3, 0, 0); R.push_back(e);                                       // flush, scaled width
    e = mk(FLEX_SIMPLE, 2, 0, 0); e.end = 1; e.sw = 0; e.coord = HALF; R.push_back(e);  // half width, absolute width, different width
    e = mk(FLEX_SIMPLE, 3, 0, 0); e.end = 2; R.push_back(e);                            // extended
    e = mk(FLEX_SIMPLE, 2, 0, 3); e.end = 3; e.tag = 1; R.push_back(e);                 // round, properties
    e = mk(FLEX_SIMPLE, 3, 2, 0); R.push_back(e);                                       // regular repetition
    R.push_back(mk(FLEX_OUTLINE, 3, 0, 0));
    R.push_back(mk(FLEX_OUTLINE, 2, 1, 3));
    e = mk(ROBUST_SIMPLE, 3, 0, 0); R.push_back(e);
    e = mk(ROBUST_SIMPLE, 2, 0, 1); e.end = 2; e.sw = 0; R.push_back(e);
    R.push_back(mk(ROBUST_OUTLINE, 3, 0, 0));
    e = mk(ROBUST_SIMPLE, 3, 0, 0); e.xf = 1; e.sw = 0; e.off = 1; R.push_back(e);  // scaled by 3 with absolute width, offset element
    e = mk(FLEX_SIMPLE, 3, 0, 0); e.xf = 6; e.off = 1; e.end = 2; R.push_back(e);   // magnified, reflected, rotated, offset element
    e = mk(LABEL, 0, 0, 0); R.push_back(e);                                                                        // NW, plain
    e = mk(LABEL, 0, 0, 1); e.anchor = 8; e.rot = 1; e.mag = 1; e.refl = 1; e.textpar = 1; R.push_back(e);         // SE, pi/2, 2.5, reflected
    e = mk(LABEL, 0, 0, 0); e.anchor = 4; e.rot = 3; R.push_back(e);                                               // O, 0.3
    e = mk(LABEL, 0, 0, 3); e.anchor = 3; e.tag = 1; R.push_back(e);
    e = mk(LABEL, 0, 3, 0); e.anchor = 4; R.push_back(e);
    e = mk(REFERENCE, 0, 0, 0); R.push_back(e);
    e = mk(REFERENCE, 0, 0, 0); e.target = 1; R.push_back(e);
    e = mk(REFERENCE, 0, 1, 0); R.push_back(e);                                    // AREF -> Rectangular
    e = mk(REFERENCE, 0, 1, 0); e.rot = 1; R.push_back(e);                         // AREF rotated -> Regular
    e = mk(REFERENCE, 0, 2, 0); e.rot = 3; e.mag = 1; e.refl = 1; R.push_back(e);  // aligned lattice at 0.3 rad
    e = mk(REFERENCE, 0, 3, 0); R.push_back(e);                                    // skew lattice -> SREFs
    e = mk(REFERENCE, 0, 4, 3); R.push_back(e);                                    // explicit + properties
    e = mk(REFERENCE, 0, 0, 0); e.rot = 2; e.mag = 1; e.refl = 1; R.push_back(e);
    e = mk(REFERENCE, 0, 1, 1); e.target = 1; R.push_back(e);                      // AREF to an absent cell + property
    e = mk(REFERENCE, 0, 0, 2); e.coord = HALF; R.push_back(e);
    return R;
}

inline int64_t singles_light() { int64_t t = 0; for (auto& f : families()) t += f.total(); return t; }
inline int64_t singles_heavy() { return heavy_family().total(); }
inline int64_t pairs() { int64_t r = (int64_t)reduced().size(); return r * r; }
inline int64_t count() { return singles_light() + singles_heavy() + pairs(); }

inline LibSpec spec_of(int64_t index) {
    for (auto& f : families()) {
        if (index < f.total()) return decode(f, index, false);
        index -= f.total();
    }
    if (index < singles_heavy()) return decode(heavy_family(), index, true);
    index -= singles_heavy();
    const std::vector<Elem>& R = reduced();
    LibSpec s;
    int64_t r = (int64_t)R.size();
    if (index >= r * r) return s;  // empty library for out-of-range indices
    s.elems.push_back(R[index / r]);
    s.elems.push_back(R[index % r]);
    return s;
}
inline const char* family_of(int64_t index) {
    for (auto& f : families()) {
        if (index < f.total()) return f.name;
        index -= f.total();
    }
    if (index < singles_heavy()) return "polygon.heavy";
    return "pair";
}
inline Library* build(int64_t index) { return build(spec_of(index)); }
inline std::string describe(int64_t index) { return describe(spec_of(index)); }

}  // namespace gds_corpus
