// c15_prim.hpp — (D) shape primitives: ellipse family, racetrack, fillet against the analytic
// boundary (oracle items 3-5); rectangle, cross, regular_polygon against the documented vertices.
#pragma once

static std::string pj(const Vec2& v) { return "[" + jnum(v.x) + "," + jnum(v.y) + "]"; }

// closed polygon V against a closed exact boundary that starts at V[0]
static SecOut check_closed(const CaseCtx& cx, const std::string& sub, const JFields& tags, Exact& ex, const Array<Vec2>& pa, int slot) {
    std::vector<Vec2> before = {pa[0]};
    std::vector<Vec2> after(pa.items, pa.items + pa.count);
    after.push_back(pa[0]);
    // the boundary must start at the first vertex
    P2 s0 = ex.pieces[0].eval(0);
    SecOut o;
    if (!(dist(s0, toP(pa[0])) <= 1e-9L * std::max((LD)1, std::max(fabsl(s0.x), fabsl(s0.y))))) {
        JFields t = tags;
        t.push_back({"tol", jstr(cx.tol_s)});
        R->violation(sub, "off-curve", t, cx.case_json, fmt("first vertex %s is not the start (%.12Lg, %.12Lg) of the analytic boundary", vstr(pa[0]).c_str(), s0.x, s0.y), cx.replay);
        if (cx.verbose) fprintf(stderr, "  ** VIOLATION first vertex off the boundary start\n");
        o.bad = true;
        return o;
    }
    P2 endp = ex.pieces.back().eval(1);
    return check_vertices(cx, sub, tags, ex, endp, before, after.data(), after.size(), slot);
}

// ---------------------------------------------------------------- ellipse family
struct EllCase { double rx, ry, irx, iry, a0, a1; const char* shape; };
static void ellipse_model(const EllCase& e, P2 c, bool as_full, Exact& ex) {
    bool ring = e.irx > 0 && e.iry > 0;
    auto pt = [&](LD rx, LD ry, LD a) { LD th = ellparam(a, rx, ry); return P2{c.x + rx * cosl(th), c.y + ry * sinl(th)}; };
    if (as_full) {
        ex.pieces.push_back(arc_centered(c, e.rx, e.ry, 0, 2 * PI_L, "outer"));
        if (ring) {
            ex.pieces.push_back(line(pt(e.rx, e.ry, 2 * PI_L), pt(e.irx, e.iry, 2 * PI_L), "seam"));
            ex.pieces.push_back(arc_centered(c, e.irx, e.iry, 2 * PI_L, 0, "inner"));
            ex.pieces.push_back(line(pt(e.irx, e.iry, 0), pt(e.rx, e.ry, 0), "seam"));
        }
    } else if (ring) {
        ex.pieces.push_back(arc_centered(c, e.rx, e.ry, e.a0, e.a1, "outer"));
        ex.pieces.push_back(line(pt(e.rx, e.ry, e.a1), pt(e.irx, e.iry, e.a1), "side"));
        ex.pieces.push_back(arc_centered(c, e.irx, e.iry, e.a1, e.a0, "inner"));
        ex.pieces.push_back(line(pt(e.irx, e.iry, e.a0), pt(e.rx, e.ry, e.a0), "side"));
    } else {
        ex.pieces.push_back(line(c, pt(e.rx, e.ry, e.a0), "side"));
        ex.pieces.push_back(arc_centered(c, e.rx, e.ry, e.a0, e.a1, "outer"));
        ex.pieces.push_back(line(pt(e.rx, e.ry, e.a1), c, "side"));
    }
}
static void run_ellipse(int64_t idx, int toli, const EllCase& e, bool verbose) {
    CaseCtx cx;
    cx.tol = TOLS[toli];
    cx.tol_s = TOL_S[toli];
    cx.verbose = verbose;
    const Vec2 center = {0.5, -0.25};
    cx.case_json = jobj({{"primitive", jstr("ellipse")}, {"shape", jstr(e.shape)}, {"center", pj(center)}, {"radius_x", jnum(e.rx)}, {"radius_y", jnum(e.ry)},
                         {"inner_radius_x", jnum(e.irx)}, {"inner_radius_y", jnum(e.iry)}, {"initial_angle", jnum(e.a0)}, {"final_angle", jnum(e.a1)}, {"tolerance", jnum(cx.tol)}});
    cx.replay = fmt("sub=ellipse idx=%lld", (long long)idx);
    Polygon p = ellipse(center, e.rx, e.ry, e.irx, e.iry, e.a0, e.a1, cx.tol, 0);
    double span = fabs(e.a1 - e.a0);
    bool full = e.a0 == e.a1;
    bool maybe_full = full || fabs(span - 2 * M_PI) < 1e-9;
    double ar = std::max(e.rx, e.ry) / std::min(e.rx, e.ry);
    if (e.irx > 0) ar = std::max(ar, std::max(e.irx, e.iry) / std::min(e.irx, e.iry));
    LD ps = full ? 2 * PI_L : fabsl(ellparam(e.a1, e.rx, e.ry) - ellparam(e.a0, e.rx, e.ry));
    auto odd_pi = [&](double a) { double q = a / M_PI; double rq = round(q); return fabs(q - rq) < 1e-9 && ((long long)fabs(rq)) % 2 == 1 && a != M_PI; };
    bool oddpi = !full && ar != 1 && (odd_pi(e.a0) || odd_pi(e.a1));
    JFields tags = {{"shape", jstr(e.shape)}, {"angle_at_odd_multiple_of_pi", jbool(oddpi)}, {"axis_ratio", jnum(ar)}, {"span", jnum(full ? 2 * M_PI : span)}, {"param_span_over_span", jnum((double)(ps / (full ? 2 * PI_L : (LD)span)))}};
    R->count("cases");
    R->count("cases:ellipse");
    if (cx.tol >= std::min(e.rx, e.ry) || ar >= 20 || span > 2 * M_PI + 1e-9) R->count("nontrivial");
    SecOut o;
    bool structural = false;
    if (p.point_array.count < 3) {
        R->violation("primitive.ellipse", "too-few-vertices", tags, cx.case_json, fmt("%llu vertices", (unsigned long long)p.point_array.count), cx.replay);
        structural = true;
    }
    if (!structural) {
        bool first_full = maybe_full;
        if (maybe_full && !full) {
            // |span| = 2pi: the documented region is the full shape; gdstk may build it either as the
            // full ellipse or as a slice with a degenerate seam.  Accept either description.
            P2 v0 = toP(p.point_array[0]);
            bool starts_at_center = dist(v0, toP(center)) < 1e-9L;
            bool ring = e.irx > 0 && e.iry > 0;
            P2 out0 = {center.x + (LD)e.rx, (LD)center.y};
            first_full = ring ? dist(v0, out0) < 1e-9L : !starts_at_center;
        }
        Exact ex;
        ellipse_model(e, toP(center), first_full, ex);
        if (verbose) fprintf(stderr, "ellipse %s: %llu vertices, modelled as %s\n", cx.case_json.c_str(), (unsigned long long)p.point_array.count, first_full ? "full" : "slice");
        o = check_closed(cx, "primitive.ellipse", tags, ex, p.point_array, MX_ELLIPSE);
    }
    R->outcome("primitive.ellipse", fmt("%s %s n=%llu bad=%d r=%.1f", e.shape, cx.tol_s.c_str(), (unsigned long long)p.point_array.count, o.bad, o.ratio));
    if (!o.bad && idx % 53 == 3) R->sample("primitive", cx.case_json);
    p.clear();
}

// ---------------------------------------------------------------- racetrack
static void run_racetrack(int64_t idx, int toli, double L, double r, double ri, bool vertical, bool verbose) {
    CaseCtx cx;
    cx.tol = TOLS[toli];
    cx.tol_s = TOL_S[toli];
    cx.verbose = verbose;
    const Vec2 center = {-0.5, 0.75};
    cx.case_json = jobj({{"primitive", jstr("racetrack")}, {"center", pj(center)}, {"straight_length", jnum(L)}, {"radius", jnum(r)}, {"inner_radius", jnum(ri)},
                         {"vertical", jbool(vertical)}, {"tolerance", jnum(cx.tol)}});
    cx.replay = fmt("sub=racetrack idx=%lld", (long long)idx);
    Polygon p = racetrack(center, L, r, ri, vertical, cx.tol, 0);
    // analytic boundary: two half circles of the given radius around c1/c2 = center +- direction*L/2,
    // joined by straight sides; with an inner radius the inner boundary is traversed backwards and
    // joined to the outer one by a seam at the start point
    P2 c = toP(center);
    P2 dir = vertical ? P2{0, (LD)L / 2} : P2{(LD)L / 2, 0};
    LD a0 = vertical ? 0 : -PI_L / 2;
    P2 c1 = c + dir, c2 = c - dir;
    auto pt = [&](P2 cc, LD rad, LD a) { return P2{cc.x + rad * cosl(a), cc.y + rad * sinl(a)}; };
    Exact ex;
    ex.pieces.push_back(arc_centered(c1, r, r, a0, a0 + PI_L, "outer"));
    ex.pieces.push_back(line(pt(c1, r, a0 + PI_L), pt(c2, r, a0 + PI_L), "side"));
    ex.pieces.push_back(arc_centered(c2, r, r, a0 + PI_L, a0 + 2 * PI_L, "outer"));
    ex.pieces.push_back(line(pt(c2, r, a0 + 2 * PI_L), pt(c1, r, a0), "side"));
    if (ri > 0) {
        ex.pieces.push_back(line(pt(c1, r, a0), pt(c1, ri, a0), "seam"));
        ex.pieces.push_back(line(pt(c1, ri, a0), pt(c2, ri, a0 + 2 * PI_L), "side"));
        ex.pieces.push_back(arc_centered(c2, ri, ri, a0 + 2 * PI_L, a0 + PI_L, "inner"));
        ex.pieces.push_back(line(pt(c2, ri, a0 + PI_L), pt(c1, ri, a0 + PI_L), "side"));
        ex.pieces.push_back(arc_centered(c1, ri, ri, a0 + PI_L, a0, "inner"));
        ex.pieces.push_back(line(pt(c1, ri, a0), pt(c1, r, a0), "seam"));
    }
    JFields tags = {{"inner", jbool(ri > 0)}, {"vertical", jbool(vertical)}};
    R->count("cases");
    R->count("cases:racetrack");
    if (cx.tol >= (ri > 0 ? ri : r)) R->count("nontrivial");
    SecOut o = check_closed(cx, "primitive.racetrack", tags, ex, p.point_array, MX_RACETRACK);
    R->outcome("primitive.racetrack", fmt("%s n=%llu bad=%d r=%.1f", cx.tol_s.c_str(), (unsigned long long)p.point_array.count, o.bad, o.ratio));
    p.clear();
}

// ---------------------------------------------------------------- fillet
static void run_fillet(int64_t idx, int toli, int shape, const std::vector<double>& radii, const char* rname, bool verbose) {
    CaseCtx cx;
    cx.tol = TOLS[toli];
    cx.tol_s = TOL_S[toli];
    cx.verbose = verbose;
    std::vector<Vec2> Lp = {{0, 0}, {4, 0}, {4, 2}, {2, 2}, {2, 4}, {0, 4}};
    if (shape == 1) std::reverse(Lp.begin(), Lp.end());
    if (shape == 2) std::rotate(Lp.begin(), Lp.begin() + 3, Lp.end());
    std::vector<std::string> vj;
    for (auto& v : Lp) vj.push_back(pj(v));
    cx.case_json = jobj({{"primitive", jstr("fillet")}, {"polygon", jarr(vj)}, {"radii", jnums(radii)}, {"tolerance", jnum(cx.tol)}});
    cx.replay = fmt("sub=fillet idx=%lld", (long long)idx);
    Polygon p = {};
    for (auto& v : Lp) p.point_array.append(v);
    Array<double> ra = {};
    for (double r : radii) ra.append(r);
    p.fillet(ra, cx.tol);
    ra.clear();
    int nc = (int)Lp.size();
    JFields tags = {{"radii", jstr(rname)}, {"orientation", jstr(shape == 1 ? "cw" : "ccw")}};
    R->count("cases");
    R->count("cases:fillet");
    double rmin = *std::min_element(radii.begin(), radii.end()), rmax = *std::max_element(radii.begin(), radii.end());
    if (cx.tol >= rmin || rmax > 1) R->count("nontrivial");
    auto viol = [&](const std::string& cls, JFields extra, const std::string& detail) {
        JFields t = tags;
        t.push_back({"tol", jstr(cx.tol_s)});
        for (auto& e : extra) t.push_back(e);
        R->violation("primitive.fillet", cls, t, cx.case_json, detail, cx.replay);
        if (verbose) fprintf(stderr, "  ** VIOLATION %s: %s\n", cls.c_str(), detail.c_str());
    };
    uint64_t n = p.point_array.count;
    bool bad = false;
    for (uint64_t i = 0; i < n && !bad; i++)
        if (!std::isfinite(p.point_array[i].x) || !std::isfinite(p.point_array[i].y)) { viol("nan-vertex", {}, fmt("vertex %llu is non-finite", (unsigned long long)i)); bad = true; }
    // group the output by nearest original corner: must be corner 0,1,..,nc-1 in order, contiguous
    std::vector<int> first(nc, -1), cnt(nc, 0);
    if (!bad) {
        int cur = -1;
        for (uint64_t i = 0; i < n && !bad; i++) {
            int best = 0;
            LD bd = 1e300L;
            for (int k = 0; k < nc; k++) { LD d = dist(toP(p.point_array[i]), toP(Lp[k])); if (d < bd) { bd = d; best = k; } }
            if (best != cur) {
                if (best != cur + 1) { viol("structure", {}, fmt("vertex %llu %s belongs to corner %d after corner %d", (unsigned long long)i, vstr(p.point_array[i]).c_str(), best, cur)); bad = true; break; }
                cur = best;
                first[cur] = (int)i;
            }
            cnt[cur]++;
        }
        if (!bad && cur != nc - 1) { viol("structure", {}, fmt("only %d of %d corners are represented in the %llu output vertices", cur + 1, nc, (unsigned long long)n)); bad = true; }
    }
    double worst_ratio = -1;
    if (!bad) {
        // measured radii + documented radii
        Exact ex;            // boundary with the measured radii: oracle item (4)
        std::vector<Piece> docarcs;
        std::vector<P2> arc_start(nc), arc_end(nc);
        std::vector<Piece> arcs(nc);
        std::vector<bool> has_arc(nc, false);
        for (int k = 0; k < nc && !bad; k++) {
            P2 p0 = toP(Lp[(k + nc - 1) % nc]), p1 = toP(Lp[k]), p2 = toP(Lp[(k + 1) % nc]);
            LD len0 = dist(p0, p1), len1 = dist(p1, p2);
            P2 v0 = (1 / len0) * (p1 - p0), v1 = (1 / len1) * (p2 - p1);
            LD theta = acosl(std::max((LD)-1, std::min((LD)1, dot(v0, v1))));
            LD tant = tanl(theta / 2);
            LD sgn = cross(v0, v1) > 0 ? 1 : -1;
            LD r = radii[k % radii.size()];
            LD lo = std::min(r, (LD)0.5 * std::min(len0, len1) / tant);       // documented effective radius
            P2 fv = toP(p.point_array[first[k]]);
            LD l = dist(fv, p1);
            LD reff = (cnt[k] == 1 && l <= 1e-12L) ? 0 : l / tant;
            if (reff > lo * (1 + 1e-9L) + 1e-12L)
                { viol("fillet-radius", {{"corner", jint(k)}}, fmt("corner %d: tangent point %s gives radius %.12Lg, larger than min(requested %.6Lg, half of the shortest adjacent edge) = %.12Lg", k, vstr(p.point_array[first[k]]).c_str(), reff, r, lo)); bad = true; break; }
            if (reff > 0 && r <= (LD)0.5 * std::min(len0, len1) / tant - cx.tol && fabsl(reff - r) > 1e-9L)
                { viol("fillet-radius", {{"corner", jint(k)}}, fmt("corner %d: radius %.12Lg used although the requested %.6Lg fits (half of the shortest adjacent edge is %.6Lg)", k, reff, r, 0.5L * std::min(len0, len1))); bad = true; break; }
            auto mk = [&](LD rad, const char* what) {
                P2 bis = v1 - v0;
                bis = (1 / norm(bis)) * bis;
                P2 cc = p1 + (rad / cosl(theta / 2)) * bis;
                P2 A = p1 - (rad * tant) * v0;
                LD aA = atan2l(A.y - cc.y, A.x - cc.x);
                Piece a = arc_centered(cc, rad, rad, aA, aA + sgn * theta, what);
                return a;
            };
            if (reff > 0) { arcs[k] = mk(reff, "fillet-arc"); arcs[k].dev = false; has_arc[k] = true; arc_start[k] = arcs[k].eval(0); arc_end[k] = arcs[k].eval(1); }
            else arc_start[k] = arc_end[k] = p1;
            if (lo > 0) docarcs.push_back(mk(lo, "documented fillet arc"));
        }
        if (!bad) {
            for (int k = 0; k < nc; k++) {
                if (has_arc[k]) ex.pieces.push_back(arcs[k]);
                Piece ln = line(arc_end[k], arc_start[(k + 1) % nc], "edge");
                ex.pieces.push_back(ln);
            }
            SecOut o = check_closed(cx, "primitive.fillet", tags, ex, p.point_array, -1);
            bad = o.bad;
        }
        if (!bad) {
            // (5) documented arcs vs the output polygon (full distance)
            LD maxd = 0;
            P2 wp = {0, 0};
            int per = std::max(64, 2000 / std::max(1, (int)docarcs.size()));
            for (auto& a : docarcs)
                for (int j = 0; j <= per; j++) {
                    P2 q = a.eval((LD)j / per);
                    LD d = 1e300L;
                    for (uint64_t i = 0; i < n; i++) d = std::min(d, dist_seg(q, toP(p.point_array[i]), toP(p.point_array[(i + 1) % n])));
                    if (d > maxd) { maxd = d; wp = q; }
                }
            worst_ratio = (double)(maxd / cx.tol);
            mx_note(MX_FILLET, worst_ratio);
            R->count("deviation_checked");
            if (maxd > K_DEV * cx.tol) {
                viol("deviation", {{"ratio", jnum(worst_ratio)}, {"radius_over_tol", jnum((double)(rmax / cx.tol))}},
                     fmt("point (%.9Lg, %.9Lg) of the documented fillet arc is %.6Lg = %.3f x tolerance away from the filleted polygon (%llu vertices; allowed %.1f x)", wp.x, wp.y, maxd, worst_ratio, (unsigned long long)n, K_DEV));
                bad = true;
            } else
                mx_note(MX_N + MX_FILLET, worst_ratio);
        }
    }
    R->outcome("primitive.fillet", fmt("%s %s n=%llu bad=%d r=%.1f", rname, cx.tol_s.c_str(), (unsigned long long)n, bad, worst_ratio));
    p.clear();
}

// ---------------------------------------------------------------- exact-vertex primitives
static bool cyclic_match(const Array<Vec2>& got, const std::vector<P2>& want, LD eps) {
    size_t n = want.size();
    if (got.count != n) return false;
    for (int dirn = 0; dirn < 2; dirn++)
        for (size_t off = 0; off < n; off++) {
            bool ok = true;
            for (size_t i = 0; i < n && ok; i++) {
                size_t j = dirn ? (off + n - i) % n : (off + i) % n;
                ok = dist(toP(got[i]), want[j]) <= eps;
            }
            if (ok) return true;
        }
    return false;
}
static void run_exact(int64_t idx, bool verbose) {
    static const Vec2 CEN[3] = {{0, 0}, {-2, -2}, {0.5, 1.25}};
    std::string replay = fmt("sub=exact_vertices idx=%lld", (long long)idx);
    auto judge = [&](const char* what, Polygon& p, const std::vector<P2>& want, const std::string& cj) {
        R->count("cases");
        R->count(std::string("cases:") + what);
        LD sc = 1;
        for (auto& w : want) sc = std::max(sc, std::max(fabsl(w.x), fabsl(w.y)));
        bool ok = cyclic_match(p.point_array, want, 1e-12L * sc);
        if (verbose) { fprintf(stderr, "%s %s: %llu vertices:", what, cj.c_str(), (unsigned long long)p.point_array.count); for (uint64_t i = 0; i < p.point_array.count; i++) fprintf(stderr, " %s", vstr(p.point_array[i]).c_str()); fprintf(stderr, " -> %s\n", ok ? "ok" : "MISMATCH"); }
        if (!ok) {
            std::vector<std::string> g;
            for (uint64_t i = 0; i < p.point_array.count && i < 16; i++) g.push_back(pj(p.point_array[i]));
            R->violation(std::string("primitive.") + what, "vertices", {}, cj, "vertices differ from the documented ones: got " + jarr(g), replay);
        }
        R->outcome(std::string("primitive.") + what, fmt("n=%llu ok=%d", (unsigned long long)p.point_array.count, ok));
        p.clear();
    };
    if (idx < 27) {   // rectangle: corner pairs
        Vec2 a = CEN[idx % 3], b = a + Vec2{(double)((idx / 3) % 3 - 1) * 1.5 + 0.25, (double)(idx / 9) * 2 - 2.5};
        Polygon p = rectangle(a, b, 0);
        judge("rectangle", p, {toP(a), P2{(LD)b.x, (LD)a.y}, toP(b), P2{(LD)a.x, (LD)b.y}}, jobj({{"primitive", jstr("rectangle")}, {"corner1", pj(a)}, {"corner2", pj(b)}}));
    } else if (idx < 27 + 18) {
        int k = (int)idx - 27;
        Vec2 c = CEN[k % 3];
        double full = (k / 3) % 2 ? 4 : 1.5, arm = (k / 6) == 0 ? 0.5 : (k / 6) == 1 ? 1 : 0.125;
        Polygon p = cross(c, full, arm, 0);
        LD l = full / 2, h = arm / 2;
        std::vector<P2> w = {{l, h}, {h, h}, {h, l}, {-h, l}, {-h, h}, {-l, h}, {-l, -h}, {-h, -h}, {-h, -l}, {h, -l}, {h, -h}, {l, -h}};
        for (auto& q : w) q = q + toP(c);
        judge("cross", p, w, jobj({{"primitive", jstr("cross")}, {"center", pj(c)}, {"full_size", jnum(full)}, {"arm_width", jnum(arm)}}));
        R->count("nontrivial");
    } else {
        int k = (int)idx - 45;
        static const double ROT[4] = {0, 0.7, -M_PI / 2, 3};
        static const double SIDE[2] = {1, 2.5};
        int sides = 3 + k % 6;
        double rot = ROT[(k / 6) % 4], side = SIDE[(k / 24) % 2];
        Vec2 c = CEN[(k / 48) % 3];
        Polygon p = regular_polygon(c, side, sides, rot, 0);
        // documented: side length `side`, lower edge horizontal at rotation 0, rotated about the centre
        LD rad = (LD)side / (2 * sinl(PI_L / sides));
        std::vector<P2> w;
        for (int i = 0; i < sides; i++) {
            LD a = -PI_L / 2 - PI_L / sides + 2 * PI_L * i / sides + rot;
            w.push_back({c.x + rad * cosl(a), c.y + rad * sinl(a)});
        }
        judge("regular_polygon", p, w, jobj({{"primitive", jstr("regular_polygon")}, {"center", pj(c)}, {"side_length", jnum(side)}, {"sides", jint(sides)}, {"rotation", jnum(rot)}}));
        if (rot != 0) R->count("nontrivial");
    }
}

static void register_primitives(bool thorough) {
    (void)thorough;
    // ellipse family
    static std::vector<EllCase> EC;
    struct Shape { double rx, ry, irx, iry; const char* name; };
    static const Shape SH[] = {{1, 1, 0, 0, "circle"}, {3, 3, 0, 0, "circle"}, {2, 1, 0, 0, "ellipse 2:1"}, {1, 2, 0, 0, "ellipse 1:2"}, {3, 0.15, 0, 0, "ellipse 20:1"},
                               {10, 0.5, 0, 0, "ellipse 20:1 (rx 10)"}, {2, 2, 1, 1, "ring"}, {3, 1.5, 2, 0.5, "elliptical ring"}};
    static const double SPAN[5] = {0.2, M_PI / 2, M_PI, 2 * M_PI, 3 * M_PI}, A0[2] = {0, 2.5};
    for (auto& s : SH) {
        EC.push_back({s.rx, s.ry, s.irx, s.iry, 0, 0, s.name});
        for (int sp = 0; sp < 5; sp++)
            for (int sg = 0; sg < 2; sg++)
                for (int st = 0; st < 2; st++) {
                    EC.push_back({s.rx, s.ry, s.irx, s.iry, A0[st], A0[st] + (sg ? -SPAN[sp] : SPAN[sp]), s.name});
                }
    }
    {
        Sub s;
        s.name = "ellipse";
        s.desc = "ellipse(): circle r{1,3}, ellipses 2:1, 1:2, 20:1 (rx 3 and 10), ring, elliptical ring; full and slices span{0.2,pi/2,pi,2pi,3pi} x sign x initial{0,2.5}; x tolerance";
        int64_t ne = (int64_t)EC.size();
        s.n = ne * (int64_t)TOLS.size();
        s.chunk = 8;
        s.run = [ne](int64_t idx, bool v) { run_ellipse(idx, (int)(idx / ne), EC[idx % ne], v); };
        SUBS.push_back(s);
    }
    {
        Sub s;
        s.name = "racetrack";
        s.desc = "racetrack(): straight_length{2,0.5} x radius{1,3} x inner{none, r/2} x vertical x tolerance";
        s.n = (int64_t)TOLS.size() * 16;
        s.chunk = 4;
        s.run = [](int64_t idx, bool v) {
            int k = (int)(idx % 16);
            double r = (k & 2) ? 3 : 1;
            run_racetrack(idx, (int)(idx / 16), (k & 1) ? 0.5 : 2, r, (k & 4) ? r / 2 : 0, (k & 8) != 0, v);
        };
        SUBS.push_back(s);
    }
    {
        Sub s;
        s.name = "fillet";
        s.desc = "Polygon::fillet on the L-shape (ccw, cw, rotated start): radii {0.25},{0.75},{1},{5 (too large)},{0.25,1 cycled} x tolerance";
        s.n = (int64_t)TOLS.size() * 15;
        s.chunk = 3;
        s.run = [](int64_t idx, bool v) {
            static const std::vector<std::vector<double>> RAD = {{0.25}, {0.75}, {1}, {5}, {0.25, 1}};
            static const char* RN[5] = {"0.25", "0.75", "1", "5(too large)", "0.25,1"};
            int k = (int)(idx % 15);
            run_fillet(idx, (int)(idx / 15), k / 5, RAD[k % 5], RN[k % 5], v);
        };
        SUBS.push_back(s);
    }
    {
        Sub s;
        s.name = "exact_vertices";
        s.desc = "rectangle (27 corner pairs), cross (18), regular_polygon (3..8 sides x 4 rotations x 2 sizes x 3 centres): documented vertices within 1e-12";
        s.n = 45 + 6 * 4 * 2 * 3;
        s.chunk = 16;
        s.run = [](int64_t idx, bool v) { run_exact(idx, v); };
        SUBS.push_back(s);
    }
}
