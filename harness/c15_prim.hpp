// c15_prim.hpp — (D) shape primitives: ellipse family, racetrack, fillet against the analytic
// boundary (oracle items 3-5); rectangle, cross, regular_polygon against the documented vertices.
#pragma once

// magnitude family: every length (centre, radii, polygon, tolerance) of a primitive case is multiplied
// by g_mag; set by the *_magnitude sub-searches around a call of the ordinary runner
static double g_mag = 1;
static std::string g_mag_s, g_sub;
static std::string sub_or(const char* dflt) { return g_sub.empty() ? std::string(dflt) : g_sub; }
static std::string tol_label(int toli) { return g_mag == 1 ? TOL_S[toli] : TOL_S[toli] + "*" + g_mag_s; }
static std::string pj(const Vec2& v) { return "[" + jnum(v.x) + "," + jnum(v.y) + "]"; }

// Closed polygon V against a closed exact outline.  The property fixes neither the vertex the array
// starts with nor (for ellipse/ring/slice/racetrack) the winding direction, so the judgement is
// invariant under cyclic rotation of V: every place of the outline where V[0] lies is tried as the
// start (the outline is re-cut there), optionally also on the reversed outline, and the polygon is
// accepted if one such description passes all of (2)-(5): every vertex on the outline with
// non-decreasing parameters, the walk closes after exactly one turn, deviation <= K*tolerance.
static Piece sub_piece(const Piece& p, LD a, LD b) {
    Piece q = p;
    if (p.type == Piece::ARC) { q.th0 = p.th0 + a * (p.th1 - p.th0); q.th1 = p.th0 + b * (p.th1 - p.th0); }
    else q.ctrl = {p.eval(a), p.eval(b)};   // closed outlines consist of lines and arcs only
    return q;
}
static Exact recut(const Exact& ex, LD g0) {
    int n = (int)ex.pieces.size();
    int i = (int)floorl(g0);
    if (i >= n) i = n - 1;
    if (i < 0) i = 0;
    LD u0 = g0 - i;
    Exact r;
    if (u0 < 1) r.pieces.push_back(sub_piece(ex.pieces[i], u0, 1));
    for (int k = 1; k < n; k++) r.pieces.push_back(ex.pieces[(i + k) % n]);
    if (u0 > 0) r.pieces.push_back(sub_piece(ex.pieces[i], 0, u0));
    return r;
}
static Exact reversed(const Exact& ex) {
    Exact r;
    for (int k = (int)ex.pieces.size() - 1; k >= 0; k--) r.pieces.push_back(sub_piece(ex.pieces[k], 1, 0));
    return r;
}
static SecOut check_closed(const CaseCtx& cx, const std::string& sub, const JFields& tags, const Exact& ex0, const std::vector<Vec2>& V, int slot,
                           bool either_orientation, bool loud = true) {
    std::vector<Vec2> before = {V[0]};
    std::vector<Vec2> after(V);
    after.push_back(V[0]);
    const bool was_quiet = g_quiet;
    struct Cand { int orient; LD g0; };
    std::vector<Cand> cands;
    Exact base[2];
    base[0] = ex0;
    base[0].build();
    if (either_orientation) { base[1] = reversed(ex0); base[1].build(); }
    P2 v0 = toP(V[0]);
    LD closest = 1e300L;
    for (int o = 0; o < (either_orientation ? 2 : 1); o++) {
        LD eps = 1e-9L * base[o].scale(cx.scale_floor), tp = 0, P = base[o].total();
        for (int it = 0; it < 24 && tp < P; it++) {
            LD t, dm;
            bool f = base[o].find_from(v0, tp, eps, t, dm);
            if (dm < closest) closest = dm;
            if (!f || t >= P - 1e-12L) break;
            cands.push_back({o, t});
            tp = t + 1.0L / base[o].mper;
        }
    }
    SecOut res;
    auto run = [&](const Cand& c) {
        Exact ex = recut(base[c.orient], c.g0);
        P2 endp = ex.pieces.back().eval(1);
        return check_vertices(cx, sub, tags, ex, endp, before, after.data(), after.size(), slot);
    };
    std::vector<Deferred>* const outer = g_defer;
    std::vector<Deferred> buf, firstbuf;
    SecOut firstres;
    int pick = -1;
    if (!loud) g_quiet = true;
    for (size_t k = 0; k < cands.size() && pick < 0; k++) {
        buf.clear();
        g_defer = &buf;
        SecOut r = run(cands[k]);
        g_defer = outer;
        if (!r.bad) { pick = (int)k; res = r; }
        else if (k == 0) { firstbuf = buf; firstres = r; }
    }
    if (pick < 0 && !cands.empty()) {   // rejected under every description: report the first
        res = firstres;
        for (auto& d : firstbuf) emit_violation(d.sub, d.cls, d.tags, d.case_json, d.detail, d.replay, cx.verbose);
    } else if (pick < 0) {
        res.bad = true;
        JFields t = tags;
        t.push_back({"tol", jstr(cx.tol_s)});
        emit_violation(sub, "off-curve", t, cx.case_json, fmt("vertex 0 %s is %.3Lg away from the analytic outline", vstr(V[0]).c_str(), closest), cx.replay, cx.verbose);
    }
    mx_note(slot, res.ratio);
    if (!res.bad) mx_note(MX_N + slot, res.ratio);
    if (cx.verbose && !g_quiet) fprintf(stderr, "  closed outline: %zu admissible start(s) for vertex 0, accepted: %s\n", cands.size(), pick >= 0 ? fmt("orientation %s, start parameter %.9Lg", cands[pick].orient ? "reversed" : "as modelled", cands[pick].g0).c_str() : "none");
    g_quiet = was_quiet;
    // self-check of the invariance: the same polygon with its vertex array rotated by a third (and,
    // where the winding is free, reversed) must get the same verdict
    if (loud && !was_quiet && !outer && V.size() >= 3 && hash128(cx.case_json)[0] % 4 == 0) {   // every 4th case (by case hash)
        std::vector<Vec2> W(V);
        std::rotate(W.begin(), W.begin() + W.size() / 3, W.end());
        if (either_orientation) std::reverse(W.begin(), W.end());
        SecOut r2 = check_closed(cx, sub, tags, ex0, W, slot, either_orientation, false);
        R->count("rotation_invariance_checked");
        if (r2.bad != res.bad) R->internal_error("verdict of a closed primitive changed under rotation/reversal of its vertex array: " + cx.case_json);
    }
    return res;
}
static std::vector<Vec2> to_vec(const Array<Vec2>& a) { return std::vector<Vec2>(a.items, a.items + a.count); }

// ---------------------------------------------------------------- ellipse family
struct EllCase { double rx, ry, irx, iry, a0, a1; const char* shape; };
static void ellipse_model(const EllCase& e, P2 c, bool as_full, Exact& ex) {
    bool ring = e.irx > 0 && e.iry > 0;
    auto pt = [&](LD rx, LD ry, LD a) { LD th = ellparam(a, rx, ry); return P2{c.x + rx * cosl(th), c.y + ry * sinl(th)}; };
    if (as_full) {
        ex.pieces.push_back(arc_centered(c, e.rx, e.ry, 0, 2 * PI_L, "outer"));
        if (ring) {
            ex.pieces.push_back(line(pt(e.rx, e.ry, 2 * PI_L), pt(e.irx, e.iry, 2 * PI_L), "seam"));
            ex.pieces.push_back(arc_centered(c, e.irx, e.iry, 2 * PI_L, 0, "inner"));
            ex.pieces.push_back(line(pt(e.irx, e.iry, 0), pt(e.rx, e.ry, 0), "seam"));
        }
    } else if (ring) {
        ex.pieces.push_back(arc_centered(c, e.rx, e.ry, e.a0, e.a1, "outer"));
        ex.pieces.push_back(line(pt(e.rx, e.ry, e.a1), pt(e.irx, e.iry, e.a1), "side"));
        ex.pieces.push_back(arc_centered(c, e.irx, e.iry, e.a1, e.a0, "inner"));
        ex.pieces.push_back(line(pt(e.irx, e.iry, e.a0), pt(e.rx, e.ry, e.a0), "side"));
    } else {
        ex.pieces.push_back(line(c, pt(e.rx, e.ry, e.a0), "side"));
        ex.pieces.push_back(arc_centered(c, e.rx, e.ry, e.a0, e.a1, "outer"));
        ex.pieces.push_back(line(pt(e.rx, e.ry, e.a1), c, "side"));
    }
}
static void run_ellipse(int64_t idx, int toli, const EllCase& e0, bool verbose) {
    CaseCtx cx;
    cx.tol = TOLS[toli] * g_mag;
    cx.tol_s = tol_label(toli);
    cx.scale_floor = g_mag < 1 ? g_mag : 1;
    cx.verbose = verbose;
    EllCase e = e0;
    e.rx *= g_mag; e.ry *= g_mag; e.irx *= g_mag; e.iry *= g_mag;
    const Vec2 center = {0.5 * g_mag, -0.25 * g_mag};
    cx.case_json = jobj({{"primitive", jstr("ellipse")}, {"shape", jstr(e.shape)}, {"center", pj(center)}, {"radius_x", jnum(e.rx)}, {"radius_y", jnum(e.ry)},
                         {"inner_radius_x", jnum(e.irx)}, {"inner_radius_y", jnum(e.iry)}, {"initial_angle", jnum(e.a0)}, {"final_angle", jnum(e.a1)}, {"tolerance", jnum(cx.tol)}});
    cx.replay = fmt("sub=%s idx=%lld", sub_or("ellipse").c_str(), (long long)idx);
    Polygon p = ellipse(center, e.rx, e.ry, e.irx, e.iry, e.a0, e.a1, cx.tol, 0);
    double span = fabs(e.a1 - e.a0);
    bool full = e.a0 == e.a1;
    bool maybe_full = full || fabs(span - 2 * M_PI) < 1e-9;
    double ar = std::max(e.rx, e.ry) / std::min(e.rx, e.ry);
    if (e.irx > 0) ar = std::max(ar, std::max(e.irx, e.iry) / std::min(e.irx, e.iry));
    LD ps = full ? 2 * PI_L : fabsl(ellparam(e.a1, e.rx, e.ry) - ellparam(e.a0, e.rx, e.ry));
    auto odd_pi = [&](double a) { double q = a / M_PI; double rq = round(q); return fabs(q - rq) < 1e-9 && ((long long)fabs(rq)) % 2 == 1 && a != M_PI; };
    bool oddpi = !full && ar != 1 && (odd_pi(e.a0) || odd_pi(e.a1));
    JFields tags = {{"shape", jstr(e.shape)}, {"angle_at_odd_multiple_of_pi", jbool(oddpi)}, {"axis_ratio", jnum(ar)}, {"span", jnum(full ? 2 * M_PI : span)}, {"param_span_over_span", jnum((double)(ps / (full ? 2 * PI_L : (LD)span)))}};
    R->count("cases");
    R->count("cases:ellipse");
    if (cx.tol >= std::min(e.rx, e.ry) || ar >= 20 || span > 2 * M_PI + 1e-9) R->count("nontrivial");
    SecOut o;
    bool structural = false;
    if (p.point_array.count < 3) {
        R->violation("primitive.ellipse", "too-few-vertices", tags, cx.case_json, fmt("%llu vertices", (unsigned long long)p.point_array.count), cx.replay);
        structural = true;
    }
    if (!structural) {
        // |span| = 2pi: the documented region is the full shape; gdstk may build it either as the
        // full ellipse or as a slice with a degenerate seam.  Accept either description.
        std::vector<bool> models;
        if (maybe_full) models.push_back(true);
        if (!full) models.push_back(false);
        std::vector<Vec2> V = to_vec(p.point_array);
        int ok = -1;
        for (size_t k = 0; models.size() > 1 && k < models.size() && ok < 0; k++) {
            Exact ex;
            ellipse_model(e, toP(center), models[k], ex);
            if (!check_closed(cx, "primitive.ellipse", tags, ex, V, MX_ELLIPSE, true, false).bad) ok = (int)k;
        }
        Exact ex;
        ellipse_model(e, toP(center), models[ok >= 0 ? ok : 0], ex);
        if (verbose) fprintf(stderr, "ellipse %s: %llu vertices, modelled as %s\n", cx.case_json.c_str(), (unsigned long long)p.point_array.count, models[ok >= 0 ? ok : 0] ? "full" : "slice");
        o = check_closed(cx, "primitive.ellipse", tags, ex, V, MX_ELLIPSE, true);
    }
    R->outcome("primitive.ellipse", fmt("%s %s n=%llu bad=%d r=%.1f", e.shape, cx.tol_s.c_str(), (unsigned long long)p.point_array.count, o.bad, o.ratio));
    if (!o.bad && idx % 53 == 3) R->sample("primitive", cx.case_json);
    p.clear();
}

// ---------------------------------------------------------------- racetrack
static void run_racetrack(int64_t idx, int toli, double L, double r, double ri, bool vertical, bool verbose) {
    CaseCtx cx;
    cx.tol = TOLS[toli] * g_mag;
    cx.tol_s = tol_label(toli);
    cx.scale_floor = g_mag < 1 ? g_mag : 1;
    cx.verbose = verbose;
    L *= g_mag; r *= g_mag; ri *= g_mag;
    const Vec2 center = {-0.5 * g_mag, 0.75 * g_mag};
    cx.case_json = jobj({{"primitive", jstr("racetrack")}, {"center", pj(center)}, {"straight_length", jnum(L)}, {"radius", jnum(r)}, {"inner_radius", jnum(ri)},
                         {"vertical", jbool(vertical)}, {"tolerance", jnum(cx.tol)}});
    cx.replay = fmt("sub=%s idx=%lld", sub_or("racetrack").c_str(), (long long)idx);
    Polygon p = racetrack(center, L, r, ri, vertical, cx.tol, 0);
    // analytic boundary: two half circles of the given radius around c1/c2 = center +- direction*L/2,
    // joined by straight sides; with an inner radius the inner boundary is traversed backwards and
    // joined to the outer one by a seam at the start point
    P2 c = toP(center);
    P2 dir = vertical ? P2{0, (LD)L / 2} : P2{(LD)L / 2, 0};
    LD a0 = vertical ? 0 : -PI_L / 2;
    P2 c1 = c + dir, c2 = c - dir;
    auto pt = [&](P2 cc, LD rad, LD a) { return P2{cc.x + rad * cosl(a), cc.y + rad * sinl(a)}; };
    Exact ex;
    ex.pieces.push_back(arc_centered(c1, r, r, a0, a0 + PI_L, "outer"));
    ex.pieces.push_back(line(pt(c1, r, a0 + PI_L), pt(c2, r, a0 + PI_L), "side"));
    ex.pieces.push_back(arc_centered(c2, r, r, a0 + PI_L, a0 + 2 * PI_L, "outer"));
    ex.pieces.push_back(line(pt(c2, r, a0 + 2 * PI_L), pt(c1, r, a0), "side"));
    if (ri > 0) {
        ex.pieces.push_back(line(pt(c1, r, a0), pt(c1, ri, a0), "seam"));
        ex.pieces.push_back(line(pt(c1, ri, a0), pt(c2, ri, a0 + 2 * PI_L), "side"));
        ex.pieces.push_back(arc_centered(c2, ri, ri, a0 + 2 * PI_L, a0 + PI_L, "inner"));
        ex.pieces.push_back(line(pt(c2, ri, a0 + PI_L), pt(c1, ri, a0 + PI_L), "side"));
        ex.pieces.push_back(arc_centered(c1, ri, ri, a0 + PI_L, a0, "inner"));
        ex.pieces.push_back(line(pt(c1, ri, a0), pt(c1, r, a0), "seam"));
    }
    JFields tags = {{"inner", jbool(ri > 0)}, {"vertical", jbool(vertical)}};
    R->count("cases");
    R->count("cases:racetrack");
    if (cx.tol >= (ri > 0 ? ri : r)) R->count("nontrivial");
    SecOut o = check_closed(cx, "primitive.racetrack", tags, ex, to_vec(p.point_array), MX_RACETRACK, true);
    R->outcome("primitive.racetrack", fmt("%s n=%llu bad=%d r=%.1f", cx.tol_s.c_str(), (unsigned long long)p.point_array.count, o.bad, o.ratio));
    p.clear();
}

// ---------------------------------------------------------------- fillet
// Polygon space: L-shape and 10x10 square, plain and with redundant collinear vertices inserted at
// every edge position and 3 split ratios (plus two vertices on one edge), every cyclic rotation of
// the vertex array, both orientations.  A collinear vertex still ends an edge: the documented cap
// "half the shortest edge adjacent to the corner" is taken over the real adjacent edges.
struct FilletPoly { std::vector<Vec2> pts; std::string name; bool collinear; int rot; bool cw; };
static std::vector<FilletPoly> FPOLY;
static void init_fillet_polys() {
    if (!FPOLY.empty()) return;
    struct Base { std::vector<Vec2> pts; std::string name; bool col; };
    std::vector<Base> bases;
    std::vector<Vec2> Ls = {{0, 0}, {4, 0}, {4, 2}, {2, 2}, {2, 4}, {0, 4}};
    std::vector<Vec2> Sq = {{0, 0}, {10, 0}, {10, 10}, {0, 10}};
    auto with_inserted = [&](const std::vector<Vec2>& P, const char* nm, const std::vector<double>& ratios) {
        bases.push_back({P, nm, false});
        for (size_t e = 0; e < P.size(); e++)
            for (double f : ratios) {
                std::vector<Vec2> Q;
                for (size_t i = 0; i < P.size(); i++) {
                    Q.push_back(P[i]);
                    if (i == e) { Vec2 a = P[i], b = P[(i + 1) % P.size()]; Q.push_back(Vec2{a.x + f * (b.x - a.x), a.y + f * (b.y - a.y)}); }
                }
                bases.push_back({Q, fmt("%s+collinear vertex on edge %zu at %.2f", nm, e, f), true});
            }
    };
    with_inserted(Ls, "L-shape", {0.25, 0.5, 0.75});
    with_inserted(Sq, "square10", {0.1, 0.5, 0.9});
    bases.push_back({{{0, 0}, {1, 0}, {9, 0}, {10, 0}, {10, 10}, {0, 10}}, "square10+collinear (1,0),(9,0)", true});
    bases.push_back({{{0, 0}, {10, 0}, {10, 9}, {10, 10}, {1, 10}, {0, 10}}, "square10+collinear (10,9),(1,10)", true});
    for (auto& b : bases)
        for (int cw = 0; cw < 2; cw++)
            for (size_t r = 0; r < b.pts.size(); r++) {
                std::vector<Vec2> Q = b.pts;
                if (cw) std::reverse(Q.begin(), Q.end());
                std::rotate(Q.begin(), Q.begin() + r, Q.end());
                FPOLY.push_back({Q, b.name, b.col, (int)r, cw != 0});
            }
}
static void run_fillet(int64_t idx, int toli, const FilletPoly& fp, int radset, bool verbose) {
    CaseCtx cx;
    cx.tol = TOLS[toli] * g_mag;
    cx.tol_s = tol_label(toli);
    cx.scale_floor = g_mag < 1 ? g_mag : 1;
    cx.verbose = verbose;
    std::vector<Vec2> Lp = fp.pts;
    for (auto& v : Lp) v = v * g_mag;
    const LD MAG = g_mag;
    int nc = (int)Lp.size();
    static const char* RN[7] = {"0.25", "0.75", "1", "5(too large)", "0.25,1", "0.25,3,0.75", "per-vertex 0.4+0.6j"};
    std::vector<double> radii;
    switch (radset) {
        case 0: radii = {0.25}; break;
        case 1: radii = {0.75}; break;
        case 2: radii = {1}; break;
        case 3: radii = {5}; break;
        case 4: radii = {0.25, 1}; break;
        case 5: radii = {0.25, 3, 0.75}; break;
        default: for (int j = 0; j < nc; j++) radii.push_back(0.4 + 0.6 * j); break;
    }
    const char* rname = RN[radset];
    for (auto& r : radii) r *= g_mag;
    std::vector<std::string> vj;
    for (auto& v : Lp) vj.push_back(pj(v));
    cx.case_json = jobj({{"primitive", jstr("fillet")}, {"shape", jstr(fp.name)}, {"polygon", jarr(vj)}, {"radii", jnums(radii)}, {"tolerance", jnum(cx.tol)}});
    cx.replay = fmt("sub=%s idx=%lld", sub_or("fillet").c_str(), (long long)idx);
    Polygon p = {};
    for (auto& v : Lp) p.point_array.append(v);
    Array<double> ra = {};
    for (double r : radii) ra.append(r);
    p.fillet(ra, cx.tol);
    ra.clear();
    JFields tags = {{"radii", jstr(rname)}, {"orientation", jstr(fp.cw ? "cw" : "ccw")}, {"collinear_vertex", jbool(fp.collinear)}, {"rotation", jint(fp.rot)}};
    R->count("cases");
    R->count("cases:fillet");
    auto viol = [&](const std::string& cls, JFields extra, const std::string& detail) {
        JFields t = tags;
        t.push_back({"tol", jstr(cx.tol_s)});
        for (auto& e : extra) t.push_back(e);
        emit_violation("primitive.fillet", cls, t, cx.case_json, detail, cx.replay, verbose);
    };
    const std::vector<Vec2> OUT = to_vec(p.point_array);
    if (verbose) { fprintf(stderr, "fillet %s: %zu vertices:", cx.case_json.c_str(), OUT.size()); for (size_t i = 0; i < OUT.size() && i < 40; i++) fprintf(stderr, " %s", vstr(OUT[i]).c_str()); fprintf(stderr, "\n"); }
    double worst_ratio = -1;
    bool clamped_any = false;
    // The judgement does not depend on which output vertex the array starts with: the output is
    // re-cut at a group boundary (groups = runs of output vertices nearest to the same input vertex).
    auto judge = [&](const std::vector<Vec2>& O) -> bool {
    uint64_t n = O.size();
    bool bad = false;
    for (uint64_t i = 0; i < n && !bad; i++)
        if (!std::isfinite(O[i].x) || !std::isfinite(O[i].y)) { viol("nan-vertex", {}, fmt("vertex %llu is non-finite", (unsigned long long)i)); bad = true; }
    if (bad) return true;
    std::vector<int> lab(n);
    for (uint64_t i = 0; i < n; i++) {
        int best = 0;
        LD bd = 1e300L;
        for (int k = 0; k < nc; k++) { LD d = dist(toP(O[i]), toP(Lp[k])); if (d < bd) { bd = d; best = k; } }
        lab[i] = best;
    }
    uint64_t s0 = n;
    for (uint64_t i = 0; i < n; i++) if (lab[i] != lab[(i + n - 1) % n]) { s0 = i; break; }
    if (s0 == n) { viol("structure", {}, fmt("all %llu output vertices belong to input vertex %d", (unsigned long long)n, lab[0])); return true; }
    std::vector<Vec2> W(n);
    for (uint64_t i = 0; i < n; i++) W[i] = O[(s0 + i) % n];
    // groups must be input vertex g, g+1, ... (cyclically), each once, contiguous
    std::vector<int> first(nc, -1), cnt(nc, 0);
    {
        int g0 = lab[s0], cur = -1, ngroups = 0;
        for (uint64_t i = 0; i < n && !bad; i++) {
            int best = lab[(s0 + i) % n];
            if (i == 0 || best != cur) {
                int want = (g0 + ngroups) % nc;
                if (best != want || ngroups >= nc) { viol("structure", {}, fmt("output vertex %s belongs to input vertex %d where input vertex %d is due (outline out of order)", vstr(W[i]).c_str(), best, want)); bad = true; break; }
                cur = best;
                first[cur] = (int)i;
                ngroups++;
            }
            cnt[cur]++;
        }
        if (!bad && ngroups != nc) { viol("structure", {}, fmt("only %d of %d input vertices are represented in the %llu output vertices", ngroups, nc, (unsigned long long)n)); bad = true; }
    }
    if (bad) return true;
        Exact ex;            // boundary with the measured radii: oracle item (4)
        struct Doc { Piece arc; int k; };
        std::vector<Doc> docarcs;
        std::vector<P2> arc_start(nc), arc_end(nc);
        std::vector<Piece> arcs(nc);
        std::vector<bool> has_arc(nc, false);
        for (int k = 0; k < nc && !bad; k++) {
            P2 p0 = toP(Lp[(k + nc - 1) % nc]), p1 = toP(Lp[k]), p2 = toP(Lp[(k + 1) % nc]);
            LD len0 = dist(p0, p1), len1 = dist(p1, p2);     // the real adjacent edges
            P2 v0 = (1 / len0) * (p1 - p0), v1 = (1 / len1) * (p2 - p1);
            P2 fv = toP(W[first[k]]);
            LD l = dist(fv, p1);
            if (fabsl(cross(v0, v1)) <= 1e-12L && dot(v0, v1) > 0) {
                // straight-through vertex: documented to stay as it is
                if (cnt[k] != 1 || l > 1e-12L * MAG) { viol("structure", {{"corner", jint(k)}}, fmt("collinear input vertex %d %s is represented by %d output vertices starting at %s", k, vstr(Lp[k]).c_str(), cnt[k], vstr(W[first[k]]).c_str())); bad = true; break; }
                arc_start[k] = arc_end[k] = p1;
                continue;
            }
            LD theta = acosl(std::max((LD)-1, std::min((LD)1, dot(v0, v1))));
            LD tant = tanl(theta / 2);
            LD sgn = cross(v0, v1) > 0 ? 1 : -1;
            LD r = radii[k % radii.size()];
            LD cap = (LD)0.5 * std::min(len0, len1) / tant;
            LD lo = std::min(r, cap);       // documented effective radius
            if (r > cap) clamped_any = true;
            LD reff = (cnt[k] == 1 && l <= 1e-12L * MAG) ? 0 : l / tant;
            if (reff > lo * (1 + 1e-9L) + 1e-12L * MAG)
                { viol("fillet-radius", {{"corner", jint(k)}, {"kind", jstr("too-large")}}, fmt("corner %d %s: tangent point %s gives radius %.12Lg, larger than min(requested %.6Lg, half of the shortest adjacent edge %.6Lg) = %.12Lg", k, vstr(Lp[k]).c_str(), vstr(W[first[k]]).c_str(), reff, r, cap, lo)); bad = true; break; }
            if (reff < lo - (cx.tol / tant) * (1 + 1e-9L) - 1e-12L * MAG)
                { viol("fillet-radius", {{"corner", jint(k)}, {"kind", jstr("too-small")}}, fmt("corner %d %s: radius %.12Lg used, documented min(requested %.6Lg, half of the shortest adjacent edge %.6Lg) = %.12Lg (slack: tolerance)", k, vstr(Lp[k]).c_str(), reff, r, cap, lo)); bad = true; break; }
            if (reff > 0 && r <= cap - cx.tol && fabsl(reff - r) > 1e-9L * MAG)
                { viol("fillet-radius", {{"corner", jint(k)}, {"kind", jstr("not-requested")}}, fmt("corner %d: radius %.12Lg used although the requested %.6Lg fits (half of the shortest adjacent edge is %.6Lg)", k, reff, r, cap)); bad = true; break; }
            auto mk = [&](LD rad, const char* what) {
                P2 bis = v1 - v0;
                bis = (1 / norm(bis)) * bis;
                P2 cc = p1 + (rad / cosl(theta / 2)) * bis;
                P2 A = p1 - (rad * tant) * v0;
                LD aA = atan2l(A.y - cc.y, A.x - cc.x);
                return arc_centered(cc, rad, rad, aA, aA + sgn * theta, what);
            };
            if (reff > 0) { arcs[k] = mk(reff, "fillet-arc"); arcs[k].dev = false; has_arc[k] = true; arc_start[k] = arcs[k].eval(0); arc_end[k] = arcs[k].eval(1); }
            else arc_start[k] = arc_end[k] = p1;
            if (lo > 0) docarcs.push_back({mk(lo, "documented fillet arc"), k});
        }
        if (!bad) {
            for (int k = 0; k < nc; k++) {
                if (has_arc[k]) ex.pieces.push_back(arcs[k]);
                ex.pieces.push_back(line(arc_end[k], arc_start[(k + 1) % nc], "edge"));
            }
            SecOut o = check_closed(cx, "primitive.fillet", tags, ex, W, -1, false);
            bad = o.bad;
        }
        if (!bad) {
            // (5) documented arcs vs the output polygon: the corner's own vertices and their two
            // neighbours first, the whole polygon before any verdict
            LD maxd = 0;
            P2 wp = {0, 0};
            int per = std::max(64, 2000 / std::max(1, (int)docarcs.size()));
            auto V = [&](int64_t i) { return toP(W[(uint64_t)(((i % (int64_t)n) + (int64_t)n) % (int64_t)n)]); };
            for (auto& da : docarcs)
                for (int j = 0; j <= per; j++) {
                    P2 q = da.arc.eval((LD)j / per);
                    LD d = 1e300L;
                    for (int64_t i = first[da.k] - 1; i < first[da.k] + cnt[da.k]; i++) d = std::min(d, dist_seg(q, V(i), V(i + 1)));
                    if (d > K_DEV * cx.tol)
                        for (uint64_t i = 0; i < n; i++) d = std::min(d, dist_seg(q, V((int64_t)i), V((int64_t)i + 1)));
                    if (d > maxd) { maxd = d; wp = q; }
                }
            worst_ratio = (double)(maxd / cx.tol);
            if (maxd > K_DEV * cx.tol) {
                viol("deviation", {{"ratio", jnum(worst_ratio)}},
                     fmt("point (%.9Lg, %.9Lg) of the documented fillet arc is %.6Lg = %.3f x tolerance away from the filleted polygon (%llu vertices; allowed %.1f x)", wp.x, wp.y, maxd, worst_ratio, (unsigned long long)n, K_DEV));
                bad = true;
            }
        }
        return bad;
    };
    // fillet() rounds the polygon in place; neither the start vertex nor the winding of the result is
    // documented, so the output is also accepted when it runs against the input order
    std::vector<Vec2> REV(OUT.rbegin(), OUT.rend());
    bool bad;
    {
        const bool was_quiet = g_quiet;
        std::vector<Deferred>* const outer = g_defer;
        std::vector<Deferred> b1, b2;
        g_defer = &b1;
        bad = judge(OUT);
        g_defer = outer;
        if (bad) {
            double wr = worst_ratio;
            bool ca = clamped_any;
            worst_ratio = -1;
            clamped_any = false;
            g_defer = &b2;
            bool badr = judge(REV);
            g_defer = outer;
            if (!badr) bad = false;
            else {
                worst_ratio = wr;
                clamped_any = ca;
                for (auto& d : b1) emit_violation(d.sub, d.cls, d.tags, d.case_json, d.detail, d.replay, verbose);
            }
        }
        if (worst_ratio >= 0) {
            R->count("deviation_checked");
            mx_note(MX_FILLET, worst_ratio);
            if (!bad) mx_note(MX_N + MX_FILLET, worst_ratio);
        }
        // self-check of the invariance under rotation + reversal of the output array (every 4th case)
        if (hash128(cx.case_json)[1] % 4 == 0) {
        std::vector<Vec2> ROT(OUT);
        std::rotate(ROT.begin(), ROT.begin() + ROT.size() / 3, ROT.end());
        std::reverse(ROT.begin(), ROT.end());
        double wr = worst_ratio;
        bool ca = clamped_any;
        g_quiet = true;
        bool bad2 = judge(ROT);
        if (bad2) { std::reverse(ROT.begin(), ROT.end()); bad2 = judge(ROT); }
        g_quiet = was_quiet;
        worst_ratio = wr;
        clamped_any = ca;
        R->count("rotation_invariance_checked");
        if (bad2 != bad) R->internal_error("fillet verdict changed under rotation/reversal of the output array: " + cx.case_json);
        }
    }
    uint64_t n = OUT.size();
    double rmin = *std::min_element(radii.begin(), radii.end());
    if (cx.tol >= rmin || clamped_any || fp.collinear) R->count("nontrivial");
    if (fp.collinear && clamped_any) R->count("fillet_collinear_and_clamped");
    R->outcome("primitive.fillet", fmt("%s %s n=%llu bad=%d r=%.1f", rname, cx.tol_s.c_str(), (unsigned long long)n, bad, worst_ratio));
    if (!bad && idx % 977 == 11) R->sample("primitive", cx.case_json);
    p.clear();
}

// ---------------------------------------------------------------- exact-vertex primitives
static bool cyclic_match(const Array<Vec2>& got, const std::vector<P2>& want, LD eps) {
    size_t n = want.size();
    if (got.count != n) return false;
    for (int dirn = 0; dirn < 2; dirn++)
        for (size_t off = 0; off < n; off++) {
            bool ok = true;
            for (size_t i = 0; i < n && ok; i++) {
                size_t j = dirn ? (off + n - i) % n : (off + i) % n;
                ok = dist(toP(got[i]), want[j]) <= eps;
            }
            if (ok) return true;
        }
    return false;
}
static void run_exact(int64_t idx, bool verbose) {
    static const Vec2 CEN[3] = {{0, 0}, {-2, -2}, {0.5, 1.25}};
    std::string replay = fmt("sub=exact_vertices idx=%lld", (long long)idx);
    auto judge = [&](const char* what, Polygon& p, const std::vector<P2>& want, const std::string& cj) {
        R->count("cases");
        R->count(std::string("cases:") + what);
        LD sc = 1;
        for (auto& w : want) sc = std::max(sc, std::max(fabsl(w.x), fabsl(w.y)));
        bool ok = cyclic_match(p.point_array, want, 1e-12L * sc);
        if (verbose) { fprintf(stderr, "%s %s: %llu vertices:", what, cj.c_str(), (unsigned long long)p.point_array.count); for (uint64_t i = 0; i < p.point_array.count; i++) fprintf(stderr, " %s", vstr(p.point_array[i]).c_str()); fprintf(stderr, " -> %s\n", ok ? "ok" : "MISMATCH"); }
        if (!ok) {
            std::vector<std::string> g;
            for (uint64_t i = 0; i < p.point_array.count && i < 16; i++) g.push_back(pj(p.point_array[i]));
            R->violation(std::string("primitive.") + what, "vertices", {}, cj, "vertices differ from the documented ones: got " + jarr(g), replay);
        }
        R->outcome(std::string("primitive.") + what, fmt("n=%llu ok=%d", (unsigned long long)p.point_array.count, ok));
        p.clear();
    };
    if (idx < 27) {   // rectangle: corner pairs
        Vec2 a = CEN[idx % 3], b = a + Vec2{(double)((idx / 3) % 3 - 1) * 1.5 + 0.25, (double)(idx / 9) * 2 - 2.5};
        Polygon p = rectangle(a, b, 0);
        judge("rectangle", p, {toP(a), P2{(LD)b.x, (LD)a.y}, toP(b), P2{(LD)a.x, (LD)b.y}}, jobj({{"primitive", jstr("rectangle")}, {"corner1", pj(a)}, {"corner2", pj(b)}}));
    } else if (idx < 27 + 18) {
        int k = (int)idx - 27;
        Vec2 c = CEN[k % 3];
        double full = (k / 3) % 2 ? 4 : 1.5, arm = (k / 6) == 0 ? 0.5 : (k / 6) == 1 ? 1 : 0.125;
        Polygon p = cross(c, full, arm, 0);
        LD l = full / 2, h = arm / 2;
        std::vector<P2> w = {{l, h}, {h, h}, {h, l}, {-h, l}, {-h, h}, {-l, h}, {-l, -h}, {-h, -h}, {-h, -l}, {h, -l}, {h, -h}, {l, -h}};
        for (auto& q : w) q = q + toP(c);
        judge("cross", p, w, jobj({{"primitive", jstr("cross")}, {"center", pj(c)}, {"full_size", jnum(full)}, {"arm_width", jnum(arm)}}));
        R->count("nontrivial");
    } else {
        int k = (int)idx - 45;
        static const double ROT[4] = {0, 0.7, -M_PI / 2, 3};
        static const double SIDE[2] = {1, 2.5};
        int sides = 3 + k % 6;
        double rot = ROT[(k / 6) % 4], side = SIDE[(k / 24) % 2];
        Vec2 c = CEN[(k / 48) % 3];
        Polygon p = regular_polygon(c, side, sides, rot, 0);
        // documented: side length `side`, lower edge horizontal at rotation 0, rotated about the centre
        LD rad = (LD)side / (2 * sinl(PI_L / sides));
        std::vector<P2> w;
        for (int i = 0; i < sides; i++) {
            LD a = -PI_L / 2 - PI_L / sides + 2 * PI_L * i / sides + rot;
            w.push_back({c.x + rad * cosl(a), c.y + rad * sinl(a)});
        }
        judge("regular_polygon", p, w, jobj({{"primitive", jstr("regular_polygon")}, {"center", pj(c)}, {"side_length", jnum(side)}, {"sides", jint(sides)}, {"rotation", jnum(rot)}}));
        if (rot != 0) R->count("nontrivial");
    }
}

static void register_primitives(bool thorough) {
    (void)thorough;
    // ellipse family
    static std::vector<EllCase> EC;
    struct Shape { double rx, ry, irx, iry; const char* name; };
    static const Shape SH[] = {{1, 1, 0, 0, "circle"}, {3, 3, 0, 0, "circle"}, {2, 1, 0, 0, "ellipse 2:1"}, {1, 2, 0, 0, "ellipse 1:2"}, {3, 0.15, 0, 0, "ellipse 20:1"},
                               {10, 0.5, 0, 0, "ellipse 20:1 (rx 10)"}, {2, 2, 1, 1, "ring"}, {3, 1.5, 2, 0.5, "elliptical ring"}};
    static const double SPAN[5] = {0.2, M_PI / 2, M_PI, 2 * M_PI, 3 * M_PI}, A0[2] = {0, 2.5};
    for (auto& s : SH) {
        EC.push_back({s.rx, s.ry, s.irx, s.iry, 0, 0, s.name});
        for (int sp = 0; sp < 5; sp++)
            for (int sg = 0; sg < 2; sg++)
                for (int st = 0; st < 2; st++) {
                    EC.push_back({s.rx, s.ry, s.irx, s.iry, A0[st], A0[st] + (sg ? -SPAN[sp] : SPAN[sp]), s.name});
                }
    }
    {
        Sub s;
        s.name = "ellipse";
        s.desc = "ellipse(): circle r{1,3}, ellipses 2:1, 1:2, 20:1 (rx 3 and 10), ring, elliptical ring; full and slices span{0.2,pi/2,pi,2pi,3pi} x sign x initial{0,2.5}; x tolerance";
        int64_t ne = (int64_t)EC.size();
        s.n = ne * (int64_t)TOLS.size();
        s.chunk = 8;
        s.run = [ne](int64_t idx, bool v) { run_ellipse(idx, (int)(idx / ne), EC[idx % ne], v); };
        SUBS.push_back(s);
    }
    {
        Sub s;
        s.name = "racetrack";
        s.desc = "racetrack(): straight_length{2,0.5} x radius{1,3} x inner{none, r/2} x vertical x tolerance";
        s.n = (int64_t)TOLS.size() * 16;
        s.chunk = 4;
        s.run = [](int64_t idx, bool v) {
            int k = (int)(idx % 16);
            double r = (k & 2) ? 3 : 1;
            run_racetrack(idx, (int)(idx / 16), (k & 1) ? 0.5 : 2, r, (k & 4) ? r / 2 : 0, (k & 8) != 0, v);
        };
        SUBS.push_back(s);
    }
    {
        init_fillet_polys();
        Sub s;
        s.name = "fillet";
        s.desc = fmt("Polygon::fillet on %zu vertex arrays (L-shape and 10x10 square, plain and with collinear vertices inserted at every edge position x 3 split ratios, two on one edge; every cyclic rotation; ccw and cw) x 7 radius sets (0.25, 0.75, 1, 5 too large, {0.25,1}, {0.25,3,0.75}, per-vertex) x tolerance", FPOLY.size());
        int64_t np = (int64_t)FPOLY.size();
        s.n = (int64_t)TOLS.size() * 7 * np;
        s.chunk = 40;
        s.run = [np](int64_t idx, bool v) {
            int64_t k = idx % (7 * np);
            run_fillet(idx, (int)(idx / (7 * np)), FPOLY[k / 7], (int)(k % 7), v);
        };
        SUBS.push_back(s);
    }
    {
        Sub s;
        s.name = "exact_vertices";
        s.desc = "rectangle (27 corner pairs), cross (18), regular_polygon (3..8 sides x 4 rotations x 2 sizes x 3 centres): documented vertices within 1e-12";
        s.n = 45 + 6 * 4 * 2 * 3;
        s.chunk = 16;
        s.run = [](int64_t idx, bool v) { run_exact(idx, v); };
        SUBS.push_back(s);
    }
    // magnitude family: the same primitive cases with every length multiplied by 1e-9 and by 1e+9
    {
        static const double MAGS[2] = {1e-9, 1e9};
        static const char* MAGN[2] = {"1e-9", "1e9"};
        int64_t ne = (int64_t)EC.size(), np = (int64_t)FPOLY.size(), NT = (int64_t)TOLS.size();
        auto with_mag = [](int m, const std::string& sub, const std::function<void()>& f) {
            g_mag = MAGS[m]; g_mag_s = MAGN[m]; g_sub = sub;
            f();
            g_mag = 1; g_mag_s.clear(); g_sub.clear();
        };
        Sub s;
        s.name = "ellipse_magnitude";
        s.desc = "magnitude family: every ellipse() case (circle, ellipses, rings; full, slices, ring slices) with centre, radii and tolerance x 1e-9 and x 1e+9";
        s.n = 2 * ne * NT;
        s.chunk = 16;
        s.run = [=](int64_t idx, bool v) { int64_t k = idx % (ne * NT); with_mag((int)(idx / (ne * NT)), "ellipse_magnitude", [&] { run_ellipse(idx, (int)(k / ne), EC[k % ne], v); }); };
        SUBS.push_back(s);
        Sub r;
        r.name = "racetrack_magnitude";
        r.desc = "magnitude family: every racetrack() case with all lengths x 1e-9 and x 1e+9";
        r.n = 2 * 16 * NT;
        r.chunk = 8;
        r.run = [=](int64_t idx, bool v) {
            int64_t q = idx % (16 * NT);
            int k = (int)(q % 16);
            double rr = (k & 2) ? 3 : 1;
            with_mag((int)(idx / (16 * NT)), "racetrack_magnitude", [&] { run_racetrack(idx, (int)(q / 16), (k & 1) ? 0.5 : 2, rr, (k & 4) ? rr / 2 : 0, (k & 8) != 0, v); });
        };
        SUBS.push_back(r);
        Sub f;
        f.name = "fillet_magnitude";
        f.desc = "magnitude family: every 8th fillet vertex array x 7 radius sets x tolerance with polygon, radii and tolerance x 1e-9 and x 1e+9";
        int64_t np8 = (np + 7) / 8;
        f.n = 2 * NT * 7 * np8;
        f.chunk = 40;
        f.run = [=](int64_t idx, bool v) {
            int64_t q = idx % (NT * 7 * np8);
            int64_t k = q % (7 * np8);
            with_mag((int)(idx / (NT * 7 * np8)), "fillet_magnitude", [&] { run_fillet(idx, (int)(q / (7 * np8)), FPOLY[(k / 7) * 8], (int)(k % 7), v); });
        };
        SUBS.push_back(f);
    }
}
