// C05 — boolean operations compute the set-theoretic result.   DESIGN.md section 2/C05, 1.3.
//
// Engine E2 (vf::parallel_for): bounded exhaustive enumeration of operand pairs executed on the
// real gdstk::boolean(), judged by an exact independent oracle (integer winding numbers at sample
// points, integer shoelace areas).  No sampling at random, no solver.
//
// Units.  Inputs live on a g x g integer lattice (lattice unit 1).  boolean() rounds to the grid
// 1/S (S = scaling).  "fine" coordinates are int64 multiples of 1/S.  Sample points are
// ((i+1/3)/r, (j+1/7)/r) lattice units; they are integers in the unit U = 1/(84 S).
//
// Two regimes, decided exactly per operand pair from the inputs only:
//  * exact   : every proper crossing of two input edges is a grid point and every horizontal line
//              through an input vertex or crossing meets every input edge in a grid point (the
//              keyhole bridge of link_holes lands there).  Then the ideal result is representable,
//              no rounding takes place, and the statement is demanded with guard band 0 / slack 0.
//  * rounded : otherwise.  Guard band 3/S around every input edge (samples inside it are skipped
//              and counted) and area slack (sum of vertex counts + crossings) * extent / S.
//
// ---------------------------------------------------------------------------------------------
// FINDING on the unchanged tree (adjudicated: genuine, inputs inside the quantifier).
// Root cause: external/clipper/clipper.cpp, Clipper::JoinCommonEdges -> Poly2ContainsPoly1():
// when every vertex of fragment 1 lies ON fragment 2 (fragments sharing an edge/vertex, or zero-width
// spikes of coincident edges not yet removed) the function falls through to `return true`, so a
// piece that merely touches its neighbour is flagged as its hole (orientation reversed), or a real
// hole is flagged as an outer, or two pieces stay joined in one figure-eight vertex list.
// gdstk then (a) cannot link the pseudo hole: BooleanError and the piece is dropped [error_code +
// membership missing_only], (b) links it through the outside: lobe of negative orientation
// [mixed_winding / area_identity too_small], (c) returns a hole as a second polygon [overlap].
// Minimal cases (scaling 1000, lattice coordinates, all "exact" regime):
//   xor  A=[(0,1),(2,1),(0,2)]  B=[(0,0),(2,1),(1,1),(0,2)]  -> only [(2,1),(0,1),(0,0)] + BooleanError
//   xor  A=[(0,2),(2,2),(1,1),(1,0)]  B=[(0,2),(1,1),(2,2),(1,0)] -> one polygon
//        [(1,1),(1,0),(2,2),(1,1),(0,2),(2,2)], lobes of opposite orientation, area() 0.5 instead of 1.5
//   not  A={[(0,0),(2,1),(0,2)],[(0,0),(2,1),(2,0)]}  B=[(1,0),(2,0),(1,1)] -> negative lobe
//   and  A=(square 0..4 not [(1,1),(2,2),(2,1)]) not [(2,2),(2,3),(3,1)] (gdstk's own key-holed
//        result, holes touching at (2,2))  B=[(1,1),(3,1),(2,3)] -> BooleanError, piece dropped
// Candidate repair evaluated with this harness (quick tier: every class disappears except
// BooleanError at scaling 1 on the unit lattice; 45 replays of thorough-tier violations all pass):
//  1. clipper.cpp Poly2ContainsPoly1: instead of the final `return true`, decide with the edge
//     midpoints of polygon 1 tested against polygon 2 on a doubled grid (Path of 2*Pt; IntPoint
//     (Pt.X+Next->Pt.X, Pt.Y+Next->Pt.Y)); keep `return true` only if those are all on the boundary.
//  2. clipper_tools.cpp link_holes: before linking a child, test a point strictly inside it (ear at
//     its lexicographically smallest vertex) against the parent contour; if outside, append the
//     child reversed as an independent polygon instead of linking it / raising BooleanError.
//  3. clipper_tools.cpp boolean(): for ctXor execute into Paths and run a ctUnion/pftNonZero pass
//     over them into the PolyTree (restores orientation and nesting of inverted pieces).
// 1 alone leaves only rounded-regime xor failures; 2+3 alone leave ~5% of the xor mixed_winding cases.
// ---------------------------------------------------------------------------------------------
#include <gdstk/gdstk.hpp>

#include <bitset>

#include "exactgeom.hpp"
#include "vf.hpp"

using namespace gdstk;
using namespace vf;
typedef eg::i128 i128;
typedef eg::P P;
typedef eg::Poly Poly;

static Run* R;
static bool VERBOSE = false;
static bool SILENT = false;  // preparatory chain steps recomputed in a later chunk: judged/reported once only

static const int MAXS = 448;
typedef std::bitset<MAXS> Mask;

static std::string i128s(i128 v) {
    if (v == 0) return "0";
    bool neg = v < 0;
    if (neg) v = -v;
    std::string s;
    while (v > 0) { s += (char)('0' + (int)(v % 10)); v /= 10; }
    if (neg) s += '-';
    std::reverse(s.begin(), s.end());
    return s;
}
static inline i128 iabs(i128 v) { return v < 0 ? -v : v; }
static i128 igcd(i128 a, i128 b) {
    a = iabs(a); b = iabs(b);
    while (b) { i128 t = a % b; a = b; b = t; }
    return a;
}

// ------------------------------------------------------------------------------- sample grid
struct Grid {
    int g, r, lo, n;
    Mask all;
    Grid(int g_, int r_) : g(g_), r(r_) {
        lo = -1;
        n = (g - 1) * r + 2;  // one column/row of samples outside the lattice on each side
        if (n * n > MAXS) { fprintf(stderr, "grid too large\n"); exit(2); }
        for (int k = 0; k < n * n; k++) all.set(k);
    }
    int count() const { return n * n; }
    // in units of 1/(21 r) lattice (scaling independent)
    P lat21(int k) const { int i = lo + k / n, j = lo + k % n; return {(int64_t)(3 * i + 1) * 7, (int64_t)(7 * j + 1) * 3}; }
    // in units U = 1/(84 S) lattice
    P inU(int k, int64_t S) const { int i = lo + k / n, j = lo + k % n; return {(int64_t)(3 * i + 1) * (28 / r) * S, (int64_t)(7 * j + 1) * (12 / r) * S}; }
};

struct Ctx {
    std::string sub;
    int64_t S;
    const Grid* grid;
    std::vector<P> sampU;
    int64_t extent_fine;
    void init(const std::string& sub_, const Grid& G, int64_t S_) {
        sub = sub_; grid = &G; S = S_;
        sampU.resize(G.count());
        for (int k = 0; k < G.count(); k++) sampU[k] = G.inU(k, S);
        extent_fine = (int64_t)(G.g - 1) * S;
        ux = uy = 0;
    }
    // lattice unit = ux (uy) grid units along x (y), gdstk scaling S_: used by the range bounds, where the
    // operands are translated (OFFX, OFFY) and stretched so that single coordinates cross Clipper's ranges
    int64_t ux = 0, uy = 0;
    // Effective rounding grid in grid units.  gdstk's interface is double: beyond 2^53 grid units neither the
    // operands nor the results can address single grid points (spacing 2^(e-52)), and Clipper computes
    // intersection points in double as well.  For |coordinate| < 2^e the grid the statement can refer to is
    // therefore max(1, 2^(e-52)) grid units; guard band and area slack are scaled by it (1 everywhere except in
    // the range bounds translated to 2^61, where it is 2^10).  The exact regime keeps guard 0 / slack 0.
    int64_t eps = 1;
    void set_eps(int64_t max_abs_coordinate) {
        int e = 0;
        while (e < 63 && (max_abs_coordinate >> e) != 0) e++;
        eps = e > 52 ? (int64_t)1 << (e - 52) : 1;
    }
    void init_units(const std::string& sub_, const Grid& G, int64_t ux_, int64_t uy_, int64_t S_) {
        sub = sub_; grid = &G; S = S_; ux = ux_; uy = uy_;
        sampU.resize(G.count());
        for (int k = 0; k < G.count(); k++) {
            int i = G.lo + k / G.n, j = G.lo + k % G.n;
            sampU[k] = {(int64_t)(3 * i + 1) * (28 / G.r) * ux, (int64_t)(7 * j + 1) * (12 / G.r) * uy};
        }
        extent_fine = (int64_t)(G.g - 1) * std::max(ux, uy);
    }
};
// Translation applied between the oracle and gdstk: the oracle works in local coordinates (operands near
// the origin, exact in int64/__int128), gdstk receives local + (OFFX, OFFY) and its results are translated
// back.  Boolean operations are translation-covariant, so the expected region is computed locally.
static int64_t OFFX = 0, OFFY = 0;

// ------------------------------------------------------------------------------- counters
struct Tally {
    std::map<std::string, int64_t> m;
    int64_t cases = 0, nontrivial = 0, pairs = 0, pairs_nontrivial = 0, samples_compared = 0, samples_skipped = 0;
    int64_t exact_pairs = 0, rounded_pairs = 0, rel_cross = 0, rel_collinear = 0, rel_touch = 0, rel_separate = 0;
    int64_t keyholed_results = 0, keyholed_inputs = 0, area_identities = 0, multi_polygon_results = 0, empty_results = 0;
    int64_t pairs_all_samples_skipped = 0;
    void flush() {
#define FL(x) if (x) { R->count(#x, x); x = 0; }
        FL(cases) FL(nontrivial) FL(pairs) FL(pairs_nontrivial) FL(samples_compared) FL(samples_skipped)
        FL(exact_pairs) FL(rounded_pairs) FL(rel_cross) FL(rel_collinear) FL(rel_touch) FL(rel_separate)
        FL(keyholed_results) FL(keyholed_inputs) FL(area_identities) FL(multi_polygon_results) FL(empty_results)
        FL(pairs_all_samples_skipped)
#undef FL
        for (auto& kv : m) if (kv.second) R->count(kv.first, kv.second);
        m.clear();
    }
};
static Tally T;

// ------------------------------------------------------------------------------- shapes
static Polygon* make_gp(const Poly& fine, int64_t S) {
    Polygon* p = (Polygon*)allocate_clear(sizeof(Polygon));
    for (auto& v : fine) p->point_array.append(Vec2{(double)(v.x + OFFX) / (double)S, (double)(v.y + OFFY) / (double)S});
    return p;
}
static void free_gp(Polygon* p) { p->clear(); free_allocation(p); }

struct ShapeSet {
    std::string name;
    int g = 0;
    std::vector<Poly> lat;
    std::vector<int64_t> area2lat;
    std::vector<Polygon*> gp;
    std::vector<Mask> cover, near;
    std::vector<Poly> fine;
    const Grid* grid = NULL;
    int64_t S = 0;
    size_t size() const { return lat.size(); }
    void add(const std::vector<Poly>& ps, int dx, int dy) {
        for (auto p : ps) {
            for (auto& v : p) { v.x += dx; v.y += dy; }
            lat.push_back(p);
            i128 a = eg::area2(p);
            area2lat.push_back((int64_t)iabs(a));
            gp.push_back(make_gp(p, 1));
        }
    }
    void prepare(const Grid& G) {
        if (grid == &G && cover.size() == lat.size()) return;
        grid = &G;
        S = 0;
        cover.assign(lat.size(), Mask());
        int64_t m = 21 * G.r;
        for (size_t s = 0; s < lat.size(); s++) {
            Poly p = lat[s];
            for (auto& v : p) { v.x *= m; v.y *= m; }
            for (int k = 0; k < G.count(); k++) {
                P q = G.lat21(k);
                if (eg::on_boundary(p, q)) R->internal_error("sample point on an input edge (lattice edge longer than 6?)");
                if (eg::winding(p, q) != 0) cover[s].set(k);
            }
        }
    }
    void set_scaling(int64_t S_) {
        if (S == S_) return;
        S = S_;
        const Grid& G = *grid;
        fine.assign(lat.size(), Poly());
        near.assign(lat.size(), Mask());
        int64_t m = 21 * G.r;
        long double guard = 3.0L / (long double)S * (long double)m;
        for (size_t s = 0; s < lat.size(); s++) {
            Poly p = lat[s];
            fine[s] = p;
            for (auto& v : fine[s]) { v.x *= S; v.y *= S; }
            for (auto& v : p) { v.x *= m; v.y *= m; }
            for (int k = 0; k < G.count(); k++)
                if (eg::dist_boundary(p, G.lat21(k)) <= guard) near[s].set(k);
        }
    }
};

// ------------------------------------------------------------------------------- operands
struct Operand {
    std::vector<const Poly*> fine;  // integer multiples of 1/S
    std::vector<Polygon*> gp;       // the same polygons as gdstk objects (not owned)
    Mask cover, near, onb;  // onb: samples exactly on the operand's boundary (never for lattice shapes)
    i128 area2 = 0;        // twice the covered area, fine units^2
    i128 area_slack2 = 0;  // uncertainty of area2 (0: exact)
    bool area_ok = true;
    const char* area_mode = "shoelace";  // shoelace | merge | none
    int nverts = 0;
    bool keyholed = false;
    void clear() { fine.clear(); gp.clear(); cover.reset(); near.reset(); onb.reset(); area2 = 0; area_slack2 = 0; area_ok = true; area_mode = "shoelace"; nverts = 0; keyholed = false; }
};

static bool has_repeated_vertex(const Poly& p) {
    for (size_t i = 0; i < p.size(); i++)
        for (size_t j = i + 1; j < p.size(); j++)
            if (p[i] == p[j]) return true;
    return false;
}

static void operand_single(const ShapeSet& ss, int i, Operand& o) {
    o.clear();
    o.fine.push_back(&ss.fine[i]);
    o.gp.push_back(ss.gp[i]);
    o.cover = ss.cover[i];
    o.near = ss.near[i];
    o.area2 = (i128)ss.area2lat[i] * ss.S * ss.S;
    o.nverts = (int)ss.lat[i].size();
}
// arbitrary polygons on the fine grid (results of earlier operations, replays): masks computed here.
// area = sum of |shoelace| (valid for weakly simple, pairwise non-overlapping polygons: the producing
// step was checked for exactly that).
static void operand_from_fine(const Ctx& cx, const std::vector<Poly>& fine, const std::vector<Polygon*>& gp, Operand& o) {
    o.clear();
    std::vector<Poly> U(fine.size());
    for (size_t i = 0; i < fine.size(); i++) {
        o.fine.push_back(&fine[i]);
        o.gp.push_back(gp[i]);
        o.nverts += (int)fine[i].size();
        o.area2 += iabs(eg::area2(fine[i]));
        if (has_repeated_vertex(fine[i])) o.keyholed = true;
        U[i] = fine[i];
        for (auto& v : U[i]) { v.x *= 84; v.y *= 84; }
    }
    for (int k = 0; k < cx.grid->count(); k++) {
        if (eg::covered(U, cx.sampU[k])) o.cover.set(k);
        if (eg::dist_boundary(U, cx.sampU[k]) <= 3.0L * 84 * cx.eps) o.near.set(k);
        for (auto& p : U) if (eg::on_boundary(p, cx.sampU[k])) { o.onb.set(k); o.near.set(k); break; }
    }
}

// ------------------------------------------------------------------------------- exact pair analysis
struct PairInfo {
    bool cross = false, collinear = false, touch = false;  // between a polygon of A and a polygon of B
    bool exact = true;
    int ncross_all = 0;  // proper crossings among all input edges (both groups, also inside a group)
    bool nontrivial() const { return cross || collinear || touch; }
    const char* relation() const { return cross ? "partial_overlap" : collinear ? "shared_edge" : touch ? "vertex_touch" : "separate_or_nested"; }
};
struct Edge { P a, b; int grp; };

static PairInfo analyse(const Operand& A, const Operand& B) {
    PairInfo pi;
    static std::vector<Edge> E;
    static std::vector<int64_t> Y;
    E.clear();
    Y.clear();
    for (int gI = 0; gI < 2; gI++)
        for (const Poly* pp : (gI ? B.fine : A.fine)) {
            const Poly& p = *pp;
            for (size_t i = 0; i < p.size(); i++) {
                E.push_back({p[i], p[(i + 1) % p.size()], gI});
                Y.push_back(p[i].y);
            }
        }
    for (size_t i = 0; i < E.size(); i++)
        for (size_t j = i + 1; j < E.size(); j++) {
            const Edge &e = E[i], &f = E[j];
            if (std::max(e.a.x, e.b.x) < std::min(f.a.x, f.b.x) || std::max(f.a.x, f.b.x) < std::min(e.a.x, e.b.x) ||
                std::max(e.a.y, e.b.y) < std::min(f.a.y, f.b.y) || std::max(f.a.y, f.b.y) < std::min(e.a.y, e.b.y))
                continue;
            int o1 = eg::sgn(eg::cross(e.a, e.b, f.a)), o2 = eg::sgn(eg::cross(e.a, e.b, f.b));
            int o3 = eg::sgn(eg::cross(f.a, f.b, e.a)), o4 = eg::sgn(eg::cross(f.a, f.b, e.b));
            bool proper = o1 * o2 < 0 && o3 * o4 < 0;
            if (proper) {
                pi.ncross_all++;
                // e.a + (e.b-e.a) * num/den
                i128 dx = e.b.x - e.a.x, dy = e.b.y - e.a.y, fx = f.b.x - f.a.x, fy = f.b.y - f.a.y;
                i128 den = dx * fy - dy * fx;
                i128 num = (i128)(f.a.x - e.a.x) * fy - (i128)(f.a.y - e.a.y) * fx;
                i128 gg = igcd(num, den);
                den /= gg;
                num /= gg;
                if (dx % den != 0 || dy % den != 0) pi.exact = false;
                else Y.push_back((int64_t)(e.a.y + dy / den * num));
                if (e.grp != f.grp) pi.cross = true;
            } else if (e.grp != f.grp) {
                if (o1 == 0 && o2 == 0 && o3 == 0 && o4 == 0) {
                    // collinear: overlap length along the dominant axis
                    bool ux = std::abs(e.b.x - e.a.x) >= std::abs(e.b.y - e.a.y);
                    int64_t e0 = ux ? e.a.x : e.a.y, e1 = ux ? e.b.x : e.b.y, f0 = ux ? f.a.x : f.a.y, f1 = ux ? f.b.x : f.b.y;
                    int64_t lo = std::max(std::min(e0, e1), std::min(f0, f1)), hi = std::min(std::max(e0, e1), std::max(f0, f1));
                    if (hi > lo) pi.collinear = true;
                    else if (hi == lo) pi.touch = true;
                } else if ((o1 == 0 && eg::on_segment(e.a, e.b, f.a)) || (o2 == 0 && eg::on_segment(e.a, e.b, f.b)) ||
                           (o3 == 0 && eg::on_segment(f.a, f.b, e.a)) || (o4 == 0 && eg::on_segment(f.a, f.b, e.b)))
                    pi.touch = true;
            }
        }
    if (pi.exact) {
        std::sort(Y.begin(), Y.end());
        Y.erase(std::unique(Y.begin(), Y.end()), Y.end());
        for (const Edge& e : E) {
            int64_t ylo = std::min(e.a.y, e.b.y), yhi = std::max(e.a.y, e.b.y);
            if (ylo == yhi) continue;
            i128 dx = e.b.x - e.a.x, dy = e.b.y - e.a.y;
            for (int64_t y : Y)
                if (ylo < y && y < yhi && (dx * (i128)(y - e.a.y)) % dy != 0) { pi.exact = false; break; }
            if (!pi.exact) break;
        }
    }
    return pi;
}

// ------------------------------------------------------------------------------- running boolean()
static const Operation OPS[4] = {Operation::Or, Operation::And, Operation::Not, Operation::Xor};
static const char* OPN[4] = {"or", "and", "not", "xor"};

struct OpResult {
    ErrorCode ec = ErrorCode::NoError;
    std::vector<Poly> fine;
    std::vector<Polygon*> kept;  // only when keep
    bool offgrid = false;
    std::string offgrid_what;
    i128 area2 = 0;
    int nverts = 0;
    bool keyholed = false;
    void release() { for (auto p : kept) free_gp(p); kept.clear(); }
};

// The public entry points of clipper_tools.hpp that reach boolean(): the function itself and its inline
// forwarding overloads.  Every applicable one is called on the reduced sub-space stated in the bounds
// and judged by the same oracle (a forwarder that swaps or drops an operand is a wrong result).
enum { E_AA = 0, E_PA = 1, E_AP = 2, E_PP = 3, E_MERGE = 4 };
static const char* ENTRY_NAME[5] = {"boolean(array,array)", "boolean(polygon,array)", "boolean(array,polygon)", "boolean(polygon,polygon)", "merge(array)"};
static const char* ENTRY_ARG[5] = {"aa", "pa", "ap", "pp", "merge"};
static int ENTRY = E_AA;  // entry point used by run_op (set by check_pair / check_merge)
static bool entry_applies(int e, const Operand& A, const Operand& B) {
    return e == E_AA || (e == E_PA && A.gp.size() == 1) || (e == E_AP && B.gp.size() == 1) || (e == E_PP && A.gp.size() == 1 && B.gp.size() == 1);
}

static void run_op(const Operand& A, const Operand& B, Operation op, int64_t S, bool keep, OpResult& r) {
    Array<Polygon*> pa = {A.gp.size(), A.gp.size(), (Polygon**)A.gp.data()};
    Array<Polygon*> pb = {B.gp.size(), B.gp.size(), (Polygon**)B.gp.data()};
    Array<Polygon*> res = {};
    switch (ENTRY) {
        case E_PA: r.ec = boolean(*A.gp[0], pb, op, (double)S, res); break;
        case E_AP: r.ec = boolean(pa, *B.gp[0], op, (double)S, res); break;
        case E_PP: r.ec = boolean(*A.gp[0], *B.gp[0], op, (double)S, res); break;
        case E_MERGE: r.ec = merge(pa, (double)S, res); break;  // documented as boolean(pa, {}, Or)
        default: r.ec = boolean(pa, pb, op, (double)S, res);
    }
    r.fine.resize(res.count);
    bool pow2 = (S & (S - 1)) == 0;
    for (uint64_t i = 0; i < res.count; i++) {
        Polygon* p = res[i];
        Poly& q = r.fine[i];
        q.resize(p->point_array.count);
        for (uint64_t k = 0; k < p->point_array.count; k++) {
            double c[2] = {p->point_array[k].x, p->point_array[k].y};
            int64_t o[2];
            for (int d = 0; d < 2; d++) {
                bool ok = eg::to_grid(c[d], (double)S, o[d]);
                double s = c[d] * (double)S, rr = nearbyint(s);
                // multiplication by a power of two is exact; otherwise allow the two roundings of x/S*S
                if (pow2 ? s != rr : fabs(s - rr) > 8e-16 * fabs(s)) ok = false;
                if (!ok && !r.offgrid) { r.offgrid = true; r.offgrid_what = fmt("polygon %d vertex %d coordinate %.17g is not a multiple of 1/%lld", (int)i, (int)k, c[d], (long long)S); }
            }
            q[k] = {o[0] - OFFX, o[1] - OFFY};
        }
        r.nverts += (int)q.size();
        r.area2 += iabs(eg::area2(q));
        if (has_repeated_vertex(q)) r.keyholed = true;
        if (keep) r.kept.push_back(p);
        else free_gp(p);
    }
    res.clear();
}

// ------------------------------------------------------------------------------- reporting
static std::string polys_json(const std::vector<const Poly*>& ps, int64_t S) {
    std::vector<std::string> a;
    for (auto pp : ps) {
        std::vector<std::string> v;
        for (auto& q : *pp) {
            if (OFFX || OFFY) v.push_back("[" + jint(q.x + OFFX) + "," + jint(q.y + OFFY) + "]");  // range bounds: scaling 1, absolute grid coordinates
            else v.push_back("[" + jnum((double)q.x / (double)S) + "," + jnum((double)q.y / (double)S) + "]");
        }
        a.push_back(jarr(v));
    }
    return jarr(a);
}
static std::string polys_json(const std::vector<Poly>& ps, int64_t S) {
    std::vector<const Poly*> pp;
    for (auto& p : ps) pp.push_back(&p);
    return polys_json(pp, S);
}
static std::string polys_arg(const std::vector<const Poly*>& ps) {
    std::string s;
    for (size_t i = 0; i < ps.size(); i++) {
        if (i) s += "|";
        for (size_t k = 0; k < ps[i]->size(); k++) {
            if (k) s += ";";
            s += std::to_string((*ps[i])[k].x) + "," + std::to_string((*ps[i])[k].y);
        }
    }
    return s.empty() ? "-" : s;
}
static std::vector<Poly> parse_polys(const std::string& s) {
    std::vector<Poly> out;
    if (s.empty() || s == "-") return out;
    size_t p = 0;
    while (p <= s.size()) {
        size_t e = s.find('|', p);
        if (e == std::string::npos) e = s.size();
        std::string one = s.substr(p, e - p);
        Poly poly;
        size_t q = 0;
        while (q < one.size()) {
            size_t f = one.find(';', q);
            if (f == std::string::npos) f = one.size();
            std::string xy = one.substr(q, f - q);
            size_t c = xy.find(',');
            poly.push_back({atoll(xy.substr(0, c).c_str()), atoll(xy.substr(c + 1).c_str())});
            q = f + 1;
        }
        out.push_back(poly);
        p = e + 1;
    }
    return out;
}
static std::string pair_replay(const Ctx& cx, const Operand& A, const Operand& B) {
    std::string units = cx.ux ? fmt(" ux=%lld uy=%lld ox=%lld oy=%lld", (long long)cx.ux, (long long)cx.uy, (long long)OFFX, (long long)OFFY) : std::string();
    return fmt("sub=%s S=%lld g=%d r=%d aa=%s ab=%s entry=%s", cx.sub.c_str(), (long long)cx.S, cx.grid->g, cx.grid->r, A.area_mode, B.area_mode, ENTRY_ARG[ENTRY]) + units + " A=" + polys_arg(A.fine) + " B=" + polys_arg(B.fine);
}
static void report(const Ctx& cx, const char* cls, const Operand& A, const Operand& B, int op, const PairInfo& pi,
                   const OpResult* r, const std::string& detail, JFields extra = {}) {
    JFields tags = {{"op", jstr(op >= 0 ? OPN[op] : "all")}, {"scaling", jint(cx.S)}, {"translated", jbool(OFFX != 0 || OFFY != 0 || cx.ux != 0)}, {"regime", jstr(pi.exact ? "exact" : "rounded")},
                    {"relation", jstr(pi.relation())}, {"polys_a", jint((int64_t)A.fine.size())}, {"polys_b", jint((int64_t)B.fine.size())},
                    {"keyholed_input", jbool(A.keyholed || B.keyholed)}, {"entry", jstr(ENTRY_NAME[ENTRY])}};
    for (auto& e : extra) tags.push_back(e);
    if (SILENT) return;
    T.m[fmt("violations_by_class_op:%s:%s:%s", cls, op >= 0 ? OPN[op] : "identity", pi.exact ? "exact" : "rounded")]++;
    JFields c = {{"scaling", jint(cx.S)}, {"operation", jstr(op >= 0 ? OPN[op] : "or,and,not,xor")}, {"entry_point", jstr(ENTRY_NAME[ENTRY])}, {"A", polys_json(A.fine, cx.S)}, {"B", polys_json(B.fine, cx.S)}};
    if (r) c.push_back({"result", polys_json(r->fine, cx.S)});
    R->violation(cx.sub, cls, tags, jobj(c), detail, pair_replay(cx, A, B));
    if (VERBOSE) fprintf(stderr, "  ** VIOLATION %s: %s\n", cls, detail.c_str());
}

// ------------------------------------------------------------------------------- the oracle
// Returns true iff no violation was found for this pair.  keep_op >= 0: that operation's result
// (gdstk polygons + fine copy) is handed to the caller in *kept.
static bool check_pair(const Ctx& cx, const Operand& A, const Operand& B, int keep_op = -1, OpResult* kept = NULL, bool emit_sample = false, int entry = E_AA) {
    struct EntryScope { int saved; EntryScope(int e) : saved(ENTRY) { ENTRY = e; } ~EntryScope() { ENTRY = saved; } } entry_scope(entry);
    if (entry != E_AA) T.m[std::string("cases_via_") + ENTRY_ARG[entry]] += 4;
    PairInfo pi = analyse(A, B);
    bool nontriv = pi.nontrivial();
    const Grid& G = *cx.grid;
    Mask valid = pi.exact ? (G.all & ~(A.onb | B.onb)) : (G.all & ~(A.near | B.near));
    int nvalid = (int)valid.count();
    T.pairs++;
    if (nontriv) T.pairs_nontrivial++;
    if (pi.exact) T.exact_pairs++; else T.rounded_pairs++;
    if (pi.cross) T.rel_cross++; else if (pi.collinear) T.rel_collinear++; else if (pi.touch) T.rel_touch++; else T.rel_separate++;
    if (A.keyholed || B.keyholed) T.keyholed_inputs++;
    if (nvalid == 0) T.pairs_all_samples_skipped++;
    bool ok = true;
    i128 ar[4];
    int nv[4];
    std::vector<std::string> sample_res;
    static std::vector<Poly> U;
    static std::vector<int64_t> bb;
    static std::vector<char> sgnmask;
    static std::unordered_set<uint32_t> outcome_seen;
    bool opfail[4] = {false, false, false, false};
    for (int o = 0; o < 4; o++) {
        OpResult rs;
        OpResult& r = (o == keep_op && kept) ? *kept : rs;
        run_op(A, B, OPS[o], cx.S, o == keep_op && kept, r);
        T.cases++;
        if (nontriv) T.nontrivial++;
        ar[o] = r.area2;
        nv[o] = r.nverts;
        if (r.keyholed) T.keyholed_results++;
        if (r.fine.size() > 1) T.multi_polygon_results++;
        if (r.fine.empty()) T.empty_results++;
        if (VERBOSE) fprintf(stderr, "  [%s] %s -> error_code=%d, %zu polygon(s) %s  2*area=%s/S^2\n", ENTRY_NAME[ENTRY], OPN[o], (int)r.ec, r.fine.size(), polys_json(r.fine, cx.S).c_str(), i128s(r.area2).c_str());
        Mask expect = o == 0 ? (A.cover | B.cover) : o == 1 ? (A.cover & B.cover) : o == 2 ? (A.cover & ~B.cover) : (A.cover ^ B.cover);
        // coverage of the result at the valid samples
        U.resize(r.fine.size());
        bb.resize(4 * r.fine.size());
        for (size_t i = 0; i < r.fine.size(); i++) {
            U[i] = r.fine[i];
            int64_t x0 = INT64_MAX, x1 = INT64_MIN, y0 = INT64_MAX, y1 = INT64_MIN;
            for (auto& v : U[i]) { v.x *= 84; v.y *= 84; x0 = std::min(x0, v.x); x1 = std::max(x1, v.x); y0 = std::min(y0, v.y); y1 = std::max(y1, v.y); }
            bb[4 * i] = x0; bb[4 * i + 1] = x1; bb[4 * i + 2] = y0; bb[4 * i + 3] = y1;
        }
        int bad = -1, over = -1, badc = 0, mixed = -1, nmissing = 0, nextra = 0;
        sgnmask.assign(U.size(), 0);
        for (int k = 0; k < G.count(); k++) {
            if (!valid[k]) continue;
            P q = cx.sampU[k];
            int c = 0;
            for (size_t i = 0; i < U.size(); i++) {
                if (q.x < bb[4 * i] || q.x > bb[4 * i + 1] || q.y < bb[4 * i + 2] || q.y > bb[4 * i + 3]) continue;
                if (eg::on_boundary(U[i], q)) { c++; continue; }
                int w = eg::winding(U[i], q);
                if (w != 0) {
                    c++;
                    sgnmask[i] |= w > 0 ? 1 : 2;
                    if (sgnmask[i] == 3 && mixed < 0) mixed = k;
                }
            }
            if ((c > 0) != expect[k]) {
                if (bad < 0) { bad = k; badc = c; }
                if (expect[k]) nmissing++; else nextra++;
            }
            if (c > 1 && over < 0) over = k;
        }
        T.samples_compared += nvalid;
        T.samples_skipped += G.count() - nvalid;
        JFields ectag = {{"error_code", jint((int)r.ec)}};
        if (r.ec != ErrorCode::NoError) { opfail[o] = true; report(cx, "error_code", A, B, o, pi, &r, fmt("boolean() returned ErrorCode %d (%s)", (int)r.ec, r.ec == ErrorCode::BooleanError ? "BooleanError: link_holes could not link a hole" : "?"), ectag); }
        if (r.offgrid) { opfail[o] = true; report(cx, "offgrid", A, B, o, pi, &r, r.offgrid_what, ectag); }
        if (bad >= 0) {
            opfail[o] = true;
            JFields tg = ectag;
            tg.push_back({"mismatch", jstr(nextra == 0 ? "missing_only" : nmissing == 0 ? "extra_only" : "missing_and_extra")});
            report(cx, "membership", A, B, o, pi, &r,
                   fmt("%d sample point(s) of the expected region are not covered by the result, %d outside it are covered; e.g. (%.6f, %.6f): in A=%d, in B=%d, so (A %s B) %s it, but the result %s it", nmissing, nextra, ((double)cx.sampU[bad].x / 84.0 + (double)OFFX) / (double)cx.S, ((double)cx.sampU[bad].y / 84.0 + (double)OFFY) / (double)cx.S,
                       (int)A.cover[bad], (int)B.cover[bad], OPN[o], expect[bad] ? "covers" : "does not cover", badc ? "covers" : "does not cover"),
                   tg);
        }
        if (over >= 0) {
            opfail[o] = true;
            report(cx, "overlap", A, B, o, pi, &r, fmt("sample point (%.6f, %.6f) is covered by more than one result polygon", ((double)cx.sampU[over].x / 84.0 + (double)OFFX) / (double)cx.S, ((double)cx.sampU[over].y / 84.0 + (double)OFFY) / (double)cx.S), ectag);
        }
        if (mixed >= 0) {
            opfail[o] = true;
            JFields tg = ectag;
            tg.push_back({"coverage_correct", jbool(bad < 0 && over < 0)});
            int which = 0;
            for (size_t i = 0; i < sgnmask.size(); i++) if (sgnmask[i] == 3) which = (int)i;
            report(cx, "mixed_winding", A, B, o, pi, &r,
                   fmt("result polygon %d winds positively around some sample points and negatively around others (e.g. (%.6f, %.6f)): lobes of opposite orientation joined in one vertex list, so its shoelace area (%.6g, what Polygon::area() reports) is not the area it covers; not a key-hole polygon with a zero-width slit",
                       which, ((double)cx.sampU[mixed].x / 84.0 + (double)OFFX) / (double)cx.S, ((double)cx.sampU[mixed].y / 84.0 + (double)OFFY) / (double)cx.S, 0.5 * (double)iabs(eg::area2(r.fine[which])) / ((double)cx.S * (double)cx.S)), tg);
        }
        if (opfail[o]) ok = false;
        {
            uint32_t key = (uint32_t)o | (uint32_t)std::min<size_t>(r.fine.size(), 15) << 2 | (uint32_t)std::min(r.nverts, 255) << 6 | (uint32_t)r.keyholed << 14 | (uint32_t)pi.exact << 15 |
                           (uint32_t)(pi.cross ? 0 : pi.collinear ? 1 : pi.touch ? 2 : 3) << 16 | (uint32_t)opfail[o] << 18 | (uint32_t)ENTRY << 19;
            if (outcome_seen.insert(key).second)
                R->outcome(cx.sub, fmt("%s %s np=%d nv=%d keyholed=%d %s %s fail=%d", ENTRY_ARG[ENTRY], OPN[o], (int)r.fine.size(), r.nverts, (int)r.keyholed, pi.exact ? "exact" : "rounded", pi.relation(), (int)opfail[o]));
        }
        if (emit_sample) sample_res.push_back(jobj({{"op", jstr(OPN[o])}, {"result", polys_json(r.fine, cx.S)}}));
    }
    // area identities (twice the area, fine units^2)
    {
        auto slack = [&](int nvsum) { return pi.exact ? (i128)0 : (i128)2 * (A.nverts + B.nverts + nvsum + pi.ncross_all) * cx.extent_fine * cx.eps; };
        struct Id { const char* name; i128 lhs, rhs, sl; bool needs_ab; bool tainted; };
        i128 sab = A.area_slack2 + B.area_slack2;
        Id ids[3] = {{"|A or B| + |A and B| = |A| + |B|", ar[0] + ar[1], A.area2 + B.area2, slack(nv[0] + nv[1]) + sab, true, opfail[0] || opfail[1]},
                     {"|A not B| = |A| - |A and B|", ar[2], A.area2 - ar[1], slack(nv[2] + nv[1]) + A.area_slack2, true, opfail[2] || opfail[1]},
                     {"|A xor B| = |A or B| - |A and B|", ar[3], ar[0] - ar[1], slack(nv[3] + nv[0] + nv[1]), false, opfail[3] || opfail[0] || opfail[1]}};
        for (int k = 0; k < 3; k++) {
            if (ids[k].needs_ab && !(A.area_ok && B.area_ok)) continue;
            // a result already reported as wrong is not reported a second time through its area
            if (ids[k].tainted) { T.m["area_identities_not_judged_result_already_failed"]++; continue; }
            T.area_identities++;
            if (VERBOSE) fprintf(stderr, "  identity %s : lhs=%s rhs=%s slack=%s (2*area*S^2)\n", ids[k].name, i128s(ids[k].lhs).c_str(), i128s(ids[k].rhs).c_str(), i128s(ids[k].sl).c_str());
            if (iabs(ids[k].lhs - ids[k].rhs) > ids[k].sl) {
                ok = false;
                report(cx, "area_identity", A, B, -1, pi, NULL,
                       fmt("%s violated: twice the areas in units of 1/S^2: lhs=%s rhs=%s allowed slack=%s (|A|=%s |B|=%s or=%s and=%s not=%s xor=%s)", ids[k].name, i128s(ids[k].lhs).c_str(),
                           i128s(ids[k].rhs).c_str(), i128s(ids[k].sl).c_str(), i128s(A.area2).c_str(), i128s(B.area2).c_str(), i128s(ar[0]).c_str(), i128s(ar[1]).c_str(), i128s(ar[2]).c_str(), i128s(ar[3]).c_str()),
                       {{"identity", jint(k)}, {"result_area", jstr(ids[k].lhs < ids[k].rhs ? "too_small" : "too_large")}});
            }
        }
    }
    if (emit_sample)
        R->sample(cx.sub, jobj({{"scaling", jint(cx.S)}, {"A", polys_json(A.fine, cx.S)}, {"B", polys_json(B.fine, cx.S)}, {"regime", jstr(pi.exact ? "exact" : "rounded")},
                                {"relation", jstr(pi.relation())}, {"samples_compared_per_op", jint(nvalid)}, {"results", jarr(sample_res)}}));
    return ok;
}

// area of a multi-polygon lattice operand: from boolean(G, {}, Or), itself checked by sampling
static bool check_merge_via(const Ctx& cx, Operand& Gp, int entry) {
    static const Operand EMPTY;
    struct EntryScope { int saved; EntryScope(int e) : saved(ENTRY) { ENTRY = e; } ~EntryScope() { ENTRY = saved; } } entry_scope(entry);
    PairInfo pi = analyse(Gp, EMPTY);
    const Grid& G = *cx.grid;
    Mask valid = pi.exact ? (G.all & ~Gp.onb) : (G.all & ~Gp.near);
    OpResult r;
    run_op(Gp, EMPTY, Operation::Or, cx.S, false, r);
    T.cases++;
    T.m[entry == E_MERGE ? "cases_via_merge" : "merge_cases"]++;
    bool ok = true;
    if (r.ec != ErrorCode::NoError) { ok = false; report(cx, "error_code", Gp, EMPTY, 0, pi, &r, fmt("boolean() returned ErrorCode %d", (int)r.ec), {{"error_code", jint((int)r.ec)}}); }
    if (r.offgrid) { ok = false; report(cx, "offgrid", Gp, EMPTY, 0, pi, &r, r.offgrid_what, {{"error_code", jint((int)r.ec)}}); }
    std::vector<Poly> U = r.fine;
    for (auto& p : U) for (auto& v : p) { v.x *= 84; v.y *= 84; }
    int bad = -1, over = -1, mixed = -1;
    std::vector<char> sg(U.size(), 0);
    for (int k = 0; k < G.count(); k++) {
        if (!valid[k]) continue;
        int c = 0;
        for (size_t i = 0; i < U.size(); i++) {
            if (eg::on_boundary(U[i], cx.sampU[k])) { c++; continue; }
            int w = eg::winding(U[i], cx.sampU[k]);
            if (w != 0) { c++; sg[i] |= w > 0 ? 1 : 2; if (sg[i] == 3 && mixed < 0) mixed = k; }
        }
        if ((c > 0) != Gp.cover[k] && bad < 0) bad = k;
        if (c > 1 && over < 0) over = k;
    }
    if (mixed >= 0) { ok = false; report(cx, "mixed_winding", Gp, EMPTY, 0, pi, &r, "a polygon of the merged group winds positively around some sample points and negatively around others", {{"error_code", jint((int)r.ec)}, {"coverage_correct", jbool(bad < 0 && over < 0)}}); }
    T.samples_compared += (int)valid.count();
    T.samples_skipped += G.count() - (int)valid.count();
    if (bad >= 0) { ok = false; report(cx, "membership", Gp, EMPTY, 0, pi, &r, fmt("sample point (%.6f, %.6f): union of the group %s it but the result does not agree", ((double)cx.sampU[bad].x / 84.0 + (double)OFFX) / (double)cx.S, ((double)cx.sampU[bad].y / 84.0 + (double)OFFY) / (double)cx.S, Gp.cover[bad] ? "covers" : "does not cover"), {{"error_code", jint((int)r.ec)}, {"mismatch", jstr(Gp.cover[bad] ? "missing" : "extra")}}); }
    if (over >= 0) { ok = false; report(cx, "overlap", Gp, EMPTY, 0, pi, &r, "a sample point is covered by more than one result polygon", {{"error_code", jint((int)r.ec)}}); }
    Gp.area_ok = ok;
    Gp.area_mode = "merge";
    Gp.area2 = r.area2;
    Gp.area_slack2 = pi.exact ? (i128)0 : (i128)2 * (Gp.nverts + r.nverts + pi.ncross_all) * cx.extent_fine * cx.eps;
    if (VERBOSE) fprintf(stderr, "  [%s] union of the group: %zu polygon(s), 2*area=%s slack=%s ok=%d\n", ENTRY_NAME[ENTRY], r.fine.size(), i128s(Gp.area2).c_str(), i128s(Gp.area_slack2).c_str(), (int)ok);
    return ok;
}
// both ways of merging a group: the inline wrapper merge(G) and boolean(G, {}, Or); |G| is taken from the latter
static bool check_merge(const Ctx& cx, Operand& Gp) {
    bool ok1 = check_merge_via(cx, Gp, E_MERGE);
    bool ok2 = check_merge_via(cx, Gp, E_AA);
    Gp.area_ok = ok1 && ok2;
    return ok1 && ok2;
}

// ------------------------------------------------------------------------------- operand families
struct Item { int i, j; };  // j < 0: single shape
struct Side {
    ShapeSet* set = NULL;
    std::vector<Item> items;
    std::string desc;
    // lazily computed areas of two-shape groups (per process)
    std::vector<signed char> st;
    std::vector<i128> a2, sl2;
    static Side singles(ShapeSet& s, int from = 0, int to = -1) {
        Side sd;
        sd.set = &s;
        if (to < 0) to = (int)s.size();
        for (int i = from; i < to; i++) sd.items.push_back({i, -1});
        return sd;
    }
    static Side groups(ShapeSet& s, int from, int to, bool ordered) {
        Side sd;
        sd.set = &s;
        for (int i = from; i < to; i++)
            for (int j = ordered ? from : i; j < to; j++) sd.items.push_back({i, j});
        return sd;
    }
    void reset_cache() { st.assign(items.size(), 0); a2.assign(items.size(), 0); sl2.assign(items.size(), 0); }
    void get(const Ctx& cx, int64_t k, Operand& o) {
        Item it = items[k];
        operand_single(*set, it.i, o);
        if (it.j < 0) return;
        o.fine.push_back(&set->fine[it.j]);
        o.gp.push_back(set->gp[it.j]);
        o.cover |= set->cover[it.j];
        o.near |= set->near[it.j];
        o.nverts += (int)set->lat[it.j].size();
        if (st.size() != items.size()) reset_cache();
        if (!st[k]) {
            bool ok = check_merge(cx, o);
            st[k] = ok ? 1 : 2;
            a2[k] = o.area2;
            sl2[k] = o.area_slack2;
        }
        o.area_mode = "merge";
        o.area_ok = st[k] == 1;
        o.area2 = a2[k];
        o.area_slack2 = sl2[k];
    }
};

static bool skip_bound(const std::string& sub, const std::string& desc) {
    // development aid: VERIF_C05_ONLY=<substring> runs only the bounds whose id contains it
    const char* only = getenv("VERIF_C05_ONLY");
    if (only && *only && sub.find(only) == std::string::npos) return true;
    if (R->out_of_time()) {
        R->bound(sub, desc + "  [NOT STARTED: deadline]", false, 0);
        return true;
    }
    return false;
}
static bool replay_idx_here(const std::string& sub, int64_t& idx) {
    if (!R->replaying()) return false;
    if (R->rarg("sub") != sub || R->rarg("idx").empty()) { idx = -1; return true; }
    idx = atoll(R->rarg("idx").c_str());
    return true;
}

// every A-operand x every B-operand x 4 operations at scaling S
static void product_bound(const std::string& sub, const std::string& desc, Side& SA, Side& SB, const Grid& G, int64_t S, int64_t chunkB = 2000, bool overloads = false) {
    int64_t ridx;
    bool rep = replay_idx_here(sub, ridx);
    if (rep && ridx < 0) return;
    if (!rep && skip_bound(sub, desc)) return;
    SA.set->prepare(G); SB.set->prepare(G);
    SA.set->set_scaling(S); SB.set->set_scaling(S);
    SA.reset_cache(); SB.reset_cache();
    Ctx cx;
    cx.init(sub, G, S);
    int64_t nA = (int64_t)SA.items.size(), nB = (int64_t)SB.items.size();
    int64_t nch = (nB + chunkB - 1) / chunkB, n = nA * nch;
    auto body = [&](int64_t idx) {
        int64_t a = idx / nch, c = idx % nch;
        Operand A, B;
        SA.get(cx, a, A);
        bool sampled = false;
        for (int64_t b = c * chunkB; b < std::min(nB, (c + 1) * chunkB); b++) {
            SB.get(cx, b, B);
            bool want = idx == n / 3 && !sampled && analyse(A, B).cross;
            if (want) sampled = true;
            check_pair(cx, A, B, -1, NULL, want);
            // the same pair through every inline forwarding overload that applies to it
            if (overloads)
                for (int e = E_PA; e <= E_PP; e++)
                    if (entry_applies(e, A, B)) check_pair(cx, A, B, -1, NULL, false, e);
        }
        T.flush();
    };
    if (rep) { VERBOSE = false; body(ridx); return; }
    double t0 = now();
    bool ok = parallel_for(*R, n, body, [&](int64_t idx) { return jobj({{"bound", jstr(sub)}, {"A_index", jint(idx / nch)}, {"B_chunk", jint(idx % nch)}, {"note", jstr("crash/hang while executing one of the pairs of this chunk")}}); },
                           [&](int64_t idx) { return fmt("sub=%s idx=%lld", sub.c_str(), (long long)idx); }, PFOptions{300, sub, true});
    int nentries = 1;
    if (overloads) {
        bool a1 = SA.items[0].j < 0, b1 = SB.items[0].j < 0;  // a side is homogeneous: all single shapes or all groups
        nentries = 1 + (a1 ? 1 : 0) + (b1 ? 1 : 0) + (a1 && b1 ? 1 : 0);
    }
    R->bound(sub, desc + fmt("  [%lld x %lld operand pairs x 4 operations x %d entry point(s)%s, scaling %lld, %d sample points (r=%d)]", (long long)nA, (long long)nB, nentries,
                             overloads ? " (boolean(array,array) and every inline overload taking a single Polygon that applies)" : "", (long long)S, G.count(), G.r), ok, ok ? nA * nB * 4 * nentries : 0,
             {{"wall_s", jnum(now() - t0)}});
}

// chained inputs.  mode 0: C = A not B1;  mode 1: C = A not {B1,B2};  mode 2: C = (A not B1) not B2.
// The first step(s) are checked like any pair; C (the polygons gdstk returned, unchanged) is then used
// as an operand against every D (orders: 1 = C op D, 2 = also D op C).  D may be absent.
struct Nested { int a, b1, b2; };
static void chain_bound(const std::string& sub, const std::string& desc, const std::vector<Nested>& items, int mode, ShapeSet& SAs, ShapeSet& SIn, Side* SD, int orders,
                        const Grid& G, int64_t S, int64_t chunkN, int64_t chunkD) {
    int64_t ridx;
    bool rep = replay_idx_here(sub, ridx);
    if (rep && ridx < 0) return;
    if (!rep && skip_bound(sub, desc)) return;
    SAs.prepare(G); SIn.prepare(G);
    SAs.set_scaling(S); SIn.set_scaling(S);
    if (SD) { SD->set->prepare(G); SD->set->set_scaling(S); SD->reset_cache(); }
    Ctx cx;
    cx.init(sub, G, S);
    int64_t nN = (int64_t)items.size(), nD = SD ? (int64_t)SD->items.size() : 0;
    int64_t nchN = (nN + chunkN - 1) / chunkN, nchD = SD ? (nD + chunkD - 1) / chunkD : 1, n = nchN * nchD;
    auto body = [&](int64_t idx) {
        int64_t cn = idx / nchD, cd = idx % nchD;
        for (int64_t k = cn * chunkN; k < std::min(nN, (cn + 1) * chunkN); k++) {
            Nested it = items[k];
            Operand A, B, C1, C, D;
            OpResult r1, r2;
            operand_single(SAs, it.a, A);
            operand_single(SIn, it.b1, B);
            bool first = cd == 0;  // the preparatory steps are counted/judged once, recomputed silently otherwise
            Tally saved;
            if (!first) { std::swap(saved, T); SILENT = true; }
            bool ok = true;
            OpResult* last = &r1;
            if (mode == 1) {
                B.fine.push_back(&SIn.fine[it.b2]);
                B.gp.push_back(SIn.gp[it.b2]);
                B.cover |= SIn.cover[it.b2];
                B.near |= SIn.near[it.b2];
                B.nverts += (int)SIn.lat[it.b2].size();
                check_merge(cx, B);
                ok = check_pair(cx, A, B, 2, &r1, first && k == nN / 2);
            } else {
                ok = check_pair(cx, A, B, 2, &r1, first && k == nN / 2);
                if (ok && mode == 2 && !r1.fine.empty()) {
                    operand_from_fine(cx, r1.fine, r1.kept, C1);
                    operand_single(SIn, it.b2, B);
                    ok = check_pair(cx, C1, B, 2, &r2, first && k == nN / 2);
                    last = &r2;
                }
            }
            if (!first) { T = Tally(); std::swap(saved, T); SILENT = false; }
            if (!ok && first) T.m["chain_stopped_first_step_violation"]++;
            if (ok && first) {
                T.m["chain_inputs"]++;
                if (last->keyholed) T.m["chain_inputs_keyholed"]++;
                if (last->fine.size() > 1) T.m["chain_inputs_multi_polygon"]++;
            }
            if (ok && SD && !last->fine.empty()) {
                operand_from_fine(cx, last->fine, last->kept, C);
                for (int64_t d = cd * chunkD; d < std::min(nD, (cd + 1) * chunkD); d++) {
                    SD->get(cx, d, D);
                    bool want = idx == n / 3 && d == cd * chunkD;
                    check_pair(cx, C, D, -1, NULL, want);
                    if (orders > 1) check_pair(cx, D, C);
                }
            }
            r1.release();
            r2.release();
        }
        T.flush();
    };
    if (rep) { body(ridx); return; }
    double t0 = now();
    bool ok = parallel_for(*R, n, body, [&](int64_t idx) { return jobj({{"bound", jstr(sub)}, {"nested_chunk", jint(idx / nchD)}, {"D_chunk", jint(idx % nchD)}, {"note", jstr("crash/hang while executing one of the chains of this chunk")}}); },
                           [&](int64_t idx) { return fmt("sub=%s idx=%lld", sub.c_str(), (long long)idx); }, PFOptions{300, sub, true});
    R->bound(sub, desc + fmt("  [%lld chained inputs x %lld D operands x %d order(s) x 4 operations, scaling %lld, %d sample points (r=%d)]", (long long)nN, (long long)nD, orders, (long long)S, G.count(), G.r), ok,
             ok ? nN * 4 * (mode == 2 ? 2 : 1) + nN * nD * orders * 4 : 0, {{"wall_s", jnum(now() - t0)}});
}

// "range quadrant" dimension.  Clipper switches its slope arithmetic from 64 to 128 bits when any coordinate
// of a run exceeds 2^30-1 in absolute value (RangeTest: four separate comparisons, +x, -x, +y, -y) and refuses
// coordinates beyond 2^62-1.  The lattice is stretched (ux, uy grid units per lattice step, gdstk scaling 1) and
// translated (ox, oy) so that a chosen subset of the four directions is large; with steps of 2^29 and 2^33 the
// edge vectors are up to 2^30 x 2^34 and their 64-bit cross products wrap modulo 2^64 (2^30 * 2^34 = 2^64 == 0),
// so a run that wrongly stays in 64-bit mode judges real corners collinear.  The oracle is the usual one,
// evaluated in local coordinates (see OFFX/OFFY).
struct RangeCfg { const char* name; int64_t ux, uy, ox, oy; };
struct RangeSide {
    std::vector<std::vector<Poly>> fine;
    std::vector<std::vector<Polygon*>> gp;
    std::vector<Operand> ops;
    std::vector<signed char> merged;
    void build(const Ctx& cx, Side& sd) {
        size_t n = sd.items.size();
        fine.assign(n, {}); gp.assign(n, {}); ops.assign(n, Operand()); merged.assign(n, 0);
        for (size_t k = 0; k < n; k++) {
            int idx[2] = {sd.items[k].i, sd.items[k].j};
            for (int t = 0; t < 2; t++) {
                if (idx[t] < 0) continue;
                Poly p = sd.set->lat[idx[t]];
                for (auto& v : p) { v.x *= cx.ux; v.y *= cx.uy; }
                fine[k].push_back(p);
            }
            for (auto& p : fine[k]) gp[k].push_back(make_gp(p, cx.S));
            operand_from_fine(cx, fine[k], gp[k], ops[k]);
        }
    }
    const Operand& get(const Ctx& cx, size_t k) {
        if (ops[k].fine.size() > 1 && !merged[k]) { check_merge(cx, ops[k]); merged[k] = 1; }
        return ops[k];
    }
    void release() { for (auto& g : gp) for (auto p : g) free_gp(p); gp.clear(); }
};
static void range_bound(const std::string& sub, const std::string& desc, Side& SA, Side& SB, const Grid& G, const RangeCfg& cf, bool overloads) {
    int64_t ridx;
    bool rep = replay_idx_here(sub, ridx);
    if (rep && ridx < 0) return;
    if (!rep && skip_bound(sub, desc)) return;
    Ctx cx;
    cx.init_units(sub, G, cf.ux, cf.uy, 1);
    OFFX = cf.ox; OFFY = cf.oy;
    cx.set_eps(std::max(std::abs(cf.ox), std::abs(cf.oy)) + 2 * std::max(cf.ux, cf.uy));
    RangeSide RA, RB;
    RA.build(cx, SA);
    RB.build(cx, SB);
    int64_t nA = (int64_t)SA.items.size(), nB = (int64_t)SB.items.size();
    auto body = [&](int64_t a) {
        const Operand& A = RA.get(cx, a);
        for (int64_t b = 0; b < nB; b++) {
            const Operand& B = RB.get(cx, b);
            bool want = a == nA / 3 && b == nB / 2;
            T.m["cases_translated"] += 4;
            check_pair(cx, A, B, -1, NULL, want);
            if (overloads)
                for (int e = E_PA; e <= E_PP; e++)
                    if (entry_applies(e, A, B)) { T.m["cases_translated"] += 4; check_pair(cx, A, B, -1, NULL, false, e); }
        }
        T.flush();
    };
    if (rep) { body(ridx); }
    else {
        double t0 = now();
        bool ok = parallel_for(*R, nA, body, [&](int64_t a) { return jobj({{"bound", jstr(sub)}, {"A_index", jint(a)}, {"note", jstr("crash/hang while executing one of the pairs of this chunk")}}); },
                               [&](int64_t a) { return fmt("sub=%s idx=%lld", sub.c_str(), (long long)a); }, PFOptions{300, sub, true});
        R->bound(sub, desc + fmt("  [%s: x = %lld + %lld*i, y = %lld + %lld*j grid units for lattice point (i,j), gdstk scaling 1, effective grid %lld; %lld x %lld operand pairs x 4 operations%s, %d sample points]", cf.name, (long long)cf.ox,
                                 (long long)cf.ux, (long long)cf.oy, (long long)cf.uy, (long long)cx.eps, (long long)nA, (long long)nB, overloads ? " x every applicable entry point" : "", G.count()), ok, ok ? nA * nB * 4 : 0, {{"wall_s", jnum(now() - t0)}});
    }
    RA.release();
    RB.release();
    OFFX = OFFY = 0;
}

// Operands of 3 and 4 polygons: one covering member (the full g=5 square) and 2 or 3 further members
// (rectangles of width/height 1 or 2 anywhere on the lattice, right triangles cut from the 1x1 and 2x2 squares;
// both windings) that are nested in / overlap the cover and each other in every left-right and bottom-top
// arrangement.  Non-zero filling must ignore members that start inside a region their own operand already
// covers.  Each group G is merged both ways (merge(G), boolean(G,{},Or)) and combined with every B of a small
// set as G op B and B op G; same oracle (coverage of G = union of the members' exact coverages).
struct MultiGroup { int m[4]; };
static void multi_bound(const std::string& sub, const std::string& desc, ShapeSet& MS, const std::vector<MultiGroup>& groups, ShapeSet& BS, const Grid& G, int64_t S, int64_t chunk) {
    int64_t ridx;
    bool rep = replay_idx_here(sub, ridx);
    if (rep && ridx < 0) return;
    if (!rep && skip_bound(sub, desc)) return;
    MS.prepare(G); BS.prepare(G);
    MS.set_scaling(S); BS.set_scaling(S);
    Ctx cx;
    cx.init(sub, G, S);
    int64_t nG = (int64_t)groups.size(), n = (nG + chunk - 1) / chunk, nB = (int64_t)BS.size();
    auto body = [&](int64_t idx) {
        Operand A, B;
        for (int64_t g = idx * chunk; g < std::min(nG, (idx + 1) * chunk); g++) {
            operand_single(MS, groups[g].m[0], A);
            for (int t = 1; t < 4; t++) {
                int i = groups[g].m[t];
                if (i < 0) continue;
                A.fine.push_back(&MS.fine[i]);
                A.gp.push_back(MS.gp[i]);
                A.cover |= MS.cover[i];
                A.near |= MS.near[i];
                A.nverts += (int)MS.lat[i].size();
            }
            T.m[A.fine.size() == 3 ? "groups_of_3" : "groups_of_4"]++;
            check_merge(cx, A);
            for (int64_t b = 0; b < nB; b++) {
                operand_single(BS, (int)b, B);
                check_pair(cx, A, B, -1, NULL, g == nG / 3 && b == 0);
                check_pair(cx, B, A);
            }
        }
        T.flush();
    };
    if (rep) { body(ridx); return; }
    double t0 = now();
    bool ok = parallel_for(*R, n, body, [&](int64_t idx) { return jobj({{"bound", jstr(sub)}, {"group_chunk", jint(idx)}, {"note", jstr("crash/hang while executing one of the groups of this chunk")}}); },
                           [&](int64_t idx) { return fmt("sub=%s idx=%lld", sub.c_str(), (long long)idx); }, PFOptions{300, sub, true});
    R->bound(sub, desc + fmt("  [%lld groups x (2 merges + %lld single shapes B x {G op B, B op G} x 4 operations), scaling %lld, %d sample points]", (long long)nG, (long long)nB, (long long)S, G.count()), ok,
             ok ? nG * (2 + nB * 8) : 0, {{"wall_s", jnum(now() - t0)}});
}

// offset(const Polygon&, ...) is an inline wrapper that forwards to offset(array, ...); its geometry belongs
// to C13, here only the forwarding is judged: for every shape, distance, join, tolerance and union flag the
// wrapper must return exactly (error code, polygon count, vertex lists bit for bit) what the array function
// returns for the one-element array.
static void offset_overload_bound(const std::string& sub, ShapeSet& SS, int64_t S) {
    const std::string desc = "inline overload offset(polygon,...) against offset(array{polygon},...): every shape x distance {-0.25, 0.125, 0.5} x join {Miter, Bevel, Round} x tolerance {2, 9} x use_union {0,1}";
    int64_t ridx;
    bool rep = replay_idx_here(sub, ridx);
    if (rep && ridx < 0) return;
    if (!rep && skip_bound(sub, desc)) return;
    const double dist[3] = {-0.25, 0.125, 0.5}, tol[2] = {2, 9};
    const OffsetJoin joins[3] = {OffsetJoin::Miter, OffsetJoin::Bevel, OffsetJoin::Round};
    int64_t n = (int64_t)SS.size();
    auto body = [&](int64_t i) {
        Polygon* p = SS.gp[i];
        Array<Polygon*> one = {1, 1, &p};
        for (int d = 0; d < 3; d++) for (int j = 0; j < 3; j++) for (int t = 0; t < 2; t++) for (int u = 0; u < 2; u++) {
            Array<Polygon*> r1 = {}, r2 = {};
            ErrorCode e1 = offset(*p, dist[d], joins[j], tol[t], (double)S, u != 0, r1);
            ErrorCode e2 = offset(one, dist[d], joins[j], tol[t], (double)S, u != 0, r2);
            bool same = e1 == e2 && r1.count == r2.count;
            for (uint64_t k = 0; same && k < r1.count; k++) {
                same = r1[k]->point_array.count == r2[k]->point_array.count;
                for (uint64_t v = 0; same && v < r1[k]->point_array.count; v++)
                    same = r1[k]->point_array[v].x == r2[k]->point_array[v].x && r1[k]->point_array[v].y == r2[k]->point_array[v].y;
            }
            T.cases++;
            T.nontrivial++;
            T.m["cases_via_offset_polygon"]++;
            if (r1.count > 0) T.m["offset_overload_nonempty_results"]++;
            if (!same) {
                T.m["violations_by_class_op:overload_mismatch:offset:-"]++;
                std::vector<const Poly*> pp = {&SS.lat[i]};
                R->violation(sub, "overload_mismatch", {{"function", jstr("offset")}, {"entry", jstr("offset(polygon)")}, {"join", jint(j)}, {"use_union", jint(u)}},
                             jobj({{"polygon", polys_json(pp, 1)}, {"distance", jnum(dist[d])}, {"join", jstr(j == 0 ? "miter" : j == 1 ? "bevel" : "round")}, {"tolerance", jnum(tol[t])}, {"scaling", jint(S)}, {"use_union", jbool(u != 0)}}),
                             fmt("offset(polygon, ...) returned error %d and %llu polygon(s), offset(array{polygon}, ...) error %d and %llu polygon(s), or their vertices differ", (int)e1, (unsigned long long)r1.count, (int)e2, (unsigned long long)r2.count),
                             fmt("sub=%s idx=%lld", sub.c_str(), (long long)i));
            }
            for (uint64_t k = 0; k < r1.count; k++) free_gp(r1[k]);
            for (uint64_t k = 0; k < r2.count; k++) free_gp(r2[k]);
            r1.clear();
            r2.clear();
        }
        T.flush();
    };
    if (rep) { body(ridx); return; }
    double t0 = now();
    bool ok = parallel_for(*R, n, body, [&](int64_t i) { return jobj({{"bound", jstr(sub)}, {"shape_index", jint(i)}}); }, [&](int64_t i) { return fmt("sub=%s idx=%lld", sub.c_str(), (long long)i); }, PFOptions{60, sub, true});
    R->sample(sub, jobj({{"polygon", polys_json(std::vector<const Poly*>{&SS.lat[n / 2]}, 1)}, {"scaling", jint(S)}, {"compared", jstr("offset(polygon,...) vs offset(array{polygon},...), 36 parameter combinations")}}));
    R->bound(sub, desc + fmt("  [%lld shapes x 36 parameter combinations, scaling %lld]", (long long)n, (long long)S), ok, ok ? n * 36 : 0, {{"wall_s", jnum(now() - t0)}});
}

// ------------------------------------------------------------------------------- nested pairs (exact)
static bool boundaries_touch(const Poly& a, const Poly& b) {
    for (size_t i = 0; i < a.size(); i++)
        for (size_t j = 0; j < b.size(); j++)
            if (eg::segments_touch(a[i], a[(i + 1) % a.size()], b[j], b[(j + 1) % b.size()])) return true;
    return false;
}
static bool strictly_inside(const Poly& b, const Poly& a) { return !boundaries_touch(a, b) && eg::winding(a, b[0]) != 0; }

// ------------------------------------------------------------------------------- replay of one pair
static void replay_pair() {
    VERBOSE = true;
    int64_t S = atoll(R->rarg("S").c_str());
    Grid G(atoi(R->rarg("g").c_str()), atoi(R->rarg("r").c_str()));
    Ctx cx;
    if (!R->rarg("ux").empty()) {
        cx.init_units(R->rarg("sub"), G, atoll(R->rarg("ux").c_str()), atoll(R->rarg("uy").c_str()), S);
        OFFX = atoll(R->rarg("ox").c_str());
        OFFY = atoll(R->rarg("oy").c_str());
        cx.set_eps(std::max(std::abs(OFFX), std::abs(OFFY)) + 2 * std::max(cx.ux, cx.uy));
        fprintf(stderr, "operands are given in local grid coordinates; gdstk receives them translated by (%lld, %lld)\n", (long long)OFFX, (long long)OFFY);
    } else
        cx.init(R->rarg("sub"), G, S);
    std::vector<Poly> fa = parse_polys(R->rarg("A")), fb = parse_polys(R->rarg("B"));
    std::vector<Polygon*> ga, gb;
    for (auto& p : fa) ga.push_back(make_gp(p, S));
    for (auto& p : fb) gb.push_back(make_gp(p, S));
    Operand A, B;
    operand_from_fine(cx, fa, ga, A);
    operand_from_fine(cx, fb, gb, B);
    fprintf(stderr, "replaying one operand pair at scaling %lld (coordinates in lattice units):\n  A = %s\n  B = %s\n", (long long)S, polys_json(fa, S).c_str(), polys_json(fb, S).c_str());
    if (R->rarg("aa") == "merge") check_merge(cx, A);
    if (R->rarg("ab") == "merge") check_merge(cx, B);
    PairInfo pi = analyse(A, B);
    fprintf(stderr, "  regime=%s relation=%s crossings=%d, samples outside the guard band: %d of %d\n", pi.exact ? "exact" : "rounded", pi.relation(), pi.ncross_all,
            (int)(pi.exact ? G.all : (G.all & ~(A.near | B.near))).count(), G.count());
    int entry = E_AA;
    for (int e = 0; e < 4; e++) if (R->rarg("entry") == ENTRY_ARG[e] && entry_applies(e, A, B)) entry = e;
    bool ok = check_pair(cx, A, B, -1, NULL, false, entry);
    fprintf(stderr, "  => %s\n", ok ? "no violation" : "VIOLATION");
    T.flush();
    for (auto p : ga) free_gp(p);
    for (auto p : gb) free_gp(p);
}

// ------------------------------------------------------------------------------- main
int main(int argc, char** argv) {
    Run run("C05", argc, argv);
    R = &run;
    error_logger = NULL;
    if (getenv("VERIF_C05_MAXV")) run.max_viol_per_class = atoi(getenv("VERIF_C05_MAXV"));  // debugging aid: emit more cases per class
    bool TH = run.thorough();
    if (run.replaying() && !run.rarg("A").empty()) {
        replay_pair();
        return run.finish();
    }
    const int64_t S1 = 1, S1000 = 1000, S20 = 1ll << 20, S40 = 1ll << 40;
    const bool COL = true;  // collinear consecutive vertices allowed (DESIGN: only touching non-adjacent edges and zero area are excluded)

    // ---- shape sets.  Order inside a set: counter-clockwise triangles, their reversals (same start
    // vertex), then the larger polygons; reduced sets are index ranges.
    Grid G3(3, 4), G4(4, 2), G4f(4, 4), G5(5, 2);
    auto tri_sorted = [&](int g, bool fix_start, int& nccw) {
        std::vector<Poly> t, out;
        eg::enumerate_simple_polygons(g, 3, 3, fix_start, COL, t);
        for (auto& p : t) if (eg::area2(p) > 0) out.push_back(p);
        nccw = (int)out.size();
        for (int i = 0; i < nccw; i++) out.push_back(Poly{out[i][0], out[i][2], out[i][1]});
        if (out.size() != t.size()) run.internal_error("triangle enumeration is not closed under reversal");
        return out;
    };
    std::vector<Poly> v;
    int nC3, nC4;
    ShapeSet g3sf;  // g=3, n<=4, start vertex fixed
    v = tri_sorted(3, true, nC3);
    int nT3 = (int)v.size();
    eg::enumerate_simple_polygons(3, 4, 4, true, COL, v);
    g3sf.add(v, 0, 0);
    run.note(fmt("shape sets: g=3 start-fixed: %d triangles (%d counter-clockwise), %d with n<=4", nT3, nC3, (int)g3sf.size()));

    ShapeSet g4sf;  // g=4, n<=4, start-fixed
    v = tri_sorted(4, true, nC4);
    int nT4 = (int)v.size();
    eg::enumerate_simple_polygons(4, 4, 4, true, COL, v);
    g4sf.add(v, 0, 0);
    ShapeSet in4;  // shapes on the inner 2x2 lattice {1,2}^2 of g=4
    v.clear();
    eg::enumerate_simple_polygons(2, 3, 4, true, COL, v);
    in4.add(v, 1, 1);
    std::vector<Nested> nest4;
    for (int a = 0; a < (int)g4sf.size(); a++)
        for (int b = 0; b < (int)in4.size(); b++)
            if (strictly_inside(in4.lat[b], g4sf.lat[a])) nest4.push_back({a, b, -1});
    run.note(fmt("g=4 start-fixed: %d triangles, %d with n<=4; inner shapes %d; nested pairs (B strictly inside A) %d", nT4, (int)g4sf.size(), (int)in4.size(), (int)nest4.size()));

    Side g3all = Side::singles(g3sf), g3tri = Side::singles(g3sf, 0, nT3), g3triCCW = Side::singles(g3sf, 0, nC3), g3triCW = Side::singles(g3sf, nC3, nT3);
    Side g3grpH;  // two-shape groups {ccw T_i, ccw T_j} and {ccw T_i, cw T_j}, i<=j
    g3grpH.set = &g3sf;
    for (int i = 0; i < nC3; i++)
        for (int j = i; j < nC3; j++) { g3grpH.items.push_back({i, j}); g3grpH.items.push_back({i, nC3 + j}); }
    Side g4tri = Side::singles(g4sf, 0, nT4), g4triCCW = Side::singles(g4sf, 0, nC4), g4all = Side::singles(g4sf);

    if (run.replaying() && run.rarg("idx").empty()) { run.internal_error("replay args understood: 'A=.. B=.. S=.. g=.. r=..' or 'sub=.. idx=..'"); return run.finish(); }

    // range quadrants: which of +x, -x, +y, -y exceed Clipper's 2^30 switch (L: strips of 2^30 x 2^34 grid units whose
    // 64-bit cross products wrap) or come close to its 2^62 limit (H: offset 2^61, lattice step 2^54)
    const int64_t u29 = 1ll << 29, u33 = 1ll << 33, u54 = 1ll << 54, o61 = 1ll << 61;
    const RangeCfg RANGE_L[8] = {{"L.-y", u29, u33, -u29, -2 * u33}, {"L.+y", u29, u33, -u29, 0}, {"L.-x", u33, u29, -2 * u33, -u29}, {"L.+x", u33, u29, 0, -u29},
                                 {"L.-x-y", u33, u33, -2 * u33, -2 * u33}, {"L.+x+y", u33, u33, 0, 0}, {"L.+x-y", u33, u33, 0, -2 * u33}, {"L.-x+y", u33, u33, -2 * u33, 0}};
    const RangeCfg RANGE_H[5] = {{"H.-y", u54, u54, 0, -o61 - 2 * u54}, {"H.+y", u54, u54, 0, o61}, {"H.-x", u54, u54, -o61 - 2 * u54, 0}, {"H.+x", u54, u54, o61, 0}, {"H.-x-y", u54, u54, -o61 - 2 * u54, -o61 - 2 * u54}};
    Side g3grpCC;  // two-shape groups {ccw T_i, ccw T_j}, i<=j
    g3grpCC.set = &g3sf;
    for (int i = 0; i < nC3; i++)
        for (int j = i; j < nC3; j++) g3grpCC.items.push_back({i, j});
    // multi-polygon operands (see multi_bound)
    ShapeSet multi, multiB;
    int mCover[2], nRect = 0, nMem = 0;
    {
        std::vector<Poly> v;
        v.push_back(Poly{{0, 0}, {4, 0}, {4, 4}, {0, 4}});
        v.push_back(Poly{{0, 0}, {0, 4}, {4, 4}, {4, 0}});
        mCover[0] = 0; mCover[1] = 1;
        std::vector<Poly> mem;
        for (int w = 1; w <= 2; w++) for (int h = 1; h <= 2; h++)
            for (int x = 0; x + w <= 4; x++) for (int y = 0; y + h <= 4; y++) mem.push_back(Poly{{x, y}, {x + w, y}, {x + w, y + h}, {x, y + h}});
        nRect = (int)mem.size();
        for (int w = 1; w <= 2; w++)
            for (int x = 0; x + w <= 4; x++) for (int y = 0; y + w <= 4; y++) {
                P a = {x, y}, b = {x + w, y}, c = {x + w, y + w}, d = {x, y + w};
                mem.push_back(Poly{a, b, d}); mem.push_back(Poly{b, c, a}); mem.push_back(Poly{c, d, b}); mem.push_back(Poly{d, a, c});
            }
        nMem = (int)mem.size();
        for (auto& p : mem) v.push_back(p);                                   // counter-clockwise: index 2 + k
        for (auto p : mem) { std::reverse(p.begin() + 1, p.end()); v.push_back(p); }  // clockwise: index 2 + nMem + k
        multi.add(v, 0, 0);
        std::vector<Poly> bv = {Poly{{1, 1}, {3, 1}, {3, 3}, {1, 3}}, Poly{{0, 0}, {0, 4}, {4, 0}}, Poly{{2, 0}, {4, 0}, {4, 4}, {2, 4}}};
        multiB.add(bv, 0, 0);
    }
    std::vector<MultiGroup> multi3, multi4;
    for (int c = 0; c < 2; c++)
        for (int i = 0; i < nMem; i++)
            for (int j = 0; j < nMem; j++) {
                if (i == j) continue;
                multi3.push_back({{mCover[c], 2 + i, 2 + j, -1}});         // both members counter-clockwise, both orders
                multi3.push_back({{mCover[c], 2 + i, 2 + nMem + j, -1}});  // second member clockwise
            }
    for (int i = 0; i < nRect; i++)
        for (int j = i + 1; j < nRect; j++)
            for (int k = j + 1; k < nRect; k++) {
                multi4.push_back({{mCover[0], 2 + i, 2 + j, 2 + k}});
                multi4.push_back({{mCover[0], 2 + i, 2 + nMem + j, 2 + k}});
            }
    run.note(fmt("multi-polygon operands: %d members (%d rectangles, %d triangles) x 2 windings, %d groups of 3, %d groups of 4", nMem, nRect, nMem - nRect, (int)multi3.size(), (int)multi4.size()));
    const char* D_MULTI3 = "operands of 3 polygons: cover (full g=5 square, either winding) + every ordered pair of distinct members (rectangles 1..2 x 1..2 anywhere, right triangles of the 1x1 and 2x2 squares), second member in either winding";
    const char* D_MULTI4 = "operands of 4 polygons: cover (full g=5 square) + every unordered triple of distinct rectangles 1..2 x 1..2, second member in either winding";
    const char* D_SINGLE = "g=3, n<=4, start-fixed shapes, both orientations: every ordered pair of single shapes";
    const char* D_CHAIN = "C = A not B for every nested pair (A: g=4 n<=4 start-fixed, B on the inner 2x2 lattice, strictly inside A), all four operations on (A,B) checked";
    if (!TH) {
        // ======================= quick tier
        product_bound("q.single.g3n4.s1000", D_SINGLE, g3all, g3all, G3, S1000, 2000, true);
        product_bound("q.single.g3n4_x_tri.s1", "g=3 start-fixed: every n<=4 shape x every triangle", g3all, g3tri, G3, S1, 2000, true);
        product_bound("q.single.g3n4_x_tri.s2p20", "g=3 start-fixed: every n<=4 shape x every triangle", g3all, g3tri, G3, S20, 2000, true);
        product_bound("q.single.g3n4_x_tri.s2p40", "g=3 start-fixed: every n<=4 shape x every triangle", g3all, g3tri, G3, S40, 2000, true);
        product_bound("q.group_a.g3tri.s1000", "A = every two-shape group {ccw T_i, ccw T_j} and {ccw T_i, cw T_j}, i<=j, of g=3 start-fixed triangles, B = every counter-clockwise g=3 triangle", g3grpH, g3triCCW, G3, S1000, 2000, true);
        product_bound("q.group_b.g3tri.s1000", "A = every clockwise g=3 start-fixed triangle, B = every two-shape group {ccw T_i, ccw T_j} and {ccw T_i, cw T_j}, i<=j", g3triCW, g3grpH, G3, S1000, 3000, true);
        for (int c = 0; c < 8; c++)
            range_bound(std::string("q.range.single.") + RANGE_L[c].name, "g=3 start-fixed: every n<=4 shape x every triangle, stretched and translated", g3all, g3tri, G3, RANGE_L[c], c == 0);
        for (int c = 0; c < 4; c++)
            range_bound(std::string("q.range.group_a.") + RANGE_L[c].name, "A = every two-shape group {ccw T_i, ccw T_j}, i<=j, B = every counter-clockwise g=3 triangle, stretched and translated", g3grpCC, g3triCCW, G3, RANGE_L[c], false);
        for (int c = 0; c < 5; c++)
            range_bound(std::string("q.range.single.") + RANGE_H[c].name, "g=3 start-fixed: every triangle x every triangle, translated to 2^61", g3tri, g3tri, G3, RANGE_H[c], false);
        multi_bound("q.multi3.g5.s1000", D_MULTI3, multi, multi3, multiB, G5, S1000, 64);
        multi_bound("q.multi4.g5.s1000", D_MULTI4, multi, multi4, multiB, G5, S1000, 64);
        offset_overload_bound("q.overload.offset.g3n4.s1000", g3sf, S1000);
        chain_bound("q.chain.g4.s1000", std::string(D_CHAIN) + "; then C op D for every counter-clockwise g=4 start-fixed triangle D", nest4, 0, g4sf, in4, &g4triCCW, 1, G4, S1000, 1, 2000);
        chain_bound("q.chain.g4.first_step.s1", D_CHAIN, nest4, 0, g4sf, in4, NULL, 1, G4f, S1, 32, 1);
        chain_bound("q.chain.g4.first_step.s2p40", D_CHAIN, nest4, 0, g4sf, in4, NULL, 1, G4f, S40, 32, 1);
    } else {
        // ======================= thorough tier (smallest first)
        int nC3a, nC4a;
        ShapeSet g3af;  // g=3, n<=6, all start vertices
        v = tri_sorted(3, false, nC3a);
        eg::enumerate_simple_polygons(3, 4, 6, false, COL, v);
        g3af.add(v, 0, 0);
        ShapeSet g4af;  // g=4, n<=4, all start vertices; triangles first
        v = tri_sorted(4, false, nC4a);
        int nT4a = (int)v.size();
        eg::enumerate_simple_polygons(4, 4, 4, false, COL, v);
        g4af.add(v, 0, 0);
        run.note(fmt("thorough shape sets: g=3 n<=6 all start vertices %d; g=4 all start vertices: %d triangles, %d with n<=4", (int)g3af.size(), nT4a, (int)g4af.size()));
        Side g3af_all = Side::singles(g3af);
        Side g4af_tri = Side::singles(g4af, 0, nT4a), g4af_all = Side::singles(g4af);
        Side g3grpO = Side::groups(g3sf, 0, nT3, true);

        product_bound("t.single.g3n4.s1000", D_SINGLE, g3all, g3all, G3, S1000, 2000, true);
        for (int c = 0; c < 8; c++)
            range_bound(std::string("t.range.single.") + RANGE_L[c].name, "g=3 start-fixed: every n<=4 shape x every n<=4 shape, stretched and translated", g3all, g3all, G3, RANGE_L[c], c == 0);
        for (int c = 0; c < 8; c++)
            range_bound(std::string("t.range.group_a.") + RANGE_L[c].name, "A = every two-shape group {ccw T_i, ccw T_j} and {ccw T_i, cw T_j}, i<=j, B = every g=3 triangle, stretched and translated", g3grpH, g3tri, G3, RANGE_L[c], false);
        for (int c = 0; c < 4; c++)
            range_bound(std::string("t.range.group_b.") + RANGE_L[c].name, "A = every g=3 triangle, B = every two-shape group {ccw T_i, ccw T_j}, i<=j, stretched and translated", g3tri, g3grpCC, G3, RANGE_L[c], false);
        for (int c = 0; c < 5; c++)
            range_bound(std::string("t.range.single.") + RANGE_H[c].name, "g=3 start-fixed: every n<=4 shape x every n<=4 shape, translated to 2^61", g3all, g3all, G3, RANGE_H[c], false);
        multi_bound("t.multi3.g5.s1000", D_MULTI3, multi, multi3, multiB, G5, S1000, 64);
        multi_bound("t.multi4.g5.s1000", D_MULTI4, multi, multi4, multiB, G5, S1000, 64);
        multi_bound("t.multi3.g5.s1", D_MULTI3, multi, multi3, multiB, G5, S1, 64);
        multi_bound("t.multi4.g5.s2p40", D_MULTI4, multi, multi4, multiB, G5, S40, 64);
        offset_overload_bound("t.overload.offset.g3n4.s1000", g3sf, S1000);
        offset_overload_bound("t.overload.offset.g4n4.s2p20", g4sf, S20);
        product_bound("t.single.g3n4.s1", D_SINGLE, g3all, g3all, G3, S1, 2000, true);
        product_bound("t.single.g3n4.s2p20", D_SINGLE, g3all, g3all, G3, S20, 2000, true);
        product_bound("t.single.g3n4.s2p40", D_SINGLE, g3all, g3all, G3, S40, 2000, true);
        // g=5 nested pairs / two holes
        ShapeSet g5sf, in5;
        v.clear();
        eg::enumerate_simple_polygons(5, 3, 4, true, COL, v);
        g5sf.add(v, 0, 0);
        int nCin;
        v = tri_sorted(3, true, nCin);
        int nTin = (int)v.size();
        eg::enumerate_simple_polygons(3, 4, 4, true, COL, v);
        in5.add(v, 1, 1);
        std::vector<Nested> nest5, trip5, big5;
        for (int a = 0; a < (int)g5sf.size(); a++) {
            std::vector<int> ins;
            for (int b = 0; b < (int)in5.size(); b++)
                if (strictly_inside(in5.lat[b], g5sf.lat[a])) ins.push_back(b);
            for (int b : ins) nest5.push_back({a, b, -1});
            for (int b1 : ins)
                for (int b2 : ins)
                    if (b1 <= b2 && b1 < nTin && b2 < nTin) trip5.push_back({a, b1, b2});
            if (g5sf.area2lat[a] == 32 && g5sf.lat[a].size() == 4)  // the full 4x4 square, both orientations
                for (int b1 = 0; b1 < nTin; b1++)
                    for (int b2 = 0; b2 < nTin; b2++) big5.push_back({a, b1, b2});
        }
        run.note(fmt("g=5: %d shapes n<=4 start-fixed, %d inner shapes (%d triangles), nested pairs %d, (A,{B1,B2}) triples %d, depth-2 items %d", (int)g5sf.size(), (int)in5.size(), nTin, (int)nest5.size(), (int)trip5.size(), (int)big5.size()));
        Side in5triCCW = Side::singles(in5, 0, nCin);
        chain_bound("t.nested.g5.s1000", "A op B for every nested pair (A: g=5 n<=4 start-fixed, B: n<=4 on the inner 3x3 lattice, strictly inside A)", nest5, 0, g5sf, in5, NULL, 1, G5, S1000, 256, 1);
        product_bound("t.group_a.g3tri.s1000", "A = every ordered two-shape group (T_i,T_j) of g=3 start-fixed triangles, B = every single g=3 n<=4 shape", g3grpO, g3all, G3, S1000, 2000, true);
        product_bound("t.group_b.g3tri.s1000", "A = every single g=3 n<=4 shape, B = every ordered two-shape group of g=3 start-fixed triangles", g3all, g3grpO, G3, S1000, 4000, true);
        product_bound("t.single.g4.tri_x_n4.s1000", "g=4: start-fixed triangles x (triangles + quadrilaterals)", g4tri, g4all, G4, S1000);
        product_bound("t.single.g4.n4_x_tri.s1000", "g=4: start-fixed (triangles + quadrilaterals) x triangles", g4all, g4tri, G4, S1000);
        chain_bound("t.chain.g4.s1000", std::string(D_CHAIN) + "; then C op D and D op C for every g=4 n<=4 start-fixed D", nest4, 0, g4sf, in4, &g4all, 2, G4f, S1000, 1, 2000);
        chain_bound("t.chain.g4.s1", std::string(D_CHAIN) + "; then C op D and D op C for every g=4 start-fixed triangle D", nest4, 0, g4sf, in4, &g4tri, 2, G4f, S1, 1, 2000);
        chain_bound("t.chain.g4.s2p20", std::string(D_CHAIN) + "; then C op D and D op C for every g=4 start-fixed triangle D", nest4, 0, g4sf, in4, &g4tri, 2, G4f, S20, 1, 2000);
        chain_bound("t.chain.g4.s2p40", std::string(D_CHAIN) + "; then C op D and D op C for every g=4 start-fixed triangle D", nest4, 0, g4sf, in4, &g4tri, 2, G4f, S40, 1, 2000);
        chain_bound("t.twoholes.g5.s1000", "A op {B1,B2} for every A (g=5 n<=4 start-fixed) and every unordered pair of inner triangles strictly inside it (two holes linked in one result, holes may touch or overlap)", trip5, 1, g5sf, in5, NULL, 1, G5, S1000, 512, 1);
        chain_bound("t.chain2.g5.s1000", "depth 2: C = (A not B1) not B2 for A = the full g=5 square (both orientations) and every ordered pair (B1,B2) of triangles on the inner 3x3 lattice (disjoint, touching, overlapping, equal), every step checked; then C op D and D op C for every counter-clockwise inner triangle D", big5, 2, g5sf, in5, &in5triCCW, 2, G5, S1000, 1, 2000);
        product_bound("t.group_both.g3tri.s1000", "two-shape groups on both sides: groups {ccw T_i, ccw T_j} and {ccw T_i, cw T_j}, i<=j, of g=3 start-fixed triangles, every ordered pair of groups", g3grpH, g3grpH, G3, S1000, 3000);
        product_bound("t.single.g3n6.allstart.s1000", "g=3, n<=6, every start vertex and both orientations, every ordered pair of single shapes", g3af_all, g3af_all, G3, S1000, 4000);
        product_bound("t.single.g4.allstart.tri_x_n4.s1000", "g=4, every start vertex, both orientations: triangles x (triangles + quadrilaterals)", g4af_tri, g4af_all, G4, S1000, 4000);
    }
    return run.finish();
}
