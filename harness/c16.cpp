// C16 — library edits keep the cell graph consistent.
//
// Engine E1 (vf::bfs): breadth-first search over operation histories executed on real gdstk
// Library / Cell / RawCell objects, one search per initial library (sub_check graph.init<k>), with
// a lock-step abstract graph model.  The model's rules are written from the documentation comments
// in include/gdstk/library.hpp, cell.hpp, rawcell.hpp and tagmap.hpp and from the property text:
//   * objects (cells, raw cells) are ids; a reference is (owner, by-pointer target id | name string);
//     a raw cell's dependencies are by-pointer references to raw cells;
//   * rename_cell(c, n): c is called n; every by-name reference in a library cell that used the old
//     name uses n; by-pointer references are untouched (they keep designating c);
//   * replace_cell(old, new): if old is in the library new takes its place (in the cell or raw-cell
//     array according to its kind), otherwise the arrays are unchanged; in every library cell each
//     reference that designated old by pointer designates new by pointer (kind follows new), each
//     by-name reference spelling old's name spells new's name; raw-cell dependencies on old
//     designate new (if new is a raw cell) or at least no longer designate old;
//   * remap_tags(m): every tag t of a polygon / path element / label becomes m(t) simultaneously
//     (keys absent from m map to themselves); nothing else changes; m is the abstract map left by
//     the history of set/del calls that built the TagMap (two of the four tables withdraw colliding
//     keys again, so a TagMap whose deletions leave stale entries retags shapes it must not touch);
//   * copy_from: the copy has equal content; shallow copies share the element / cell objects, deep
//     copies share nothing they own (DESIGN.md 0.1: by-pointer references of a deep library copy
//     only have to designate a cell of the same name as in the source);
//   * top level = library members without an incoming reference from a library member; dependency
//     queries = direct / transitive closure over by-pointer references; tag queries = tags in use.
// By-name references resolve dynamically by string (DESIGN.md 0.1).  gdstk's queries ignore them,
// so when a by-name reference names a present cell (outside the property's quantifier, which has
// by-name references to *absent* cells) every answer between the closure without and the closure
// with by-name edges is accepted and the comparison is counted in `skipped_out_of_quantifier`.
//
// Operations are enabled only while they keep the library inside the property's quantifier: cell
// names stay unique among the members and everything reachable from them, replacement objects are
// fresh, no cycle can arise (pool cells have no by-pointer references).
// init7 is the one exception: a Cell outside the library, referenced by pointer, carries the name of a
// raw cell (see name_taken); there replace_cell also redirects references to the same-named object of
// the other kind, as gdstk's four overloads do.
// Two kinds of disagreement are reported as violations WITHOUT stopping the search below them (the
// observed value is adopted by the model, so one root cause cannot hide later failures and cannot
// cascade into secondary reports): raw-cell dependency lists that still designate the replaced-out
// raw cell after replace_cell (class rawdep-stale) and the library's properties after
// Library::copy_from (class copy-library-properties).  Every other disagreement poisons the state
// (it is not expanded).
//
// A second sub-check, remap.enum (engine E2, see below), enumerates single remap_tags calls over all
// small multi-element path configurations and a larger list of tables (chains, swaps, cycles, ...).
//
// Nothing is sampled: every enabled operation of the alphabet is applied in every reached state.
// Development aids: C16_DEPTH=<n> overrides the depth, C16_BENCH=1 times make/verify/canon.
#include <gdstk/gdstk.hpp>

#include <math.h>

#include <map>
#include <set>
#include <string>
#include <vector>

#include "dump.hpp"
#include "vf.hpp"

using namespace gdstk;
using namespace vf;

static Run* R;
static std::string F_RAW12, F_RAW3, F_RAW32, F_RAW6, F_RAW7;

// ------------------------------------------------------------------------------------ the model
enum { K_PTR = 0, K_NAME = 1 };
struct MRef {
    int kind;
    int target;        // K_PTR: object id
    std::string name;  // K_NAME
};
struct MObj {
    bool raw = false;
    std::string name;
    std::vector<MRef> refs;   // cell: references in reference_array order; raw: dependencies
    std::vector<Tag> tags;    // polygons, flexpath elements, robustpath elements (shape), then labels
    size_t nshape = 0;
    std::string content;      // canonical dump of everything but name, tags and designations
    std::string prov;         // provenance: "" original, +"s"/"d" cell copies, +"L" deep library copy
    void* ptr = NULL;         // the real object
    bool replaced_out = false;
};

struct World {
    int init = 0;
    Library* lib = NULL;  // the explored library
    std::vector<MObj> objs;
    std::map<const void*, int> id_of;
    std::set<int> mcells, mraws;  // members of the explored library (model)
    int pool[5] = {-1, -1, -1, -1, -1};
    bool pool_fresh[5] = {false, false, false, false, false};
    // caller-owned maps kept alive over the whole history: every recursive dependency query is repeated
    // into them after every operation (the API only inserts, it never clears the caller's map)
    Map<Cell*> keep_cells = {};
    Map<RawCell*> keep_raws = {};
    bool k1_used = false;
    int cellcopies = 0;
    std::string lineage;    // library copies made so far: 'S' / 'D'
    std::string lib_props;  // expected dump of the explored library's properties
    struct Src {
        Library* lib;
        bool frozen;
        std::vector<void*> cells, raws;  // shared: arrays must stay as they were
        std::string dump;                // frozen: full dump must stay as it was
    };
    std::vector<Src> sources;
    struct FrozenCell { Cell* c; std::string sig; };
    std::vector<FrozenCell> frozen_cells;
    // ownership (destroy frees every object exactly once)
    std::vector<Library*> libs;
    std::set<Cell*> cells;
    std::set<RawCell*> raws;
    std::set<Polygon*> polys;
    std::set<FlexPath*> fpaths;
    std::set<RobustPath*> rpaths;
    std::set<Label*> labels;
    std::set<Reference*> refs;
    bool bad = false;
    // history flags (non-triviality)
    bool did_rename = false, did_replace = false, f_both = false, f_multi = false, f_copy = false, f_rawmix = false;
};

static const Tag T10 = make_tag(1, 0), T20 = make_tag(2, 0);
static std::string tagstr(Tag t) { return fmt("(%u,%u)", get_layer(t), get_type(t)); }
// Remapping tables.  A table is a HISTORY of TagMap operations (set(k,k) withdraws a mapping, as
// documented in tagmap.hpp); the real TagMap is built by executing the history, the model is the
// abstract map after the history.  TA, TB, TC are tags carried by the cells' path elements and
// labels that share one home slot (hash(Tag) % 8, searched from gdstk's own hash at start-up) in
// the initial capacity-8 table, so that withdrawing TA and then the displaced TB exercises the
// back-shift of TagMap::del while a third mapping remains.
static Tag TA, TB, TC;
static const Tag VX = make_tag(101, 3), VY = make_tag(102, 3), VZ = make_tag(103, 3), VY2 = make_tag(104, 3);
struct TStep { bool del; Tag k, v; };
// Tags with a zero component: (0,0) is numerically 0 (an occupied TagMap slot keyed on it has key == 0),
// (0,1) has a zero layer, (1,0) = T10 a zero type.  FK(i) -> FV(i) are filler mappings whose keys no
// cell carries; they only make a table grow (capacity 8 -> 16 at the 5th entry, 16 -> 32 at the 9th).
static const Tag Z00 = make_tag(0, 0), Z01 = make_tag(0, 1), W0 = make_tag(105, 3), W1 = make_tag(106, 3);
static Tag FK(int i) { return make_tag(50 + i, 5); }
static Tag FV(int i) { return make_tag(70 + i, 5); }
static const int NTABLES = 6;
static std::vector<TStep> table_steps(int m) {
    switch (m) {
        // (0,0) entered first, table grows at the 5th entry
        case 4: return {{false, Z00, W0}, {false, Z01, W1}, {false, FK(1), FV(1)}, {false, FK(2), FV(2)}, {false, FK(3), FV(3)}};
        // (0,0) entered third (before both growths), (0,1) sixth (between them), nine entries
        case 5: return {{false, FK(1), FV(1)}, {false, FK(2), FV(2)}, {false, Z00, W0}, {false, FK(3), FV(3)}, {false, FK(4), FV(4)}, {false, Z01, W1}, {false, FK(5), FV(5)}, {false, FK(6), FV(6)}, {false, FK(7), FV(7)}};
        case 0: return {{false, T10, T20}};
        case 1: return {{false, T10, T20}, {false, T20, T10}};
        case 2: return {{false, TA, VX}, {false, TB, VY}, {false, TC, VZ}, {false, TA, TA}, {false, TB, TB}};  // only TC->VZ remains
        default: return {{false, TA, VX}, {false, TB, VY}, {true, TA, 0}, {false, TB, VY2}};                     // only TB->VY2 remains
    }
}
static void build_table(const std::vector<TStep>& steps, TagMap& tm) {
    for (auto& st : steps) {
        if (st.del) tm.del(st.k);
        else tm.set(st.k, st.v);
    }
}
static void build_table(int m, TagMap& tm) { build_table(table_steps(m), tm); }
static std::string table_name(const std::vector<TStep>& steps) {
    std::string s = "[";
    for (auto& st : steps) s += (s.size() > 1 ? "," : "") + (st.del ? "del" + tagstr(st.k) : "set" + tagstr(st.k) + "->" + tagstr(st.v));
    return s + "]";
}
static std::string table_name(int m) { return table_name(table_steps(m)); }
static std::map<Tag, Tag> abstract_map(const std::vector<TStep>& steps) {  // the abstract map after the history
    std::map<Tag, Tag> am;
    for (auto& st : steps) {
        if (st.del || st.k == st.v) am.erase(st.k);
        else am[st.k] = st.v;
    }
    return am;
}
static Tag apply_once(const std::map<Tag, Tag>& am, Tag t) {
    auto f = am.find(t);
    return f == am.end() ? t : f->second;
}
static Tag map_tag(int m, Tag t) { return apply_once(abstract_map(table_steps(m)), t); }
static void find_colliding_tags() {
    // three tags with home slot 7 of 8 (the probe chain wraps to slots 0 and 1), none already in use
    std::vector<Tag> found;
    for (uint32_t t = 0; t < 8 && found.size() < 3; t++)
        for (uint32_t l = 3; l < 100 && found.size() < 3; l++) {
            Tag c = make_tag(l, t);
            if (hash(c) % 8 == 7) found.push_back(c);
        }
    if (found.size() < 3) { fprintf(stderr, "no colliding tags found\n"); exit(2); }
    TA = found[0]; TB = found[1]; TC = found[2];
}

// ------------------------------------------------------------------------------------ real-side helpers
// Binary signature of everything in a cell except its name, its tags and the designations of its
// references (same fields as dump.hpp, appended as raw bytes: exact and ~50x cheaper than JSON).
struct Sig {
    std::string s;
    void raw(const void* p, size_t n) { s.append((const char*)p, n); }
    void d(double v) { raw(&v, sizeof v); }
    void u(uint64_t v) { raw(&v, sizeof v); }
    void v2(const Vec2& v) { d(v.x); d(v.y); }
    void str(const char* t) { if (t) { u(strlen(t)); s += t; } else u(~0ull); }
    void pts(const Array<Vec2>& a) { u(a.count); if (a.count) raw(a.items, a.count * sizeof(Vec2)); }
    void rep(const Repetition& r) {
        u((uint64_t)r.type);
        switch (r.type) {
            case RepetitionType::None: break;
            case RepetitionType::Rectangular: u(r.columns); u(r.rows); v2(r.spacing); break;
            case RepetitionType::Regular: u(r.columns); u(r.rows); v2(r.v1); v2(r.v2); break;
            case RepetitionType::Explicit: pts(r.offsets); break;
            default: u(r.coords.count); if (r.coords.count) raw(r.coords.items, r.coords.count * sizeof(double));
        }
    }
    void props(const Property* p) {
        for (; p; p = p->next) {
            u(1); str(p->name);
            for (PropertyValue* v = p->value; v; v = v->next) {
                u(2); u((uint64_t)v->type);
                switch (v->type) {
                    case PropertyType::UnsignedInteger: u(v->unsigned_integer); break;
                    case PropertyType::Integer: u((uint64_t)v->integer); break;
                    case PropertyType::Real: d(v->real); break;
                    case PropertyType::String: u(v->count); raw(v->bytes, v->count); break;
                }
            }
        }
        u(0);
    }
    void cell(const Cell& c) {
        u(c.polygon_array.count);
        for (uint64_t i = 0; i < c.polygon_array.count; i++) { const Polygon& p = *c.polygon_array[i]; pts(p.point_array); rep(p.repetition); props(p.properties); }
        u(c.flexpath_array.count);
        for (uint64_t i = 0; i < c.flexpath_array.count; i++) {
            const FlexPath& f = *c.flexpath_array[i];
            pts(f.spine.point_array); d(f.spine.tolerance); u(f.simple_path); u(f.scale_width); u(f.num_elements);
            for (uint64_t j = 0; j < f.num_elements; j++) {
                const FlexPathElement& e = f.elements[j];
                pts(e.half_width_and_offset); u((uint64_t)e.join_type); u((uint64_t)e.end_type); v2(e.end_extensions); u((uint64_t)e.bend_type); d(e.bend_radius);
            }
            rep(f.repetition); props(f.properties);
        }
        u(c.robustpath_array.count);
        for (uint64_t i = 0; i < c.robustpath_array.count; i++) {
            const RobustPath& r = *c.robustpath_array[i];
            v2(r.end_point); u(r.subpath_array.count);
            for (uint64_t j = 0; j < r.subpath_array.count; j++) { const SubPath& sp = r.subpath_array[j]; u((uint64_t)sp.type); if (sp.type == SubPathType::Segment) { v2(sp.begin); v2(sp.end); } }
            d(r.tolerance); u(r.max_evals); d(r.width_scale); d(r.offset_scale); raw(r.trafo, sizeof r.trafo); u(r.simple_path); u(r.scale_width); u(r.num_elements);
            for (uint64_t j = 0; j < r.num_elements; j++) {
                const RobustPathElement& e = r.elements[j];
                u(e.width_array.count); u(e.offset_array.count); d(e.end_width); d(e.end_offset); u((uint64_t)e.end_type); v2(e.end_extensions);
            }
            rep(r.repetition); props(r.properties);
        }
        u(c.label_array.count);
        for (uint64_t i = 0; i < c.label_array.count; i++) {
            const Label& l = *c.label_array[i];
            str(l.text); v2(l.origin); u((uint64_t)l.anchor); d(l.rotation); d(l.magnification); u(l.x_reflection); rep(l.repetition); props(l.properties);
        }
        u(c.reference_array.count);
        for (uint64_t i = 0; i < c.reference_array.count; i++) {
            const Reference& r = *c.reference_array[i];
            v2(r.origin); d(r.rotation); d(r.magnification); u(r.x_reflection); rep(r.repetition); props(r.properties);
        }
        props(c.properties);
    }
};
static std::string content_sig(const Cell& c) {
    Sig g;
    g.cell(c);
    return g.s;
}
// human-readable form for violation details
static std::string content_json(const Cell& c) {
    std::string j = dump::cell(c);
    return j.size() > 1200 ? j.substr(0, 1200) + "..." : j;
}
// full signature of a library (frozen copy sources): fields, properties, every cell with name, tags,
// content and the kind + target name of every reference, names of the raw cells
static std::string library_sig(const Library& l) {
    Sig g;
    g.str(l.name); g.d(l.unit); g.d(l.precision); g.props(l.properties);
    g.u(l.cell_array.count);
    for (uint64_t i = 0; i < l.cell_array.count; i++) {
        const Cell& c = *l.cell_array[i];
        g.str(c.name);
        for (uint64_t j = 0; j < c.polygon_array.count; j++) g.u(c.polygon_array[j]->tag);
        for (uint64_t j = 0; j < c.flexpath_array.count; j++) for (uint64_t k = 0; k < c.flexpath_array[j]->num_elements; k++) g.u(c.flexpath_array[j]->elements[k].tag);
        for (uint64_t j = 0; j < c.robustpath_array.count; j++) for (uint64_t k = 0; k < c.robustpath_array[j]->num_elements; k++) g.u(c.robustpath_array[j]->elements[k].tag);
        for (uint64_t j = 0; j < c.label_array.count; j++) g.u(c.label_array[j]->tag);
        g.cell(c);
        for (uint64_t j = 0; j < c.reference_array.count; j++) {
            const Reference& r = *c.reference_array[j];
            g.u((uint64_t)r.type);
            g.str(r.type == ReferenceType::Cell ? r.cell->name : r.type == ReferenceType::RawCell ? r.rawcell->name : r.name);
        }
    }
    g.u(l.rawcell_array.count);
    for (uint64_t i = 0; i < l.rawcell_array.count; i++) g.str(l.rawcell_array[i]->name);
    return g.s;
}
static void real_tags(const Cell& c, std::vector<Tag>& tags, size_t& nshape) {
    tags.clear();
    for (uint64_t i = 0; i < c.polygon_array.count; i++) tags.push_back(c.polygon_array[i]->tag);
    for (uint64_t i = 0; i < c.flexpath_array.count; i++)
        for (uint64_t j = 0; j < c.flexpath_array[i]->num_elements; j++) tags.push_back(c.flexpath_array[i]->elements[j].tag);
    for (uint64_t i = 0; i < c.robustpath_array.count; i++)
        for (uint64_t j = 0; j < c.robustpath_array[i]->num_elements; j++) tags.push_back(c.robustpath_array[i]->elements[j].tag);
    nshape = tags.size();
    for (uint64_t i = 0; i < c.label_array.count; i++) tags.push_back(c.label_array[i]->tag);
}
static std::string tags_str(const std::vector<Tag>& t) {
    std::string s;
    for (Tag x : t) s += tagstr(x);
    return s;
}
static void reg_cell(World& w, Cell* c) {
    w.cells.insert(c);
    for (uint64_t i = 0; i < c->polygon_array.count; i++) w.polys.insert(c->polygon_array[i]);
    for (uint64_t i = 0; i < c->flexpath_array.count; i++) w.fpaths.insert(c->flexpath_array[i]);
    for (uint64_t i = 0; i < c->robustpath_array.count; i++) w.rpaths.insert(c->robustpath_array[i]);
    for (uint64_t i = 0; i < c->label_array.count; i++) w.labels.insert(c->label_array[i]);
    for (uint64_t i = 0; i < c->reference_array.count; i++) w.refs.insert(c->reference_array[i]);
}
static int add_obj(World& w, MObj o) {
    int id = (int)w.objs.size();
    w.id_of[o.ptr] = id;
    w.objs.push_back(std::move(o));
    return id;
}
// a cell with one polygon, one 2-element flexpath, one robustpath, one label, one property
static int new_cell(World& w, const char* name, int variant, int serial) {
    Cell* c = (Cell*)allocate_clear(sizeof(Cell));
    c->init(name);
    double d = 10.0 * serial;
    Tag tp = variant ? T20 : T10;
    Tag tf[3] = {variant ? T10 : T20, TA, Z00};
    Tag tr = variant ? TC : TB;
    Tag tl = variant ? TB : T20;
    Polygon* p = (Polygon*)allocate_clear(sizeof(Polygon));
    *p = rectangle(Vec2{d, 0}, Vec2{d + 2, 1.0 + serial}, tp);
    set_property(p->properties, "pp", (int64_t)serial, false);
    c->polygon_array.append(p);
    FlexPath* f = (FlexPath*)allocate_clear(sizeof(FlexPath));
    const double widths[3] = {0.5, 0.25, 0.125}, offsets[3] = {-0.5, 0.5, 1.0};
    f->init(Vec2{d, 5}, 3, widths, offsets, 0.01, tf);
    f->segment(Vec2{d + 3, 5}, NULL, NULL, false);
    f->segment(Vec2{d + 3, 8}, NULL, NULL, false);
    c->flexpath_array.append(f);
    RobustPath* rp = (RobustPath*)allocate_clear(sizeof(RobustPath));
    const double rwidths[2] = {0.5, 0.25}, roffsets[2] = {-0.4, 0.4};
    Tag trs[2] = {tr, tp};  // two elements: the second follows the polygon's tag, so the tag-state space does not grow
    rp->init(Vec2{d, 10}, 2, rwidths, roffsets, 0.01, 1000, trs);
    rp->segment(Vec2{d + 4, 10}, NULL, NULL, false);
    c->robustpath_array.append(rp);
    Label* l = (Label*)allocate_clear(sizeof(Label));
    l->init(name);
    l->origin = Vec2{d, -1};
    l->tag = tl;
    c->label_array.append(l);
    Label* l2 = (Label*)allocate_clear(sizeof(Label));
    l2->init("second label");
    l2->origin = Vec2{d, -2};
    l2->tag = Z01;
    c->label_array.append(l2);
    set_property(c->properties, "cp", name, false);
    MObj o;
    o.name = name;
    o.ptr = c;
    o.tags = {tp, tf[0], tf[1], tf[2], trs[0], trs[1], tl, Z01};
    o.nshape = 6;
    return add_obj(w, std::move(o));
}
static Reference* new_ref(World& w, int owner) {
    Reference* r = (Reference*)allocate_clear(sizeof(Reference));
    Cell* c = (Cell*)w.objs[owner].ptr;
    uint64_t k = c->reference_array.count + 1;
    r->origin = Vec2{1.0 * k, 2.0 * owner};
    if (k % 2 == 0) {
        r->rotation = 0.5;
        r->x_reflection = true;
        r->repetition.type = RepetitionType::Rectangular;
        r->repetition.columns = 2;
        r->repetition.rows = 2;
        r->repetition.spacing = Vec2{30, 40};
    }
    set_property(r->properties, "rp", (uint64_t)(100 * owner + k), false);
    c->reference_array.append(r);
    return r;
}
static void add_ref_ptr(World& w, int owner, int target) {
    Reference* r = new_ref(w, owner);
    if (w.objs[target].raw) r->init((RawCell*)w.objs[target].ptr);
    else r->init((Cell*)w.objs[target].ptr);
    w.objs[owner].refs.push_back(MRef{K_PTR, target, ""});
}
static void add_ref_name(World& w, int owner, const char* name) {
    Reference* r = new_ref(w, owner);
    r->init(name);
    w.objs[owner].refs.push_back(MRef{K_NAME, -1, name});
}
// read every raw cell of a file; model dependencies are taken from what the file was written with
static std::map<std::string, int> load_raws(World& w, const std::string& file) {
    std::map<std::string, int> ids;
    ErrorCode ec = ErrorCode::NoError;
    Map<RawCell*> m = read_rawcells(file.c_str(), &ec);
    for (MapItem<RawCell*>* it = m.next(NULL); it; it = m.next(it)) {
        MObj o;
        o.raw = true;
        o.name = it->value->name;
        o.ptr = it->value;
        w.raws.insert(it->value);
        std::string nm = o.name;
        int id = add_obj(w, std::move(o));
        ids[nm] = id;
    }
    m.clear();
    if (ec != ErrorCode::NoError || ids.empty()) {
        R->internal_error("read_rawcells failed on " + file);
        exit(2);
    }
    return ids;
}

// ------------------------------------------------------------------------------------ model queries
static std::vector<int> member_cells(const World& w) {  // in real array order (-1: unknown pointer)
    std::vector<int> v;
    for (uint64_t i = 0; i < w.lib->cell_array.count; i++) {
        auto it = w.id_of.find(w.lib->cell_array[i]);
        v.push_back(it == w.id_of.end() ? -1 : it->second);
    }
    return v;
}
static std::vector<int> member_raws(const World& w) {
    std::vector<int> v;
    for (uint64_t i = 0; i < w.lib->rawcell_array.count; i++) {
        auto it = w.id_of.find(w.lib->rawcell_array[i]);
        v.push_back(it == w.id_of.end() ? -1 : it->second);
    }
    return v;
}
static std::set<int> universe(const World& w) {  // members and everything reachable by pointer
    std::set<int> u;
    std::vector<int> st(w.mcells.begin(), w.mcells.end());
    st.insert(st.end(), w.mraws.begin(), w.mraws.end());
    while (!st.empty()) {
        int x = st.back();
        st.pop_back();
        if (!u.insert(x).second) continue;
        for (auto& r : w.objs[x].refs)
            if (r.kind == K_PTR) st.push_back(r.target);
    }
    return u;
}
// Is the name n in use?  Strict rule (all libraries but init7): by any other member or reachable object.
// init7 admits the one duplicate gdstk's own wording allows ("unique name within the library"): a Cell
// that is NOT in the library, referenced by pointer, may carry the name of a raw cell (and vice versa);
// there a clash is an object of the same kind, or two members.  kind: 0 cell, 1 raw, -1 unknown (strict).
static bool name_taken(const World& w, const std::string& n, int except, int kind = -1, bool member = true) {
    for (int id : universe(w)) {
        if (id == except || w.objs[id].name != n) continue;
        if (w.init != 7 || kind < 0) return true;
        bool id_member = w.mcells.count(id) || w.mraws.count(id);
        if ((int)w.objs[id].raw == kind || (member && id_member)) return true;
    }
    return false;
}
// is t designated by pointer from a reachable object that is not a library member?  (Such a
// reference is outside the library and is documented not to be rewritten: replacing t would leave
// two reachable objects with one name.)
static bool referenced_by_nonmember(const World& w, int t) {
    for (int id : universe(w)) {
        if (w.mcells.count(id) || w.mraws.count(id)) continue;
        for (auto& r : w.objs[id].refs)
            if (r.kind == K_PTR && r.target == t) return true;
    }
    return false;
}
// first non-member cell / raw cell designated by pointer from a member (scan in array order)
static void externals(const World& w, int& extc, int& extr) {
    extc = extr = -1;
    auto scan = [&](int id) {
        if (id < 0) return;
        for (auto& r : w.objs[id].refs) {
            if (r.kind != K_PTR) continue;
            const MObj& t = w.objs[r.target];
            if (t.raw) { if (extr < 0 && !w.mraws.count(r.target)) extr = r.target; }
            else if (extc < 0 && !w.mcells.count(r.target)) extc = r.target;
        }
    };
    for (int id : member_cells(w)) scan(id);
    for (int id : member_raws(w)) scan(id);
}
static int resolve_name(const World& w, const std::string& n) {  // by-name -> member with that name
    for (int id : w.mcells) if (w.objs[id].name == n) return id;
    for (int id : w.mraws) if (w.objs[id].name == n) return id;
    return -1;
}
static std::vector<int> edges(const World& w, int id, bool with_names) {
    std::vector<int> e;
    for (auto& r : w.objs[id].refs) {
        if (r.kind == K_PTR) e.push_back(r.target);
        else if (with_names) { int t = resolve_name(w, r.name); if (t >= 0) e.push_back(t); }
    }
    return e;
}
// want_raw=false: Cell::get_dependencies; want_raw=true: Cell::get_raw_dependencies / RawCell::get_dependencies
static std::set<int> model_deps(const World& w, int id, bool recursive, bool want_raw, bool with_names) {
    std::set<int> out, seen;
    std::vector<int> st = {id};
    seen.insert(id);
    bool first = true;
    while (!st.empty()) {
        int x = st.back();
        st.pop_back();
        if (!first && !recursive) continue;
        first = false;
        for (int t : edges(w, x, with_names)) {
            if (w.objs[t].raw == want_raw) out.insert(t);
            // Cell::get_dependencies walks cell->cell edges only; the raw query walks everything
            if (!want_raw && w.objs[t].raw) continue;
            if (seen.insert(t).second) st.push_back(t);
        }
    }
    return out;
}
static void model_top(const World& w, bool with_names, std::set<int>& tc, std::set<int>& tr) {
    std::set<int> referenced;
    for (int id : w.mcells) for (int t : edges(w, id, with_names)) if (t != id) referenced.insert(t);
    for (int id : w.mraws) for (int t : edges(w, id, with_names)) if (t != id) referenced.insert(t);
    tc.clear(); tr.clear();
    for (int id : w.mcells) if (!referenced.count(id)) tc.insert(id);
    for (int id : w.mraws) if (!referenced.count(id)) tr.insert(id);
}
static std::string ids_str(const World& w, const std::set<int>& s) {
    std::string o = "{";
    for (int id : s) o += (o.size() > 1 ? "," : "") + (id < 0 ? std::string("?") : w.objs[id].name + "#" + std::to_string(id));
    return o + "}";
}
static std::string mref_str(const World& w, const MRef& r) {
    if (r.kind == K_NAME) return "name:" + r.name;
    return std::string(w.objs[r.target].raw ? "raw:" : "cell:") + w.objs[r.target].name + "#" + std::to_string(r.target);
}
static std::string rref_str(const World& w, const Reference& r) {
    if (r.type == ReferenceType::Name) return std::string("name:") + (r.name ? r.name : "(null)");
    auto it = w.id_of.find(r.type == ReferenceType::Cell ? (void*)r.cell : (void*)r.rawcell);
    if (it == w.id_of.end()) return r.type == ReferenceType::Cell ? "cell:?unknown-pointer" : "raw:?unknown-pointer";
    if (w.objs[it->second].raw != (r.type == ReferenceType::RawCell)) return "kind-mismatch:" + w.objs[it->second].name + "#" + std::to_string(it->second);
    return std::string(r.type == ReferenceType::Cell ? "cell:" : "raw:") + w.objs[it->second].name + "#" + std::to_string(it->second);
}

// ------------------------------------------------------------------------------------ the system
struct Op { int kind, a, b; };
enum { RENAME_PTR, RENAME_NAME, REPLACE, REMAP_LIB, REMAP_CELL, COPY_LIB, COPY_CELL, APPEND, REMOVE_CELL, REMOVE_RAW };
// init0..5: two interchangeable fresh names and the absent by-name target.  init6 (prefix-related
// names of different lengths): a strictly shorter name that is a prefix of names in use (and an
// absent by-name target), a longer name extending an existing one, an unrelated name.
static const char* NEWNAME_STD[3] = {"N1", "N2", "Z"};
static const char* NEWNAME_PFX[3] = {"A", "ABCDE", "N1"};
static const char* POOLNAME_STD[5] = {"P(cell 'B')", "Q(cell 'Q', by-name ref to 'Z')", "R3(raw 'R3')", "R2b(raw 'R2')", "R1b(raw 'R1')"};
static const char* POOLNAME_PFX[5] = {"P(cell 'ABC')", "Q(cell 'A', by-name ref to 'ABX')", "raw 'ABCDE'", "raw 'AB'", "-"};
static const int MAXC = 5, MAXR = 3;

struct GraphSys {
    // The engine replays a history on a fresh object for every operation it tries.  The world is
    // therefore built lazily: replayed operations are queued, and the set of operations enabled
    // after the history is computed once (from the model, when the first operation is tried) so that
    // operations that are not enabled in this state cost nothing.
    struct Lazy { World* w = NULL; std::vector<int> pending; };
    typedef Lazy Obj;
    std::vector<int> cache_hist;
    std::vector<char> cache_enabled;
    bool cache_valid = false;
    int init;
    std::string sub;
    std::vector<Op> ops;
    explicit GraphSys(int k) : init(k), sub("graph.init" + std::to_string(k)) {
        for (int i = 0; i < MAXC; i++) for (int n = 0; n < 3; n++) ops.push_back({RENAME_PTR, i, n});
        ops.push_back({RENAME_NAME, 0, 0}); ops.push_back({RENAME_NAME, 0, 2});
        ops.push_back({RENAME_NAME, 1, 0}); ops.push_back({RENAME_NAME, 1, 2});
        ops.push_back({RENAME_NAME, 2, 0}); ops.push_back({RENAME_NAME, 3, 0});
        for (int o = 0; o < MAXC + MAXR + 2; o++) for (int p = 0; p < 5; p++) ops.push_back({REPLACE, o, p});
        for (int m = 0; m < NTABLES; m++) ops.push_back({REMAP_LIB, m, 0});
        for (int m = 0; m < NTABLES; m++) ops.push_back({REMAP_CELL, 0, m});
        for (int d = 0; d < 2; d++) ops.push_back({COPY_LIB, d, 0});
        for (int i = 0; i < 3; i++) for (int v = 0; v < 2; v++) ops.push_back({COPY_CELL, i, v});
        for (int p = 0; p < 4; p++) ops.push_back({APPEND, p, 0});
        for (int i = 0; i < 3; i++) ops.push_back({REMOVE_CELL, i, 0});
        for (int i = 0; i < 2; i++) ops.push_back({REMOVE_RAW, i, 0});
    }
    int nops() { return (int)ops.size(); }
    const char** NEWNAME_() const { return init == 6 ? NEWNAME_PFX : NEWNAME_STD; }
    const char** POOLNAME_() const { return init == 6 ? POOLNAME_PFX : POOLNAME_STD; }
    const char* absent_old_name() const { return init == 6 ? "ABX" : "NOPE"; }  // names no cell: rename_cell(name, n) must do nothing
    static std::string slot_name(int o) {
        if (o < MAXC) return fmt("cell_array[%d]", o);
        if (o < MAXC + MAXR) return fmt("rawcell_array[%d]", o - MAXC);
        return o == MAXC + MAXR ? "first non-member cell referenced by a member" : "first non-member raw cell referenced by a member";
    }
    std::string op_name(int i) {
        Op o = ops[i];
        switch (o.kind) {
            case RENAME_PTR: return fmt("rename_cell(cell_array[%d], \"%s\")", o.a, NEWNAME_()[o.b]);
            case RENAME_NAME:
                if (o.a < 2) return fmt("rename_cell(name of cell_array[%d], \"%s\")", o.a, NEWNAME_()[o.b]);
                return o.a == 2 ? fmt("rename_cell(name of rawcell_array[0], \"%s\")", NEWNAME_()[o.b]) : fmt("rename_cell(\"%s\", \"%s\")", absent_old_name(), NEWNAME_()[o.b]);
            case REPLACE: return "replace_cell(" + slot_name(o.a) + ", " + POOLNAME_()[o.b] + ")";
            case REMAP_LIB: return "Library::remap_tags(table built by " + table_name(o.a) + ")";
            case REMAP_CELL: return fmt("cell_array[%d]->remap_tags(table built by ", o.a) + table_name(o.b) + ")";
            case COPY_LIB: return fmt("Library::copy_from(deep=%d) -> explore the copy", o.a);
            case COPY_CELL: return fmt("Cell::copy_from(cell_array[%d], %s) then replace_cell(original, copy)", o.a, o.b ? "\"K1\", deep" : "NULL, shallow");
            case APPEND: return std::string(o.a < 2 ? "cell_array.append(" : "rawcell_array.append(") + POOLNAME_()[o.a] + ")";
            case REMOVE_CELL: return fmt("cell_array.remove(%d)", o.a);
            default: return fmt("rawcell_array.remove(%d)", o.a);
        }
    }
    bool poisoned(Obj& o) { return o.w && o.w->bad; }
    Obj* make() { return new Lazy(); }
    void destroy(Obj* o) { if (o->w) destroy_world(o->w); delete o; }
    World& mat(Obj& o) {
        if (!o.w) {
            o.w = make_world();
            std::vector<int> none;
            for (int op : o.pending) apply_world(*o.w, op, none, false);
            o.pending.clear();
        }
        return *o.w;
    }
    std::string canon(Obj& o) { return canon_world(mat(o)); }
    bool apply(Obj& o, int opi, const std::vector<int>& hist, bool check) {
        if (!check) {
            if (o.w) return apply_world(*o.w, opi, hist, false);
            o.pending.push_back(opi);
            return true;
        }
        bool hit = cache_valid && cache_hist == hist;
        if (hit && !cache_enabled[opi]) return false;
        World& w = mat(o);
        if (!hit) {
            cache_hist = hist;
            cache_enabled.assign(ops.size(), 0);
            for (size_t k = 0; k < ops.size(); k++) cache_enabled[k] = apply_world(w, (int)k, hist, false, true);
            cache_valid = true;
            if (!cache_enabled[opi]) return false;
        }
        return apply_world(w, opi, hist, true);
    }

    // ---------------------------------------------------------------- construction / destruction
    World* make_world() {
        World* wp = new World();
        World& w = *wp;
        w.init = init;
        Library* lib = (Library*)allocate_clear(sizeof(Library));
        lib->init("lib", 1e-6, 1e-9);
        set_property(lib->properties, "creator", "c16", false);
        w.lib = lib;
        w.libs.push_back(lib);
        auto member = [&](int id) {
            if (w.objs[id].raw) { lib->rawcell_array.append((RawCell*)w.objs[id].ptr); w.mraws.insert(id); }
            else { lib->cell_array.append((Cell*)w.objs[id].ptr); w.mcells.insert(id); }
        };
        int serial = 0;
        switch (init) {
            case 0: {  // chain A -> B -> C
                int a = new_cell(w, "A", 0, serial++), b = new_cell(w, "B", 1, serial++), c = new_cell(w, "C", 0, serial++);
                add_ref_ptr(w, a, b); add_ref_ptr(w, b, c);
                member(a); member(b); member(c);
            } break;
            case 1: {  // diamond
                int a = new_cell(w, "A", 0, serial++), b = new_cell(w, "B", 1, serial++), c = new_cell(w, "C", 0, serial++), d = new_cell(w, "D", 1, serial++);
                add_ref_ptr(w, a, b); add_ref_ptr(w, a, c); add_ref_ptr(w, b, d); add_ref_ptr(w, c, d);
                member(a); member(b); member(c); member(d);
            } break;
            case 2: {  // by pointer + by name to absent Z
                int a = new_cell(w, "A", 0, serial++), b = new_cell(w, "B", 1, serial++);
                add_ref_ptr(w, a, b); add_ref_name(w, a, "Z");
                member(a); member(b);
            } break;
            case 3: {  // by name to present B (and B also referenced by pointer from C)
                int a = new_cell(w, "A", 0, serial++), b = new_cell(w, "B", 1, serial++), c = new_cell(w, "C", 0, serial++);
                add_ref_name(w, a, "B"); add_ref_ptr(w, c, b);
                member(a); member(b); member(c);
            } break;
            case 4: {  // A -> raw R1, R1 -> R2, R2 -> R4 (R4 read from the same file but not added to the library)
                int a = new_cell(w, "A", 0, serial++);
                auto ids = load_raws(w, F_RAW12);
                int r1 = ids["R1"], r2 = ids["R2"], r4 = ids["R4"];
                w.objs[r1].refs.push_back(MRef{K_PTR, r2, ""});
                w.objs[r2].refs.push_back(MRef{K_PTR, r4, ""});
                add_ref_ptr(w, a, r1);
                member(a); member(r1); member(r2);
            } break;
            case 6: {  // prefix-related names of different lengths, by pointer and by name, absent targets "ABX" and "A"
                int a = new_cell(w, "AB", 0, serial++), b = new_cell(w, "ABC", 1, serial++), c = new_cell(w, "ABCD", 0, serial++);
                add_ref_ptr(w, a, b); add_ref_name(w, a, "ABCD"); add_ref_name(w, a, "ABX");
                add_ref_ptr(w, b, c); add_ref_name(w, b, "A"); add_ref_name(w, b, "ABCD");
                member(a); member(b); member(c);
            } break;
            case 7: {  // A -> Cell 'R1' and Cell 'R3' (both outside the library) and A -> raw R1 (member); pool raw R3
                int a = new_cell(w, "A", 0, serial++), x1 = new_cell(w, "R1", 1, serial++), x3 = new_cell(w, "R3", 0, serial++);
                auto ids = load_raws(w, F_RAW7);
                int r1 = ids["R1"];
                add_ref_ptr(w, a, x1); add_ref_ptr(w, a, x3); add_ref_ptr(w, a, r1);
                member(a); member(r1);
            } break;
            default: {  // A -> X -> Y -> W, only A in the library
                int a = new_cell(w, "A", 0, serial++), x = new_cell(w, "X", 1, serial++), y = new_cell(w, "Y", 0, serial++), v = new_cell(w, "W", 1, serial++);
                add_ref_ptr(w, a, x); add_ref_ptr(w, x, y); add_ref_ptr(w, y, v);
                member(a);
            }
        }
        if (init == 6) {
            w.pool[0] = new_cell(w, "ABC", 0, serial++);
            w.pool[1] = new_cell(w, "A", 1, serial++);
            add_ref_name(w, w.pool[1], "ABX");
            auto ids = load_raws(w, F_RAW6);
            w.pool[2] = ids["ABCDE"];
            w.pool[3] = ids["AB"];
        } else {
            w.pool[0] = new_cell(w, "B", 0, serial++);
            w.pool[1] = new_cell(w, "Q", 1, serial++);
            add_ref_name(w, w.pool[1], "Z");
            auto ids = load_raws(w, init == 4 || init == 7 ? F_RAW32 : F_RAW3);
            w.pool[2] = ids["R3"];
            if (init == 7) w.pool[4] = ids["R1"];  // same-name raw replacement for the member raw R1
            if (init == 4) { w.pool[3] = ids["R2"]; w.pool[4] = ids["R1"]; }  // same-name raw replacements for R2 and R1
        }
        for (int k = 0; k < 5; k++) w.pool_fresh[k] = w.pool[k] >= 0;
        for (auto& o : w.objs)
            if (!o.raw) {
                reg_cell(w, (Cell*)o.ptr);
                o.content = content_sig(*(Cell*)o.ptr);
            }
        w.lib_props = dump::properties(lib->properties);
        requery(w);
        return wp;
    }
    // repeat the recursive dependency queries of every member into the two long-lived caller-owned maps
    static void requery(World& w) {
        for (uint64_t i = 0; i < w.lib->cell_array.count; i++) {
            w.lib->cell_array[i]->get_dependencies(true, w.keep_cells);
            w.lib->cell_array[i]->get_raw_dependencies(true, w.keep_raws);
        }
        for (uint64_t i = 0; i < w.lib->rawcell_array.count; i++) w.lib->rawcell_array[i]->get_dependencies(true, w.keep_raws);
    }
    void destroy_world(World* wp) {
        World& w = *wp;
        w.keep_cells.clear();
        w.keep_raws.clear();
        for (auto* p : w.polys) { p->clear(); free_allocation(p); }
        for (auto* p : w.fpaths) { p->clear(); free_allocation(p); }
        for (auto* p : w.rpaths) { p->clear(); free_allocation(p); }
        for (auto* p : w.labels) { p->clear(); free_allocation(p); }
        for (auto* p : w.refs) { p->clear(); free_allocation(p); }
        for (auto* c : w.cells) { c->clear(); free_allocation(c); }
        for (auto* r : w.raws) { r->clear(); free_allocation(r); }
        for (auto* l : w.libs) { l->clear(); free_allocation(l); }
        delete wp;
    }

    // ---------------------------------------------------------------- canonical state
    std::string canon_world(World& w) {
        std::vector<int> mc = member_cells(w), mr = member_raws(w);
        std::map<int, std::string> label;
        for (size_t i = 0; i < mc.size(); i++) if (mc[i] >= 0) label[mc[i]] = "c" + std::to_string(i);
        for (size_t i = 0; i < mr.size(); i++) if (mr[i] >= 0) label[mr[i]] = "r" + std::to_string(i);
        std::vector<int> ext;  // externals in discovery order
        std::vector<int> queue = mc;
        queue.insert(queue.end(), mr.begin(), mr.end());
        for (size_t q = 0; q < queue.size(); q++) {
            int id = queue[q];
            if (id < 0) continue;
            for (auto& r : w.objs[id].refs)
                if (r.kind == K_PTR && !label.count(r.target)) {
                    label[r.target] = "x" + std::to_string(ext.size());
                    ext.push_back(r.target);
                    queue.push_back(r.target);
                }
        }
        auto desc = [&](int id, bool with_tags) {
            if (id < 0) return std::string("?");
            const MObj& o = w.objs[id];
            std::string s = (o.raw ? "raw " : "cell ") + o.name + "{" + o.prov + "}";
            if (with_tags && !o.raw) s += tags_str(o.tags);
            s += "[";
            for (auto& r : o.refs) s += (r.kind == K_NAME ? "n:" + r.name : label[r.target]) + " ";
            return s + "]";
        };
        std::string s = "L=" + w.lineage + ";F=";
        for (int k = 0; k < 5; k++) s += w.pool_fresh[k] ? '1' : '0';
        s += fmt(";K=%d;CC=%d|", (int)w.k1_used, w.cellcopies);
        for (int id : mc) s += desc(id, true) + ";";
        s += "|";
        for (int id : mr) s += desc(id, true) + ";";
        s += "|";
        for (int id : ext) s += desc(id, false) + ";";
        return s;
    }

    // ---------------------------------------------------------------- violations
    void fail(World& w, const std::vector<int>& hist, int op, const std::string& cls, JFields tags, const std::string& detail, bool poison = true) {
        if (poison) w.bad = true;
        std::vector<int> h = hist;
        h.push_back(op);
        tags.insert(tags.begin(), {"op", jstr(kind_name(ops[op].kind))});
        tags.push_back({"init", jint(init)});
        R->violation(sub, cls, tags, jobj({{"init", jstr(init_name(init))}, {"history", describe_hist(*this, h)}, {"state", jstr(canon_world(w))}}), detail,
                     "sub=" + sub + " hist=" + hist_str(h));
    }
    static const char* kind_name(int k) {
        static const char* n[] = {"rename_cell(Cell*)", "rename_cell(name)", "replace_cell", "Library::remap_tags", "Cell::remap_tags", "Library::copy_from", "Cell::copy_from+replace_cell", "append", "cell_array.remove", "rawcell_array.remove"};
        return n[k];
    }
    static const char* init_name(int k) {
        static const char* n[] = {"chain A->B->C", "diamond A->B,A->C,B->D,C->D", "A->B by pointer, A->'Z' by name (Z absent)", "A->'B' by name (B present), C->B by pointer",
                                  "A->raw R1, R1->R2, R2->R4 (read_rawcells; R4 not in the library)", "A->X->Y->W, only A in the library",
                                  "AB->ABC->ABCD by pointer; AB->'ABCD','ABX' and ABC->'A','ABCD' by name (ABX, A absent)",
                                  "A->Cell 'R1', A->Cell 'R3' (both outside the library), A->raw R1 (member): cells named like the old / the new raw cell"};
        return n[k];
    }

    // ---------------------------------------------------------------- model transitions
    // how many member references designate object t by pointer / by name
    static void incoming(const World& w, int t, int& nptr, int& nname) {
        nptr = nname = 0;
        for (int m : w.mcells)
            for (auto& r : w.objs[m].refs) {
                if (r.kind == K_PTR && r.target == t) nptr++;
                if (r.kind == K_NAME && r.name == w.objs[t].name) nname++;
            }
        for (int m : w.mraws)
            for (auto& r : w.objs[m].refs)
                if (r.target == t) nptr++;
    }
    static void model_rename(World& w, int c, const std::string& n) {
        int np, nn;
        incoming(w, c, np, nn);
        if (np && nn) w.f_both = true;
        std::string old = w.objs[c].name;
        for (int m : w.mcells)
            for (auto& r : w.objs[m].refs)
                if (r.kind == K_NAME && r.name == old) r.name = n;
        w.objs[c].name = n;
        w.did_rename = true;
    }
    static void model_replace(World& w, int old, int nw) {
        int np, nn;
        incoming(w, old, np, nn);
        if (np && nn) w.f_both = true;
        if (np + nn >= 2) w.f_multi = true;
        if (w.objs[old].raw != w.objs[nw].raw) w.f_rawmix = true;
        bool was_member = w.mcells.count(old) || w.mraws.count(old);
        if (was_member) {
            w.mcells.erase(old);
            w.mraws.erase(old);
            (w.objs[nw].raw ? w.mraws : w.mcells).insert(nw);
        }
        const std::string oldname = w.objs[old].name, newname = w.objs[nw].name;
        for (int m : w.mcells)
            for (auto& r : w.objs[m].refs) {
                // by pointer to old, or (names are the identity of cells in a layout file) by pointer to an object of
                // the OTHER kind that carries old's name: possible only in init7, see name_taken
                if (r.kind == K_PTR && (r.target == old || (w.objs[r.target].raw != w.objs[old].raw && w.objs[r.target].name == oldname))) r.target = nw;
                else if (r.kind == K_NAME && r.name == oldname) r.name = newname;
            }
        for (int m : w.mraws) {
            auto& rf = w.objs[m].refs;
            for (size_t i = 0; i < rf.size();) {
                if (rf[i].target == old) {
                    if (w.objs[nw].raw) { rf[i].target = nw; i++; }
                    else rf.erase(rf.begin() + i);  // a raw cell cannot designate a Cell: at least not old
                } else i++;
            }
        }
        w.objs[old].replaced_out = true;
        w.did_replace = true;
    }

    // ---------------------------------------------------------------- verification after a transition
    template <class T>
    static bool got_ids(const World& w, Map<T*>& m, std::set<int>& ids, std::string& err) {
        ids.clear();
        for (MapItem<T*>* it = m.next(NULL); it; it = m.next(it)) {
            auto f = w.id_of.find(it->value);
            if (f == w.id_of.end()) { err = "unknown pointer in result"; return false; }
            if (w.objs[f->second].name != it->key) { err = "result key '" + std::string(it->key) + "' is not the name of its value '" + w.objs[f->second].name + "'"; return false; }
            if (!ids.insert(f->second).second) { err = "object returned twice"; return false; }
        }
        return true;
    }
    static bool between(const std::set<int>& lo, const std::set<int>& got, const std::set<int>& hi) {
        for (int x : lo) if (!got.count(x)) return false;
        for (int x : got) if (!hi.count(x)) return false;
        return true;
    }
    // returns false (after reporting) on the first disagreement
    bool verify(World& w, const std::vector<int>& hist, int op) {
        Library* lib = w.lib;
        // V1 membership
        {
            std::set<int> sc, sr;
            for (int id : member_cells(w)) {
                if (id < 0 || w.objs[id].raw || !sc.insert(id).second) { fail(w, hist, op, "membership", {{"array", jstr("cell_array")}}, "cell_array holds an unknown, wrong-kind or duplicated pointer"); return false; }
            }
            for (int id : member_raws(w)) {
                if (id < 0 || !w.objs[id].raw || !sr.insert(id).second) { fail(w, hist, op, "membership", {{"array", jstr("rawcell_array")}}, "rawcell_array holds an unknown, wrong-kind or duplicated pointer"); return false; }
            }
            if (sc != w.mcells) { fail(w, hist, op, "membership", {{"array", jstr("cell_array")}}, "cell_array " + ids_str(w, sc) + " but the model has " + ids_str(w, w.mcells)); return false; }
            if (sr != w.mraws) { fail(w, hist, op, "membership", {{"array", jstr("rawcell_array")}}, "rawcell_array " + ids_str(w, sr) + " but the model has " + ids_str(w, w.mraws)); return false; }
        }
        if (dump::properties(lib->properties) != w.lib_props || std::string(lib->name ? lib->name : "") != "lib" || lib->unit != 1e-6 || lib->precision != 1e-9) {
            fail(w, hist, op, "library-fields", {}, "name/unit/precision/properties of the library changed: properties " + dump::properties(lib->properties) + " expected " + w.lib_props);
            return false;
        }
        // V2 designations, V3 other content
        for (int id : w.mcells) {
            const MObj& o = w.objs[id];
            const Cell& c = *(Cell*)o.ptr;
            if (o.name != (c.name ? c.name : "")) { fail(w, hist, op, "cell-name", {}, fmt("cell #%d is called '%s', model '%s'", id, c.name ? c.name : "(null)", o.name.c_str())); return false; }
            std::string real, model;
            for (uint64_t i = 0; i < c.reference_array.count; i++) real += rref_str(w, *c.reference_array[i]) + " ";
            for (auto& r : o.refs) model += mref_str(w, r) + " ";
            if (real != model) {
                // classify: which kind of reference is wrong
                std::string what = "count";
                if (c.reference_array.count == o.refs.size())
                    for (size_t i = 0; i < o.refs.size(); i++)
                        if (rref_str(w, *c.reference_array[i]) != mref_str(w, o.refs[i])) { what = o.refs[i].kind == K_NAME ? "by-name" : (w.objs[o.refs[i].target].raw ? "by-pointer-raw" : "by-pointer-cell"); break; }
                fail(w, hist, op, "designation", {{"reference", jstr(what)}}, "references of cell '" + o.name + "': [" + real + "] but the author's intent (model) is [" + model + "]");
                return false;
            }
            for (uint64_t i = 0; i < c.reference_array.count; i++) {
                const Reference& r = *c.reference_array[i];
                if (r.type == ReferenceType::Name) continue;
                auto f = w.id_of.find(r.type == ReferenceType::Cell ? (void*)r.cell : (void*)r.rawcell);
                if (f != w.id_of.end() && w.objs[f->second].replaced_out) { fail(w, hist, op, "designates-replaced-out", {{"holder", jstr("cell")}}, "a reference of cell '" + o.name + "' designates the replaced-out object '" + w.objs[f->second].name + "'"); return false; }
            }
            std::vector<Tag> tg;
            size_t ns;
            real_tags(c, tg, ns);
            if (tg != o.tags || ns != o.nshape) { fail(w, hist, op, "tags", {}, "tags of cell '" + o.name + "' are " + tags_str(tg) + ", model " + tags_str(o.tags)); return false; }
            if (content_sig(c) != o.content) { fail(w, hist, op, "content", {}, "non-reference content of cell '" + o.name + "' changed; it is now " + content_json(c)); return false; }
        }
        for (int id : w.mraws) {
            const MObj& o = w.objs[id];
            const RawCell& rc = *(RawCell*)o.ptr;
            if (o.name != (rc.name ? rc.name : "")) { fail(w, hist, op, "cell-name", {}, "raw cell name changed"); return false; }
        }
        // Long-lived caller-owned maps (re-queried after every operation, never cleared): every name that is
        // a direct by-pointer dependency of a member now must designate the object that carries it now
        // (entries of names that are no longer dependencies may stay: the API only inserts).
        {
            std::map<std::string, std::set<int>> wc, wr;
            for (int id : w.mcells) {
                // judged: names designated DIRECTLY by a member (those are set() on every re-query; names reached
                // only through a non-member cell can legitimately keep an old entry, because the recursive query
                // skips the subtree of a cell it already finds in the map)
                for (int t : model_deps(w, id, false, false, false)) wc[w.objs[t].name].insert(t);
                for (int t : model_deps(w, id, false, true, false)) wr[w.objs[t].name].insert(t);
            }
            for (int id : w.mraws) for (int t : model_deps(w, id, false, true, false)) wr[w.objs[t].name].insert(t);
            for (int pass = 0; pass < 2; pass++) {
                for (auto& kv : pass ? wr : wc) {
                    if (kv.second.size() != 1) { R->count("persistent_map_ambiguous_name_skipped"); continue; }  // two reachable objects, one name
                    int id = *kv.second.begin();
                    const void* got = pass ? (const void*)w.keep_raws.get(kv.first.c_str()) : (const void*)w.keep_cells.get(kv.first.c_str());
                    // no entry: the recursive query skips the subtree of a cell it already finds in the map, so a name
                    // given by a later rename can be missing; only entries that exist are judged
                    if (got == NULL) { R->count("persistent_map_name_without_entry_skipped"); continue; }
                    if (got != w.objs[id].ptr) {
                        auto f = w.id_of.find(got);
                        fail(w, hist, op, "persistent-map", {{"map", jstr(pass ? "Map<RawCell*>" : "Map<Cell*>")}, {"stale_entry_is_replaced_out", jbool(f != w.id_of.end() && w.objs[f->second].replaced_out)}},
                             "a caller-owned map that received the recursive dependency queries after every operation has, for the current dependency '" + kv.first + "', " +
                                 (got == NULL ? std::string("no entry") : f == w.id_of.end() ? std::string("an unknown pointer") : "the object #" + std::to_string(f->second) + (w.objs[f->second].replaced_out ? " (replaced out)" : "")) +
                                 " instead of the object that carries the name now (#" + std::to_string(id) + ")");
                        return false;
                    }
                    R->count("persistent_map_entries_checked");
                }
            }
        }
        // independence of copy sources
        for (auto& s : w.sources) {
            if (s.frozen) {
                if (library_sig(*s.lib) != s.dump) { fail(w, hist, op, "copy-source-changed", {{"copy", jstr("deep")}}, "a library that was deep-copied earlier (or a source of it) changed; it is now " + dump::library(*s.lib).substr(0, 1500)); return false; }
            } else {
                bool same = s.lib->cell_array.count == s.cells.size() && s.lib->rawcell_array.count == s.raws.size();
                for (size_t i = 0; same && i < s.cells.size(); i++) same = s.lib->cell_array[i] == s.cells[i];
                for (size_t i = 0; same && i < s.raws.size(); i++) same = s.lib->rawcell_array[i] == s.raws[i];
                if (!same) { fail(w, hist, op, "copy-source-changed", {{"copy", jstr("shallow")}}, "the arrays of a library that was shallow-copied earlier changed"); return false; }
            }
        }
        for (auto& fc : w.frozen_cells) {
            std::vector<Tag> tg;
            size_t ns;
            real_tags(*fc.c, tg, ns);
            if (std::string(fc.c->name) + "|" + tags_str(tg) + "|" + content_sig(*fc.c) != fc.sig) { fail(w, hist, op, "copy-source-changed", {{"copy", jstr("deep-cell")}}, "a cell that was deep-copied earlier changed"); return false; }
        }
        // V4 queries
        bool skipped = false;
        {
            Array<Cell*> tc = {};
            Array<RawCell*> tr = {};
            lib->top_level(tc, tr);
            std::set<int> gc, gr, sc, sr, fc, fr;
            bool dup = false, unknown = false;
            for (uint64_t i = 0; i < tc.count; i++) { auto f = w.id_of.find(tc[i]); if (f == w.id_of.end()) unknown = true; else if (!gc.insert(f->second).second) dup = true; }
            for (uint64_t i = 0; i < tr.count; i++) { auto f = w.id_of.find(tr[i]); if (f == w.id_of.end()) unknown = true; else if (!gr.insert(f->second).second) dup = true; }
            tc.clear();
            tr.clear();
            model_top(w, false, sc, sr);
            model_top(w, true, fc, fr);
            if (sc != fc || sr != fr) skipped = true;
            if (dup || unknown || !between(fc, gc, sc) || !between(fr, gr, sr)) {
                bool rawpart = between(fc, gc, sc);
                fail(w, hist, op, "top_level", {{"part", jstr(rawpart ? "rawcells" : "cells")}},
                     "top_level returned cells " + ids_str(w, gc) + " raw cells " + ids_str(w, gr) + "; members without an incoming reference from a member: cells " + ids_str(w, sc) + " raw cells " + ids_str(w, sr) +
                         (skipped ? " (with by-name edges: " + ids_str(w, fc) + " " + ids_str(w, fr) + ")" : ""));
                return false;
            }
        }
        for (int id : w.mcells) {
            const Cell& c = *(Cell*)w.objs[id].ptr;
            for (int rec = 0; rec < 2; rec++) {
                Map<Cell*> m = {};
                c.get_dependencies(rec, m);
                std::set<int> got;
                std::string err;
                bool ok = got_ids(w, m, got, err);
                m.clear();
                std::set<int> lo = model_deps(w, id, rec, false, false), hi = model_deps(w, id, rec, false, true);
                if (lo != hi) skipped = true;
                if (!ok || !between(lo, got, hi)) { fail(w, hist, op, "get_dependencies", {{"recursive", jbool(rec)}}, "Cell('" + w.objs[id].name + "').get_dependencies(" + (rec ? "true" : "false") + ") = " + ids_str(w, got) + " " + err + "; model " + ids_str(w, lo)); return false; }
                Map<RawCell*> mr = {};
                c.get_raw_dependencies(rec, mr);
                ok = got_ids(w, mr, got, err);
                mr.clear();
                lo = model_deps(w, id, rec, true, false);
                hi = model_deps(w, id, rec, true, true);
                if (lo != hi) skipped = true;
                if (!ok || !between(lo, got, hi)) { fail(w, hist, op, "get_raw_dependencies", {{"recursive", jbool(rec)}}, "Cell('" + w.objs[id].name + "').get_raw_dependencies(" + (rec ? "true" : "false") + ") = " + ids_str(w, got) + " " + err + "; model " + ids_str(w, lo)); return false; }
            }
            Set<Tag> st = {}, lt = {};
            c.get_shape_tags(st);
            c.get_label_tags(lt);
            std::set<Tag> gs, gl, ms, ml;
            for (SetItem<Tag>* it = st.next(NULL); it; it = st.next(it)) gs.insert(it->value);
            for (SetItem<Tag>* it = lt.next(NULL); it; it = lt.next(it)) gl.insert(it->value);
            bool cnt_ok = st.count == gs.size() && lt.count == gl.size();
            st.clear();
            lt.clear();
            const MObj& o = w.objs[id];
            for (size_t i = 0; i < o.tags.size(); i++) (i < o.nshape ? ms : ml).insert(o.tags[i]);
            if (!cnt_ok || gs != ms || gl != ml) { fail(w, hist, op, "tag-query", {{"level", jstr("cell")}, {"which", jstr(gs != ms ? "shape" : "label")}}, "get_shape_tags/get_label_tags of cell '" + o.name + "' differ from the tags in use " + tags_str(o.tags)); return false; }
        }
        for (int id : w.mraws) {
            const RawCell& rc = *(RawCell*)w.objs[id].ptr;
            for (int rec = 0; rec < 2; rec++) {
                Map<RawCell*> m = {};
                rc.get_dependencies(rec, m);
                std::set<int> got;
                std::string err;
                bool ok = got_ids(w, m, got, err);
                m.clear();
                std::set<int> want = model_deps(w, id, rec, true, false);
                if (!ok || got != want) { fail(w, hist, op, "RawCell::get_dependencies", {{"recursive", jbool(rec)}}, "RawCell('" + w.objs[id].name + "').get_dependencies = " + ids_str(w, got) + " " + err + "; model " + ids_str(w, want)); return false; }
            }
        }
        {
            Set<Tag> st = {}, lt = {};
            lib->get_shape_tags(st);
            lib->get_label_tags(lt);
            std::set<Tag> gs, gl, ms, ml;
            for (SetItem<Tag>* it = st.next(NULL); it; it = st.next(it)) gs.insert(it->value);
            for (SetItem<Tag>* it = lt.next(NULL); it; it = lt.next(it)) gl.insert(it->value);
            bool cnt_ok = st.count == gs.size() && lt.count == gl.size();
            st.clear();
            lt.clear();
            for (int id : w.mcells) {
                const MObj& o = w.objs[id];
                for (size_t i = 0; i < o.tags.size(); i++) (i < o.nshape ? ms : ml).insert(o.tags[i]);
            }
            if (!cnt_ok || gs != ms || gl != ml) { fail(w, hist, op, "tag-query", {{"level", jstr("library")}, {"which", jstr(gs != ms ? "shape" : "label")}}, "Library::get_shape_tags/get_label_tags differ from the tags in use"); return false; }
        }
        if (skipped) R->count("skipped_out_of_quantifier");
        return true;
    }

    // ---------------------------------------------------------------- one transition
    // dry: only report whether the operation is enabled in this state (no side effect)
    bool apply_world(World& w, int opi, const std::vector<int>& hist, bool check, bool dry = false) {
        if (w.bad) return false;
        Op op = ops[opi];
        Library* lib = w.lib;
        std::vector<int> mc = member_cells(w), mr = member_raws(w);
        switch (op.kind) {
            case RENAME_PTR: {
                if (op.a >= (int)mc.size()) return false;
                int c = mc[op.a];
                std::string n = NEWNAME_()[op.b];
                if (w.objs[c].name == n || name_taken(w, n, c, 0, true)) return false;
                // symmetry reduction: N1 and N2 are interchangeable fresh names, N2 is offered only while N1 is in use
                if (init != 6 && op.b == 1 && !name_taken(w, NEWNAME_()[0], -1)) return false;
                if (dry) return true;
                lib->rename_cell((Cell*)w.objs[c].ptr, n.c_str());
                model_rename(w, c, n);
            } break;
            case RENAME_NAME: {
                std::string n = NEWNAME_()[op.b], old;
                int c = -1;
                if (op.a < 2) {
                    if (op.a >= (int)mc.size()) return false;
                    c = mc[op.a];
                    old = w.objs[c].name;
                    if (old == n || name_taken(w, n, c, 0, true)) return false;
                } else if (op.a == 2) {
                    if (mr.empty()) return false;
                    old = w.objs[mr[0]].name;  // a raw cell's name: get_cell finds nothing, documented effect: none
                    if (name_taken(w, n, -1)) return false;
                } else {
                    old = absent_old_name();
                    if (name_taken(w, n, -1)) return false;
                }
                if (dry) return true;
                lib->rename_cell(old.c_str(), n.c_str());
                if (c >= 0) model_rename(w, c, n);
            } break;
            case REPLACE: {
                int old = -1;
                if (op.a < MAXC) { if (op.a < (int)mc.size()) old = mc[op.a]; }
                else if (op.a < MAXC + MAXR) { if (op.a - MAXC < (int)mr.size()) old = mr[op.a - MAXC]; }
                else {
                    int xc, xr;
                    externals(w, xc, xr);
                    old = op.a == MAXC + MAXR ? xc : xr;
                }
                if (old < 0 || w.pool[op.b] < 0 || !w.pool_fresh[op.b]) return false;
                int nw = w.pool[op.b];
                if (name_taken(w, w.objs[nw].name, old, (int)w.objs[nw].raw, w.mcells.count(old) || w.mraws.count(old)) || referenced_by_nonmember(w, old)) return false;
                if (dry) return true;
                const MObj &O = w.objs[old], &N = w.objs[nw];
                bool was_member = w.mcells.count(old) || w.mraws.count(old);
                bool same_name = O.name == N.name;
                bool oraw = O.raw, nraw = N.raw;
                if (!oraw && !nraw) lib->replace_cell((Cell*)O.ptr, (Cell*)N.ptr);
                else if (oraw && !nraw) lib->replace_cell((RawCell*)O.ptr, (Cell*)N.ptr);
                else if (!oraw && nraw) lib->replace_cell((Cell*)O.ptr, (RawCell*)N.ptr);
                else lib->replace_cell((RawCell*)O.ptr, (RawCell*)N.ptr);
                w.pool_fresh[op.b] = false;
                model_replace(w, old, nw);
                // Raw-cell dependencies: compare now; a disagreement is reported and the observed
                // dependency lists are adopted by the model so that the search continues below it.
                for (int m : w.mraws) {
                    RawCell* rc = (RawCell*)w.objs[m].ptr;
                    std::multiset<int> real, model;
                    bool known = true, stale = false;
                    for (uint64_t i = 0; i < rc->dependencies.count; i++) {
                        auto f = w.id_of.find(rc->dependencies[i]);
                        if (f == w.id_of.end()) { known = false; break; }
                        real.insert(f->second);
                        if (f->second == old) stale = true;
                    }
                    for (auto& r : w.objs[m].refs) model.insert(r.target);
                    if (known && real == model) continue;
                    if (check)
                        fail(w, hist, opi, stale ? "rawdep-stale" : "rawdep-other",
                             {{"holder", jstr("rawcell")}, {"old_kind", jstr(oraw ? "raw" : "cell")}, {"new_kind", jstr(nraw ? "raw" : "cell")}, {"same_name", jbool(same_name)}, {"old_in_library", jbool(was_member)}},
                             "after replace_cell('" + w.objs[old].name + "' -> " + POOLNAME_()[op.b] + ") the dependencies of raw cell '" + w.objs[m].name + "' still designate the replaced-out raw cell (RawCell::dependencies is not rewritten)",
                             !(known && stale));
                    if (!(known && stale)) { w.bad = true; return true; }
                    w.objs[m].refs.clear();
                    for (uint64_t i = 0; i < rc->dependencies.count; i++) w.objs[m].refs.push_back(MRef{K_PTR, w.id_of[rc->dependencies[i]], ""});
                }
            } break;
            case REMAP_LIB:
            case REMAP_CELL: {
                int m = op.kind == REMAP_LIB ? op.a : op.b;
                if (op.kind == REMAP_CELL && op.a >= (int)mc.size()) return false;
                if (m >= 2 && init != 0 && init != 6) return false;  // history-built tables: two libraries only (budget)
                // the two growing tables have the same abstract map: the 5-entry one is used at cell level, the
                // 9-entry one at library level (remap.enum applies every table at both levels)
                if ((m == 4 && op.kind == REMAP_LIB) || (m == 5 && op.kind == REMAP_CELL)) return false;
                if (dry) return true;
                TagMap tm = {};
                build_table(m, tm);
                if (op.kind == REMAP_LIB) {
                    lib->remap_tags(tm);
                    for (int id : w.mcells) for (auto& t : w.objs[id].tags) t = map_tag(m, t);
                } else {
                    ((Cell*)w.objs[mc[op.a]].ptr)->remap_tags(tm);
                    for (auto& t : w.objs[mc[op.a]].tags) t = map_tag(m, t);
                }
                tm.clear();
            } break;
            case COPY_LIB: {
                if (w.lineage.size() >= 2) return false;
                if (dry) return true;
                bool deep = op.a;
                Library* l2 = (Library*)allocate_clear(sizeof(Library));
                l2->copy_from(*lib, deep);
                w.libs.push_back(l2);
                w.f_copy = true;
                bool structure_ok = l2->cell_array.count == lib->cell_array.count && l2->rawcell_array.count == lib->rawcell_array.count;
                for (uint64_t i = 0; structure_ok && i < lib->rawcell_array.count; i++) structure_ok = l2->rawcell_array[i] == lib->rawcell_array[i];
                for (uint64_t i = 0; structure_ok && i < lib->cell_array.count; i++) structure_ok = deep ? (l2->cell_array[i] != lib->cell_array[i] && !w.id_of.count(l2->cell_array[i])) : l2->cell_array[i] == lib->cell_array[i];
                if (structure_ok && ((lib->cell_array.count && l2->cell_array.items == lib->cell_array.items) || (lib->rawcell_array.count && l2->rawcell_array.items == lib->rawcell_array.items))) structure_ok = false;
                if (!structure_ok) {
                    if (check) fail(w, hist, opi, "copy-structure", {{"copy", jstr(deep ? "deep" : "shallow")}}, "Library::copy_from produced arrays that are not an independent copy of the source's");
                    w.bad = true;
                    return true;
                }
                if (std::string(l2->name ? l2->name : "") != "lib" || l2->unit != lib->unit || l2->precision != lib->precision) {
                    if (check) fail(w, hist, opi, "copy-fields", {{"copy", jstr(deep ? "deep" : "shallow")}}, "Library::copy_from did not copy name/unit/precision");
                    w.bad = true;
                    return true;
                }
                if (dump::properties(l2->properties) != w.lib_props) {
                    // reported, then the observed value is adopted so that the search continues
                    if (check) fail(w, hist, opi, "copy-library-properties", {{"copy", jstr(deep ? "deep" : "shallow")}}, "Library::copy_from: properties of the copy are " + dump::properties(l2->properties) + ", the source has " + w.lib_props, false);
                    w.lib_props = dump::properties(l2->properties);
                }
                if (deep) {
                    // every source so far (and this one) is from now on unreachable from the explored
                    // library's own objects: its full dump must never change again
                    std::vector<int> newids;
                    for (uint64_t i = 0; i < lib->cell_array.count; i++) {
                        Cell* src = lib->cell_array[i];
                        Cell* dst = l2->cell_array[i];
                        int sid = mc[i];
                        MObj o = w.objs[sid];
                        o.ptr = dst;
                        o.prov += "L";
                        o.replaced_out = false;
                        // DESIGN 0.1: each reference designates a cell of the same name as in the source
                        bool ok = dst->reference_array.count == src->reference_array.count && std::string(dst->name ? dst->name : "") == src->name;
                        for (uint64_t j = 0; ok && j < src->reference_array.count; j++) {
                            Reference *a = src->reference_array[j], *b = dst->reference_array[j];
                            if (a == b || a->type != b->type) { ok = false; break; }
                            if (a->type == ReferenceType::Name) ok = b->name && b->name != a->name && strcmp(a->name, b->name) == 0;
                            else {
                                auto f = w.id_of.find(b->type == ReferenceType::Cell ? (void*)b->cell : (void*)b->rawcell);
                                ok = f != w.id_of.end() && w.objs[f->second].raw == (b->type == ReferenceType::RawCell) && w.objs[f->second].name == w.objs[o.refs[j].target].name;
                                if (ok) o.refs[j].target = f->second;
                            }
                        }
                        std::vector<Tag> tg;
                        size_t ns;
                        real_tags(*dst, tg, ns);
                        if (ok && (tg != o.tags || content_sig(*dst) != o.content)) ok = false;
                        // deep: no element object shared
                        for (uint64_t j = 0; ok && j < dst->polygon_array.count; j++) ok = !w.polys.count(dst->polygon_array[j]);
                        for (uint64_t j = 0; ok && j < dst->flexpath_array.count; j++) ok = !w.fpaths.count(dst->flexpath_array[j]);
                        for (uint64_t j = 0; ok && j < dst->robustpath_array.count; j++) ok = !w.rpaths.count(dst->robustpath_array[j]);
                        for (uint64_t j = 0; ok && j < dst->label_array.count; j++) ok = !w.labels.count(dst->label_array[j]);
                        if (!ok) {
                            reg_cell(w, dst);
                            for (uint64_t k = i + 1; k < l2->cell_array.count; k++) reg_cell(w, l2->cell_array[k]);
                            if (check) fail(w, hist, opi, "copy-content", {{"copy", jstr("deep")}}, "Library::copy_from(deep): cell '" + o.name + "' of the copy differs from the source (name, references, tags, content or shared elements)");
                            w.bad = true;
                            return true;
                        }
                        reg_cell(w, dst);
                        newids.push_back(add_obj(w, std::move(o)));
                    }
                    w.mcells.clear();
                    for (int id : newids) w.mcells.insert(id);
                }
                World::Src s;
                s.lib = lib;
                s.frozen = deep;
                for (uint64_t i = 0; i < lib->cell_array.count; i++) s.cells.push_back(lib->cell_array[i]);
                for (uint64_t i = 0; i < lib->rawcell_array.count; i++) s.raws.push_back(lib->rawcell_array[i]);
                w.sources.push_back(s);
                if (deep)
                    for (auto& x : w.sources) { x.frozen = true; x.dump = library_sig(*x.lib); }
                w.lineage += deep ? 'D' : 'S';
                w.lib = l2;
            } break;
            case COPY_CELL: {
                if (op.a >= (int)mc.size() || w.cellcopies >= 2) return false;
                int cid = mc[op.a];
                bool deep = op.b;
                if (!w.objs[cid].prov.empty() && w.objs[cid].prov.find_first_of("sd") != std::string::npos) return false;
                if (deep && (w.k1_used || name_taken(w, "K1", -1))) return false;
                if (referenced_by_nonmember(w, cid)) return false;
                if (dry) return true;
                Cell* src = (Cell*)w.objs[cid].ptr;
                Cell* dst = (Cell*)allocate_clear(sizeof(Cell));
                dst->copy_from(*src, deep ? "K1" : NULL, deep);
                w.f_copy = true;
                MObj o = w.objs[cid];
                o.ptr = dst;
                o.prov += deep ? "d" : "s";
                if (deep) { o.name = "K1"; w.k1_used = true; }
                w.cellcopies++;
                // the copy must equal the source: same designations, same content, same tags
                bool ok = o.name == (dst->name ? dst->name : "") && dst->name != src->name && dst->reference_array.count == src->reference_array.count &&
                          dst->polygon_array.count == src->polygon_array.count && dst->flexpath_array.count == src->flexpath_array.count &&
                          dst->robustpath_array.count == src->robustpath_array.count && dst->label_array.count == src->label_array.count;
                if (ok && dst->reference_array.count && dst->reference_array.items == src->reference_array.items) ok = false;
                for (uint64_t j = 0; ok && j < src->reference_array.count; j++) {
                    Reference *a = src->reference_array[j], *b = dst->reference_array[j];
                    if (deep ? a == b : a != b) { ok = false; break; }
                    if (rref_str(w, *a) != rref_str(w, *b) || rref_str(w, *b) != mref_str(w, o.refs[j])) ok = false;
                    if (deep && a->type == ReferenceType::Name && a->name == b->name) ok = false;
                }
                for (uint64_t j = 0; ok && j < dst->polygon_array.count; j++) ok = deep ? !w.polys.count(dst->polygon_array[j]) : dst->polygon_array[j] == src->polygon_array[j];
                for (uint64_t j = 0; ok && j < dst->flexpath_array.count; j++) ok = deep ? !w.fpaths.count(dst->flexpath_array[j]) : dst->flexpath_array[j] == src->flexpath_array[j];
                for (uint64_t j = 0; ok && j < dst->robustpath_array.count; j++) ok = deep ? !w.rpaths.count(dst->robustpath_array[j]) : dst->robustpath_array[j] == src->robustpath_array[j];
                for (uint64_t j = 0; ok && j < dst->label_array.count; j++) ok = deep ? !w.labels.count(dst->label_array[j]) : dst->label_array[j] == src->label_array[j];
                if (ok) {
                    std::vector<Tag> tg;
                    size_t ns;
                    real_tags(*dst, tg, ns);
                    ok = tg == o.tags && content_sig(*dst) == o.content;
                }
                reg_cell(w, dst);
                int nid = add_obj(w, std::move(o));
                if (!ok) {
                    if (check) fail(w, hist, opi, "copy-content", {{"copy", jstr(deep ? "deep-cell" : "shallow-cell")}}, "Cell::copy_from: the copy differs from its source (name, references, tags, content, or sharing not as documented)");
                    w.bad = true;
                    return true;
                }
                if (deep) {
                    std::vector<Tag> tg;
                    size_t ns;
                    real_tags(*src, tg, ns);
                    w.frozen_cells.push_back({src, std::string(src->name) + "|" + tags_str(tg) + "|" + content_sig(*src)});
                }
                lib->replace_cell(src, dst);
                model_replace(w, cid, nid);
            } break;
            case APPEND: {
                if (w.pool[op.a] < 0 || !w.pool_fresh[op.a]) return false;
                int id = w.pool[op.a];
                if (name_taken(w, w.objs[id].name, -1, (int)w.objs[id].raw, true)) return false;
                if (dry) return true;
                if (w.objs[id].raw) { lib->rawcell_array.append((RawCell*)w.objs[id].ptr); w.mraws.insert(id); }
                else { lib->cell_array.append((Cell*)w.objs[id].ptr); w.mcells.insert(id); }
                w.pool_fresh[op.a] = false;
            } break;
            case REMOVE_CELL: {
                if (op.a >= (int)mc.size()) return false;
                if (dry) return true;
                lib->cell_array.remove(op.a);
                w.mcells.erase(mc[op.a]);
            } break;
            case REMOVE_RAW: {
                if (op.a >= (int)mr.size()) return false;
                if (dry) return true;
                lib->rawcell_array.remove(op.a);
                w.mraws.erase(mr[op.a]);
            } break;
        }
        if (!w.bad) requery(w);
        if (!check || w.bad) return true;
        if (!verify(w, hist, opi)) return true;
        R->count("cases");
        bool mix = w.did_rename && w.did_replace && w.f_both;
        if (mix || w.f_multi) R->count("nontrivial");
        if (mix) R->count("hist_rename_and_replace_on_cell_referenced_by_pointer_and_name");
        if (w.f_multi) R->count("hist_replace_changing_2plus_references");
        if (w.f_copy) R->count("hist_with_copy");
        if (w.f_rawmix) R->count("hist_with_cell_raw_kind_change");
        if (w.lineage.size() && (w.did_rename || w.did_replace)) R->count("hist_edit_after_library_copy");
        return true;
    }
};

// ------------------------------------------------------------------------------------ raw-cell files
static void write_raw_files() {
    tm ts = {};
    ts.tm_year = 120;
    ts.tm_mday = 1;
    auto simple = [](const char* name, double d) {
        Cell* c = (Cell*)allocate_clear(sizeof(Cell));
        c->init(name);
        Polygon* p = (Polygon*)allocate_clear(sizeof(Polygon));
        *p = rectangle(Vec2{d, 0}, Vec2{d + 1, 1}, make_tag(7, 0));
        c->polygon_array.append(p);
        return c;
    };
    auto write = [&](const std::string& path, std::vector<Cell*> cells) {
        Library lib = {};
        lib.init("raws", 1e-6, 1e-9);
        for (Cell* c : cells) lib.cell_array.append(c);
        ErrorCode ec = lib.write_gds(path.c_str(), 0, &ts);
        if (ec != ErrorCode::NoError) { R->internal_error("cannot write " + path); exit(2); }
        lib.free_all();
    };
    {
        Cell* r1 = simple("R1", 0);
        Cell* r2 = simple("R2", 5);
        Cell* r4 = simple("R4", 7);
        Reference* ref = (Reference*)allocate_clear(sizeof(Reference));
        ref->init(r2);
        ref->origin = Vec2{3, 3};
        r1->reference_array.append(ref);
        ref = (Reference*)allocate_clear(sizeof(Reference));
        ref->init(r4);
        ref->origin = Vec2{4, 4};
        r2->reference_array.append(ref);
        write(F_RAW12, {r1, r2, r4});
    }
    write(F_RAW3, {simple("R3", 9)});
    write(F_RAW32, {simple("R3", 9), simple("R2", 6), simple("R1", 3)});
    write(F_RAW6, {simple("ABCDE", 9), simple("AB", 6)});
    write(F_RAW7, {simple("R1", 2)});
}


// ------------------------------------------------------------------------------------ remap.enum
// Exhaustive enumeration (engine E2) of one remap_tags call: every cell configuration
//   flexpath with 2 or 3 elements x robustpath with 1, 2 or 3 elements, every element tag drawn from
//   {TA, TB, TC} (so distinct tags and equal tags on two elements both occur), a polygon and a label
// x every table of the list below (chains, swaps, cycles, identity entries, withdrawn mappings,
// histories with del, a table that grows to capacity 16, the empty table) x {Cell::remap_tags,
// Library::remap_tags on a library that also holds a second, fixed cell}.  Oracle: the abstract map
// left by the table's history applied ONCE to every element / polygon / label tag; every element's
// tag, get_shape_tags / get_label_tags of every cell and of the library, and the untagged content.
static const int N_ETABLES = 13;
static std::vector<TStep> etable_steps(int m) {
    const Tag a = TA, b = TB, c = TC;
    switch (m) {
        case 0: return {};
        case 1: return {{false, a, b}};
        case 2: return {{false, a, b}, {false, b, a}};
        case 3: return {{false, a, b}, {false, b, c}};
        case 4: return {{false, b, c}, {false, a, b}};
        case 5: return {{false, a, b}, {false, b, c}, {false, c, a}};
        case 6: return {{false, a, a}, {false, b, c}};
        case 7: return {{false, a, b}, {false, b, c}, {false, c, c}};
        case 8: return {{false, a, VX}, {false, b, VY}, {false, c, VZ}, {false, a, a}, {false, b, b}};
        case 9: return {{false, a, VX}, {false, b, VY}, {true, a, 0}, {false, b, VY2}};
        case 10: return {{false, a, b}, {false, b, c}, {true, a, 0}};
        case 11: return {{false, c, a}, {false, a, b}, {false, c, c}};
        default: return {{false, a, b}, {false, b, c}, {false, c, VX}, {false, VX, VY}, {false, VY, VZ}};
    }
}
// Second family: element / polygon / label tags over {(0,0), (0,1), (1,0)} and tables keyed on them
// that grow past 4 and past 8 entries with the (0,0) entry entered first, in the middle or last.
static const int N_ZTABLES = 13;
static std::vector<TStep> ztable_steps(int m) {
    const Tag z = Z00, o = Z01, p = T10;
    auto fill = [](std::vector<TStep>& v, int from, int n) { for (int i = 0; i < n; i++) v.push_back({false, FK(from + i), FV(from + i)}); };
    std::vector<TStep> v;
    switch (m) {
        case 0: return {{false, z, W0}};
        case 1: return {{false, z, o}, {false, o, p}};                                   // chain through the zero tags
        case 2: return {{false, p, z}, {false, z, p}};                                   // swap with (0,0) as key and value
        case 3: v = {{false, z, W0}, {false, o, W1}}; fill(v, 1, 3); return v;           // 5 entries, (0,0) first
        case 4: fill(v, 1, 2); v.push_back({false, z, W0}); v.push_back({false, o, W1}); fill(v, 3, 1); return v;  // 5, middle
        case 5: fill(v, 1, 3); v.push_back({false, o, W1}); v.push_back({false, z, W0}); return v;                 // 5, last
        case 6: v = {{false, z, W0}, {false, o, W1}, {false, p, Z00}}; fill(v, 1, 6); return v;                    // 9 entries, first
        case 7: fill(v, 1, 5); v.push_back({false, z, W0}); v.push_back({false, o, W1}); fill(v, 6, 2); return v;  // 9, after 1st growth
        case 8: fill(v, 1, 7); v.push_back({false, o, W1}); v.push_back({false, z, W0}); return v;                 // 9, last
        case 9: v = {{false, z, o}, {false, o, p}}; fill(v, 1, 3); return v;             // chain + growth
        case 10: v = {{false, z, W0}}; fill(v, 1, 4); v.push_back({false, z, z}); return v;  // (0,0) withdrawn after growth
        case 11: v = {{false, p, z}, {false, o, W1}}; fill(v, 1, 3); return v;           // (0,0) as a value only, growth
        default: fill(v, 1, 4); v.push_back({false, z, W0}); fill(v, 5, 12); return v;   // 17 entries (third growth), (0,0) fifth
    }
}
struct EnumFamily { Tag al[3]; int ntables; std::vector<TStep> (*steps)(int); };
static EnumFamily enum_family(int fam) {
    if (fam == 0) return {{TA, TB, TC}, N_ETABLES, etable_steps};
    return {{Z00, Z01, T10}, N_ZTABLES, ztable_steps};
}
struct EnumCfg { int fam, nf, nr, f[3], r[3], p; };
static const vf::Radix ENUM_RADIX = {{2, 3, 27, 27, 3}};
static bool enum_decode(int64_t idx, EnumCfg& c) {  // false: not the canonical index of its configuration
    c.fam = (int)(idx / ENUM_RADIX.total());
    std::vector<int> v = ENUM_RADIX.decode(idx % ENUM_RADIX.total());
    c.nf = 2 + v[0];
    c.nr = 1 + v[1];
    for (int i = 0, x = v[2]; i < 3; i++, x /= 3) c.f[i] = x % 3;
    for (int i = 0, x = v[3]; i < 3; i++, x /= 3) c.r[i] = x % 3;
    c.p = v[4];
    for (int i = c.nf; i < 3; i++) if (c.f[i]) return false;
    for (int i = c.nr; i < 3; i++) if (c.r[i]) return false;
    return true;
}
static Cell* enum_cell(const char* name, int nf, const Tag* ft, int nr, const Tag* rt, Tag pt, Tag lt) {
    Cell* c = (Cell*)allocate_clear(sizeof(Cell));
    c->init(name);
    Polygon* p = (Polygon*)allocate_clear(sizeof(Polygon));
    *p = rectangle(Vec2{0, 0}, Vec2{2, 1}, pt);
    c->polygon_array.append(p);
    const double w[3] = {0.5, 0.25, 0.125}, o[3] = {-1, 0, 1};
    FlexPath* f = (FlexPath*)allocate_clear(sizeof(FlexPath));
    f->init(Vec2{0, 5}, (uint64_t)nf, w, o, 0.01, ft);
    f->segment(Vec2{3, 5}, NULL, NULL, false);
    c->flexpath_array.append(f);
    RobustPath* r = (RobustPath*)allocate_clear(sizeof(RobustPath));
    r->init(Vec2{0, 10}, (uint64_t)nr, w, o, 0.01, 1000, rt);
    r->segment(Vec2{4, 10}, NULL, NULL, false);
    c->robustpath_array.append(r);
    Label* l = (Label*)allocate_clear(sizeof(Label));
    l->init(name);
    l->tag = lt;
    c->label_array.append(l);
    return c;
}
static std::string enum_case_json(const EnumCfg& c, int m, int level) {
    EnumFamily F = enum_family(c.fam);
    const Tag* al = F.al;
    std::string ft, rt;
    for (int i = 0; i < c.nf; i++) ft += tagstr(al[c.f[i]]);
    for (int i = 0; i < c.nr; i++) rt += tagstr(al[c.r[i]]);
    return jobj({{"flexpath_element_tags", jstr(ft)}, {"robustpath_element_tags", jstr(rt)}, {"polygon_tag", jstr(tagstr(al[c.p]))}, {"label_tag", jstr(tagstr(al[(c.p + 1) % 3]))},
                 {"table", jstr(m < 0 ? "all" : table_name(F.steps(m)))}, {"call", jstr(level < 0 ? "both" : level ? "Library::remap_tags (library also holds a fixed second cell)" : "Cell::remap_tags")}});
}
static void enum_one(int64_t idx) {
    EnumCfg cfg;
    if (!enum_decode(idx, cfg)) return;
    EnumFamily F = enum_family(cfg.fam);
    const Tag* al = F.al;
    const std::string sub = "remap.enum";
    for (int m = 0; m < F.ntables; m++) {
        std::vector<TStep> steps = F.steps(m);
        std::map<Tag, Tag> am = abstract_map(steps);
        for (int level = 0; level < 2; level++) {
            Tag ft[3], rt[3];
            for (int i = 0; i < 3; i++) { ft[i] = al[cfg.f[i]]; rt[i] = al[cfg.r[i]]; }
            std::vector<Cell*> cells = {enum_cell("E", cfg.nf, ft, cfg.nr, rt, al[cfg.p], al[(cfg.p + 1) % 3])};
            if (level) {
                const Tag f2[3] = {al[2], al[0], al[0]}, r2[3] = {al[0], al[1], al[2]};
                cells.push_back(enum_cell("F", 3, f2, 3, r2, al[2], al[0]));
            }
            std::vector<std::vector<Tag>> want(cells.size());
            std::vector<size_t> nshape(cells.size());
            std::vector<std::string> before(cells.size());
            bool chained = false, later_element = false, zero_key_grown = false;
            for (size_t k = 0; k < cells.size(); k++) {
                real_tags(*cells[k], want[k], nshape[k]);
                before[k] = content_sig(*cells[k]);
                for (auto& t : want[k]) {
                    if (t == Z00 && am.count(Z00) && steps.size() >= 5) zero_key_grown = true;
                    Tag u = apply_once(am, t);
                    if (u != t && apply_once(am, u) != u) chained = true;
                    t = u;
                }
            }
            for (int i = 1; i < cfg.nr; i++) if (apply_once(am, rt[i]) != rt[i]) later_element = true;
            for (int i = 1; i < cfg.nf; i++) if (apply_once(am, ft[i]) != ft[i]) later_element = true;
            TagMap tm = {};
            build_table(steps, tm);
            Library lib = {};
            if (level) {
                for (Cell* c : cells) lib.cell_array.append(c);
                lib.remap_tags(tm);
            } else
                cells[0]->remap_tags(tm);
            tm.clear();
            std::string replay = "sub=remap.enum idx=" + std::to_string(idx);
            JFields base = {{"call", jstr(level ? "Library::remap_tags" : "Cell::remap_tags")}, {"family", jstr(cfg.fam ? "zero-component tags" : "colliding tags")}, {"table", jint(m)}, {"chained_for_this_cell", jbool(chained)}};
            std::set<Tag> lib_s, lib_l;
            for (size_t k = 0; k < cells.size(); k++) {
                std::vector<Tag> got;
                size_t ns;
                real_tags(*cells[k], got, ns);
                if (got != want[k]) {
                    // which element: positions are polygon, flexpath elements, robustpath elements, label
                    size_t pos = 0;
                    while (pos < got.size() && pos < want[k].size() && got[pos] == want[k][pos]) pos++;
                    size_t nfk = cells[k]->flexpath_array[0]->num_elements, nrk = cells[k]->robustpath_array[0]->num_elements;
                    std::string kind = pos == 0 ? "polygon" : pos <= nfk ? "flexpath" : pos <= nfk + nrk ? "robustpath" : "label";
                    int64_t ei = pos == 0 ? 0 : pos <= nfk ? (int64_t)pos - 1 : pos <= nfk + nrk ? (int64_t)(pos - 1 - nfk) : 0;
                    JFields tg = base;
                    tg.push_back({"element_kind", jstr(kind)});
                    tg.push_back({"element_index", jint(ei)});
                    tg.push_back({"num_elements", jint(kind == "flexpath" ? (int64_t)nfk : kind == "robustpath" ? (int64_t)nrk : 1)});
                    R->violation(sub, "remap-element", tg, enum_case_json(cfg, m, level),
                                 std::string("cell '") + cells[k]->name + "': tags after the call are " + tags_str(got) + ", the table applied once to every tag gives " + tags_str(want[k]) + " (order: polygon, flexpath elements, robustpath elements, label)", replay);
                    break;
                }
                if (content_sig(*cells[k]) != before[k]) { R->violation(sub, "remap-content", base, enum_case_json(cfg, m, level), "remap_tags changed something other than tags", replay); break; }
                Set<Tag> st = {}, lt = {};
                cells[k]->get_shape_tags(st);
                cells[k]->get_label_tags(lt);
                std::set<Tag> gs, gl, ms, ml;
                for (SetItem<Tag>* it = st.next(NULL); it; it = st.next(it)) gs.insert(it->value);
                for (SetItem<Tag>* it = lt.next(NULL); it; it = lt.next(it)) gl.insert(it->value);
                bool cnt_ok = st.count == gs.size() && lt.count == gl.size();
                st.clear();
                lt.clear();
                for (size_t i = 0; i < want[k].size(); i++) (i < nshape[k] ? ms : ml).insert(want[k][i]);
                lib_s.insert(ms.begin(), ms.end());
                lib_l.insert(ml.begin(), ml.end());
                if (!cnt_ok || gs != ms || gl != ml) {
                    JFields tg = base;
                    tg.push_back({"level", jstr("cell")});
                    R->violation(sub, "remap-query", tg, enum_case_json(cfg, m, level), "get_shape_tags/get_label_tags of the cell differ from the model's sets", replay);
                    break;
                }
            }
            if (level) {
                Set<Tag> st = {}, lt = {};
                lib.get_shape_tags(st);
                lib.get_label_tags(lt);
                std::set<Tag> gs, gl;
                for (SetItem<Tag>* it = st.next(NULL); it; it = st.next(it)) gs.insert(it->value);
                for (SetItem<Tag>* it = lt.next(NULL); it; it = lt.next(it)) gl.insert(it->value);
                st.clear();
                lt.clear();
                if (gs != lib_s || gl != lib_l) {
                    JFields tg = base;
                    tg.push_back({"level", jstr("library")});
                    R->violation(sub, "remap-query", tg, enum_case_json(cfg, m, level), "Library::get_shape_tags/get_label_tags differ from the model's sets", replay);
                }
                lib.cell_array.clear();
            }
            for (Cell* c : cells) { c->free_all(); free_allocation(c); }
            R->count("cases");
            R->count("remap_enum_cases");
            if (chained || later_element) R->count("nontrivial");
            if (chained) R->count("remap_enum_chained");
            if (later_element) R->count("remap_enum_later_element_remapped");
            if (zero_key_grown) R->count("remap_enum_tag00_remapped_by_grown_table");
        }
    }
}
static void remap_enum() {
    const std::string sub = "remap.enum";
    int64_t n = 2 * ENUM_RADIX.total(), canonical = 0;
    EnumCfg c;
    for (int64_t i = 0; i < n; i++) if (enum_decode(i, c)) canonical++;
    std::vector<std::string> names;
    for (int m = 0; m < N_ETABLES; m++) names.push_back(jstr(table_name(etable_steps(m))));
    R->note("remap.enum tables, family of colliding tags: " + jarr(names));
    names.clear();
    for (int m = 0; m < N_ZTABLES; m++) names.push_back(jstr(table_name(ztable_steps(m))));
    R->note("remap.enum tables, family of zero-component tags (0,0),(0,1),(1,0): " + jarr(names));
    PFOptions opt;
    opt.sub = sub;
    opt.case_timeout_s = 20;
    const int64_t G = 64;  // indices per work item
    int64_t groups = (n + G - 1) / G;
    bool ok = parallel_for(*R, groups, [&](int64_t g) { for (int64_t i = g * G; i < std::min(n, (g + 1) * G); i++) enum_one(i); },
                           [&](int64_t g) { return jobj({{"config_indices", jstr(std::to_string(g * G) + ".." + std::to_string(std::min(n, (g + 1) * G) - 1))}}); },
                           [&](int64_t g) { return "sub=remap.enum group=" + std::to_string(g); }, opt);
    for (int64_t i = n / 2; i < n; i++)
        if (enum_decode(i, c)) { R->sample(sub, enum_case_json(c, 3, 1)); break; }
    R->bound(sub, fmt("2 tag families (3 colliding tags; (0,0),(0,1),(1,0)) x %lld cell configurations each (flexpath 2..3 elements x robustpath 1..3 elements, element tags over the family's 3 tags, polygon, label) x %d / %d tables x {Cell,Library}::remap_tags",
                      (long long)canonical / 2, N_ETABLES, N_ZTABLES), ok,
             canonical / 2 * (N_ETABLES + N_ZTABLES) * 2);
}

int main(int argc, char** argv) {
    Run run("C16", argc, argv);
    R = &run;
    set_error_logger(NULL);
    find_colliding_tags();
    F_RAW12 = run.scratch + "/raw12.gds";
    F_RAW3 = run.scratch + "/raw3.gds";
    F_RAW32 = run.scratch + "/raw32.gds";
    F_RAW6 = run.scratch + "/raw6.gds";
    F_RAW7 = run.scratch + "/raw7.gds";
    write_raw_files();
    if (run.replaying()) {
        std::string sub = run.rarg("sub");
        if (sub == "remap.enum") {
            if (!run.rarg("idx").empty()) enum_one(atoll(run.rarg("idx").c_str()));
            else { int64_t g = atoll(run.rarg("group").c_str()); for (int64_t i = g * 64; i < std::min(2 * ENUM_RADIX.total(), (g + 1) * 64); i++) enum_one(i); }
            return run.finish();
        }
        int k = sub.size() > 10 ? atoi(sub.substr(10).c_str()) : 0;
        GraphSys s(k);
        if (!run.rarg("hist").empty()) replay_hist(run, s, s.sub, parse_hist(run.rarg("hist")));
        else expand_inprocess(run, s, parse_hist(run.rarg("expand")));
        return run.finish();
    }
    if (getenv("C16_BENCH")) {
        for (int k = 0; k < 8; k++) {
            GraphSys s(k);
            double t0 = now();
            for (int i = 0; i < 2000; i++) { World* w = s.make_world(); s.destroy_world(w); }
            double t1 = now();
            for (int i = 0; i < 2000; i++) { World* w = s.make_world(); s.verify(*w, {}, 0); s.destroy_world(w); }
            double t2 = now();
            for (int i = 0; i < 2000; i++) { World* w = s.make_world(); s.canon_world(*w); s.destroy_world(w); }
            double t3 = now();
            fprintf(stderr, "init %d: make+destroy %.1f us, +verify %.1f us, +canon %.1f us\n", k, (t1 - t0) / 2000 * 1e6, (t2 - t1) / 2000 * 1e6, (t3 - t2) / 2000 * 1e6);
        }
        return run.finish();
    }
    bool T = run.thorough();
    int depth = T ? 5 : 3;
    int depth6 = T ? 4 : 2;  // init6 (prefix-related names): string-comparison slips show at depth 1-2; quick stays cheap
    if (getenv("C16_DEPTH")) depth = depth6 = atoi(getenv("C16_DEPTH"));
    if (getenv("C16_DEPTH6")) depth6 = atoi(getenv("C16_DEPTH6"));
    remap_enum();
    run.note("colliding tags (home slot hash(Tag) % 8 from gdstk's own hash): TA=" + tagstr(TA) + fmt(" slot %d, TB=", (int)(hash(TA) % 8)) + tagstr(TB) + fmt(" slot %d, TC=", (int)(hash(TB) % 8)) + tagstr(TC) +
             fmt(" slot %d; remap tables: ", (int)(hash(TC) % 8)) + table_name(0) + " " + table_name(1) + " " + table_name(2) + " " + table_name(3) + " (the last two in init0 and init6 only)");
    run.note(fmt("alphabet: %d operations per state (disabled ones are skipped); depth %d from each of 6 initial libraries, depth %d from the prefix-name library init6", GraphSys(0).nops(), depth, depth6));
    // Scheduling only (no effect on what a completed bound means): the searches run smallest first.
    // WEIGHT = measured relative cost of a depth-5 search (transitions, init5 = 1); one more level
    // costs about GROWTH times the levels before it.  A level that is cut by the deadline is lost
    // entirely, so before each search the harness predicts (from the time per weight unit measured
    // on the searches already finished in this run) whether the requested depth fits into the time
    // that remains after reserving one level less for every search still to come; if it does not,
    // the depth of this search is lowered and the bound that is reported says so.
    const int NI = 8;
    const int order[NI] = {7, 6, 5, 2, 4, 0, 3, 1};
    const double WEIGHT[NI] = {20.8, 18.0, 3.1, 8.6, 6.0, 1.0, 19.7, 3.3};  // indexed by init (init6: extrapolated from depth 4)
    int depth7 = T ? 4 : 3;  // init7 (a Cell outside the library named like a raw cell): small world
    if (getenv("C16_DEPTH")) depth7 = atoi(getenv("C16_DEPTH"));
    auto req = [&](int init) { return init == 6 ? depth6 : init == 7 ? depth7 : depth; };
    const double GROWTH = 7.0;
    double rate = 0, done_weight = 0, done_time = 0;  // seconds per weight unit
    for (int n = 0; n < NI; n++) {
        int k = order[n];
        GraphSys s(k);
        double saved = run.deadline_s;
        const int depth_k = req(k);
        int d = depth_k;
        double avail = saved - run.elapsed();
        if (rate > 0) {
            auto cost = [&](int init, int dd) { return WEIGHT[init] * rate * pow(GROWTH, dd - 5); };
            double reserve = 0;
            for (int m = n + 1; m < NI; m++) reserve += cost(order[m], req(order[m]) - 1);
            while (d > 1 && cost(k, d) * 1.3 > avail - reserve) d--;
            avail = std::max(avail - reserve, cost(k, d) * 1.3);
        } else
            avail = avail / (NI - n);
        run.deadline_s = std::min(saved, run.elapsed() + avail);
        double t0 = now();
        if (T) {
            // vf::bfs records every canonical state as a distinct outcome; at depth 5 that is millions of
            // lines, so each worker keeps only its first 200 (distinct_outcomes becomes a lower bound;
            // the number of distinct canonical states is reported as `states`)
            run.outcomes_sent.clear();
            for (int i = 0; i < 19801; i++) run.outcomes_sent.insert("pad" + std::to_string(i));
        }
        BfsResult r = bfs(run, s, s.sub, d);
        run.deadline_s = saved;
        double dt = now() - t0;
        if (r.complete && r.depth_completed == d) {
            done_weight += WEIGHT[k] * pow(GROWTH, d - 5);
            done_time += dt;
            rate = done_time / done_weight;
        }
        run.note(fmt("%s (%s): depth completed %d (requested %d, scheduled %d), %lld states, %lld transitions, %lld histories expanded, %.1f s%s", s.sub.c_str(), GraphSys::init_name(k), r.depth_completed, depth_k, d,
                     (long long)r.states, (long long)r.transitions, (long long)r.histories, dt, r.complete ? "" : " (cut by the time slice)"));
        if (d < depth_k) {
            run.count("searches_scheduled_below_requested_depth");
            run.note(fmt("%s: depth %d did not fit into the remaining time on this machine (predicted %.0f s, %.0f s left); depth %d was searched instead", s.sub.c_str(), depth_k, WEIGHT[k] * rate * pow(GROWTH, depth_k - 5) * 1.3, saved - run.elapsed() + dt, d));
        }
    }
    return run.finish();
}
