// C02 — OASIS save/load round trip preserves the layout under every writer option.
//
// Engine E2 (vf::parallel_for): bounded exhaustive enumeration of
//     libraries (oas_corpus.hpp)  x  writer configurations (flags x deflate level x circle tolerance)  x  cycles
// Every case builds the library, takes the model of the in-memory library (c02_model.hpp: own struct
// walk, integer grid), calls the real Library::write_oas, checks the file signature with an own
// CRC32 / byte sum and with oas_validate, calls the real read_oas(unit = 0) and compares the model of
// the result with the model of the source; then saves the re-loaded library again with the same
// configuration (cycles 2, 3) and demands that nothing changes any more.
#include <gdstk/gdstk.hpp>
#include <zlib.h>

#include <memory>

#include "c02_model.hpp"
#include "oas_corpus.hpp"
#include "vf.hpp"

using namespace gdstk;
using vf::fmt;
using vf::jbool;
using vf::JFields;
using vf::jint;
using vf::jnum;
using vf::jobj;
using vf::jstr;

static const char* SUB = "oas.roundtrip";

struct Cfg {
    uint16_t flags;
    uint8_t level;
    double tol;
};
static std::string cfg_json(const Cfg& c) { return jobj({{"flags", jstr(fmt("0x%02x", c.flags))}, {"level", jint(c.level)}, {"circle_tolerance", jnum(c.tol)}}); }
static std::string flag_names(uint16_t f) {
    static const char* n[] = {"MAX_COUNTS", "TOP_LEVEL", "BOUNDING_BOX", "CELL_OFFSET", "DETECT_RECTANGLES", "DETECT_TRAPEZOIDS", "CRC32", "CHECKSUM32"};
    std::string s;
    for (int i = 0; i < 8; i++) if (f & (1 << i)) s += std::string(s.empty() ? "" : "|") + n[i];
    return s.empty() ? "none" : s;
}

struct Task {
    int64_t lib;
    std::vector<Cfg> cfgs;
    int cycles;
};

static vf::Run* R;
static bool g_verbose = false;

static std::vector<uint8_t> read_file(const std::string& path) {
    std::vector<uint8_t> b;
    FILE* f = fopen(path.c_str(), "rb");
    if (!f) return b;
    uint8_t buf[65536];
    size_t r;
    while ((r = fread(buf, 1, sizeof buf, f)) > 0) b.insert(b.end(), buf, buf + r);
    fclose(f);
    return b;
}

// oas_validate is known (D3, property C18) not to close its file on the normal paths; the descriptor it
// may leave behind is closed here so that a long enumeration does not run out of descriptors.  This
// does not touch the verdict of C02.
static bool call_validate(const char* file, uint32_t* sig, ErrorCode* ec) {
    int probe = dup(0);
    if (probe >= 0) close(probe);
    bool ok = oas_validate(file, sig, ec);
    if (probe >= 0 && fcntl(probe, F_GETFD) != -1) close(probe);
    return ok;
}

static void report(const std::string& cls, JFields tags, int64_t lib, const Cfg& cfg, int cycle, int cycles, const std::string& detail, const JFields& numbers = {}) {
    const oas_corpus::Info& info = oas_corpus::info(lib);
    // tags hold class-level predicates only (the engine caps the output per class + tag values); the
    // configuration and measurements of the individual case go into the case description
    bool has_cycle = false;
    for (auto& t : tags) if (t.first == "cycle") has_cycle = true;
    if (!has_cycle) tags.push_back({"cycle", jint(cycle)});
    std::string cj = jobj({{"library", jint(lib)}, {"family", jstr(info.family)}, {"member", jstr(info.desc)}, {"flags", jstr(fmt("0x%02x", cfg.flags))}, {"flag_names", jstr(flag_names(cfg.flags))},
                           {"level", jint(cfg.level)}, {"circle_tolerance", jnum(cfg.tol)}, {"cycle", jint(cycle)}, {"measurements", jobj(numbers)}});
    R->violation(SUB, cls, tags, cj, detail, fmt("lib=%lld key=%s flags=%u level=%u tol=%.17g cycles=%d", (long long)lib, oas_corpus::key(lib).c_str(), cfg.flags, cfg.level, cfg.tol, cycles));
    if (g_verbose) fprintf(stderr, "VIOLATION class=%s cycle=%d\n  %s\n", cls.c_str(), cycle, detail.c_str());
}

static bool nontrivial(const oas_corpus::Info& i, const Cfg& c) {
    return ((c.flags & OASIS_CONFIG_DETECT_ALL) && i.detectable) || (c.tol > 0 && i.circle_candidate) || i.has_repetition || i.multi_value_props || i.dangling_ref ||
           (c.level > 0 && (c.flags & (OASIS_CONFIG_INCLUDE_CRC32 | OASIS_CONFIG_INCLUDE_CHECKSUM32)));
}

// returns the number of violations reported for this case
static int run_case(int64_t lib_index, const Cfg& cfg, int cycles) {
    const oas_corpus::Info& info = oas_corpus::info(lib_index);
    int nviol = 0;
    R->count("cases");
    if (nontrivial(info, cfg)) R->count("nontrivial");
    Library* src = oas_corpus::build(lib_index);
    std::string fp0 = c02::source_fingerprint(*src);
    const oas_corpus::Expected& expect = oas_corpus::expected(lib_index);
    c02::Model cur_model = c02::walk(*src, expect.present);
    if (expect.present && cur_model.problems.empty()) {
        // members with a transformation history / non-simple paths: the model of what the file must denote comes
        // from the corpus' own arithmetic on the construction parameters
        c02::Model want = c02::model_from_expected(expect, *src, "A");
        if (expect.all_simple) {
            // the struct walk of the transformed source must tell the same story (otherwise the transformation
            // itself, not the OASIS writer, is at fault: reported under its own class)
            c02::CompareCtx c0;
            c0.cycle = 0;
            for (auto& d : c02::compare(want, cur_model, c0)) {
                report("source_state_vs_construction:" + d.cls, d.tags, lib_index, cfg, 0, cycles, "in-memory path after its transformation history differs from the affine image of its construction parameters: " + d.detail);
                nviol++;
            }
        }
        R->count("cases_with_transformation_history");
        cur_model = want;
    }
    if (!cur_model.problems.empty()) {
        R->internal_error("corpus library " + std::to_string(lib_index) + " is outside the model: " + cur_model.problems[0]);
        oas_corpus::destroy(src);
        return 0;
    }
    if (g_verbose) {
        fprintf(stderr, "library %lld: %s / %s\nconfig: flags=0x%02x (%s) level=%u circle_tolerance=%g\nsource model:\n", (long long)lib_index, info.family.c_str(), info.desc.c_str(), cfg.flags,
                flag_names(cfg.flags).c_str(), cfg.level, cfg.tol);
        fprintf(stderr, "  library properties %s\n", c02::props_str(cur_model.lib_props).c_str());
        for (auto& kv : cur_model.cells) {
            fprintf(stderr, "  cell %s properties %s\n", kv.first.c_str(), c02::props_str(kv.second.props).c_str());
            for (auto& e : kv.second.elems) fprintf(stderr, "    %s\n", e.str().substr(0, 1500).c_str());
        }
    }
    const double src_scaling = src->unit / src->precision;
    // one scratch directory per worker process (a shared directory serialises the 16 workers in the kernel)
    static std::string dir;
    static pid_t dir_pid = 0;
    if (dir_pid != getpid()) {
        dir_pid = getpid();
        dir = R->scratch + fmt("/w%d", (int)dir_pid);
        mkdir(dir.c_str(), 0755);
    }
    std::string file = dir + "/c02.oas";
    Library* cur = src;
    c02::Model first_model;  // model of the library re-loaded in cycle 1
    bool have_first = false, first_load_changed_representation = false;
    std::string outcome = info.family + "|" + fmt("%02x", cfg.flags & 0xf0);
    for (int cycle = 1; cycle <= cycles; cycle++) {
        R->count("roundtrips");
        unlink(file.c_str());
        ErrorCode werr = cur->write_oas(file.c_str(), cfg.tol, cfg.level, cfg.flags);
        if (cycle == 1) {
            std::string fp1 = c02::source_fingerprint(*src);
            if (fp1 != fp0) {
                size_t p = 0;
                while (p < fp0.size() && p < fp1.size() && fp0[p] == fp1[p]) p++;
                size_t a = p > 200 ? p - 200 : 0;
                report("source_mutated", {}, lib_index, cfg, cycle, cycles, "write_oas changed the source library beyond its S_* properties; before: ..." + fp0.substr(a, 500) + " | after: ..." + fp1.substr(a, 500));
                nviol++;
            }
        }
        if (werr != ErrorCode::NoError) {
            report("write_error", {{"error_code", jint((int)werr)}}, lib_index, cfg, cycle, cycles, fmt("write_oas returned error code %d", (int)werr));
            nviol++;
        }
        // ---- signature: own computation over the bytes, then oas_validate
        std::vector<uint8_t> bytes = read_file(file);
        size_t n = bytes.size();
        R->count("file_bytes", (int64_t)n);
        bool want_crc = cfg.flags & OASIS_CONFIG_INCLUDE_CRC32, want_sum = !want_crc && (cfg.flags & OASIS_CONFIG_INCLUDE_CHECKSUM32);
        uint32_t stored = 0;
        if (n < 14 + 256) {
            report("file_too_short", {}, lib_index, cfg, cycle, cycles, fmt("file has %zu bytes: no room for the magic, START and a 256-byte END record", n));
            nviol++;
        } else if (want_crc || want_sum) {
            stored = (uint32_t)bytes[n - 4] | ((uint32_t)bytes[n - 3] << 8) | ((uint32_t)bytes[n - 2] << 16) | ((uint32_t)bytes[n - 1] << 24);
            uint32_t mine;
            if (want_crc) mine = (uint32_t)crc32(crc32(0, NULL, 0), bytes.data(), (uInt)(n - 4));
            else { mine = 0; for (size_t i = 0; i < n - 4; i++) mine += bytes[i]; }
            int scheme = bytes[n - 5];
            if (scheme != (want_crc ? 1 : 2) || mine != stored) {
                report(std::string("signature:") + (want_crc ? "crc32" : "checksum32"), {{"scheme_byte_ok", jbool(scheme == (want_crc ? 1 : 2))}, {"compressed", jbool(cfg.level > 0)}}, lib_index, cfg, cycle, cycles,
                       fmt("validation scheme byte %d (expected %d), stored signature 0x%08x, own %s over the first %zu bytes 0x%08x", scheme, want_crc ? 1 : 2, stored, want_crc ? "CRC32" : "byte sum", n - 4, mine));
                nviol++;
            }
            R->count("files_signed");
        } else if (bytes[n - 1] != 0) {
            report("signature:none", {}, lib_index, cfg, cycle, cycles, fmt("no signature requested but the last byte (validation scheme) is %d", bytes[n - 1]));
            nviol++;
        }
        {
            uint32_t sig = 0xdeadbeef;
            ErrorCode vec = ErrorCode::NoError;
            bool ok = call_validate(file.c_str(), &sig, &vec);
            if (want_crc || want_sum) {
                if (!ok || vec != ErrorCode::NoError || (n >= 5 && sig != stored)) {
                    report("validate:signed", {{"compressed", jbool(cfg.level > 0)}}, lib_index, cfg, cycle, cycles,
                           fmt("oas_validate on a file written with a signature returned %d, error_code %d, signature 0x%08x (stored 0x%08x)", (int)ok, (int)vec, sig, stored));
                    nviol++;
                }
            } else if (!ok || vec != ErrorCode::ChecksumError || sig != 0) {
                report("validate:unsigned", {}, lib_index, cfg, cycle, cycles,
                       fmt("oas_validate on a file written without signature returned %d, error_code %d (documented: true / ChecksumError), signature 0x%08x (documented 0)", (int)ok, (int)vec, sig));
                nviol++;
            }
        }
        // ---- load
        ErrorCode rerr = ErrorCode::NoError;
        Library loaded = read_oas(file.c_str(), 0, 0, &rerr);
        Library* next = (Library*)allocate_clear(sizeof(Library));
        *next = loaded;
        c02::Model next_model = c02::walk(*next);
        ErrorCode expect_rerr = cur_model.dangling ? ErrorCode::MissingReference : ErrorCode::NoError;
        std::vector<c02::Diff> diffs;
        c02::CompareCtx ctx;
        ctx.flags = cfg.flags;
        ctx.cycle = cycle;
        ctx.circle_tolerance_grid = cfg.tol * src_scaling;
        ctx.reader_tolerance_grid = 1;
        diffs = c02::compare(cur_model, next_model, ctx);
        // from the first re-loaded library on, a further save/load must not change the standard properties either
        // (multisets with multiplicities; cycle 1 itself is exempt: the source has none or stale ones)
        // The standard properties in the FIRST file summarise the source; where the first load legitimately changes the
        // representation (a circle accepted within tolerance, a by-name reference resolved to a pointer, an outside cell
        // turned into a by-name reference) the summary of the re-loaded library may differ once: there the chain is
        // compared from the second re-loaded library on (the second save of the SAME library below is always strict).
        // Between the first and second re-loaded library the values that summarise geometry / file layout are exempt as
        // well (first file: un-rounded source; second: library on the grid) - their multiplicities are not.
        if (cycle > 1 && diffs.empty() && !(cycle == 2 && first_load_changed_representation)) diffs = c02::compare_std(cur_model, next_model, cycle, "save_reloaded_library", cycle > 2);
        if (cycle == 1 && (ctx.circles_within_tolerance > 0 || cur_model.representation_changes_on_load)) first_load_changed_representation = true;
        if (rerr != expect_rerr && diffs.empty()) {
            report("read_error", {{"error_code", jint((int)rerr)}}, lib_index, cfg, cycle, cycles, fmt("read_oas reported error code %d, expected %d", (int)rerr, (int)expect_rerr));
            nviol++;
        }
        if (!next_model.problems.empty() && diffs.empty()) {
            report("reloaded_outside_model", {}, lib_index, cfg, cycle, cycles, "re-loaded library: " + next_model.problems[0]);
            nviol++;
        }
        R->count("elements_compared", ctx.elements_compared);
        if (ctx.circles_within_tolerance) { R->count("circles_reloaded_within_tolerance", ctx.circles_within_tolerance); outcome += "|circle"; }
        if (ctx.outlines_equal_modulo_collinear) R->count("path_outlines_equal_after_removing_collinear_vertices", ctx.outlines_equal_modulo_collinear);
        if (ctx.orientation_reversed) { R->count("polygons_reloaded_with_reversed_orientation", ctx.orientation_reversed); outcome += "|reversed"; }
        if (g_verbose) {
            fprintf(stderr, "cycle %d: file %zu bytes, read error code %d; re-loaded model:\n  library properties %s\n", cycle, n, (int)rerr, c02::props_str(next_model.lib_props).c_str());
            for (auto& kv : next_model.cells) {
                fprintf(stderr, "  cell %s properties %s\n", vf::jstr(kv.first).c_str(), c02::props_str(kv.second.props).c_str());
                for (auto& e : kv.second.elems) fprintf(stderr, "    %s\n", e.str().substr(0, 1500).c_str());
            }
            if (ctx.circles_within_tolerance) fprintf(stderr, "  circles within tolerance: %lld, worst deviation %.3Lf grid steps\n", (long long)ctx.circles_within_tolerance, ctx.worst_circle_deviation);
        }
        for (auto& d : diffs) {
            std::string cls = d.cls;
            if (cycle > 1) cls = "cycle" + std::string(cycle == 2 ? "2" : "3+") + ":" + cls;
            report(cls, d.tags, lib_index, cfg, cycle, cycles, d.detail, d.numbers);
            outcome += "|" + cls;
            nviol++;
        }
        if (cycle == 1 && diffs.empty()) { first_model = next_model; have_first = true; }
        if (cur != src) { cur->free_all(); free_allocation(cur); }
        cur = next;
        cur_model = next_model;
        if (!diffs.empty()) break;  // later cycles would only repeat the damage
    }
    // ---- save the SAME in-memory library a second time (write_oas has refreshed its standard properties once
    //      already): the file must load to exactly the library the first save loaded to, standard properties included
    if (have_first && cycles >= 2 && (cfg.flags & OASIS_CONFIG_STANDARD_PROPERTIES) && !info.lattice) {
        R->count("roundtrips");
        R->count("resaves_of_the_same_library");
        c02::Props src_std1 = c02::walk_props(src->properties, true);
        unlink(file.c_str());
        ErrorCode werr = src->write_oas(file.c_str(), cfg.tol, cfg.level, cfg.flags);
        if (werr != ErrorCode::NoError) { report("resave:write_error", {{"error_code", jint((int)werr)}}, lib_index, cfg, 1, cycles, fmt("second write_oas of the same library returned error code %d", (int)werr)); nviol++; }
        std::vector<c02::Diff> diffs;
        c02::compare_std_one(diffs, "library", "source library (in memory)", src_std1, c02::walk_props(src->properties, true), 1, "save_same_library_again_in_memory");
        ErrorCode rerr = ErrorCode::NoError;
        Library loaded = read_oas(file.c_str(), 0, 0, &rerr);
        c02::Model again = c02::walk(loaded);
        c02::CompareCtx ctx;
        ctx.flags = cfg.flags;
        ctx.cycle = 2;
        for (auto& d : c02::compare(first_model, again, ctx)) diffs.push_back(d);
        for (auto& d : c02::compare_std(first_model, again, 1, "save_same_library_again")) diffs.push_back(d);
        for (auto& d : diffs) {
            std::string cls = d.cls.rfind("standard_properties", 0) == 0 ? d.cls : "resave:" + d.cls;
            report(cls, d.tags, lib_index, cfg, 1, cycles, d.detail, d.numbers);
            outcome += "|" + cls;
            nviol++;
        }
        loaded.free_all();
    }
    if (cur != src) { cur->free_all(); free_allocation(cur); }
    oas_corpus::destroy(src);
    unlink(file.c_str());
    R->outcome(SUB, outcome);
    return nviol;
}

// ------------------------------------------------------------------ configuration sets
static const double TOL = 1e-3;
static std::vector<uint16_t> single_flag_sets() {
    std::vector<uint16_t> f = {0, OASIS_CONFIG_DETECT_ALL, 0xFF};
    for (int i = 0; i < 8; i++) f.push_back((uint16_t)(1 << i));
    return f;
}
static std::vector<Cfg> product(const std::vector<uint16_t>& flags, const std::vector<int>& levels, const std::vector<double>& tols) {
    std::vector<Cfg> c;
    for (int l : levels)
        for (double t : tols)
            for (uint16_t f : flags) c.push_back({f, (uint8_t)l, t});
    return c;
}
static std::vector<uint16_t> all_flag_sets() {
    std::vector<uint16_t> f;
    for (int i = 0; i < 256; i++) f.push_back((uint16_t)i);
    return f;
}

static void add_tasks(std::vector<Task>& tasks, int64_t lib, const std::vector<Cfg>& cfgs, size_t chunk, int cycles) {
    for (size_t a = 0; a < cfgs.size(); a += chunk) {
        Task t;
        t.lib = lib;
        t.cycles = cycles;
        t.cfgs.assign(cfgs.begin() + a, cfgs.begin() + std::min(cfgs.size(), a + chunk));
        tasks.push_back(t);
    }
}

static void run_tasks(const std::string& name, const std::string& bound_desc, std::vector<Task>& tasks, double timeout_s) {
    int64_t ncases = 0;
    for (auto& t : tasks) ncases += (int64_t)t.cfgs.size();
    auto body = [&](int64_t i) {
        const Task& t = tasks[i];
        for (auto& c : t.cfgs) run_case(t.lib, c, t.cycles);
    };
    auto describe = [&](int64_t i) {
        const Task& t = tasks[i];
        std::vector<std::string> cs;
        for (size_t k = 0; k < t.cfgs.size() && k < 4; k++) cs.push_back(cfg_json(t.cfgs[k]));
        return jobj({{"library", oas_corpus::describe(t.lib)}, {"configurations_in_chunk", jint((int64_t)t.cfgs.size())}, {"first_configurations", vf::jarr(cs)}, {"cycles", jint(t.cycles)}});
    };
    auto replay_of = [&](int64_t i) {
        const Task& t = tasks[i];
        std::string s = fmt("lib=%lld key=%s cycles=%d chunk=", (long long)t.lib, oas_corpus::key(t.lib).c_str(), t.cycles);
        for (size_t k = 0; k < t.cfgs.size(); k++) s += fmt("%s%u/%u/%g", k ? "," : "", t.cfgs[k].flags, t.cfgs[k].level, t.cfgs[k].tol);
        return s;
    };
    double t0 = vf::now();
    bool ok = vf::parallel_for(*R, (int64_t)tasks.size(), body, describe, replay_of, vf::PFOptions{timeout_s, SUB, true});
    // for a bound cut short by the deadline only the planned size is known here (the executed cases are in the counters)
    R->bound(name, bound_desc, ok, ok ? ncases : 0, {{"planned_cases", jint(ncases)}, {"tasks", jint((int64_t)tasks.size())}, {"wall_s", jnum(vf::now() - t0)}});
}

int main(int argc, char** argv) {
    vf::Run run("C02", argc, argv);
    R = &run;
    set_error_logger(NULL);
    const int64_t N = oas_corpus::count();

    if (run.replaying()) {
        g_verbose = true;
        run.max_viol_per_class = 1000;
        int64_t lib = atoll(run.rarg("lib").c_str());
        int cycles = atoi(run.rarg("cycles").c_str());
        if (cycles < 1) cycles = 1;
        if (!run.rarg("key").empty()) {
            lib = oas_corpus::find_key(run.rarg("key"));  // the index may have shifted since the replay file was written
            if (lib < 0) { run.internal_error("replay: the corpus no longer contains the library with key " + run.rarg("key")); run.finish(); return 2; }
        }
        if (lib < 0 || lib >= N) { run.internal_error("replay: no such library"); run.finish(); return 2; }
        std::vector<Cfg> cfgs;
        std::string chunk = run.rarg("chunk");
        if (!chunk.empty()) {
            size_t p = 0;
            while (p < chunk.size()) {
                size_t e = chunk.find(',', p);
                if (e == std::string::npos) e = chunk.size();
                unsigned f, l;
                double t;
                if (sscanf(chunk.substr(p, e - p).c_str(), "%u/%u/%lf", &f, &l, &t) == 3) cfgs.push_back({(uint16_t)f, (uint8_t)l, t});
                p = e + 1;
            }
        } else {
            cfgs.push_back({(uint16_t)atoi(run.rarg("flags").c_str()), (uint8_t)atoi(run.rarg("level").c_str()), atof(run.rarg("tol").c_str())});
        }
        int total = 0;
        for (auto& c : cfgs) total += run_case(lib, c, cycles);
        fprintf(stderr, "replay: %d violation(s)\n", total);
        run.finish();
        return total ? 1 : 0;
    }

    // ---- corpus summary
    std::map<std::string, int64_t> fam;
    int64_t n_single = 0, n_rep = 0, n_reduced = 0, n_lattice = 0;
    for (int64_t i = 0; i < N; i++) {
        const oas_corpus::Info& f = oas_corpus::info(i);
        fam[f.family]++;
        if (f.lattice) n_lattice++;
        if (f.single) n_single++; else n_rep++;
        if (f.reduced) n_reduced++;
    }
    {
        std::string s = fmt("corpus: %lld libraries (%lld single-element of which %lld on the 4x4 detection lattice, %lld multi-element, %lld in the reduced alphabet); families:", (long long)N, (long long)n_single,
                            (long long)n_lattice, (long long)n_rep, (long long)n_reduced);
        for (auto& kv : fam) s += " " + kv.first + "=" + std::to_string(kv.second);
        run.note(s);
    }
    {
        std::set<std::string> keys;
        for (int64_t i = 0; i < N; i++)
            if (!keys.insert(oas_corpus::key(i)).second) run.internal_error("corpus members " + oas_corpus::describe(i) + " and an earlier one share a key");
    }
    for (int64_t i : {(int64_t)0, N / 3, N - 2}) run.sample(SUB, oas_corpus::describe(i));

    const bool thorough = run.thorough();
    std::vector<double> both_tols = {0, TOL};
    std::vector<int> all_levels = {0, 1, 2, 3, 4, 5, 6, 7, 8, 9};
    auto interleave = [](std::vector<std::vector<Task>>& per_lib, std::vector<Task>& tasks) {
        // smallest first: one chunk of every library before the next chunk of any
        for (size_t k = 0;; k++) {
            bool any = false;
            for (auto& t : per_lib) if (k < t.size()) { tasks.push_back(t[k]); any = true; }
            if (!any) break;
        }
    };
    auto is_single = [](const oas_corpus::Info& f) { return !f.heavy && f.family.rfind("single.", 0) == 0; };

    // ---- 1. every single-element library outside the lattice family x {0, DETECT_ALL, all flags, each single flag} x levels
    {
        std::vector<int> levels = thorough ? std::vector<int>{0, 1, 9} : std::vector<int>{0, 6};
        int cycles = thorough ? 3 : 2;
        std::vector<Task> tasks;
        int64_t nlibs = 0;
        for (int64_t i = 0; i < N; i++) {
            const oas_corpus::Info& f = oas_corpus::info(i);
            if (!is_single(f) || f.lattice) continue;
            nlibs++;
            std::vector<double> tols = f.circle_family ? std::vector<double>{0, TOL, 1e-2} : f.many_vertices ? both_tols : std::vector<double>{0};
            // quick: the many-vertex circle / partial-disc members only under the flag sets that can interact with circle detection
            std::vector<uint16_t> fsets = (!thorough && f.circle_family) ? std::vector<uint16_t>{0, OASIS_CONFIG_DETECT_ALL, 0xFF, OASIS_CONFIG_INCLUDE_CRC32} : single_flag_sets();
            add_tasks(tasks, i, product(fsets, levels, tols), 11, cycles);
        }
        run_tasks("singles", fmt("%lld single-element libraries (every family except the lattice polygons) x flag sets {0, DETECT_ALL, 0xFF, each single flag} x level {%s} x circle tolerance {0; and 1e-3 when a polygon has > 4 vertices; and 1e-2 for the circle / near-circle / partial-disc families%s} x %d cycles",
                                 (long long)nlibs, thorough ? "0,1,9" : "0,6", thorough ? "" : ", those families under flag sets {0, DETECT_ALL, 0xFF, CRC32} only", cycles),
                  tasks, 20);
    }
    // ---- 2. representative libraries (thorough: the whole reduced alphabet) x all 256 flag sets x levels x both tolerances
    if (!run.out_of_time()) {
        std::vector<int> levels = thorough ? all_levels : std::vector<int>{0, 6};
        int cycles = thorough ? 3 : 2;
        std::vector<Task> tasks;
        std::vector<Cfg> cfgs = product(all_flag_sets(), levels, both_tols);
        int64_t nlibs = 0;
        std::vector<std::vector<Task>> per_lib;
        for (int64_t i = 0; i < N; i++) {
            const oas_corpus::Info& f = oas_corpus::info(i);
            if (f.heavy) continue;
            bool take = thorough ? f.reduced : f.family.rfind("rep.", 0) == 0;
            if (!take) continue;
            nlibs++;
            std::vector<Task> t;
            add_tasks(t, i, cfgs, 64, cycles);
            per_lib.push_back(t);
        }
        interleave(per_lib, tasks);
        run_tasks(thorough ? "reduced_alphabet_x_5120" : "representatives_x_1024",
                  fmt("%lld %s x all 256 flag sets x level {%s} x circle tolerance {0, 1e-3} (= %zu configurations) x %d cycles", (long long)nlibs,
                      thorough ? "libraries of the reduced alphabet (representatives + one member per kind and state-bearing attribute)" : "representative multi-element libraries", thorough ? "0..9" : "0,6", cfgs.size(),
                      cycles),
                  tasks, 30);
    }
    // ---- 2b. cycle dimension of the standard properties: libraries with >= 2 top-level cells x every subset of the four
    //      standard-property flags (each alone, every pair, ...) x {no signature, CRC32} x level {0,6} x 4 cycles
    //      (+ the second save of the same in-memory library in every case)
    if (!run.out_of_time()) {
        std::vector<Task> tasks;
        std::vector<uint16_t> fl;
        for (int f = 0; f < 16; f++) { fl.push_back((uint16_t)f); fl.push_back((uint16_t)(f | OASIS_CONFIG_INCLUDE_CRC32)); }
        std::vector<Cfg> cfgs = product(fl, thorough ? all_levels : std::vector<int>{0, 6}, {0});
        int64_t nlibs = 0;
        for (int64_t i = 0; i < N; i++) {
            if (!oas_corpus::info(i).multi_top) continue;
            nlibs++;
            add_tasks(tasks, i, cfgs, 16, 4);
        }
        run_tasks("standard_property_cycles", fmt("%lld libraries with >= 2 top-level cells (fresh, and with stale S_* runs at the head / in the middle of the property lists) x all 16 subsets of the standard-property flags x {no signature, CRC32} x level {%s} x 4 save/load cycles + second save of the same in-memory library",
                                                  (long long)nlibs, thorough ? "0..9" : "0,6"),
                  tasks, 30);
    }
    // ---- 3. the 4x4 lattice family (every triangle / every quadrilateral with two axis-parallel sides)
    if (!run.out_of_time()) {
        std::vector<Task> tasks;
        int64_t nlibs = 0;
        std::vector<Cfg> once, twice;
        if (thorough) {
            twice = product(single_flag_sets(), {0, 1, 9}, {0});
        } else {
            for (auto& c : product({0, OASIS_CONFIG_DETECT_RECTANGLES, OASIS_CONFIG_DETECT_TRAPEZOIDS, OASIS_CONFIG_DETECT_ALL, 0xFF}, {0, 6}, {0})) {
                bool two = (c.flags == OASIS_CONFIG_DETECT_ALL && c.level == 0) || (c.flags == 0xFF && c.level == 6);
                (two ? twice : once).push_back(c);
            }
        }
        for (int64_t i = 0; i < N; i++) {
            if (!oas_corpus::info(i).lattice) continue;
            nlibs++;
            if (!once.empty()) add_tasks(tasks, i, once, 64, 1);
            add_tasks(tasks, i, twice, 64, 2);
        }
        run_tasks("lattice", thorough ? fmt("%lld lattice polygons (each its own library) x flag sets {0, DETECT_ALL, 0xFF, each single flag} x level {0,1,9} x 2 cycles", (long long)nlibs)
                                      : fmt("%lld lattice polygons (each its own library) x flag sets {0, RECT, TRAP, DETECT_ALL, 0xFF} x level {0,6}; 1 cycle, DETECT_ALL/level 0 and 0xFF/level 6 with 2 cycles (the other single flags: thorough tier)", (long long)nlibs),
                  tasks, 20);
    }
    // ---- 4. thorough: the heavy library (buffer growth inside a CBLOCK) under a few configurations
    if (thorough && !run.out_of_time()) {
        std::vector<Task> tasks;
        for (int64_t i = 0; i < N; i++) {
            if (!oas_corpus::info(i).heavy) continue;
            std::vector<Cfg> cfgs = product({0, 0xFF, OASIS_CONFIG_INCLUDE_CRC32, OASIS_CONFIG_INCLUDE_CHECKSUM32}, {0, 1, 6, 9}, {0});
            cfgs.push_back({0xFF, 6, TOL});
            add_tasks(tasks, i, cfgs, 1, 2);
        }
        run_tasks("heavy", "heavy library (30000 polygons in one cell) x flags {0, 0xFF, CRC32, CHECKSUM32} x level {0,1,6,9} (+ 0xFF/6/1e-3) x 2 cycles", tasks, 300);
    }
    // ---- 5. thorough: every other single-element library outside the lattice family x all 5120 configurations, 1 cycle
    if (thorough && !run.out_of_time()) {
        std::vector<Task> tasks;
        std::vector<Cfg> cfgs = product(all_flag_sets(), all_levels, both_tols);
        int64_t nlibs = 0;
        std::vector<std::vector<Task>> per_lib;
        for (int64_t i = 0; i < N; i++) {
            const oas_corpus::Info& f = oas_corpus::info(i);
            if (!is_single(f) || f.lattice || f.reduced) continue;
            nlibs++;
            std::vector<Task> t;
            add_tasks(t, i, cfgs, 256, 1);
            per_lib.push_back(t);
        }
        interleave(per_lib, tasks);
        run_tasks("singles_x_5120", fmt("%lld single-element libraries outside the lattice family and the reduced alphabet x all 5120 configurations x 1 cycle", (long long)nlibs), tasks, 60);
    }
    // ---- 6. thorough: the lattice family x {RECT} x {TRAP} x {CRC32} x {all standard-property flags} x every level
    if (thorough && !run.out_of_time()) {
        std::vector<Task> tasks;
        std::vector<uint16_t> fl;
        for (int r = 0; r < 2; r++) for (int t = 0; t < 2; t++) for (int s = 0; s < 2; s++) for (int p = 0; p < 2; p++)
            fl.push_back((uint16_t)((r ? 0x10 : 0) | (t ? 0x20 : 0) | (s ? 0x40 : 0) | (p ? 0x0F : 0)));
        std::vector<Cfg> cfgs = product(fl, all_levels, {0});
        int64_t nlibs = 0;
        for (int64_t i = 0; i < N; i++) {
            if (!oas_corpus::info(i).lattice) continue;
            nlibs++;
            add_tasks(tasks, i, cfgs, 160, 1);
        }
        run_tasks("lattice_x_detect_flags_x_levels", fmt("%lld lattice polygons x {RECT} x {TRAP} x {CRC32} x {all standard-property flags} x level 0..9 x 1 cycle", (long long)nlibs), tasks, 60);
    }
    return run.finish();
}
