// C14 — point-in-polygon queries and polygon measures are exact.       DESIGN.md section 2/C14.
// Engine E2 (vf::parallel_for): bounded exhaustive enumeration on the real gdstk code.
//
//  sub-check "point"        every vertex list of length n on the g x g integer grid x every query point
//                           of the half-integer grid covering [-1, g]^2 : Polygon::contain vs the exact
//                           __int128 predicate  on_boundary || winding != 0  (engine/exactgeom.hpp).
//  sub-check "measure"      every such list x a fixed set of repetitions of every kind (zero counts,
//                           empty explicit lists, duplicates): signed_area / area / perimeter vs the
//                           integer shoelace sum (exact) and the long-double edge sum (1e-12 relative),
//                           multiplied by the harness's own count of repetition copies.
//  sub-check "group.single" every list (n<=3) x every point list of length <= L: contain_all /
//                           contain_any vs AND / OR of the single-point answer (also with every
//                           repetition variant attached, which changes the bounding-box pre-filter).
//  sub-check "group.multi"  every group of 0, 1 or 2 lists (ordered pairs) x every point list of length
//                           <= L: inside / all_inside / any_inside vs per-point OR, AND of OR, OR of OR.
//
// The "single-polygon answer" of the group checks is the real Polygon::contain table of the list,
// which is itself cross-checked against the exact oracle when the table is built ("group.table").
#include <gdstk/gdstk.hpp>

#include "exactgeom.hpp"
#include "vf.hpp"

using namespace gdstk;
using namespace vf;

static Run* R;

// ------------------------------------------------------------------------------------------ helpers
// All coordinates are kept in half units (int): vertex k -> 2k, query h -> h/2.  Doubles handed to
// gdstk are h * 0.5, exactly representable, so every cross product in Polygon::contain is exact.
//
// Family "wide_mantissa" (fam 1, 2): the same integer grid multiplied by a unit u = M / 2^s with a 27/28-bit odd
// M (u1 = (2^27+1)/2^10, u2 = (2^26+5)/2^8).  Every coordinate k*u/2 is exactly representable, differences of
// coordinates are exact, but the PRODUCTS formed by the cross product in Polygon::contain need more than 53
// bits and are rounded: a query point exactly on a slanted edge gives two equal real products, which only
// cancel if both are rounded the same way.  Query points: the half-grid points h*u/2 (edge interiors such as
// midpoints and k-th division points, vertices, off-edge points) and each of them displaced by (dx,dy)*2^-28,
// dx,dy in {-1,0,1}: "just off the edge" on either side.  The oracle works on integers: every double is a
// multiple of 2^-28, so coordinates scaled by 2^28 are int64 (< 2^49) and eg::cross is exact in __int128.
// The displacement is chosen so that plain double arithmetic provably decides these points: the true
// determinant is at least 2^-28 * u >= 2^-11 (u1) / 2^-10 (u2) in magnitude while the two rounded products
// (magnitude <= (4.5 u)^2) carry at most 2^-14 / 2^-12 of error.
struct Grid {
    int g;
    int fam = 0;           // 0: unit 1 (exact products); 1, 2: wide_mantissa units
    double unit = 1.0;     // vertex k -> k * unit
    int64_t W = 1;         // oracle integer units per half grid step
    int ndisp = 1;         // 1, or 9 displacements (dx,dy) in {-1,0,1}^2 of one oracle unit (2^-28)
    double delta = 0;      // one oracle unit as a double
    int nv() const { return g * g; }
    int qlo() const { return -2; }
    int qn() const { return 2 * g + 3; }  // -2 .. 2g  (box [0, g-1] extended by one unit)
    int ncell() const { return qn() * qn(); }
    int nq() const { return ncell() * ndisp; }
    bool wide() const { return fam == 1 || fam == 2; }
    bool scaled() const { return fam >= 3; }  // tiny_magnitude / huge_magnitude: unit is a power of two, all arithmetic stays exact
    const char* family_tag() const { return fam == 0 ? "unit_grid" : wide() ? "wide_mantissa" : fam == 5 ? "huge_magnitude" : "tiny_magnitude"; }
    std::string subprefix() const { return fam == 0 ? std::string() : wide() ? fmt("wide_mantissa.u%d.", fam) : fam == 3 ? "tiny_magnitude.2^-50." : fam == 4 ? "tiny_magnitude.2^-40." : "huge_magnitude.2^40."; }
    int hx(int qi) const { return qlo() + (qi / ndisp) / qn(); }
    int hy(int qi) const { return qlo() + (qi / ndisp) % qn(); }
    int dx(int qi) const { return ndisp == 1 ? 0 : (qi % ndisp) / 3 - 1; }
    int dy(int qi) const { return ndisp == 1 ? 0 : (qi % ndisp) % 3 - 1; }
    eg::P q(int qi) const { return eg::P{hx(qi) * W + dx(qi), hy(qi) * W + dy(qi)}; }
    Vec2 qv(int qi) const { return Vec2{hx(qi) * (unit * 0.5) + dx(qi) * delta, hy(qi) * (unit * 0.5) + dy(qi) * delta}; }
    std::string qjson(int qi) const {
        if (scaled()) return fmt("[\"%g x %s = %.17g\",\"%g x %s = %.17g\"]", hx(qi) * 0.5, family() + 15, qv(qi).x, hy(qi) * 0.5, family() + 15, qv(qi).y);
        if (!wide()) return "[" + jnum(hx(qi) * 0.5) + "," + jnum(hy(qi) * 0.5) + "]";
        return fmt("[\"%d/2 u%+d*2^-28 = %.17g\",\"%d/2 u%+d*2^-28 = %.17g\"]", hx(qi), dx(qi), qv(qi).x, hy(qi), dy(qi), qv(qi).y);
    }
    const char* family() const {
        return fam == 0 ? "unit_grid" : fam == 1 ? "wide_mantissa u=(2^27+1)/2^10" : fam == 2 ? "wide_mantissa u=(2^26+5)/2^8" : fam == 3 ? "tiny_magnitude 2^-50" : fam == 4 ? "tiny_magnitude 2^-40" : "huge_magnitude 2^40";
    }
};
static Grid make_grid(int g, int fam) {
    Grid G;
    G.g = g;
    G.fam = fam;
    if (fam == 1) { G.unit = 134217729.0 / 1024.0; G.W = 134217729LL << 17; }   // u/2 = M / 2^11 = M * 2^17 * 2^-28
    if (fam == 2) { G.unit = 67108869.0 / 256.0; G.W = 67108869LL << 19; }      // u/2 = M / 2^9  = M * 2^19 * 2^-28
    if (fam == 1 || fam == 2) { G.ndisp = 9; G.delta = ldexp(1.0, -28); }
    // tiny_magnitude / huge_magnitude: the unit grid multiplied by a power of two.  Every value and every product
    // is exact, the oracle stays in half grid units (scale by 2^50 / 2^40 / 2^-40 is implicit), and every half-grid
    // query point is a lattice neighbour (within a few lattice steps) of every vertex, the last one included.
    if (fam == 3) G.unit = ldexp(1.0, -50);
    if (fam == 4) G.unit = ldexp(1.0, -40);
    if (fam == 5) G.unit = ldexp(1.0, 40);
    return G;
}
static int64_t ipow(int64_t b, int e) { int64_t r = 1; while (e-- > 0) r *= b; return r; }

struct VList {
    int n = 0;
    int vx[8], vy[8];  // integer grid coordinates
    Vec2 pts[8];
    eg::Poly P;  // half units
    void decode(const Grid& G, int n_, int64_t idx) {
        n = n_;
        P.resize(n);
        for (int i = 0; i < n; i++) {
            int v = (int)(idx % G.nv());
            idx /= G.nv();
            vx[i] = v / G.g;
            vy[i] = v % G.g;
            pts[i] = Vec2{vx[i] * G.unit, vy[i] * G.unit};
            P[i] = eg::P{2 * vx[i] * G.W, 2 * vy[i] * G.W};
        }
    }
    std::string json() const {
        std::vector<std::string> v;
        for (int i = 0; i < n; i++) v.push_back(fmt("[%d,%d]", vx[i], vy[i]));
        return jarr(v);
    }
    // a real Polygon whose point array aliases pts (never cleared)
    void bind(Polygon& poly) {
        memset(&poly, 0, sizeof poly);
        poly.point_array.items = n ? pts : NULL;
        poly.point_array.count = n;
        poly.point_array.capacity = n;
    }
};

// "self-intersecting or degenerate": anything that is not a simple polygon (collinear runs allowed)
static bool not_simple(const eg::Poly& P) { return P.size() >= 3 && !eg::is_simple(P, true); }

// ------------------------------------------------------------------------------------------ repetitions
struct RepVar {
    std::string name, kind;
    Repetition rep;
    uint64_t own_count;  // copies denoted, counted by the harness; multiplier = own_count (1 for None)
    bool zero_count;
};
static std::vector<RepVar> REPS;
static void add_rect(uint64_t c, uint64_t r, Vec2 sp) {
    RepVar v;
    memset(&v.rep, 0, sizeof v.rep);
    v.kind = "rectangular";
    v.name = fmt("rectangular %llux%llu spacing (%g,%g)", (unsigned long long)c, (unsigned long long)r, sp.x, sp.y);
    v.rep.type = RepetitionType::Rectangular;
    v.rep.columns = c; v.rep.rows = r; v.rep.spacing = sp;
    v.own_count = 0;
    for (uint64_t i = 0; i < c; i++) for (uint64_t j = 0; j < r; j++) v.own_count++;
    v.zero_count = v.own_count == 0;
    REPS.push_back(v);
}
static void add_regular(uint64_t c, uint64_t r, Vec2 v1, Vec2 v2) {
    RepVar v;
    memset(&v.rep, 0, sizeof v.rep);
    v.kind = "regular";
    v.name = fmt("regular %llux%llu v1 (%g,%g) v2 (%g,%g)", (unsigned long long)c, (unsigned long long)r, v1.x, v1.y, v2.x, v2.y);
    v.rep.type = RepetitionType::Regular;
    v.rep.columns = c; v.rep.rows = r; v.rep.v1 = v1; v.rep.v2 = v2;
    v.own_count = 0;
    for (uint64_t i = 0; i < c; i++) for (uint64_t j = 0; j < r; j++) v.own_count++;
    v.zero_count = v.own_count == 0;
    REPS.push_back(v);
}
static void add_explicit(std::vector<Vec2> offs) {
    RepVar v;
    memset(&v.rep, 0, sizeof v.rep);
    v.kind = "explicit";
    v.name = "explicit [";
    v.rep.type = RepetitionType::Explicit;
    for (auto& o : offs) { v.rep.offsets.append(o); v.name += fmt("(%g,%g)", o.x, o.y); }
    v.name += "]";
    v.own_count = 1 + offs.size();
    v.zero_count = false;
    REPS.push_back(v);
}
static void add_explicit_xy(bool x, std::vector<double> cs) {
    RepVar v;
    memset(&v.rep, 0, sizeof v.rep);
    v.kind = x ? "explicit_x" : "explicit_y";
    v.name = v.kind + " [";
    v.rep.type = x ? RepetitionType::ExplicitX : RepetitionType::ExplicitY;
    for (auto c : cs) { v.rep.coords.append(c); v.name += fmt("%g ", c); }
    v.name += "]";
    v.own_count = 1 + cs.size();
    v.zero_count = false;
    REPS.push_back(v);
}
static void build_reps() {
    RepVar none;
    memset(&none.rep, 0, sizeof none.rep);
    none.name = none.kind = "none";
    none.own_count = 1;
    none.zero_count = false;
    REPS.push_back(none);
    add_rect(1, 1, Vec2{1.5, -2});
    add_rect(2, 3, Vec2{1.5, -2});
    add_rect(5, 1, Vec2{-2, 0});
    add_rect(0, 2, Vec2{1.5, 1.5});
    add_rect(3, 0, Vec2{1.5, 1.5});
    add_regular(2, 2, Vec2{1, 1}, Vec2{-2, 1});
    add_regular(1, 5, Vec2{0, 0}, Vec2{0, -1.5});
    add_regular(0, 0, Vec2{1, 0}, Vec2{0, 1});
    add_explicit({});
    add_explicit({Vec2{1, 1}});
    add_explicit({Vec2{0, 0}, Vec2{2, -1}, Vec2{2, -1}});
    add_explicit_xy(true, {});
    add_explicit_xy(true, {1, -2, 1});
    add_explicit_xy(false, {0.5});
    add_explicit_xy(false, {-2, 0, 1, 1});
}

// ------------------------------------------------------------------------------------------ point + measure
struct Acc {  // per-chunk counters, flushed once
    int64_t cases = 0, nontrivial = 0, point_tests = 0, measure_tests = 0, on_boundary = 0, vertex_row = 0, inside_cnt = 0, outside_cnt = 0, wind_ge2 = 0, wind_even_nonzero = 0,
            wind_neg = 0, lists_not_simple = 0, lists = 0, rep_zero_count = 0, wide_tests = 0, wide_on_boundary = 0, wide_displaced = 0;
    void flush() {
        R->count("cases", cases);
        R->count("nontrivial", nontrivial);
        R->count("point_tests", point_tests);
        R->count("measure_tests", measure_tests);
        R->count("pt_on_boundary", on_boundary);
        R->count("pt_on_row_of_a_vertex", vertex_row);
        R->count("pt_inside", inside_cnt);
        R->count("pt_outside", outside_cnt);
        R->count("pt_abs_winding_ge_2", wind_ge2);
        R->count("pt_even_nonzero_winding", wind_even_nonzero);
        R->count("pt_negative_winding", wind_neg);
        R->count("lists", lists);
        R->count("lists_self_intersecting_or_degenerate", lists_not_simple);
        R->count("measure_tests_zero_count_lattice", rep_zero_count);
        if (wide_tests) {
            R->count("wide_mantissa_point_tests", wide_tests);
            R->count("wide_mantissa_pt_on_boundary", wide_on_boundary);
            R->count("wide_mantissa_pt_displaced_by_2^-28", wide_displaced);
        }
    }
};

// A defect that affects a whole family produces 10^7..10^8 failing cases; only the first 200 per (family, check
// site) and process are rendered (the engine caps what is emitted anyway), the rest are counted.
static bool detail_budget(int fam, int site) {
    static int64_t used[8][4];
    return ++used[fam & 7][site & 3] <= 200;
}
static void count_only(const char* key) { R->count("violations_total"); R->count(key); }
static std::string list_replay(const Grid& G, int n, int64_t idx) { return fmt("g=%d fam=%d n=%d idx=%lld", G.g, G.fam, n, (long long)idx); }

// one (list, query) point test; returns false on mismatch
static bool point_case(const Grid& G, VList& L, Polygon& poly, int n, int64_t idx, int qi, bool ns, uint32_t rowmask, Acc& a, bool verbose) {
    eg::P q = G.q(qi);
    bool onb = eg::on_boundary(L.P, q);
    int w = onb ? 0 : eg::winding(L.P, q);
    bool expect = onb || w != 0;
    bool got = poly.contain(G.qv(qi));
    a.cases++;
    a.point_tests++;
    int hy = G.hy(qi);
    bool row = G.dy(qi) == 0 && hy >= 0 && (hy & 1) == 0 && (rowmask >> (hy / 2) & 1);
    if (G.wide()) {
        a.wide_tests++;
        if (onb) a.wide_on_boundary++;
        if (G.dx(qi) || G.dy(qi)) a.wide_displaced++;
    }
    if (onb) a.on_boundary++;
    if (row) a.vertex_row++;
    if (onb || row || ns) a.nontrivial++;
    if (expect) a.inside_cnt++; else a.outside_cnt++;
    if (w >= 2 || w <= -2) a.wind_ge2++;
    if (w != 0 && w % 2 == 0) a.wind_even_nonzero++;
    if (w < 0) a.wind_neg++;
    if (verbose) fprintf(stderr, "list %s query %s: on_boundary=%d winding=%d expected=%d contain()=%d\n", L.json().c_str(), G.qjson(qi).c_str(), onb, w, expect, got);
    if (got == expect) return true;
    if (!detail_budget(G.fam, 0)) { count_only(expect ? "viol:point/contain-false-negative" : "viol:point/contain-false-positive"); return false; }
    R->violation("point", expect ? "contain-false-negative" : "contain-false-positive",
                 {{"n", jint(n)}, {"on_boundary", jbool(onb)}, {"winding", jint(w)}, {"on_vertex_row", jbool(row)}, {"self_intersecting_or_degenerate", jbool(ns)}, {"family", jstr(G.family_tag())}},
                 jobj({{"points", L.json()}, {"coordinates_in_units_of", jstr(G.family())}, {"query", G.qjson(qi)}, {"grid", jint(G.g)}}),
                 fmt("Polygon::contain returned %d; exact oracle: on_boundary=%d winding=%d => %d", got, onb, w, expect), "sub=point " + list_replay(G, n, idx) + fmt(" qi=%d", qi));
    return false;
}

static void measure_case(const Grid& G, VList& L, Polygon& poly, int n, int64_t idx, int ri, bool ns, Acc& a, bool verbose) {
    const RepVar& rv = REPS[ri];
    poly.repetition = rv.rep;  // shallow: the arrays stay owned by REPS
    // unit grid: P is in half units, a2 = 2 * area * 4, a small integer: everything below is exact.
    // wide_mantissa: the shoelace terms inside gdstk are rounded products; the exact value is formed from the
    // integer grid coordinates (times unit^2 in long double) and compared to 1e-12 of (grid extent * unit)^2.
    eg::i128 a2 = 0;
    if (n >= 3)
        for (int i = 0; i < n; i++) { int j = (i + 1) % n; a2 += (eg::i128)L.vx[i] * L.vy[j] - (eg::i128)L.vx[j] * L.vy[i]; }  // 2 * area in grid units
    double exp_signed = G.wide() ? (double)((long double)(int64_t)a2 * 0.5L * (long double)G.unit * (long double)G.unit) : (double)(int64_t)a2 / 2.0 * G.unit * G.unit;  // power-of-two (or 1) unit: exact
    double mult = (double)rv.own_count;
    double exp_area = fabs(exp_signed) * mult;
    long double per = 0;
    if (n >= 3)
        for (int i = 0; i < n; i++) {
            int j = (i + 1) % n;
            long double dx = L.vx[j] - L.vx[i], dy = L.vy[j] - L.vy[i];
            per += sqrtl(dx * dx + dy * dy);
        }
    per *= (long double)G.unit;
    long double exp_per = per * (long double)rv.own_count;
    double got_signed = poly.signed_area(), got_area = poly.area(), got_per = poly.perimeter();
    memset(&poly.repetition, 0, sizeof poly.repetition);
    a.cases++;
    a.measure_tests++;
    if (rv.zero_count) a.rep_zero_count++;
    if (ns || ri != 0) a.nontrivial++;
    if (verbose)
        fprintf(stderr, "list %s repetition {%s}: signed_area %.17g (expected %.17g) area %.17g (expected %.17g) perimeter %.17g (expected %.17Lg)\n", L.json().c_str(), rv.name.c_str(), got_signed,
                exp_signed, got_area, exp_area, got_per, exp_per);
    long double tol = 1e-12L * std::max<long double>(G.fam ? (long double)G.unit : 1.0L, exp_per);
    bool ok_s = got_signed == exp_signed, ok_a = got_area == exp_area, ok_p = fabsl((long double)got_per - exp_per) <= tol;
    if (G.wide()) {
        double atol = 1e-12 * (G.g * G.unit) * (G.g * G.unit);
        ok_s = fabs(got_signed - exp_signed) <= atol;
        ok_a = fabs(got_area - exp_area) <= atol * std::max(1.0, mult);
    }
    if (ok_s && ok_a && ok_p) return;
    if (!detail_budget(G.fam, 1)) {
        if (!ok_s) count_only("viol:measure/signed_area");
        if (!ok_a) count_only("viol:measure/area");
        if (!ok_p) count_only("viol:measure/perimeter");
        return;
    }
    JFields tags = {{"n", jint(n)}, {"kind", jstr(rv.kind)}, {"zero_count", jbool(rv.zero_count)}, {"copies", juint(rv.own_count)}, {"below_three_vertices", jbool(n < 3)}};
    std::string cs = jobj({{"points", L.json()}, {"coordinates_in_units_of", jstr(G.family())}, {"repetition", jstr(rv.name)}, {"grid", jint(G.g)}});
    std::string rp = "sub=measure " + list_replay(G, n, idx) + fmt(" rep=%d", ri);
    if (!ok_s) R->violation("measure", "signed_area", tags, cs, fmt("signed_area() = %.17g, shoelace sum = %.17g (not multiplied by copies)", got_signed, exp_signed), rp);
    if (!ok_a) R->violation("measure", "area", tags, cs, fmt("area() = %.17g, |shoelace| x %llu copies = %.17g", got_area, (unsigned long long)rv.own_count, exp_area), rp);
    if (!ok_p) R->violation("measure", "perimeter", tags, cs, fmt("perimeter() = %.17g, closed edge-length sum x %llu copies = %.17Lg", got_per, (unsigned long long)rv.own_count, exp_per), rp);
}

static void list_case(const Grid& G, int n, int64_t idx, Acc& a, int only_q, int only_rep, bool verbose) {
    VList L;
    L.decode(G, n, idx);
    Polygon poly;
    L.bind(poly);
    bool ns = not_simple(L.P);
    uint32_t rowmask = 0;
    for (int i = 0; i < n; i++) rowmask |= 1u << L.vy[i];
    a.lists++;
    if (ns) a.lists_not_simple++;
    if (only_rep < 0)
        for (int qi = 0; qi < G.nq(); qi++) {
            if (only_q >= 0 && qi != only_q) continue;
            point_case(G, L, poly, n, idx, qi, ns, rowmask, a, verbose);
        }
    if (only_q < 0)
        for (int ri = 0; ri < (int)REPS.size(); ri++) {
            if (only_rep >= 0 && ri != only_rep) continue;
            measure_case(G, L, poly, n, idx, ri, ns, a, verbose);
        }
}

static void run_lists(int g, int n, int fam = 0) {
    Grid G = make_grid(g, fam);
    int64_t total = ipow(G.nv(), n);
    int64_t chunk = 2048, nchunks = (total + chunk - 1) / chunk;
    auto body = [&](int64_t c) {
        Acc a;
        for (int64_t idx = c * chunk; idx < std::min(total, (c + 1) * chunk); idx++) list_case(G, n, idx, a, -1, -1, false);
        a.flush();
    };
    std::string sub = G.subprefix() + fmt("lists.g%d.n%d", g, n);
    if (G.wide()) chunk = 256, nchunks = (total + chunk - 1) / chunk;
    bool ok = parallel_for(*R, nchunks, body, [&](int64_t c) { return jobj({{"family", jstr(G.family())}, {"grid", jint(g)}, {"n", jint(n)}, {"first_list_index", jint(c * chunk)}, {"lists_in_chunk", jint(chunk)}}); },
                           [&](int64_t c) { return "sub=chunk " + list_replay(G, n, c * chunk) + fmt(" count=%lld", (long long)chunk); }, PFOptions{120, sub, true});
    if (n >= 3) {
        VList L;
        L.decode(G, n, total / 3 + 5);
        R->sample(fam ? G.family_tag() : "point", jobj({{"points", L.json()}, {"coordinates_in_units_of", jstr(G.family())}, {"queries", jstr(fmt("all %d points of the half-integer grid [-1,%d]^2%s", G.ncell(), g, G.wide() ? " x 9 displacements (dx,dy)*2^-28" : ""))}, {"repetitions", jint((int64_t)REPS.size())}}));
    }
    if (G.scaled())
        R->bound(sub, fmt("family %s (unit grid x %s, exact arithmetic, exact integer oracle): all %d^%d vertex lists of length %d on the %dx%d grid x (%d query points = the half-grid lattice neighbours of every vertex, last vertex included, over [-1,%d]^2 + %d repetition variants x {signed_area, area, perimeter})",
                          G.family_tag(), G.family() + 15, G.nv(), n, n, g, g, G.nq(), g, (int)REPS.size()),
                 ok, total * (G.nq() + (int64_t)REPS.size()));
    else if (fam)
        R->bound(sub, fmt("family wide_mantissa, coordinates = integer grid x %s: all %d^%d vertex lists of length %d on the %dx%d grid (both orientations, every slope with |dx|,|dy| <= %d) x (%d query points: half-grid points [-1,%d]^2 x u, i.e. edge interiors, vertices and off-edge points, each also displaced by (dx,dy)*2^-28 with dx,dy in {-1,0,1}; + %d repetition variants x {signed_area, area to 1e-12 of extent^2, perimeter to 1e-12})",
                          G.family(), G.nv(), n, n, g, g, g - 1, G.nq(), g, (int)REPS.size()),
                 ok, total * (G.nq() + (int64_t)REPS.size()));
    else
    R->bound(sub, fmt("all %d^%d vertex lists of length %d on the %dx%d integer grid x (%d query points of the half-integer grid [-1,%d]^2 + %d repetition variants x {signed_area, area, perimeter})",
                      G.nv(), n, n, g, g, G.nq(), g, (int)REPS.size()),
             ok, total * (G.nq() + (int64_t)REPS.size()));
}

// ------------------------------------------------------------------------------------------ groups
struct GList {
    VList L;
    Polygon poly;
    std::vector<uint8_t> cov;  // real Polygon::contain per query point index
    int64_t idx;
};
struct GroupSpace {
    Grid G;
    int nmax, maxlen;
    std::vector<GList> lists;
    GroupSpace(int g, int nmax_, int maxlen_, int fam = 0) : G(make_grid(g, fam)), nmax(nmax_), maxlen(maxlen_) {
        if (G.wide()) { G.ndisp = 1; }  // group queries on the wide_mantissa grid use the undisplaced half-grid points
        int64_t total = 0;
        for (int n = 0; n <= nmax; n++) total += ipow(G.nv(), n);
        lists.resize(total);
        int64_t k = 0;
        for (int n = 0; n <= nmax; n++)
            for (int64_t idx = 0; idx < ipow(G.nv(), n); idx++, k++) {
                GList& gl = lists[k];
                gl.idx = idx;
                gl.L.decode(G, n, idx);
            }
        for (auto& gl : lists) {  // bind after the vector has its final address
            gl.L.bind(gl.poly);
            gl.cov.resize(G.nq());
            for (int qi = 0; qi < G.nq(); qi++) {
                eg::P q = G.q(qi);
                bool got = gl.poly.contain(G.qv(qi));
                bool expect = eg::covers(gl.L.P, q);
                gl.cov[qi] = got;
                if (got != expect)
                    R->violation("group.table", "contain-mismatch", {{"n", jint(gl.L.n)}}, jobj({{"points", gl.L.json()}, {"coordinates_in_units_of", jstr(G.family())}, {"query", G.qjson(qi)}, {"grid", jint(g)}}),
                                 fmt("Polygon::contain = %d, exact oracle = %d (single-polygon answer used by the group checks)", got, expect),
                                 "sub=point " + list_replay(G, gl.L.n, gl.idx) + fmt(" qi=%d", qi));
            }
        }
    }
    int64_t npl() const { int64_t t = 0; for (int l = 0; l <= maxlen; l++) t += ipow(G.nq(), l); return t; }
    std::string desc() const { return std::string(G.fam ? std::string("[family ") + G.family_tag() + ", coordinates x " + G.family() + "] " : std::string()) + fmt("lists of length <= %d on the %dx%d grid (%zu lists), point lists of length <= %d over the %d-point half-integer grid [-1,%d]^2 (%lld point lists)", nmax, G.g, G.g, lists.size(), maxlen, G.nq(), G.g, (long long)npl()); }
};
struct GAcc {
    int64_t cases = 0, nontrivial = 0, empty_group = 0, empty_points = 0, with_rep = 0;
    void flush() {
        R->count("cases", cases);
        R->count("nontrivial", nontrivial);
        R->count("group_cases", cases);
        R->count("group_cases_mixed_answers", nontrivial);
        R->count("group_cases_empty_group", empty_group);
        R->count("group_cases_empty_point_list", empty_points);
        R->count("group_cases_with_repetition", with_rep);
    }
};
static std::string pts_json(const Grid& G, const int* qi, int len) {
    std::vector<std::string> v;
    for (int i = 0; i < len; i++) v.push_back(G.qjson(qi[i]));
    return jarr(v);
}
// contain_all / contain_any of one polygon (with repetition variant ri) on one point list
static void single_case(GroupSpace& S, int a, int ri, const int* qi, int len, GAcc& acc, bool verbose) {
    GList& gl = S.lists[a];
    Vec2 pbuf[2];
    Array<Vec2> points = {};
    points.items = pbuf; points.count = len; points.capacity = 2;
    bool eall = true, eany = false, anyT = false, anyF = false;
    for (int i = 0; i < len; i++) {
        pbuf[i] = S.G.qv(qi[i]);
        bool c = gl.cov[qi[i]];
        eall = eall && c; eany = eany || c;
        (c ? anyT : anyF) = true;
    }
    gl.poly.repetition = REPS[ri].rep;
    bool gall = gl.poly.contain_all(points), gany = gl.poly.contain_any(points);
    memset(&gl.poly.repetition, 0, sizeof gl.poly.repetition);
    acc.cases++;
    if (anyT && anyF) acc.nontrivial++;
    if (len == 0) acc.empty_points++;
    if (ri) acc.with_rep++;
    if (verbose) fprintf(stderr, "polygon %s repetition {%s} points %s: contain_all=%d (expected %d) contain_any=%d (expected %d)\n", gl.L.json().c_str(), REPS[ri].name.c_str(), pts_json(S.G, qi, len).c_str(), gall, eall, gany, eany);
    if (gall == eall && gany == eany) return;
    if (!detail_budget(S.G.fam, 2)) {
        if (gall != eall) count_only("viol:group.single/contain_all");
        if (gany != eany) count_only("viol:group.single/contain_any");
        return;
    }
    JFields tags = {{"n", jint(gl.L.n)}, {"points", jint(len)}, {"kind", jstr(REPS[ri].kind)}, {"zero_count", jbool(REPS[ri].zero_count)}, {"family", jstr(S.G.family_tag())}};
    std::string cs = jobj({{"coordinates_in_units_of", jstr(S.G.family())}, {"polygon", gl.L.json()}, {"repetition", jstr(REPS[ri].name)}, {"points", pts_json(S.G, qi, len)}, {"grid", jint(S.G.g)}});
    std::string rp = fmt("sub=group.single g=%d fam=%d nmax=%d a=%d rep=%d len=%d p=%d q=%d", S.G.g, S.G.fam, S.nmax, a, ri, len, len > 0 ? qi[0] : 0, len > 1 ? qi[1] : 0);
    if (gall != eall) R->violation("group.single", "contain_all", tags, cs, fmt("contain_all = %d, conjunction of contain() over the points = %d", gall, eall), rp);
    if (gany != eany) R->violation("group.single", "contain_any", tags, cs, fmt("contain_any = %d, disjunction of contain() over the points = %d", gany, eany), rp);
}
// inside / all_inside / any_inside of the group {a, b} (a or b < 0: absent) on one point list
static void multi_case(GroupSpace& S, int a, int b, const int* qi, int len, GAcc& acc, bool verbose) {
    Polygon* gbuf[2];
    Array<Polygon*> polys = {};
    int np = 0;
    if (a >= 0) gbuf[np++] = &S.lists[a].poly;
    if (b >= 0) gbuf[np++] = &S.lists[b].poly;
    polys.items = gbuf; polys.count = np; polys.capacity = 2;
    Vec2 pbuf[2];
    Array<Vec2> points = {};
    points.items = pbuf; points.count = len; points.capacity = 2;
    bool e[2] = {false, false}, eall = true, eany = false, anyT = false, anyF = false;
    for (int i = 0; i < len; i++) {
        pbuf[i] = S.G.qv(qi[i]);
        if (a >= 0) { bool c = S.lists[a].cov[qi[i]]; e[i] = e[i] || c; (c ? anyT : anyF) = true; }
        if (b >= 0) { bool c = S.lists[b].cov[qi[i]]; e[i] = e[i] || c; (c ? anyT : anyF) = true; }
        eall = eall && e[i];
        eany = eany || e[i];
    }
    unsigned char rb[4] = {0xAA, 0xAA, 0xAA, 0xAA};
    inside(points, polys, (bool*)rb);
    bool gall = all_inside(points, polys), gany = any_inside(points, polys);
    acc.cases++;
    if (anyT && anyF) acc.nontrivial++;
    if (np == 0) acc.empty_group++;
    if (len == 0) acc.empty_points++;
    bool ins_ok = true;
    for (int i = 0; i < 4; i++) ins_ok = ins_ok && (i < len ? rb[i] == (e[i] ? 1 : 0) : rb[i] == 0xAA);
    if (verbose) {
        fprintf(stderr, "group [%s, %s] points %s:\n  inside -> [%02x %02x] expected [%d %d]\n  all_inside=%d (expected %d) any_inside=%d (expected %d)\n", a >= 0 ? S.lists[a].L.json().c_str() : "-",
                b >= 0 ? S.lists[b].L.json().c_str() : "-", pts_json(S.G, qi, len).c_str(), rb[0], rb[1], e[0], e[1], gall, eall, gany, eany);
    }
    if (ins_ok && gall == eall && gany == eany) return;
    if (!detail_budget(S.G.fam, 3)) {
        if (!ins_ok) count_only("viol:group.multi/inside");
        if (gall != eall) count_only("viol:group.multi/all_inside");
        if (gany != eany) count_only("viol:group.multi/any_inside");
        return;
    }
    std::vector<std::string> pj;
    if (a >= 0) pj.push_back(S.lists[a].L.json());
    if (b >= 0) pj.push_back(S.lists[b].L.json());
    JFields tags = {{"polygons", jint(np)}, {"points", jint(len)}, {"family", jstr(S.G.family_tag())}};
    std::string cs = jobj({{"coordinates_in_units_of", jstr(S.G.family())}, {"polygons", jarr(pj)}, {"points", pts_json(S.G, qi, len)}, {"grid", jint(S.G.g)}});
    std::string rp = fmt("sub=group.multi g=%d fam=%d nmax=%d a=%d b=%d len=%d p=%d q=%d", S.G.g, S.G.fam, S.nmax, a, b, len, len > 0 ? qi[0] : 0, len > 1 ? qi[1] : 0);
    if (!ins_ok) R->violation("group.multi", "inside", tags, cs, fmt("inside() wrote [%02x %02x %02x %02x]; per-point disjunction over the group = [%d %d] for the first %d entries, later entries must stay untouched (aa)", rb[0], rb[1], rb[2], rb[3], e[0], e[1], len), rp);
    if (gall != eall) R->violation("group.multi", "all_inside", tags, cs, fmt("all_inside = %d, conjunction over points of disjunction over polygons = %d", gall, eall), rp);
    if (gany != eany) R->violation("group.multi", "any_inside", tags, cs, fmt("any_inside = %d, existence over points and polygons = %d", gany, eany), rp);
}
template <class F>
static void for_point_lists(const GroupSpace& S, int maxlen, F f) {
    int qi[2] = {0, 0};
    f(qi, 0);
    if (maxlen >= 1) for (qi[0] = 0; qi[0] < S.G.nq(); qi[0]++) f(qi, 1);
    if (maxlen >= 2) for (qi[0] = 0; qi[0] < S.G.nq(); qi[0]++) for (qi[1] = 0; qi[1] < S.G.nq(); qi[1]++) f(qi, 2);
}
static void run_groups(int g, int nmax, int maxlen, int fam = 0) {
    GroupSpace S(g, nmax, maxlen, fam);
    int NL = (int)S.lists.size();
    std::string tag = S.G.subprefix() + fmt("g%d.n%d.len%d", g, nmax, maxlen);
    // --- single polygon: contain_all / contain_any; repetition variants with point lists of length <= 1
    {
        auto body = [&](int64_t a) {
            GAcc acc;
            for (int ri = 0; ri < (int)REPS.size(); ri++)
                for_point_lists(S, ri == 0 ? maxlen : std::min(maxlen, 1), [&](const int* qi, int len) { single_case(S, (int)a, ri, qi, len, acc, false); });
            acc.flush();
        };
        std::string sub = "group.single." + tag;
        bool ok = parallel_for(*R, NL, body, [&](int64_t a) { return jobj({{"polygon", S.lists[a].L.json()}, {"grid", jint(g)}}); },
                               [&](int64_t a) { return fmt("sub=group.single.all g=%d fam=%d nmax=%d a=%lld len=%d", g, fam, nmax, (long long)a, maxlen); }, PFOptions{300, sub, true});
        int64_t per = S.npl();
        int64_t per1 = 0;
        for (int l = 0; l <= std::min(maxlen, 1); l++) per1 += ipow(S.G.nq(), l);
        R->bound(sub, "contain_all/contain_any: every polygon of " + S.desc() + fmt("; plus %d repetition variants x point lists of length <= 1", (int)REPS.size() - 1), ok, NL * (per + ((int64_t)REPS.size() - 1) * per1));
    }
    // --- groups of 0, 1, 2 polygons: index 0 = empty group; index a+1 = {a} and all ordered pairs (a, b)
    {
        auto body = [&](int64_t i) {
            GAcc acc;
            if (i == 0) for_point_lists(S, maxlen, [&](const int* qi, int len) { multi_case(S, -1, -1, qi, len, acc, false); });
            else {
                int a = (int)i - 1;
                for (int b = -1; b < NL; b++) {
                    for_point_lists(S, maxlen, [&](const int* qi, int len) { multi_case(S, a, b, qi, len, acc, false); });
                    if ((b & 63) == 0 && R->time_left() <= 0) break;
                }
            }
            acc.flush();
        };
        std::string sub = "group.multi." + tag;
        bool ok = parallel_for(*R, NL + 1, body, [&](int64_t i) { return jobj({{"first_polygon", i ? S.lists[i - 1].L.json() : std::string("null")}, {"second_polygon", jstr("each list in turn, and none")}, {"grid", jint(g)}}); },
                               [&](int64_t i) { return fmt("sub=group.multi.all g=%d fam=%d nmax=%d a=%lld len=%d", g, fam, nmax, (long long)i - 1, maxlen); }, PFOptions{600, sub, true});
        if (R->time_left() <= 0) { ok = false; R->deadline_was_hit = true; }
        int64_t groups = 1 + (int64_t)NL * (NL + 1);
        R->sample("group.multi", jobj({{"polygons", jarr({S.lists[NL / 2].L.json(), S.lists[NL - 3].L.json()})}, {"point_lists", jstr(fmt("all %lld lists of length <= %d", (long long)S.npl(), maxlen))}}));
        R->bound(sub, "inside/all_inside/any_inside: the empty group, every single polygon and every ordered pair of " + S.desc(), ok, groups * S.npl());
    }
}

// ------------------------------------------------------------------------------------------ main
static int replay() {
    std::string sub = R->rarg("sub");
    int g = atoi(R->rarg("g").c_str());
    auto I = [&](const char* k) { return (int64_t)atoll(R->rarg(k).c_str()); };
    if (sub == "point" || sub == "measure" || sub == "chunk") {
        Grid G = make_grid(g, (int)I("fam"));
        int n = (int)I("n");
        Acc a;
        if (sub == "point") list_case(G, n, I("idx"), a, (int)I("qi"), -1, true);
        else if (sub == "measure") list_case(G, n, I("idx"), a, -1, (int)I("rep"), true);
        else { int64_t lo = I("idx"), hi = std::min(ipow(G.nv(), n), lo + I("count")); for (int64_t idx = lo; idx < hi; idx++) list_case(G, n, idx, a, -1, -1, false); }
        a.flush();
        return R->finish();
    }
    int nmax = (int)I("nmax"), len = (int)I("len");
    GroupSpace S(g, nmax, std::max(len, 0), (int)I("fam"));
    GAcc acc;
    int qi[2] = {(int)I("p"), (int)I("q")};
    if (sub == "group.single") single_case(S, (int)I("a"), (int)I("rep"), qi, len, acc, true);
    else if (sub == "group.multi") multi_case(S, (int)I("a"), (int)I("b"), qi, len, acc, true);
    else if (sub == "group.single.all") {
        for (int ri = 0; ri < (int)REPS.size(); ri++) for_point_lists(S, ri == 0 ? len : std::min(len, 1), [&](const int* q, int l) { single_case(S, (int)I("a"), ri, q, l, acc, false); });
    } else if (sub == "group.multi.all") {
        int a = (int)I("a");
        if (a < 0) for_point_lists(S, len, [&](const int* q, int l) { multi_case(S, -1, -1, q, l, acc, false); });
        else for (int b = -1; b < (int)S.lists.size(); b++) for_point_lists(S, len, [&](const int* q, int l) { multi_case(S, a, b, q, l, acc, false); });
    }
    acc.flush();
    return R->finish();
}

int main(int argc, char** argv) {
    Run run("C14", argc, argv);
    R = &run;
    build_reps();
    if (run.replaying()) return replay();
    bool T = run.thorough();
    {
        std::vector<std::string> names;
        for (auto& r : REPS) names.push_back(jstr(r.name));
        run.note("repetition variants used by 'measure' and 'group.single': " + jarr(names));
    }
    // smallest first
    auto lap = [&](const char* what) { run.note(fmt("%s finished at %.1f s", what, run.elapsed())); };
    for (int n = 0; n <= (T ? 6 : 5); n++) run_lists(4, n);
    lap("lists g=4");
    // group functions
    run_groups(2, 3, 2);
    lap("groups g=2");
    if (!T) run_groups(3, 2, 2);
    run_groups(3, 3, T ? 2 : 1);
    lap("groups g=3");
    // family wide_mantissa: exactly representable coordinates whose pairwise products are not representable
    {
        Grid G1 = make_grid(4, 1), G2 = make_grid(4, 2);
        for (const Grid* G : {&G1, &G2}) {  // the double and the integer view of every coordinate must agree exactly
            for (int k = 0; k < G->g; k++) if (ldexp(k * G->unit, 28) != (double)(2 * k * G->W)) run.internal_error("wide_mantissa: vertex coordinate is not the integer the oracle uses");
            for (int qi = 0; qi < G->nq(); qi++) if (ldexp(G->qv(qi).x, 28) != (double)G->q(qi).x || ldexp(G->qv(qi).y, 28) != (double)G->q(qi).y) run.internal_error("wide_mantissa: query coordinate is not the integer the oracle uses");
        }
    }
    for (int fam = 1; fam <= 2; fam++) for (int n = 0; n <= 4; n++) run_lists(4, n, fam);
    if (T) run_lists(4, 5, 1);
    for (int fam = 1; fam <= 2; fam++) run_groups(2, 3, 2, fam);
    run_groups(3, 3, 1, 1);
    lap("wide_mantissa");
    // families tiny_magnitude (x 2^-50, x 2^-40) and huge_magnitude (x 2^40): exactly representable coordinates far
    // from magnitude 1; query points are lattice neighbours of the vertices
    for (int fam = 3; fam <= 5; fam++) for (int n = 0; n <= 4; n++) run_lists(4, n, fam);
    if (T) run_lists(4, 5, 3);
    for (int fam = 3; fam <= 5; fam++) run_groups(2, 3, 2, fam);
    run_groups(3, 3, 1, 3);
    lap("tiny/huge magnitude");
    if (T) { for (int n = 0; n <= 5; n++) run_lists(5, n); lap("lists g=5"); }
    return run.finish();
}
