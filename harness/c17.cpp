// C17 — partial and alternative readers agree with the full reader.
// E2: for every corpus file (gdstk-written; enumerated content variants x units) and every tag-filter
// set, target unit, raw-cell subset and timestamp, the light-weight answer is compared with what a
// full read_gds finds (differential; the full reader itself is anchored by C03).   DESIGN.md 2/C17.
#include "dump.hpp"
#include "vf.hpp"

using namespace gdstk;
using namespace vf;

static Run* R;
static tm FIXED_TM;

// ------------------------------------------------------------------ corpus
static Polygon* mkpoly(std::initializer_list<Vec2> pts, Tag tag) {
    Polygon* p = (Polygon*)allocate_clear(sizeof(Polygon));
    p->tag = tag;
    for (auto& v : pts) p->point_array.append(v);
    return p;
}
static FlexPath* mkpath(Tag tag, EndType end, bool scale_width, Vec2 ext) {
    FlexPath* fp = (FlexPath*)allocate_clear(sizeof(FlexPath));
    fp->init(Vec2{0, 0}, 1, 0.5, 0, 0.01, tag);
    fp->simple_path = true;
    fp->scale_width = scale_width;
    fp->elements[0].end_type = end;
    fp->elements[0].end_extensions = ext;
    fp->segment(Vec2{5, 0}, NULL, NULL, false);
    fp->segment(Vec2{5, 3.5}, NULL, NULL, false);
    return fp;
}
static Label* mklabel(const char* text, Tag tag, Vec2 at, double rot, double mag, bool refl, Anchor a) {
    Label* l = (Label*)allocate_clear(sizeof(Label));
    l->init(text);
    l->tag = tag; l->origin = at; l->anchor = a; l->rotation = rot; l->magnification = mag; l->x_reflection = refl;
    return l;
}
static Reference* mkref(Cell* c, const char* name, Vec2 at, double rot, double mag, bool refl, int rep) {
    Reference* r = (Reference*)allocate_clear(sizeof(Reference));
    if (c) r->init(c); else r->init(name);
    r->origin = at; r->rotation = rot; r->magnification = mag; r->x_reflection = refl;
    if (rep == 1) { r->repetition.type = RepetitionType::Rectangular; r->repetition.columns = 2; r->repetition.rows = 3; r->repetition.spacing = Vec2{4, 6}; }
    if (rep == 2) { r->repetition.type = RepetitionType::Explicit; r->repetition.offsets.append(Vec2{3, 1}); r->repetition.offsets.append(Vec2{-2, 5}); }
    return r;
}
static const Tag T1 = make_tag(1, 0), T2 = make_tag(2, 0), T3 = make_tag(4, 1), T4 = make_tag(7, 3), TL = make_tag(3, 2), TABSENT = make_tag(60, 61);
static const Tag TH1 = make_tag(40000, 65535), TH2 = make_tag(32768, 32767), TH3 = make_tag(65535, 32768);  // 16-bit values with the top bit set
// content variants: 0..7 hand-made (one element kind each, a full mix, high tags, diamond dependencies); 8.. = every combination of >= 2 of the five
// element groups {polygons, paths, labels, references A (with a dangling reference), references B (lattices + properties)}
struct Feat { bool poly, paths, labels, refs, absent, leaf_direct, island_ref, mid_rep1, props, high, diamond; };
static std::vector<int> g_masks;  // element-group masks of the variants >= 7
static void init_masks() { for (int m = 1; m < 32; m++) if (__builtin_popcount(m) >= 2) g_masks.push_back(m); }
static const int NBASE = 8;
static int nvariant_all() { return NBASE + (int)g_masks.size(); }
static Feat feat_of(int v) {
    Feat f = {};
    switch (v) {
        case 0: f.poly = f.paths = f.labels = f.refs = f.absent = f.leaf_direct = true; break;
        case 1: f.poly = true; break;
        case 2: f.paths = true; break;
        case 3: f.labels = true; break;
        case 4: f.refs = f.absent = true; break;
        case 5: f.refs = f.leaf_direct = f.island_ref = f.mid_rep1 = f.props = true; break;
        case 6: f.high = true; break;
        case 7: f.refs = f.leaf_direct = f.island_ref = f.diamond = true; break;  // TOPCELL -> MID, LEAF, ISLAND with LEAF shared by all: a shared dependency listed BEFORE a unique one
        default: {
            int m = g_masks[v - NBASE];
            f.poly = m & 1; f.paths = m & 2; f.labels = m & 4;
            if (m & 8) f.refs = f.absent = true;
            if (m & 16) f.refs = f.leaf_direct = f.island_ref = f.mid_rep1 = f.props = true;
        }
    }
    return f;
}
static std::string variant_name(int v) {
    static const char* n[] = {"full_mix", "polygons_only", "paths", "labels", "references", "properties_and_repetitions", "tags_above_32767", "diamond_dependencies"};
    if (v < NBASE) return n[v];
    int m = g_masks[v - NBASE];
    std::string s = "mix";
    const char* g[] = {"+polygons", "+paths", "+labels", "+refsA", "+refsB"};
    for (int b = 0; b < 5; b++) if (m >> b & 1) s += g[b];
    return s;
}
struct Units { double unit, precision; };
static const Units UNITS[] = {{1e-6, 1e-9}, {1e-3, 1e-6}, {1e-6, 5e-10}, {1e-6, 1e-6 / 16}};   // the last: precision/unit is an exact power of 16 (8-byte real with mantissa 1/16)
// namelen > 0: the library name is that many characters long (LIBNAME is the one variable-length record before UNITS)
static std::string libname_of(int namelen) {
    if (namelen <= 0) return "C17LIB";
    std::string s;
    for (int i = 0; i < namelen; i++) s += (char)('A' + (i * 7 + i / 26) % 26);
    return s;
}
static Library build_library(int variant, int ui, int perm, int namelen = 0, int big = 0) {
    Library lib = {};
    lib.init(libname_of(namelen).c_str(), UNITS[ui].unit, UNITS[ui].precision);
    Cell* cells[4];
    const char* names[4] = {"LEAF", "MID", "TOPCELL", "ISLAND"};
    std::string island_name = "ISLAND";   // namelen < 0: the ISLAND cell carries a name of -namelen characters (even lengths have no padding NUL in STRNAME)
    if (namelen < 0) { island_name.clear(); for (int i = 0; i < -namelen; i++) island_name += (char)('a' + (i * 5 + i / 26) % 26); names[3] = island_name.c_str(); }
    for (int i = 0; i < 4; i++) { cells[i] = (Cell*)allocate_clear(sizeof(Cell)); cells[i]->init(names[i]); }
    Cell *leaf = cells[0], *mid = cells[1], *top = cells[2], *island = cells[3];
    {   // order of the structures in the file: the perm-th permutation of the four cells (0 = as listed: referenced before referencing)
        int idx[4] = {0, 1, 2, 3};
        for (int k = 0; k < perm; k++) std::next_permutation(idx, idx + 4);
        for (int i = 0; i < 4; i++) lib.cell_array.append(cells[idx[i]]);
    }
    Feat f = feat_of(variant);
    leaf->polygon_array.append(mkpoly({{0, 0}, {1, 0}, {1, 1}, {0, 1}}, T1));
    if (f.poly) {
        leaf->polygon_array.append(mkpoly({{0, 0}, {3, 0.5}, {1.5, 2.25}}, T2));
        mid->polygon_array.append(mkpoly({{-1, -1}, {2, -1}, {2, 0}, {0.5, 0}, {0.5, 2}, {-1, 2}}, T1));
        island->polygon_array.append(mkpoly({{10, 10}, {12, 10}, {11, 13}}, T4));
        top->polygon_array.append(mkpoly({{0, 0}, {1, 0}, {0, 1}}, T2));
        top->polygon_array.append(mkpoly({{5, 5}, {6, 5}, {5, 6}}, T1));
    }
    if (f.paths) {
        mid->flexpath_array.append(mkpath(T3, EndType::Flush, true, Vec2{0, 0}));
        top->flexpath_array.append(mkpath(T1, EndType::Extended, false, Vec2{0.25, 0.75}));
        top->flexpath_array.append(mkpath(T3, EndType::HalfWidth, true, Vec2{0, 0}));
        island->flexpath_array.append(mkpath(T4, EndType::Round, true, Vec2{0, 0}));
        top->polygon_array.append(mkpoly({{0, 0}, {1, 0}, {0, 1}}, T3));
    }
    if (f.labels) {
        leaf->label_array.append(mklabel("leaf", TL, Vec2{0.5, 0.5}, 0, 1, false, Anchor::O));
        top->label_array.append(mklabel("top!", TL, Vec2{1, 2}, 0.5, 2.5, true, Anchor::NE));
        top->label_array.append(mklabel("odd", T1, Vec2{-1, -2}, M_PI / 2, 1, false, Anchor::SW));
    }
    if (f.refs) {
        mid->reference_array.append(mkref(leaf, NULL, Vec2{3, 1}, M_PI / 2, 1, false, f.mid_rep1 ? 1 : 0));
        top->reference_array.append(mkref(mid, NULL, Vec2{10, 5}, 0.3, 2, true, 0));
        if (f.leaf_direct) top->reference_array.append(mkref(leaf, NULL, Vec2{-4, 0}, 0, 1, false, 1));  // otherwise LEAF is reachable from TOPCELL only through MID
        if (f.absent) top->reference_array.append(mkref(NULL, "ABSENT_CELL", Vec2{1, 1}, 0, 1, false, 0));
        if (f.island_ref) island->reference_array.append(mkref(leaf, NULL, Vec2{0, 0}, 0, 0.5, false, 2));
        if (f.diamond) top->reference_array.append(mkref(island, NULL, Vec2{7, -3}, 0, 1, false, 0));
    }
    if (f.high) {  // layer / datatype / texttype values that do not fit a signed 16-bit integer
        leaf->polygon_array.append(mkpoly({{0, 0}, {3, 0.5}, {1.5, 2.25}}, TH1));
        mid->polygon_array.append(mkpoly({{-1, -1}, {2, -1}, {2, 0}}, TH2));
        top->polygon_array.append(mkpoly({{0, 0}, {1, 0}, {0, 1}}, T2));
        top->flexpath_array.append(mkpath(TH3, EndType::Flush, true, Vec2{0, 0}));
        top->label_array.append(mklabel("high", TH1, Vec2{1, 2}, 0, 1, false, Anchor::O));
        top->label_array.append(mklabel("high2", TH3, Vec2{2, 2}, 0, 1, false, Anchor::O));
        mid->reference_array.append(mkref(leaf, NULL, Vec2{3, 1}, 0, 1, false, 0));
        top->reference_array.append(mkref(mid, NULL, Vec2{10, 5}, 0, 1, false, 0));
    }
    if (f.props) {
        Polygon* p = mkpoly({{0, 0}, {2, 0}, {2, 1}, {0, 1}}, T2);
        set_gds_property(p->properties, 2, "ab");
        set_gds_property(p->properties, 3, "abc");
        p->repetition.type = RepetitionType::Regular;
        p->repetition.columns = 2; p->repetition.rows = 2; p->repetition.v1 = Vec2{5, 1}; p->repetition.v2 = Vec2{-1, 4};
        top->polygon_array.append(p);
        Label* l = mklabel("rep", TL, Vec2{0, 0}, 0, 1, false, Anchor::O);
        l->repetition.type = RepetitionType::ExplicitX;
        l->repetition.coords.append(2); l->repetition.coords.append(-3);
        set_gds_property(l->properties, 9, "label-prop");
        top->label_array.append(l);
        FlexPath* fp = mkpath(T3, EndType::Flush, true, Vec2{0, 0});
        set_gds_property(fp->properties, 4, "pp");
        mid->flexpath_array.append(fp);
    }
    if (big) {
        // cells whose structure spans more than one 64 KiB block of the source file (LEAF about 80 kB, MID about 2.4 blocks): a raw
        // cell is copied from its source file in pieces
        auto ngon = [](int n, double r, double cx, double cy, Tag t) {
            Polygon* pg = mkpoly({}, t);
            for (int i = 0; i < n; i++) pg->point_array.append(Vec2{cx + r * cos(2 * M_PI * i / n), cy + r * sin(2 * M_PI * i / n)});
            return pg;
        };
        for (int i = 0; i < 24 * big; i++) leaf->polygon_array.append(ngon(400, 50 + i, 3 * i, -2 * i, i % 2 ? T1 : T2));
        for (int i = 0; i < 48 * big; i++) mid->polygon_array.append(ngon(401, 70 + 0.5 * i, -i, 5 * i, i % 3 ? T2 : T3));
    }
    return lib;
}

// ------------------------------------------------------------------ helpers
static bool close_rel(double a, double b, double rel = 1e-12) { return fabs(a - b) <= rel * std::max(1.0, std::max(fabs(a), fabs(b))); }
struct Ctx { std::string name, rp; double unit, precision; int perm; std::string what; };   // rp = replay prefix identifying the file
static std::string ctx_json(const Ctx& c) { return jobj({{"library", jstr(c.name)}, {"unit", jnum(c.unit)}, {"precision", jnum(c.precision)}, {"cell_order", jint(c.perm)}, {"case", jstr(c.what)}}); }
static void viol(const Ctx& c, const std::string& sub, const std::string& cls, const JFields& tags, const std::string& detail, const std::string& replay_extra) {
    JFields t = {{"library", jstr(c.name)}};
    for (auto& x : tags) t.push_back(x);
    R->violation(sub, cls, t, ctx_json(c), detail, c.rp + " " + replay_extra);
}
static std::string tagset_str(const std::vector<Tag>& v) {
    std::string s;
    for (Tag t : v) s += fmt("%u/%u ", get_layer(t), get_type(t));
    return s;
}
static Tag path_tag(const FlexPath* fp) { return fp->elements[0].tag; }
// dump of a cell keeping only polygons/paths whose tag is in keep (NULL = keep all)
static std::string cell_dump_filtered(const Cell& c, const std::vector<Tag>* keep) {
    auto kept = [&](Tag t) { return !keep || std::find(keep->begin(), keep->end(), t) != keep->end(); };
    std::vector<std::string> po, fp, la, re;
    for (uint64_t i = 0; i < c.polygon_array.count; i++) if (kept(c.polygon_array[i]->tag)) po.push_back(dump::polygon(*c.polygon_array[i]));
    for (uint64_t i = 0; i < c.flexpath_array.count; i++) if (kept(path_tag(c.flexpath_array[i]))) fp.push_back(dump::flexpath(*c.flexpath_array[i]));
    for (uint64_t i = 0; i < c.label_array.count; i++) la.push_back(dump::label(*c.label_array[i]));
    for (uint64_t i = 0; i < c.reference_array.count; i++) re.push_back(dump::reference(*c.reference_array[i]));
    return jobj({{"name", jstr(c.name)}, {"polygons", jarr(po)}, {"flexpaths", jarr(fp)}, {"labels", jarr(la)}, {"references", jarr(re)}, {"properties", dump::properties(c.properties)}});
}
static std::string lib_dump_filtered(const Library& l, const std::vector<Tag>* keep) {
    std::vector<std::string> cells;
    for (uint64_t i = 0; i < l.cell_array.count; i++) cells.push_back(cell_dump_filtered(*l.cell_array[i], keep));
    return jobj({{"name", jstr(l.name ? l.name : "")}, {"unit", jnum(l.unit)}, {"precision", jnum(l.precision)}, {"cells", jarr(cells)}});
}
static std::string first_diff(const std::string& a, const std::string& b) {
    size_t i = 0;
    while (i < a.size() && i < b.size() && a[i] == b[i]) i++;
    size_t s = i > 60 ? i - 60 : 0;
    return "expected ..." + a.substr(s, 160) + "... got ..." + b.substr(s, 160) + "...";
}

// lengths of b equal lengths of a times f; everything else identical
static std::string compare_scaled(const Library& a, const Library& b, double f) {
    auto vs = [&](Vec2 p, Vec2 q) { return close_rel(p.x * f, q.x) && close_rel(p.y * f, q.y); };
    auto rep = [&](const Repetition& x, const Repetition& y) -> bool {
        if (x.type != y.type) return false;
        switch (x.type) {
            case RepetitionType::Rectangular: return x.columns == y.columns && x.rows == y.rows && vs(x.spacing, y.spacing);
            case RepetitionType::Regular: return x.columns == y.columns && x.rows == y.rows && vs(x.v1, y.v1) && vs(x.v2, y.v2);
            case RepetitionType::Explicit: { if (x.offsets.count != y.offsets.count) return false; for (uint64_t i = 0; i < x.offsets.count; i++) if (!vs(x.offsets[i], y.offsets[i])) return false; return true; }
            case RepetitionType::ExplicitX: case RepetitionType::ExplicitY: { if (x.coords.count != y.coords.count) return false; for (uint64_t i = 0; i < x.coords.count; i++) if (!close_rel(x.coords[i] * f, y.coords[i])) return false; return true; }
            default: return true;
        }
    };
    if (a.cell_array.count != b.cell_array.count) return "cell count differs";
    for (uint64_t ci = 0; ci < a.cell_array.count; ci++) {
        const Cell &x = *a.cell_array[ci], &y = *b.cell_array[ci];
        if (strcmp(x.name, y.name)) return "cell name/order differs";
        if (x.polygon_array.count != y.polygon_array.count || x.flexpath_array.count != y.flexpath_array.count || x.label_array.count != y.label_array.count || x.reference_array.count != y.reference_array.count)
            return std::string("element counts differ in cell ") + x.name;
        for (uint64_t i = 0; i < x.polygon_array.count; i++) {
            const Polygon &p = *x.polygon_array[i], &q = *y.polygon_array[i];
            if (p.tag != q.tag || p.point_array.count != q.point_array.count || dump::properties(p.properties) != dump::properties(q.properties) || !rep(p.repetition, q.repetition)) return "polygon tag/count/properties/repetition differ";
            for (uint64_t k = 0; k < p.point_array.count; k++) if (!vs(p.point_array[k], q.point_array[k])) return fmt("polygon vertex %g,%g x %g != %g,%g", p.point_array[k].x, p.point_array[k].y, f, q.point_array[k].x, q.point_array[k].y);
        }
        for (uint64_t i = 0; i < x.flexpath_array.count; i++) {
            const FlexPath &p = *x.flexpath_array[i], &q = *y.flexpath_array[i];
            if (p.num_elements != q.num_elements || p.simple_path != q.simple_path || p.scale_width != q.scale_width || p.spine.point_array.count != q.spine.point_array.count || dump::properties(p.properties) != dump::properties(q.properties)) return "path structure differs";
            for (uint64_t k = 0; k < p.spine.point_array.count; k++) if (!vs(p.spine.point_array[k], q.spine.point_array[k])) return "path spine point not rescaled";
            for (uint64_t e = 0; e < p.num_elements; e++) {
                const FlexPathElement &u = p.elements[e], &v = q.elements[e];
                if (u.tag != v.tag || u.end_type != v.end_type || u.join_type != v.join_type || u.half_width_and_offset.count != v.half_width_and_offset.count) return "path element differs";
                if (!vs(u.end_extensions, v.end_extensions)) return fmt("path end extensions %g,%g x %g != %g,%g", u.end_extensions.x, u.end_extensions.y, f, v.end_extensions.x, v.end_extensions.y);
                for (uint64_t k = 0; k < u.half_width_and_offset.count; k++) if (!vs(u.half_width_and_offset[k], v.half_width_and_offset[k])) return fmt("path half width %g x %g != %g", u.half_width_and_offset[k].x, f, v.half_width_and_offset[k].x);
            }
        }
        for (uint64_t i = 0; i < x.label_array.count; i++) {
            const Label &p = *x.label_array[i], &q = *y.label_array[i];
            if (p.tag != q.tag || strcmp(p.text, q.text) || p.anchor != q.anchor || p.rotation != q.rotation || p.magnification != q.magnification || p.x_reflection != q.x_reflection || !rep(p.repetition, q.repetition) || dump::properties(p.properties) != dump::properties(q.properties)) return "label fields (other than position) differ";
            if (!vs(p.origin, q.origin)) return "label origin not rescaled";
        }
        for (uint64_t i = 0; i < x.reference_array.count; i++) {
            const Reference &p = *x.reference_array[i], &q = *y.reference_array[i];
            if (dump::reference(p).substr(0, dump::reference(p).find("\"origin\"")) != dump::reference(q).substr(0, dump::reference(q).find("\"origin\""))) return "reference kind/target differ";
            if (p.rotation != q.rotation || p.magnification != q.magnification || p.x_reflection != q.x_reflection || !rep(p.repetition, q.repetition)) return "reference transform/repetition differ";
            if (!vs(p.origin, q.origin)) return "reference origin not rescaled";
        }
    }
    return "";
}

// everything the property says about ONE file at `path` (the file is rewritten in place by part g)
struct Expect { double unit, precision, rel; tm stamp; bool may_miss_reference; };
static void run_file(Ctx& cx, const std::string& path, const Expect& ex) {
    const bool deep = R->thorough();
    ErrorCode ec = ErrorCode::NoError;
    Library full = read_gds(path.c_str(), 0, 1e-2, NULL, &ec);
    if ((int)ec >= (int)ErrorCode::ChecksumError || (ec != ErrorCode::NoError && !(ex.may_miss_reference && ec == ErrorCode::MissingReference))) {
        // a legal file (written by the library itself or by the independent encoder) that the full load rejects: C17 is about
        // agreement, so this is a violation exactly when a lightweight query still answers (if every reader rejects the file alike
        // they agree; whether the rejection is justified is C03's question, not C17's)
        cx.what = "full load of a legal file fails";
        LibraryInfo info = {};
        ErrorCode ie = gds_info(path.c_str(), info);
        info.clear();
        double uu = 0, pp = 0;
        ErrorCode ue = gds_units(path.c_str(), uu, pp);
        if (ie == ErrorCode::NoError || ue == ErrorCode::NoError)
            viol(cx, "full_load", "queries-answer-where-load-fails", {}, fmt("read_gds returned code %d (%llu cells) but gds_info returned %d and gds_units %d", (int)ec, (unsigned long long)full.cell_array.count, (int)ie, (int)ue), "part=full");
        else R->count("files_rejected_by_every_reader");
        R->count("cases");
        full.free_all();
        return;
    }

    // ---- (a) gds_info
    {
        cx.what = "gds_info vs full load";
        LibraryInfo info = {};
        ErrorCode ie = gds_info(path.c_str(), info);
        if (ie != ErrorCode::NoError) viol(cx, "info", "error", {}, fmt("gds_info failed with %d", (int)ie), "part=info");
        uint64_t np = 0, nf = 0, nr = 0, nl = 0;
        std::set<Tag> st, lt;
        bool names_ok = info.cell_names.count == full.cell_array.count;
        for (uint64_t i = 0; i < full.cell_array.count; i++) {
            Cell* c = full.cell_array[i];
            if (names_ok && strcmp(info.cell_names[i], c->name)) names_ok = false;
            np += c->polygon_array.count; nf += c->flexpath_array.count; nr += c->reference_array.count; nl += c->label_array.count;
            for (uint64_t k = 0; k < c->polygon_array.count; k++) st.insert(c->polygon_array[k]->tag);
            for (uint64_t k = 0; k < c->flexpath_array.count; k++) st.insert(path_tag(c->flexpath_array[k]));
            for (uint64_t k = 0; k < c->label_array.count; k++) lt.insert(c->label_array[k]->tag);
        }
        // an AREF counts as one reference in the summary and loads as one reference with a repetition: same count
        if (!names_ok) viol(cx, "info", "cell-names", {}, "cell names (file order) differ from the full load", "part=info");
        if (info.num_polygons != np || info.num_paths != nf || info.num_references != nr || info.num_labels != nl)
            viol(cx, "info", "counts", {}, fmt("summary counts %llu/%llu/%llu/%llu, full load %llu/%llu/%llu/%llu (polygons/paths/references/labels)", (unsigned long long)info.num_polygons, (unsigned long long)info.num_paths,
                                                (unsigned long long)info.num_references, (unsigned long long)info.num_labels, (unsigned long long)np, (unsigned long long)nf, (unsigned long long)nr, (unsigned long long)nl), "part=info");
        std::set<Tag> ist, ilt;
        for (SetItem<Tag>* it = info.shape_tags.next(NULL); it; it = info.shape_tags.next(it)) ist.insert(it->value);
        for (SetItem<Tag>* it = info.label_tags.next(NULL); it; it = info.label_tags.next(it)) ilt.insert(it->value);
        if (ist != st || ilt != lt) viol(cx, "info", "tags", {}, "shape/label tag sets differ from the full load", "part=info");
        if (info.unit != full.unit || info.precision != full.precision) viol(cx, "info", "units", {}, fmt("summary unit/precision %g/%g, full load %g/%g", info.unit, info.precision, full.unit, full.precision), "part=info");
        // the same summary object reused after clear(): a second summary of the same file must give the same answer
        // (gds_info only adds to the counters it is given, so clear() has to reset every one of them)
        info.clear();
        ErrorCode ie2 = gds_info(path.c_str(), info);
        std::set<Tag> ist2, ilt2;
        for (SetItem<Tag>* it = info.shape_tags.next(NULL); it; it = info.shape_tags.next(it)) ist2.insert(it->value);
        for (SetItem<Tag>* it = info.label_tags.next(NULL); it; it = info.label_tags.next(it)) ilt2.insert(it->value);
        if (ie2 != ie || info.cell_names.count != full.cell_array.count || info.num_polygons != np || info.num_paths != nf || info.num_references != nr || info.num_labels != nl || ist2 != st || ilt2 != lt ||
            info.unit != full.unit || info.precision != full.precision)
            viol(cx, "info", "reused-summary-object", {}, fmt("after clear() and a second gds_info: %llu cells, counts %llu/%llu/%llu/%llu, %zu/%zu tags; full load %llu cells, %llu/%llu/%llu/%llu, %zu/%zu", (unsigned long long)info.cell_names.count,
                                                                 (unsigned long long)info.num_polygons, (unsigned long long)info.num_paths, (unsigned long long)info.num_references, (unsigned long long)info.num_labels, ist2.size(), ilt2.size(),
                                                                 (unsigned long long)full.cell_array.count, (unsigned long long)np, (unsigned long long)nf, (unsigned long long)nr, (unsigned long long)nl, st.size(), lt.size()), "part=info");
        info.clear();
        R->count("cases");
    }
    // ---- (b) units, (c) timestamp
    {
        cx.what = "gds_units / gds_timestamp vs full load";
        double u = 0, p = 0;
        ErrorCode ue = gds_units(path.c_str(), u, p);
        if (ue != ErrorCode::NoError || u != full.unit || p != full.precision) viol(cx, "units", "mismatch", {}, fmt("gds_units %g/%g (code %d), full load %g/%g", u, p, (int)ue, full.unit, full.precision), "part=units");
        if (!close_rel(u, ex.unit, ex.rel) || !close_rel(p, ex.precision, ex.rel)) viol(cx, "units", "not-as-saved", {}, fmt("gds_units %g/%g, saved %g/%g", u, p, ex.unit, ex.precision), "part=units");
        ErrorCode te = ErrorCode::NoError;
        tm got = gds_timestamp(path.c_str(), NULL, &te);
        if (te != ErrorCode::NoError || got.tm_year != ex.stamp.tm_year || got.tm_mon != ex.stamp.tm_mon || got.tm_mday != ex.stamp.tm_mday || got.tm_hour != ex.stamp.tm_hour || got.tm_min != ex.stamp.tm_min || got.tm_sec != ex.stamp.tm_sec)
            viol(cx, "timestamp", "mismatch", {}, "gds_timestamp differs from the timestamp the file was written with", "part=units");
        R->count("cases");
    }
    // ---- (d) tag filters: every subset of the shape tags in use, with and without an absent tag
    {
        std::vector<Tag> used;
        for (uint64_t i = 0; i < full.cell_array.count; i++) {
            Cell* c = full.cell_array[i];
            for (uint64_t k = 0; k < c->polygon_array.count; k++) if (std::find(used.begin(), used.end(), c->polygon_array[k]->tag) == used.end()) used.push_back(c->polygon_array[k]->tag);
            for (uint64_t k = 0; k < c->flexpath_array.count; k++) if (std::find(used.begin(), used.end(), path_tag(c->flexpath_array[k])) == used.end()) used.push_back(path_tag(c->flexpath_array[k]));
        }
        std::sort(used.begin(), used.end());
        // the filter set is built in several ways that all denote the same set: 0 = only additions; 1 = every tag in use added,
        // the others deleted again; >= 2 = as 1 with decoy tags (absent from the file) added in between and deleted again
        const int nbuild = deep ? 7 : 4;
        for (uint32_t mask = 0; mask < (1u << used.size()); mask++)
            for (int absent = 0; absent < 2; absent++)
            for (int bv = 0; bv < nbuild; bv++) {
                std::vector<Tag> keep;
                for (size_t k = 0; k < used.size(); k++) if (mask >> k & 1) keep.push_back(used[k]);
                if (absent) keep.push_back(TABSENT);
                Set<Tag> fs = {};
                if (bv == 0) {
                    for (Tag tg : keep) fs.add(tg);
                } else {
                    std::vector<Tag> all = used, decoys;
                    if (absent) all.push_back(TABSENT);
                    if (bv >= 2) for (int k = 0; k < 2 + bv; k++) decoys.push_back(make_tag(20 + (uint32_t)((bv * 5 + k * (bv + 1)) % 37), (uint32_t)(k % 3)));
                    size_t di = 0;
                    for (size_t k = 0; k < all.size(); k++) {
                        if (di < decoys.size()) fs.add(decoys[di++]);
                        fs.add(all[k]);
                    }
                    while (di < decoys.size()) fs.add(decoys[di++]);
                    for (size_t k = 0; k < all.size(); k++) if (std::find(keep.begin(), keep.end(), all[k]) == keep.end()) fs.del(all[k]);
                    for (Tag tg : decoys) if (std::find(all.begin(), all.end(), tg) == all.end()) fs.del(tg);
                    if (fs.count != keep.size()) viol(cx, "filter", "set-count", {{"built", jint(bv)}}, fmt("filter set built by additions and deletions holds %llu tags, %llu expected", (unsigned long long)fs.count, (unsigned long long)keep.size()), fmt("part=filter mask=%u absent=%d build=%d", mask, absent, bv));
                }
                if (keep.empty() && bv == 0) fs.resize(8);  // an empty but allocated filter set
                ErrorCode fe = ErrorCode::NoError;
                Library fl = read_gds(path.c_str(), 0, 1e-2, &fs, &fe);
                cx.what = "filtered load, keep {" + tagset_str(keep) + "}";
                std::string want = lib_dump_filtered(full, &keep), got = lib_dump_filtered(fl, NULL);
                if (fe != ec) viol(cx, "filter", "error-code", {{"kept", jint((int64_t)keep.size())}}, fmt("filtered load returned code %d, full load %d", (int)fe, (int)ec), fmt("part=filter mask=%u absent=%d build=%d", mask, absent, bv));
                if (want != got) viol(cx, "filter", bv ? "content-after-deletions" : "content", {{"kept", jint((int64_t)keep.size())}, {"with_absent_tag", jbool(absent)}, {"set_built", jstr(bv == 0 ? "additions" : bv == 1 ? "additions+deletions" : "additions+decoys+deletions")}}, first_diff(want, got), fmt("part=filter mask=%u absent=%d build=%d", mask, absent, bv));
                fs.clear();
                fl.free_all();
                R->count("cases");
                if (mask != 0 && mask != (1u << used.size()) - 1) R->count("nontrivial");
            }
    }
    // ---- (e) target units
    {
        std::vector<double> targets = {full.unit, 1e-6, 1e-9, 2e-6, 1e-3};
        if (deep) { targets.push_back(5e-7); targets.push_back(1e-2); targets.push_back(2.5e-10); }
        // native load with the default tolerance (tolerance <= 0 => precision / unit), for the tolerance comparison
        ErrorCode de = ErrorCode::NoError;
        Library full0 = read_gds(path.c_str(), 0, 0, NULL, &de);
        for (int pass = 0; pass < 2 * (int)targets.size(); pass++) {
            double tu = targets[pass / 2];
            bool default_tol = pass % 2;
            ErrorCode ue = ErrorCode::NoError;
            Library ul = read_gds(path.c_str(), tu, default_tol ? 0 : 1e-2, NULL, &ue);
            cx.what = fmt("load with target unit %g%s", tu, default_tol ? " and default tolerance" : "");
            double f = full.unit / tu;
            if (default_tol) {
                // the default path tolerance is a length too: it must be the native default rescaled
                for (uint64_t ci = 0; ci < full0.cell_array.count && ci < ul.cell_array.count; ci++)
                    for (uint64_t k = 0; k < full0.cell_array[ci]->flexpath_array.count && k < ul.cell_array[ci]->flexpath_array.count; k++) {
                        double t0 = full0.cell_array[ci]->flexpath_array[k]->spine.tolerance, t1 = ul.cell_array[ci]->flexpath_array[k]->spine.tolerance;
                        if (!close_rel(t0 * f, t1, 1e-9)) { viol(cx, "unit", "path-tolerance", {{"factor", jnum(f)}}, fmt("default path tolerance %g natively, %g with target unit %g (expected %g)", t0, t1, tu, t0 * f), fmt("part=unit tu=%g", tu)); ci = full0.cell_array.count; break; }
                    }
            }
            if (ul.unit != tu) viol(cx, "unit", "library-unit", {}, fmt("library.unit %g after loading with unit %g", ul.unit, tu), fmt("part=unit tu=%g", tu));
            if (ul.precision != full.precision) viol(cx, "unit", "precision", {}, fmt("precision %g differs from native %g", ul.precision, full.precision), fmt("part=unit tu=%g", tu));
            std::string e = compare_scaled(full, ul, f);
            if (!e.empty()) viol(cx, "unit", "rescale", {{"factor", jnum(f)}}, e, fmt("part=unit tu=%g", tu));
            ul.free_all();
            R->count("cases");
            if (f != 1) R->count("nontrivial");
        }
        full0.free_all();
    }
    // ---- (f) raw cells: every non-empty subset of cells, closed under dependencies
    {
        // model of the dependency closure from the full load
        std::map<std::string, std::set<std::string>> deps;
        for (uint64_t i = 0; i < full.cell_array.count; i++) {
            Cell* c = full.cell_array[i];
            for (uint64_t k = 0; k < c->reference_array.count; k++) {
                Reference* r = c->reference_array[k];
                if (r->type == ReferenceType::Cell) deps[c->name].insert(r->cell->name);
            }
        }
        uint64_t ncell = full.cell_array.count;
        // order in which the chosen raw cells are written to the new file: -1 = iteration order of the map returned by
        // get_dependencies, 0.. = the k-th permutation of the closure listed in source-file order (quick: source order, reversed
        // source order, and "last structure of the source first"; thorough: every permutation)
        auto norders = [&](size_t k) { int f = 1; for (size_t i = 2; i <= k; i++) f *= (int)i; return f; };
        for (uint32_t mask = 1; mask < (1u << ncell); mask++)
            for (int via = 0; via < 2; via++)
              for (int order = -1; order < 24; order++) {
                cx.what = fmt("raw cells subset mask %u via %s, write order %d", mask, via ? "GdsWriter::write_rawcell" : "Library::write_gds", order);
                std::string rp = fmt("part=raw mask=%u via=%d order=%d", mask, via, order);
                ErrorCode re = ErrorCode::NoError;
                Map<RawCell*> raws = read_rawcells(path.c_str(), &re);
                if ((int)re >= (int)ErrorCode::ChecksumError || raws.count != ncell) { viol(cx, "raw", "read_rawcells", {}, fmt("read_rawcells returned %llu cells, code %d", (unsigned long long)raws.count, (int)re), rp); continue; }
                // closure by the model and by RawCell::get_dependencies
                std::set<std::string> want;
                std::vector<std::string> stack;
                for (uint64_t i = 0; i < ncell; i++) if (mask >> i & 1) stack.push_back(full.cell_array[i]->name);
                while (!stack.empty()) { std::string n = stack.back(); stack.pop_back(); if (want.insert(n).second) for (auto& d : deps[n]) stack.push_back(d); }
                Map<RawCell*> chosen = {};
                for (uint64_t i = 0; i < ncell; i++) if (mask >> i & 1) {
                    RawCell* rc = raws.get(full.cell_array[i]->name);
                    if (!rc) { viol(cx, "raw", "missing-rawcell", {}, std::string("no raw cell named ") + full.cell_array[i]->name, rp); continue; }
                    chosen.set(rc->name, rc);
                    rc->get_dependencies(true, chosen);
                }
                std::set<std::string> got;
                for (MapItem<RawCell*>* it = chosen.next(NULL); it; it = chosen.next(it)) got.insert(it->key);
                if (got != want) viol(cx, "raw", "dependencies", {}, fmt("RawCell::get_dependencies closure has %zu cells, reference graph of the full load gives %zu", got.size(), want.size()), rp);
                // the sequence in which the closure is written
                std::vector<RawCell*> seq;
                bool skip = false;
                if (order < 0) { for (MapItem<RawCell*>* it = chosen.next(NULL); it; it = chosen.next(it)) seq.push_back(it->value); }
                else {
                    std::vector<int> idx;  // members of the closure in source-file order
                    for (uint64_t i = 0; i < ncell; i++) if (chosen.get(full.cell_array[i]->name)) idx.push_back((int)i);
                    int nperm = norders(idx.size());
                    int k = order;
                    if (!deep) {  // quick: 0 = source order, 1 = reversed, 2 = last of the source first, rest as in the source
                        if (order > 2 || (order > 0 && idx.size() < 2) || (order == 2 && idx.size() < 3)) skip = true;
                        else if (order == 1) std::reverse(idx.begin(), idx.end());
                        else if (order == 2) std::rotate(idx.begin(), idx.end() - 1, idx.end());
                    } else if (k >= nperm) skip = true;
                    else for (int q = 0; q < k; q++) std::next_permutation(idx.begin(), idx.end());
                    if (!skip) for (int i : idx) seq.push_back(chosen.get(full.cell_array[i]->name));
                }
                if (skip) {
                    chosen.clear();
                    for (MapItem<RawCell*>* it = raws.next(NULL); it; it = raws.next(it)) { it->value->clear(); free_allocation(it->value); }
                    raws.clear();
                    continue;
                }
                // write the closure to a new file
                std::string out = R->scratch + fmt("/c17raw.%d.gds", (int)getpid());
                tm t2 = FIXED_TM;
                if (via == 0) {
                    Library rl = {};
                    rl.init("RAWLIB", full.unit, full.precision);
                    for (RawCell* rc : seq) rl.rawcell_array.append(rc);
                    if (rl.write_gds(out.c_str(), 0, &t2) != ErrorCode::NoError) viol(cx, "raw", "write", {}, "write_gds of raw cells failed", rp);
                    rl.clear();
                } else {
                    ErrorCode we = ErrorCode::NoError;
                    GdsWriter wr = gdswriter_init(out.c_str(), "RAWLIB", full.unit, full.precision, 0, &t2, &we);
                    for (RawCell* rc : seq) if (wr.write_rawcell(*rc) != ErrorCode::NoError) viol(cx, "raw", "write", {}, "write_rawcell failed", rp);
                    wr.close();
                }
                if (order >= 0) R->count("raw_copies_in_explicit_order");
                ErrorCode le = ErrorCode::NoError;
                Library back = read_gds(out.c_str(), 0, 1e-2, NULL, &le);
                if ((int)le >= (int)ErrorCode::ChecksumError) viol(cx, "raw", "reload", {}, fmt("file of copied raw cells does not load (code %d)", (int)le), rp);
                if (back.unit != full.unit || back.precision != full.precision) viol(cx, "raw", "units", {}, "unit/precision of the new file differ", rp);
                std::set<std::string> loaded;
                for (uint64_t i = 0; i < back.cell_array.count; i++) {
                    Cell* b = back.cell_array[i];
                    loaded.insert(b->name);
                    Cell* o = full.get_cell(b->name);
                    if (!o) { viol(cx, "raw", "foreign-cell", {}, std::string("unexpected cell ") + b->name, rp); continue; }
                    std::string w = cell_dump_filtered(*o, NULL), g = cell_dump_filtered(*b, NULL);
                    if (w != g) viol(cx, "raw", "content", {{"cell", jstr(b->name)}}, first_diff(w, g), rp);
                }
                if (loaded != want) viol(cx, "raw", "cell-set", {}, fmt("new file holds %zu cells, expected the %zu cells of the dependency closure", loaded.size(), want.size()), rp);
                back.free_all();
                if (order <= 0) {
                    // the SAME raw-cell objects copied into a second file (a raw cell may be placed in any number of files)
                    std::string out2 = R->scratch + fmt("/c17raw2.%d.gds", (int)getpid());
                    tm t3 = FIXED_TM;
                    if (via == 0) {
                        Library rl2 = {};
                        rl2.init("RAWLIB2", full.unit, full.precision);
                        for (RawCell* rc : seq) rl2.rawcell_array.append(rc);
                        if (rl2.write_gds(out2.c_str(), 0, &t3) != ErrorCode::NoError) viol(cx, "raw", "write", {{"second_copy", jbool(true)}}, "second write_gds of the same raw cells failed", rp);
                        rl2.clear();
                    } else {
                        ErrorCode we2 = ErrorCode::NoError;
                        GdsWriter wr2 = gdswriter_init(out2.c_str(), "RAWLIB2", full.unit, full.precision, 0, &t3, &we2);
                        for (RawCell* rc : seq) if (wr2.write_rawcell(*rc) != ErrorCode::NoError) viol(cx, "raw", "write", {{"second_copy", jbool(true)}}, "second write_rawcell failed", rp);
                        wr2.close();
                    }
                    ErrorCode le2 = ErrorCode::NoError;
                    Library back2 = read_gds(out2.c_str(), 0, 1e-2, NULL, &le2);
                    std::set<std::string> loaded2;
                    for (uint64_t i = 0; i < back2.cell_array.count; i++) {
                        Cell* b = back2.cell_array[i];
                        loaded2.insert(b->name);
                        Cell* o = full.get_cell(b->name);
                        if (o && cell_dump_filtered(*o, NULL) != cell_dump_filtered(*b, NULL)) viol(cx, "raw", "content", {{"cell", jstr(b->name)}, {"second_copy", jbool(true)}}, "cell of the second copy differs from the original", rp);
                    }
                    if ((int)le2 >= (int)ErrorCode::ChecksumError || loaded2 != want)
                        viol(cx, "raw", "second-copy", {}, fmt("second file written from the same raw cells holds %zu cells (code %d), expected %zu", loaded2.size(), (int)le2, want.size()), rp);
                    back2.free_all();
                    unlink(out2.c_str());
                    R->count("raw_second_copies");
                }
                chosen.clear();
                for (MapItem<RawCell*>* it = raws.next(NULL); it; it = raws.next(it)) { it->value->clear(); free_allocation(it->value); }
                raws.clear();
                unlink(out.c_str());
                R->count("cases");
                if (want.size() > (size_t)__builtin_popcount(mask)) R->count("nontrivial");
            }
    }
    // ---- (g) rewriting timestamps changes those 12-word fields and nothing else
    {
        std::string before;
        { FILE* f = fopen(path.c_str(), "rb"); char buf[65536]; size_t r; while ((r = fread(buf, 1, sizeof buf, f)) > 0) before.append(buf, r); fclose(f); }
        struct TS { int y, mo, d, h, mi, s; };
        std::vector<TS> tss = {{70, 0, 1, 0, 0, 0}, {138, 0, 19, 3, 14, 7}};
        if (deep) { tss.push_back({0, 0, 1, 0, 0, 0}); tss.push_back({199, 11, 31, 23, 59, 59}); tss.push_back({100, 1, 29, 12, 0, 0}); tss.push_back({138, 0, 19, 3, 14, 7}); tss.push_back({138, 0, 19, 3, 14, 8}); }
        for (auto& ts : tss) {
            cx.what = fmt("gds_timestamp(set %04d-%02d-%02d %02d:%02d:%02d)", ts.y + 1900, ts.mo + 1, ts.d, ts.h, ts.mi, ts.s);
            tm nt = {};
            nt.tm_year = ts.y; nt.tm_mon = ts.mo; nt.tm_mday = ts.d; nt.tm_hour = ts.h; nt.tm_min = ts.mi; nt.tm_sec = ts.s;
            ErrorCode se = ErrorCode::NoError;
            tm old = gds_timestamp(path.c_str(), &nt, &se);
            (void)old;
            std::string after;
            { FILE* f = fopen(path.c_str(), "rb"); char buf[65536]; size_t r; while ((r = fread(buf, 1, sizeof buf, f)) > 0) after.append(buf, r); fclose(f); }
            std::string rp = fmt("part=stamp y=%d", ts.y);
            if (se != ErrorCode::NoError) viol(cx, "stamp", "error", {}, fmt("code %d", (int)se), rp);
            if (after.size() != before.size()) viol(cx, "stamp", "size", {}, "file size changed", rp);
            else {
                // walk the records of the ORIGINAL file; only the 24 bytes after a BGNLIB/BGNSTR header may differ, and they must encode nt twice
                size_t p = 0;
                bool bad = false;
                while (p + 4 <= before.size() && !bad) {
                    size_t len = ((unsigned char)before[p] << 8) | (unsigned char)before[p + 1];
                    unsigned char rt = before[p + 2];
                    if (len < 4) break;
                    for (size_t i = p; i < p + len && i < before.size(); i++) {
                        bool stampbyte = (rt == 0x01 || rt == 0x05) && i >= p + 4 && i < p + 28;
                        if (!stampbyte && before[i] != after[i]) { viol(cx, "stamp", "foreign-bytes", {}, fmt("byte %zu outside a timestamp field changed", i), rp); bad = true; break; }
                    }
                    if (!bad && (rt == 0x01 || rt == 0x05)) {
                        int want[6] = {ts.y + 1900, ts.mo + 1, ts.d, ts.h, ts.mi, ts.s};
                        for (int w = 0; w < 12; w++) {
                            int v = ((unsigned char)after[p + 4 + 2 * w] << 8) | (unsigned char)after[p + 5 + 2 * w];
                            if (v != want[w % 6]) { viol(cx, "stamp", "wrong-words", {}, fmt("timestamp word %d of record at %zu is %d, expected %d", w, p, v, want[w % 6]), rp); bad = true; break; }
                        }
                    }
                    p += len;
                }
                ErrorCode ge = ErrorCode::NoError;
                tm got = gds_timestamp(path.c_str(), NULL, &ge);
                if (got.tm_year != ts.y || got.tm_mon != ts.mo || got.tm_mday != ts.d || got.tm_hour != ts.h || got.tm_min != ts.mi || got.tm_sec != ts.s) viol(cx, "stamp", "readback", {}, "gds_timestamp does not read back the time just written", rp);
            }
            before = after;
            R->count("cases");
            R->count("nontrivial");
        }
    }
    full.free_all();
}

static void run_library(int variant, int ui, int perm, int namelen = 0, int big = 0) {
    Ctx cx{variant_name(variant) + (namelen > 0 ? fmt("+libname%d", namelen) : std::string()) + (big ? "+cells_over_64KiB" : ""), fmt("variant=%d ui=%d perm=%d name=%d big=%d", variant, ui, perm, namelen, big), UNITS[ui].unit, UNITS[ui].precision, perm, ""};
    std::string path = R->scratch + fmt("/c17.%d.gds", (int)getpid());
    Library src = build_library(variant, ui, perm, namelen, big);
    tm t = FIXED_TM;
    if (src.write_gds(path.c_str(), 199, &t) != ErrorCode::NoError) R->internal_error("corpus write failed");
    Expect ex = {UNITS[ui].unit, UNITS[ui].precision, 1e-14, FIXED_TM, feat_of(variant).absent};
    run_file(cx, path, ex);
    // ---- (h) rewriting timestamps of a file whose cells carry OTHER stamps than its library record
    //      (raw cells copied into a library saved at another time keep their own BGNSTR stamps)
    {
        tm t1 = FIXED_TM;
        if (src.write_gds(path.c_str(), 199, &t1) != ErrorCode::NoError) R->internal_error("corpus re-write failed");
        ErrorCode re = ErrorCode::NoError;
        Map<RawCell*> raws = read_rawcells(path.c_str(), &re);
        std::string out = R->scratch + fmt("/c17mixed.%d.gds", (int)getpid());
        tm t2 = {};
        t2.tm_year = 110; t2.tm_mon = 6; t2.tm_mday = 7; t2.tm_hour = 8; t2.tm_min = 9; t2.tm_sec = 10;
        Library rl = {};
        rl.init("MIXED", UNITS[ui].unit, UNITS[ui].precision);
        for (MapItem<RawCell*>* it = raws.next(NULL); it; it = raws.next(it)) rl.rawcell_array.append(it->value);
        tm t2w = t2;
        if (rl.write_gds(out.c_str(), 0, &t2w) != ErrorCode::NoError) R->internal_error("mixed-stamp file not written");
        rl.clear();
        for (MapItem<RawCell*>* it = raws.next(NULL); it; it = raws.next(it)) { it->value->clear(); free_allocation(it->value); }
        raws.clear();
        for (int which = 0; which < 2; which++) {
            // which 0: request exactly the time already stored in the library record; 1: another time
            tm nt = t2;
            if (which) { nt.tm_year = 99; nt.tm_mon = 11; nt.tm_mday = 31; }
            cx.what = fmt("gds_timestamp(set) on a file whose cells carry other stamps than the library (%s)", which ? "new time" : "time equal to the library's");
            ErrorCode se = ErrorCode::NoError;
            gds_timestamp(out.c_str(), &nt, &se);
            std::string after;
            { FILE* f = fopen(out.c_str(), "rb"); char buf[65536]; size_t r; while ((r = fread(buf, 1, sizeof buf, f)) > 0) after.append(buf, r); fclose(f); }
            int want[6] = {nt.tm_year + 1900, nt.tm_mon + 1, nt.tm_mday, nt.tm_hour, nt.tm_min, nt.tm_sec};
            size_t p = 0, fields = 0, stale = 0;
            while (p + 4 <= after.size()) {
                size_t len = ((unsigned char)after[p] << 8) | (unsigned char)after[p + 1];
                unsigned char rt = after[p + 2];
                if (len < 4) break;
                if ((rt == 0x01 || rt == 0x05) && len == 28)
                    for (int w = 0; w < 12; w++) {
                        int v = ((unsigned char)after[p + 4 + 2 * w] << 8) | (unsigned char)after[p + 5 + 2 * w];
                        fields++;
                        if (v != want[w % 6]) stale++;
                    }
                p += len;
            }
            if (se != ErrorCode::NoError || stale) viol(cx, "stamp", "stale-fields", {{"requested_equals_library_stamp", jbool(!which)}}, fmt("%zu of %zu timestamp words still hold an old value (code %d)", stale, fields, (int)se), fmt("part=mixedstamp which=%d", which));
            R->count("cases");
            R->count("nontrivial");
        }
        unlink(out.c_str());
    }
    src.free_all();
    unlink(path.c_str());
    R->outcome("c17", fmt("%s %d", variant_name(variant).c_str(), ui));
}

// ---- files produced by the independent specification-derived encoder (codec/c18_files.py: optional header records, ELFLAGS/PLEX,
//      BOX, multi-record XY, forward references, short names, minimal file) go through the same comparisons
static std::vector<std::string> g_indep;
static void load_indep_index() {
    const char* vd = getenv("VERIF_DIR");
    std::string dir = R->scratch + "/indep";
    std::string cmd = std::string("python3 '") + (vd ? vd : "/verif") + "/codec/c18_files.py' '" + dir + "' >/dev/null 2>&1";
    if (system(cmd.c_str()) != 0) { R->internal_error("independent file generator failed: " + cmd); return; }
    FILE* idx = fopen((dir + "/index.txt").c_str(), "r");
    if (!idx) { R->internal_error("no index of independently encoded files"); return; }
    char name[256], kind[16]; int sgn;
    while (fscanf(idx, "%255s %15s %d", name, kind, &sgn) == 3) if (!strcmp(kind, "gds")) g_indep.push_back(name);
    fclose(idx);
    if (g_indep.size() < 6) R->internal_error("fewer than six independently encoded GDSII files");
}
static void run_indep(int k) {
    const std::string& name = g_indep[k];
    Ctx cx{name, "indep=" + name, 1e-6, 1e-9, 0, ""};
    std::string srcp = R->scratch + "/indep/" + name, path = R->scratch + fmt("/c17i.%d.gds", (int)getpid());
    std::string bytes;
    { FILE* f = fopen(srcp.c_str(), "rb"); if (!f) { R->internal_error("cannot open " + srcp); return; } char buf[65536]; size_t r; while ((r = fread(buf, 1, sizeof buf, f)) > 0) bytes.append(buf, r); fclose(f); }
    { FILE* f = fopen(path.c_str(), "wb"); fwrite(bytes.data(), 1, bytes.size(), f); fclose(f); }
    tm st = {};
    st.tm_year = 101; st.tm_mon = 1; st.tm_mday = 3; st.tm_hour = 4; st.tm_min = 5; st.tm_sec = 6;  // STAMP of c18_files.py
    Expect ex = {1e-6, 1e-9, 1e-12, st, true};   // UNITS record of the encoder: 1e-3 user units per database unit, 1e-9 m per database unit
    run_file(cx, path, ex);
    unlink(path.c_str());
    R->count("independent_files");
    R->outcome("c17", "independent " + name);
}

int main(int argc, char** argv) {
    Run run("C17", argc, argv);
    R = &run;
    error_logger = NULL;
    init_masks();
    memset(&FIXED_TM, 0, sizeof FIXED_TM);
    FIXED_TM.tm_year = 101; FIXED_TM.tm_mon = 1; FIXED_TM.tm_mday = 3; FIXED_TM.tm_hour = 4; FIXED_TM.tm_min = 5; FIXED_TM.tm_sec = 6;
    load_indep_index();
    if (run.replaying()) {
        if (!run.rarg("indep").empty()) {
            for (size_t k = 0; k < g_indep.size(); k++) if (g_indep[k] == run.rarg("indep")) run_indep((int)k);
        } else run_library(atoi(run.rarg("variant").c_str()), atoi(run.rarg("ui").c_str()), atoi(run.rarg("perm").c_str()), atoi(run.rarg("name").c_str()), atoi(run.rarg("big").c_str()));
        return run.finish();
    }
    // quick: the 7 hand-made variants + 5 mixes, structure orders {as listed, reversed, one mixed}; thorough: all 33 variants x all 24 orders
    std::vector<int> variants, perms;
    if (run.thorough()) { for (int v = 0; v < nvariant_all(); v++) variants.push_back(v); for (int q = 0; q < 24; q++) perms.push_back(q); }
    else {
        for (int v = 0; v < NBASE; v++) variants.push_back(v);
        for (int v = NBASE; v < nvariant_all(); v++) { int m = g_masks[v - NBASE]; if (m == 17 || m == 6 || m == 12 || m == 31 || m == 26) variants.push_back(v); }
        perms = {0, 23, 9};
    }
    const int nu = 4;
    struct Job { int variant, ui, perm, indep, namelen, big; };
    std::vector<Job> jobs;
    for (size_t k = 0; k < g_indep.size(); k++) jobs.push_back({0, 0, 0, (int)k, 0, 0});
    // library names of every record-length class: 1 and 2 (odd/even padding), around 32/64/256 bytes, 4-digit lengths, records of
    // 2^15 bytes and more (length word with the top bit set) and the longest string a record can hold
    std::vector<int> namelens = {1, 2, 31, 32, 57, 60, 61, 127, 255, 256, 1000, 4001, 32763, 32764, 32766, 40000, 65530};
    for (int nl : namelens) for (int v : {0, NBASE - 1}) jobs.push_back({v, nl % 3, 0, -1, nl, 0});
    for (int cl : {2, 4, 8, 10, 12, 14, 16, 22, 24, 26, 30, 31, 32, 33, 64, 100}) for (int v : {0, NBASE - 1}) for (int perm : {0, 5, 23}) jobs.push_back({v, cl % 3, perm, -1, -cl, 0});   // cell-name lengths (negative namelen)
    for (int v : {0, NBASE - 1}) for (int q : {0, 23}) jobs.push_back({v, 0, q, -1, 0, 1});   // cells larger than one 64 KiB block
    if (run.thorough()) for (int v : {0, 5}) jobs.push_back({v, 2, 9, -1, 0, 2});
    for (int q : perms) for (int v : variants) for (int u = 0; u < nu; u++) jobs.push_back({v, u, q, -1, 0, 0});
    int64_t n = (int64_t)jobs.size();
    auto body = [&](int64_t i) { const Job& j = jobs[i]; if (j.indep >= 0) run_indep(j.indep); else run_library(j.variant, j.ui, j.perm, j.namelen, j.big); };
    auto describe = [&](int64_t i) { const Job& j = jobs[i]; return j.indep >= 0 ? jobj({{"library", jstr(g_indep[j.indep])}}) : jobj({{"library", jstr(variant_name(j.variant))}, {"unit", jnum(UNITS[j.ui].unit)}, {"cell_order", jint(j.perm)}, {"library_name_length", jint(j.namelen ? j.namelen : 6)}, {"cells_over_64KiB", jbool(j.big != 0)}}); };
    auto replay_of = [&](int64_t i) { const Job& j = jobs[i]; return j.indep >= 0 ? "indep=" + g_indep[j.indep] : fmt("variant=%d ui=%d perm=%d name=%d big=%d", j.variant, j.ui, j.perm, j.namelen, j.big); };
    bool ok = parallel_for(run, n, body, describe, replay_of, PFOptions{300, "c17.crash", true});
    run.sample("c17", jobj({{"library", jstr("full_mix, unit 1e-6/1e-9")}, {"sub-cases", jstr("gds_info; gds_units; gds_timestamp; read_gds with each of 2^k+ tag filter sets; target units x 2 tolerances; every non-empty subset of the cells as raw cells via Library::write_gds and GdsWriter::write_rawcell in several write orders; timestamp rewrites")}}));
    run.bound("c17", fmt("%zu independently encoded files + 17 library-name lengths (1..65530) x 2 variants + 4 libraries with cells of more than 64 KiB + %zu content variants x %d unit pairs x %zu structure orders; per file: all tag subsets (+absent tag), %s target units x 2 tolerances, all raw-cell subsets x 2 writers x %s, %s timestamps",
                         g_indep.size(), variants.size(), nu, perms.size(), run.thorough() ? "8" : "5", run.thorough() ? "every write order of the closure (+ map order)" : "4 write orders", run.thorough() ? "7" : "2"), ok, n);
    return run.finish();
}
